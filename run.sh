#!/bin/bash
# run.sh <PROPERTY-ID> [quick|thorough]
# Rebuilds the analyser if needed (offline), analyses /repo's current working tree, rewrites evidence/<ID>.json.
# exit 0: property's structural clauses hold; 1: VIOLATION line(s) printed; 2: the check itself is broken.
export GOFLAGS=-mod=mod GOPROXY=off GOSUMDB=off GOTOOLCHAIN=local CGO_ENABLED=0
unset GOWORK
HERE="$(cd "$(dirname "$0")" && pwd)"
ID="$1"; TIER="${2:-${VERIF_TIER:-quick}}"
REPO="${VERIF_REPO:-/repo}"
mkdir -p "$HERE/bin" "$HERE/evidence"
( cd "$HERE/checker" && go build -o "$HERE/bin/ipfixlint" . ) || { echo "VIOLATION property=$ID replay=- kind=broken-check :: analyser does not build"; exit 2; }
exec "$HERE/bin/ipfixlint" -prop "$ID" -tier "$TIER" -repo "$REPO" -verif "$HERE"
