package main

import (
	"fmt"
	"go/token"
	"go/types"
	"strings"

	"golang.org/x/tools/go/ssa"
)

const cpTemplates = "pkg/collector.CollectingProcess.templatesMap"

func init() {
	register(&propDef{
		ID:          "C04",
		Explanation: "Ownership, key-flow and path rules for the collector's template store, decided on SSA: (1) R-OWNER: templatesMap is touched only by the add / delete / lookup functions and the constructor; (2) R-KEY: in each of them every outer-map operation is keyed by the function's uint32 parameter and every inner-map operation by its uint16 parameter (never a constant, never one key only); at the call sites the arguments originate - through parameters and closure captures - from the header's observation-domain wire variable (5th decoded header field) and from the set id (data) / template-record id (template) wire variables of the same message, and decodePacket selects the template decoder exactly for set id == TemplateSetID; (3) R-GATE: in the template decoder every error return after the template id has been decoded passes deleteTemplate(obsDomainID, templateID) (two infeasible builder errors are named exceptions), every success return passes addTemplate with the same keys; addTemplate stores the new field list on ALL paths (replacement is unconditional) and the list is built from the incoming elements; the data decoder returns an error before touching the buffer when the lookup fails, and the lookup returns the stored list only on the found edge; (4) the lockset rules of C12 for templatesMap and the template fields. This decides the per-message transition of the store; whole histories are not enumerated. Later additions: the builder-error exemption is re-derived from the builders' code on every run; decoding reads no per-process state other than the configuration and the store entry of its own key; Buffer.Read counts are checked; the stored field list is a new slice. Round-five additions: the per-domain map is removed only under len(inner map) == 0 (C10's prune rule).",
		Assume:      []string{"Go map semantics", "PrepareSet(Template, id) and AddRecordV2 on a freshly prepared decoding set cannot fail (constant set type)"},
		Run:         runC04,
	})
}

// wireVar: v is a load of the k-th output variable of the util.Decode call c.
func wireVar(p *Prog, v ssa.Value) (*ssa.Call, int) {
	v = p.origin(v)
	u, ok := v.(*ssa.UnOp)
	if !ok {
		return nil, -1
	}
	al, ok := u.X.(*ssa.Alloc)
	if !ok {
		if fv := p.origin(u.X); fv != nil {
			al, _ = fv.(*ssa.Alloc)
		}
		if al == nil {
			return nil, -1
		}
	}
	var hit *ssa.Call
	idx := -1
	eachInstr(al.Parent(), func(in ssa.Instruction) {
		if c, ok := in.(*ssa.Call); ok && calleeName(&c.Call) == "pkg/util.Decode" {
			for i, t := range decodeTargets(c) {
				if t == al {
					hit, idx = c, i
				}
			}
		}
	})
	return hit, idx
}

func paramIndex(v ssa.Value) (*ssa.Function, int) {
	pa, ok := v.(*ssa.Parameter)
	if !ok {
		return nil, -1
	}
	for i, x := range pa.Parent().Params {
		if x == pa {
			return pa.Parent(), i
		}
	}
	return nil, -1
}

func runC04(p *Prog, r *Report, tier string) {
	checkDomainPrune(p, r, "R-KEY.domain-prune")
	g := p.CallGraph()
	gs := collectorGuardSpec()
	// (4) lockset import, reported for the template store only
	accs, _, _ := runGuardedBy(p, gs)
	touch := map[*ssa.Function]bool{}
	for _, a := range accs {
		if !strings.HasPrefix(a.Field, "pkg/collector.CollectingProcess.templatesMap") && !strings.HasPrefix(a.Field, "pkg/collector.template.") {
			continue
		}
		if a.Field == cpTemplates {
			touch[a.Fn] = true
		}
		construct := fmt.Sprintf("%s: %s of %s", fnKey(a.Fn), a.Kind, a.Field)
		r.Check(a.Held >= a.Need, "R-LOCK.guarded", construct, p.instrPos(a.In), "holds "+modeName[a.Held]+" on "+a.Lock,
			fmt.Sprintf("needs %s on %s, holds %s", modeName[a.Need], a.Lock, modeName[a.Held]), true)
	}
	checkSingleSection(p, r, "R-LOCK.whole-op", cpMutex, "pkg/collector", "addTemplate", "deleteTemplateWithConds", "getTemplateIEs")
	checkTemplateDeleters(p, r)
	checkInfoElementImmutable(p, r, "R-OWNER.info-element")
	checkDecodeScopedState(p, r, touch)
	checkBufferReads(p, r, "R-GATE.full-read")
	// (1) owners
	allowed := map[string]bool{"addTemplate": true, "deleteTemplateWithConds": true, "getTemplateIEs": true, "initCollectingProcess": true}
	var mapFns []*ssa.Function
	for f := range touch {
		name := f.Name()
		r.Check(allowed[name], "R-OWNER.templates", fnKey(f)+": touches templatesMap", p.pos(f.Pos()), "one of add / delete / lookup / constructor",
			"a function outside the add/delete/lookup set operates on the template store (its key discipline is not audited)", false)
		if name != "initCollectingProcess" {
			mapFns = append(mapFns, f)
		}
	}
	if len(mapFns) < 3 {
		r.Undecided("R-OWNER.templates", "anchor: functions operating on templatesMap", "pkg/collector/process.go", fmt.Sprintf("found %d", len(mapFns)))
	}
	// (2) keys inside the map functions
	for _, f := range mapFns {
		eachInstr(f, func(in ssa.Instruction) {
			var m, key ssa.Value
			kind := ""
			switch x := in.(type) {
			case *ssa.Lookup:
				if _, ok := x.X.Type().Underlying().(*types.Map); ok {
					m, key, kind = x.X, x.Index, "lookup"
				}
			case *ssa.MapUpdate:
				m, key, kind = x.Map, x.Key, "update"
			case *ssa.Call:
				if b, ok := x.Call.Value.(*ssa.Builtin); ok && b.Name() == "delete" {
					m, key, kind = x.Call.Args[0], x.Call.Args[1], "delete"
				}
			}
			if m == nil {
				return
			}
			level := ""
			if tn, fn, _, ok := loadedField(m); ok && tn+"."+fn == cpTemplates {
				level = "outer"
			} else if lk, ok := stripChange(m).(*ssa.Lookup); ok {
				if tn, fn, _, ok := loadedField(lk.X); ok && tn+"."+fn == cpTemplates {
					level = "inner"
				}
			} else if ex, ok := stripChange(m).(*ssa.Extract); ok {
				if lk, ok := ex.Tuple.(*ssa.Lookup); ok {
					if tn, fn, _, ok := loadedField(lk.X); ok && tn+"."+fn == cpTemplates {
						level = "inner"
					}
				}
			}
			if level == "" {
				return
			}
			pf, pi := paramIndex(p.origin(key))
			want := types.Uint32
			if level == "inner" {
				want = types.Uint16
			}
			okKey := pf == f && pi >= 0
			if okKey {
				b, isB := f.Params[pi].Type().Underlying().(*types.Basic)
				okKey = isB && b.Kind() == want
			}
			r.Check(okKey, "R-KEY.map", fmt.Sprintf("%s: %s-map %s key", fnKey(f), level, kind), p.instrPos(in),
				"keyed by the function's own "+map[string]string{"outer": "observation-domain (uint32)", "inner": "template-id (uint16)"}[level]+" parameter",
				"the "+level+" template map is not indexed by the function's "+map[string]string{"outer": "observation-domain", "inner": "template-id"}[level]+" parameter (constant / other variable): templates of different domains or ids influence each other", true)
		})
	}
	// key flow at the call sites
	dp := p.Fn("(*pkg/collector.CollectingProcess).decodePacket")
	dts := p.Fn("(*pkg/collector.CollectingProcess).decodeTemplateSet")
	dds := p.Fn("(*pkg/collector.CollectingProcess).decodeDataSet")
	if dp == nil || dts == nil || dds == nil {
		r.Undecided("R-KEY.flow", "anchor: decodePacket / decodeTemplateSet / decodeDataSet", "pkg/collector/process.go", "function not found")
		return
	}
	var hdr *ssa.Call
	eachInstr(dp, func(in ssa.Instruction) {
		if c, ok := in.(*ssa.Call); ok && calleeName(&c.Call) == "pkg/util.Decode" && hdr == nil {
			hdr = c
		}
	})
	var isHdrVar func(v ssa.Value, k int) bool
	isHdrVar = func(v ssa.Value, k int) bool {
		// a header variable handed back by a helper that was spliced in place arrives merged with the zero values of the
		// helper's error exits; such an edge is ignored when nothing but error returns can follow it
		if ph, ok := v.(*ssa.Phi); ok {
			n := 0
			for i, e := range ph.Edges {
				if _, isC := e.(*ssa.Const); isC && onlyErrorReturnsFromEdge(ph.Block().Preds[i], ph.Block()) {
					continue
				}
				if !isHdrVar(e, k) {
					return false
				}
				n++
			}
			return n > 0
		}
		c, i := wireVar(p, v)
		return c != nil && c == hdr && i == k
	}
	eachInstr(dp, func(in ssa.Instruction) {
		c, ok := in.(*ssa.Call)
		if !ok {
			return
		}
		switch c.Call.StaticCallee() {
		case dts:
			r.Check(isHdrVar(c.Call.Args[2], 4), "R-KEY.flow", fnKey(dp)+": observation domain passed to the template decoder", p.instrPos(in), "5th header variable (observation domain id)", "the template decoder is not given the message's observation domain id", true)
			// branch: setID == TemplateSetID
			okBr := false
			for _, fct := range blockFacts(in.Block()) {
				if v, ok := constInt(fct.Y); ok && v == 2 && isHdrVar(fct.X, 5) && fct.Op.String() == "==" {
					okBr = true
				}
			}
			r.Check(okBr, "R-KEY.flow", fnKey(dp)+": template decoder selected by set id == 2", p.instrPos(in), "guarded by setID == TemplateSetID", "the template decoder is not selected exactly for set id 2", true)
		case dds:
			r.Check(isHdrVar(c.Call.Args[2], 4), "R-KEY.flow", fnKey(dp)+": observation domain passed to the data decoder", p.instrPos(in), "5th header variable", "the data decoder is not given the message's observation domain id", true)
			r.Check(isHdrVar(c.Call.Args[3], 5), "R-KEY.flow", fnKey(dp)+": template id passed to the data decoder", p.instrPos(in), "6th header variable (set id)", "the data decoder is not given the set id as template id", true)
		}
	})
	// decodeDataSet -> lookup(obs, tid) = its own params 2,3
	var lookupCall *ssa.Call
	for _, f := range mapFns {
		if f.Name() != "getTemplateIEs" {
			continue
		}
		for _, cs := range g.callers[f] {
			c, ok := cs.(*ssa.Call)
			if !ok {
				continue
			}
			pf1, i1 := paramIndex(p.origin(c.Call.Args[1]))
			pf2, i2 := paramIndex(p.origin(c.Call.Args[2]))
			okK := pf1 == cs.Parent() && pf2 == cs.Parent() && i1 == 2 && i2 == 3 && cs.Parent() == dds
			r.Check(okK, "R-KEY.flow", fnKey(cs.Parent())+": template lookup keys", p.instrPos(cs), "(obsDomainID, templateID) parameters of the data decoder", "the lookup is not keyed by the data decoder's own (observation domain, template id)", true)
			if cs.Parent() == dds {
				lookupCall = c
			}
		}
	}
	// decodeTemplateSet: add/delete keyed by (param obs, wire template id #0 of its first Decode)
	var first *ssa.Call
	eachInstr(dts, func(in ssa.Instruction) {
		if c, ok := in.(*ssa.Call); ok && calleeName(&c.Call) == "pkg/util.Decode" && first == nil {
			first = c
		}
	})
	isTid := func(v ssa.Value) bool {
		c, i := wireVar(p, v)
		return c != nil && c == first && i == 0
	}
	isObs := func(v ssa.Value) bool {
		pf, i := paramIndex(p.origin(v))
		return pf == dts && i == 2
	}
	var addFn, delFn *ssa.Function
	var delCalls, addCalls []*ssa.Call
	eachInstr(dts, func(in ssa.Instruction) {
		c, ok := in.(*ssa.Call)
		if !ok {
			return
		}
		sc := c.Call.StaticCallee()
		if sc == nil {
			return
		}
		switch {
		case sc.Name() == "addTemplate":
			addFn = sc
			addCalls = append(addCalls, c)
			r.Check(isObs(c.Call.Args[1]) && isTid(c.Call.Args[2]), "R-KEY.flow", fnKey(dts)+": addTemplate keys", p.instrPos(in), "(obsDomainID parameter, decoded template id)", "the template is stored under keys other than this message's (observation domain, template id)", true)
		case sc.Name() == "deleteTemplate" || sc.Name() == "deleteTemplateWithConds":
			delFn = sc
			delCalls = append(delCalls, c)
			r.Check(isObs(c.Call.Args[1]) && isTid(c.Call.Args[2]), "R-KEY.flow", fnKey(dts)+": deleteTemplate keys", p.instrPos(in), "(obsDomainID parameter, decoded template id)", "the invalidation removes a template other than this message's (observation domain, template id)", true)
		}
	})
	_ = addFn
	_ = delFn
	// deleteTemplate forwards its params to deleteTemplateWithConds in order
	if d := p.Fn("(*pkg/collector.CollectingProcess).deleteTemplate"); d != nil {
		eachInstr(d, func(in ssa.Instruction) {
			if c, ok := in.(*ssa.Call); ok && c.Call.StaticCallee() != nil && c.Call.StaticCallee().Name() == "deleteTemplateWithConds" {
				_, i1 := paramIndex(c.Call.Args[1])
				_, i2 := paramIndex(c.Call.Args[2])
				noConds := false
				if cst, ok := c.Call.Args[3].(*ssa.Const); ok && cst.IsNil() {
					noConds = true
				}
				r.Check(i1 == 1 && i2 == 2 && noConds, "R-KEY.flow", fnKey(d)+": forwards keys, no condition", p.instrPos(in), "deleteTemplateWithConds(obsDomainID, templateID) without conditions", "deleteTemplate does not forward its keys unchanged / adds a condition: the invalidation can silently not happen", true)
			}
		})
	}

	// (3) invalidation on every error after the id is known
	checkInvalidate(p, r, dts, first, delCalls, addCalls)
	checkTemplateReplace(p, r)
	// data decoder: lookup failure returns before touching the buffer
	checkLookupFirst(p, r, dds, lookupCall, mapFns)
}

// templateDecoderAnchors finds the pieces checkInvalidate needs (also used by C17, which imports the rule).
func templateDecoderAnchors(p *Prog) (dts *ssa.Function, first *ssa.Call, delCalls, addCalls []*ssa.Call) {
	dts = p.Fn("(*pkg/collector.CollectingProcess).decodeTemplateSet")
	if dts == nil {
		return
	}
	eachInstr(dts, func(in ssa.Instruction) {
		c, ok := in.(*ssa.Call)
		if !ok {
			return
		}
		if calleeName(&c.Call) == "pkg/util.Decode" && first == nil {
			first = c
		}
		if sc := c.Call.StaticCallee(); sc != nil {
			switch sc.Name() {
			case "addTemplate":
				addCalls = append(addCalls, c)
			case "deleteTemplate", "deleteTemplateWithConds":
				delCalls = append(delCalls, c)
			}
		}
	})
	return
}

func checkInvalidate(p *Prog, r *Report, dts *ssa.Function, first *ssa.Call, delCalls, addCalls []*ssa.Call) {
	if first == nil {
		r.Undecided("R-GATE.invalidate", "anchor: template id decode", p.pos(dts.Pos()), "not found")
	} else {
		var okEdge *ssa.BasicBlock
		for _, e := range []ssa.Value{first} {
			for _, ref := range refs(e) {
				if b, ok := ref.(*ssa.BinOp); ok {
					if ne, ok := isNilCompare(b, e); ok {
						for _, r2 := range refs(b) {
							if i, ok := r2.(*ssa.If); ok {
								if ne {
									okEdge = i.Block().Succs[1]
								} else {
									okEdge = i.Block().Succs[0]
								}
							}
						}
					}
				}
			}
		}
		if okEdge == nil {
			r.Undecided("R-GATE.invalidate", "anchor: success edge of the template id decode", p.instrPos(first), "not found")
		} else {
			isDel := func(in ssa.Instruction) bool {
				for _, d := range delCalls {
					if ssa.Instruction(d) == in {
						return true
					}
				}
				return false
			}
			// The two builder calls after the field loop can only fail for an undefined set type / a failing template
			// header write. That is an exception only while it is TRUE: it is re-established from the builders' code on
			// every run (a PrepareRecord that can refuse a template makes the exit feasible, and then it must invalidate).
			infeasible, whyFeasible := builderErrorsInfeasible(p, dts)
			r.Check(infeasible, "R-GATE.invalidate", fnKey(dts)+": set-builder errors after the field loop cannot happen", p.pos(dts.Pos()),
				"PrepareSet fails only for Undefined (called with the constant Template); AddRecordV2 fails only through PrepareRecord (always nil for template records) or an unsupported set type",
				"a set-builder call after the field loop can now fail ("+whyFeasible+"), and that error exit does not invalidate the stored template: the older template stays in force", true)
			exempt := func(rt *ssa.Return) bool {
				if !infeasible {
					return false
				}
				last := rt.Results[len(rt.Results)-1]
				if c, ok := last.(*ssa.Call); ok {
					n := calleeName(&c.Call)
					return n == "(*pkg/entities.set).PrepareSet" || n == "(*pkg/entities.set).AddRecordV2"
				}
				return false
			}
			q := &pathQuery{discharge: func(in ssa.Instruction) bool {
				if isDel(in) {
					return true
				}
				if rt, ok := in.(*ssa.Return); ok {
					if !isErrorReturn(rt) || exempt(rt) {
						return true
					}
				}
				return false
			}}
			if trail, bad := q.findFromBlock(okEdge); bad {
				r.Violation("R-GATE.invalidate", fnKey(dts)+": error after the template id is known", p.instrPos(first),
					"an error return is reachable without deleteTemplate(obsDomainID, templateID): a template set that fails to decode leaves the older template with that id in place, and later data sets are decoded against the stale definition; path "+p.describePath(dts, trail))
			} else {
				r.OK("R-GATE.invalidate", fnKey(dts)+": error after the template id is known", p.instrPos(first), "every error return passes deleteTemplate (builder errors with a constant set type exempt)", true)
			}
			// success passes addTemplate
			isAdd := func(in ssa.Instruction) bool {
				for _, d := range addCalls {
					if ssa.Instruction(d) == in {
						return true
					}
				}
				return false
			}
			q2 := &pathQuery{discharge: func(in ssa.Instruction) bool {
				return isAdd(in) || isErrorReturn(in)
			}}
			if trail, bad := q2.findFromBlock(okEdge); bad {
				r.Violation("R-GATE.store", fnKey(dts)+": success return", p.instrPos(first), "a template message can be delivered without storing the template; path "+p.describePath(dts, trail))
			} else {
				r.OK("R-GATE.store", fnKey(dts)+": success return", p.instrPos(first), "every success return passes addTemplate", true)
			}
		}
	}
}

// checkTemplateReplace: addTemplate stores the new field list on all paths, built from the incoming elements (imported by C01).
func checkTemplateReplace(p *Prog, r *Report) {
	if at := p.Fn("(*pkg/collector.CollectingProcess).addTemplate"); at == nil {
		r.Undecided("R-GATE.replace", "anchor: addTemplate", "pkg/collector/process.go", "function not found")
	} else {
		var stores []*ssa.Store
		eachInstr(at, func(in ssa.Instruction) {
			if s, ok := in.(*ssa.Store); ok {
				if tn, fn, _, ok := fieldOf(s.Addr); ok && tn == "pkg/collector.template" && fn == "ies" {
					stores = append(stores, s)
				}
			}
		})
		q := &pathQuery{discharge: func(in ssa.Instruction) bool {
			for _, s := range stores {
				if ssa.Instruction(s) == in {
					return true
				}
			}
			return false
		}}
		trail, bad := q.findFromBlock(at.Blocks[0])
		fromIncoming := len(stores) > 0
		for _, s := range stores {
			if !derivesFromParam(s.Val, at.Params[3], 0) {
				fromIncoming = false
			}
		}
		// the stored list is handed out by the lookup and iterated by decoders after the lock is released: it must be a
		// list of its own, never the previous list's array written in place
		reused := false
		for _, s := range stores {
			seen := map[ssa.Value]bool{}
			var walk func(v ssa.Value)
			walk = func(v ssa.Value) {
				v = stripChange(v)
				if v == nil || seen[v] {
					return
				}
				seen[v] = true
				switch x := v.(type) {
				case *ssa.Phi:
					for _, e := range x.Edges {
						walk(e)
					}
				case *ssa.Slice:
					walk(x.X)
				case *ssa.Call:
					if b, ok := x.Call.Value.(*ssa.Builtin); ok && b.Name() == "append" {
						walk(x.Call.Args[0])
					}
				case *ssa.UnOp:
					if tn, fn, _, ok := loadedField(x); ok && tn == "pkg/collector.template" && fn == "ies" {
						reused = true
					}
				}
			}
			walk(s.Val)
		}
		r.Check(!reused, "R-GATE.fresh-list", fnKey(at)+": the stored field list is a new slice", p.pos(at.Pos()), "built by make/append from nil, not from the list stored before",
			"the new field list is written into the array of the previous one (tpl.ies[:0] + append): a decoder that obtained the list from the lookup iterates it without the lock while it is overwritten (data race between client goroutines; a mix of old and new fields is decoded)", true)
		switch {
		case bad:
			r.Violation("R-GATE.replace", fnKey(at)+": field list replaced unconditionally", p.pos(at.Pos()), "a path through addTemplate keeps the previous field list (tpl.ies not stored): a valid replacement template is ignored and data is decoded with the old definition; path "+p.describePath(at, trail))
		case !fromIncoming:
			r.Violation("R-GATE.replace", fnKey(at)+": field list replaced unconditionally", p.pos(at.Pos()), "the stored field list is not built from the incoming elements")
		default:
			r.OK("R-GATE.replace", fnKey(at)+": field list replaced unconditionally", p.pos(at.Pos()), "tpl.ies is stored on every path, from the incoming elements' GetInfoElement()", true)
		}
	}
}

func checkLookupFirst(p *Prog, r *Report, dds *ssa.Function, lookupCall *ssa.Call, mapFns []*ssa.Function) {
	if lookupCall != nil {
		okErr := false
		for _, e := range extractOf(lookupCall, 1) {
			if errEdgeReturns(e) {
				okErr = true
			}
		}
		before := true
		eachInstr(dds, func(in ssa.Instruction) {
			if c := callOf(in); c != nil && in != ssa.Instruction(lookupCall) {
				for _, a := range c.Args {
					if a == ssa.Value(dds.Params[1]) && !dominates(lookupCall, in) {
						before = false
					}
				}
			}
		})
		r.Check(okErr && before, "R-GATE.lookup-first", fnKey(dds)+": lookup before decoding", p.instrPos(lookupCall), "the lookup dominates every use of the buffer and its error edge only returns errors",
			"data can be decoded (or the buffer consumed) although no template is stored for (observation domain, template id)", true)
	}
	// lookup function returns the stored list only on the found edge
	for _, f := range mapFns {
		if f.Name() != "getTemplateIEs" {
			continue
		}
		// on every path that returns a nil error: the first result is the ies field of the entry a comma-ok lookup of the
		// store returned, and that lookup's ok result is true on the path (the lookup may be a helper spliced back, its
		// results merged with a "not found" branch)
		okL := true
		nOK := 0
		w := &absWalker{MaxPaths: 4096}
		w.OnEnd = func(st *absState, last ssa.Instruction) {
			rt, ok := last.(*ssa.Return)
			if !ok || len(rt.Results) != 2 {
				return
			}
			isNil, known := st.nilness(rt.Results[1])
			if known && !isNil {
				return
			}
			if !known {
				okL = false
				return
			}
			res := st.resolve(rt.Results[0])
			_, fn, base, isIes := loadedField(res)
			if !isIes || fn != "ies" {
				okL = false
				return
			}
			found := false
			switch bv := st.resolve(base).(type) {
			case *ssa.Extract:
				lk, ok := bv.Tuple.(*ssa.Lookup)
				if !ok || !lk.CommaOk || bv.Index != 0 {
					okL = false
					return
				}
				for _, e1 := range extractOf(lk, 1) {
					if v, known := st.bools[st.key(e1)]; known && v {
						found = true
					}
				}
			case *ssa.Lookup:
				// plain lookup: "found" is "not nil" (only non-nil entries are ever stored)
				if mt, ok := bv.X.Type().Underlying().(*types.Map); ok && typeName(mt.Elem()) == "pkg/collector.template" {
					if isNil, known := st.bools["nil:"+st.key(bv)]; known && !isNil {
						found = true
					}
				}
			default:
				okL = false
				return
			}
			if !found {
				okL = false
				return
			}
			nOK++
		}
		if len(f.Blocks) > 0 {
			w.walk(newAbsState(), f.Blocks[0], 0)
		}
		okL = okL && nOK > 0 && !w.Overflow && !w.Looped
		r.Check(okL, "R-GATE.lookup", fnKey(f)+": returns the stored field list only when found", p.pos(f.Pos()), "(tpl.ies, nil) on the found edge, an error otherwise", "the lookup can succeed without a stored template or returns something other than the stored list", true)
	}
}

func derivesFromParam(v ssa.Value, pa *ssa.Parameter, depth int) bool {
	if depth > 10 {
		return false
	}
	switch x := v.(type) {
	case *ssa.Parameter:
		return x == pa
	case *ssa.Phi:
		for _, e := range x.Edges {
			if e != v && derivesFromParam(e, pa, depth+1) {
				return true
			}
		}
	case *ssa.Call:
		args := x.Call.Args
		if x.Call.IsInvoke() {
			args = append([]ssa.Value{x.Call.Value}, args...)
		}
		for _, a := range args {
			if derivesFromParam(a, pa, depth+1) {
				return true
			}
		}
	case *ssa.Slice:
		return derivesFromParam(x.X, pa, depth+1)
	case *ssa.UnOp:
		return derivesFromParam(x.X, pa, depth+1)
	case *ssa.IndexAddr:
		return derivesFromParam(x.X, pa, depth+1)
	case *ssa.Alloc:
		for _, ref := range refs(x) {
			if ia, ok := ref.(*ssa.IndexAddr); ok {
				for _, r2 := range refs(ia) {
					if st, ok := r2.(*ssa.Store); ok && derivesFromParam(st.Val, pa, depth+1) {
						return true
					}
				}
			}
		}
	case *ssa.MakeSlice:
		// a slice allocated at its final size and filled element by element
		for _, ref := range refs(x) {
			if ia, ok := ref.(*ssa.IndexAddr); ok {
				for _, r2 := range refs(ia) {
					if st, ok := r2.(*ssa.Store); ok && st.Addr == ssa.Value(ia) && derivesFromParam(st.Val, pa, depth+1) {
						return true
					}
				}
			}
		}
	case *ssa.MakeInterface:
		return derivesFromParam(x.X, pa, depth+1)
	case *ssa.ChangeType:
		return derivesFromParam(x.X, pa, depth+1)
	}
	return false
}

// checkTemplateDeleters: a stored template is removed only by the template decoder's invalidation and by the expiry
// callback; nothing else (e.g. a failed data set) may forget the most recent valid template.
func checkTemplateDeleters(p *Prog, r *Report) {
	g := p.CallGraph()
	for _, name := range []string{"deleteTemplate", "deleteTemplateWithConds"} {
		f := p.Fn("(*pkg/collector.CollectingProcess)." + name)
		if f == nil {
			continue
		}
		for _, cs := range g.callers[f] {
			k := fnKey(cs.Parent())
			ok := strings.HasSuffix(k, ".decodeTemplateSet") || strings.HasSuffix(k, ".deleteTemplate") || strings.Contains(k, ".addTemplate$")
			r.Check(ok, "R-OWNER.template-delete", k+": calls "+name, p.instrPos(cs), "template decoder invalidation, the delete wrapper or the expiry callback",
				"a template is deleted from a place other than the template decoder's error path and the expiry callback: a valid template can be forgotten although no template message replaced or invalidated it", true)
		}
	}
}

// checkInfoElementImmutable: fields of entities.InfoElement are written only into fresh allocations. Registry entries
// are shared by every template of every observation domain; writing through such a pointer makes one template
// influence all others.
func checkInfoElementImmutable(p *Prog, r *Report, rule string) {
	n := 0
	for _, f := range p.RepoFns {
		eachInstr(f, func(in ssa.Instruction) {
			st, ok := in.(*ssa.Store)
			if !ok {
				return
			}
			tn, fn, base, ok := fieldOf(st.Addr)
			if !ok || tn != "pkg/entities.InfoElement" {
				return
			}
			n++
			_, fresh := base.(*ssa.Alloc)
			r.Check(fresh, rule, fmt.Sprintf("%s: writes InfoElement.%s", fnKey(f), fn), p.instrPos(in), "into a freshly allocated element",
				"a field of an existing InfoElement is overwritten: registry elements are shared by all templates (every observation domain, every template id, every process), so one template changes how the data of others is decoded", true)
		})
	}
	if n == 0 {
		r.Undecided(rule, "anchor: stores to InfoElement fields", "pkg/entities/ie.go", "none found (NewInfoElement should initialise a fresh element)")
	}
}

// builderErrorsInfeasible re-derives, from the builders' own code, that the error returns of PrepareSet(Template, id)
// and AddRecordV2 on a template set cannot be taken.
func builderErrorsInfeasible(p *Prog, dts *ssa.Function) (bool, string) {
	ps := p.Fn("(*pkg/entities.set).PrepareSet")
	av2 := p.Fn("(*pkg/entities.set).AddRecordV2")
	if ps == nil || av2 == nil {
		return false, "PrepareSet / AddRecordV2 not found"
	}
	// PrepareSet: every error return is under the fact setType(param) == Undefined(255); the decoder passes a constant other than 255
	undefinedOnly := true
	eachInstr(ps, func(in ssa.Instruction) {
		rt, ok := in.(*ssa.Return)
		if !ok || !isErrorReturn(rt) {
			return
		}
		okF := false
		for _, f := range blockFacts(rt.Block()) {
			if f.X == ssa.Value(ps.Params[1]) && f.Op == token.EQL {
				if c, ok := constInt(f.Y); ok && c == 255 {
					okF = true
				}
			}
		}
		if !okF {
			undefinedOnly = false
		}
	})
	if !undefinedOnly {
		return false, "PrepareSet has an error return that is not limited to the Undefined set type"
	}
	constArg := false
	for _, c := range callsTo(dts, "(*pkg/entities.set).PrepareSet") {
		if v, ok := constInt(callOf(c).Args[1]); ok && v != 255 {
			constArg = true
		}
	}
	if !constArg {
		return false, "the template decoder does not pass a constant defined set type to PrepareSet"
	}
	// AddRecordV2: an error return is either PrepareRecord's error or the unsupported-type fallback - decided on the
	// enumerated paths of the function: on every path that ends with a non-nil error, the error is the result of a
	// PrepareRecord call, or the path knows the set type to be neither Template (0) nor Data (1)
	why := ""
	symK := ""
	wk := &absWalker{MaxPaths: 20000}
	wk.OnInstr = func(st *absState, in ssa.Instruction) {
		if u, ok := in.(*ssa.UnOp); ok && u.Op == token.MUL && isFieldLoad(u, "pkg/entities.set.setType") {
			symK = st.key(u)
		}
	}
	isPrepare := func(v ssa.Value) bool {
		if ex, ok := v.(*ssa.Extract); ok {
			v = ex.Tuple
		}
		c, ok := v.(*ssa.Call)
		if !ok {
			return false
		}
		if c.Call.IsInvoke() && c.Call.Method.Name() == "PrepareRecord" {
			return true
		}
		sc := c.Call.StaticCallee()
		return sc != nil && sc.Name() == "PrepareRecord" && sc.Signature.Recv() != nil
	}
	wk.OnEnd = func(st *absState, last ssa.Instruction) {
		rt, ok := last.(*ssa.Return)
		if !ok || len(rt.Results) == 0 {
			return
		}
		ev := rt.Results[len(rt.Results)-1]
		isNil, known := st.nilness(ev)
		if known && isNil {
			return
		}
		if isPrepare(st.resolveRaw(ev)) {
			return
		}
		// fallback: neither Data nor Template on this path
		not0, not1 := false, false
		if symK != "" {
			lo, hi := st.bounds(symK)
			if lo > 0 || hi < 0 {
				not0 = true
			}
			if lo > 1 || hi < 1 {
				not1 = true
			}
			for _, rel := range st.rels {
				if rel == symK+"!=0" {
					not0 = true
				}
				if rel == symK+"!=1" {
					not1 = true
				}
			}
		}
		if !(not0 && not1) {
			why = "AddRecordV2 has an error return other than PrepareRecord's error and the unsupported-set-type fallback"
		}
	}
	if len(av2.Blocks) > 0 {
		wk.walk(newAbsState(), av2.Blocks[0], 0)
	}
	if wk.Overflow {
		why = "AddRecordV2 has too many paths to enumerate"
	}
	if why != "" {
		return false, why
	}
	// every PrepareRecord implementation of a template record returns nil only
	n := 0
	for _, f := range p.RepoFns {
		if f.Name() != "PrepareRecord" || !keyInPkg(fnKey(f), "pkg/entities") || !strings.Contains(fnKey(f), "templateRecord") {
			continue
		}
		n++
		eachInstr(f, func(in ssa.Instruction) {
			if rt, ok := in.(*ssa.Return); ok && isErrorReturn(rt) {
				why = fnKey(f) + " can return an error"
			}
		})
	}
	if n == 0 {
		return false, "templateRecord.PrepareRecord not found"
	}
	if why != "" {
		return false, why
	}
	return true, ""
}

// checkDecodeScopedState: what a template or data set decodes to depends on the message, the registry and the template
// store entry for ITS (observation domain, template id) - on no other per-process state. Any other field of the
// collecting process read on the decode path (a cache of placeholder elements, a "last template" shortcut, ...) lets a
// definition received under another id or in another observation domain influence this one.
func checkDecodeScopedState(p *Prog, r *Report, storeFns map[*ssa.Function]bool) {
	g := p.CallGraph()
	var roots []*ssa.Function
	for _, n := range []string{"decodeTemplateSet", "decodeDataSet"} {
		if f := p.Fn("(*pkg/collector.CollectingProcess)." + n); f != nil {
			roots = append(roots, f)
		}
	}
	if len(roots) < 2 {
		r.Undecided("R-KEY.scoped-state", "anchor: decodeTemplateSet / decodeDataSet", "pkg/collector/process.go", "not found")
		return
	}
	allowed := map[string]string{
		"decodingMode":     "configuration, constant after construction",
		"numExtraElements": "configuration, constant after construction (capacity hint)",
	}
	n := 0
	seen := map[*ssa.Function]bool{}
	for _, root := range roots {
		for f := range g.syncReach(root) {
			if seen[f] || storeFns[f] || !keyInPkg(fnKey(f), "pkg/collector") {
				continue
			}
			seen[f] = true
			for _, a := range p.fieldAccesses(f, "pkg/collector.CollectingProcess") {
				n++
				why, ok := allowed[a.Field]
				r.Check(ok, "R-KEY.scoped-state", fmt.Sprintf("%s: uses CollectingProcess.%s while decoding", fnKey(f), a.Field), p.instrPos(a.In), why,
					"decoding depends on per-process state other than the configuration and the template store entry of this (observation domain, template id): a definition received earlier under another id / domain influences how this set is decoded", true)
			}
		}
	}
	r.Facts["R-KEY.scoped-state.accesses"] = n
}

// checkBufferReads: (*bytes.Buffer).Read returns fewer bytes than asked without an error when the buffer runs short;
// on the decode path its count must be compared with the length that was asked for (util.Decode / Next-with-guard /
// ReadByte are the complete-read idioms). Otherwise a set cut inside a field decodes from zero bytes instead of failing.
func checkBufferReads(p *Prog, r *Report, rule string) {
	scope, dp := decodeScope(p)
	if dp == nil {
		return
	}
	n := 0
	for f := range scope {
		if !keyInPkg(fnKey(f), "pkg/collector") {
			continue
		}
		eachInstr(f, func(in ssa.Instruction) {
			c, ok := in.(*ssa.Call)
			if !ok {
				return
			}
			name := calleeName(&c.Call)
			if name != "(*bytes.Buffer).Read" && name != "iface:io.Reader.Read" {
				return
			}
			n++
			checked := false
			for _, ex := range extractOf(c, 0) {
				for _, ref := range refs(ex) {
					if b, ok := ref.(*ssa.BinOp); ok {
						switch b.Op {
						case token.EQL, token.NEQ, token.LSS, token.GEQ, token.LEQ, token.GTR:
							checked = true
						}
					}
				}
			}
			r.Check(checked, rule, fmt.Sprintf("%s: %s #%d", fnKey(f), name, n), p.instrPos(in), "the byte count is compared with the length asked for",
				"a short read is not an error for bytes.Buffer.Read: a set truncated inside this field is decoded from zero-filled bytes instead of being rejected (and, for a template set, replaces the stored template instead of invalidating it)", true)
		})
	}
	r.Facts[rule+".sites"] = n
}

// templateStoreFns: the functions that touch the template store field itself (under the collector's guarded-by table).
func templateStoreFns(p *Prog) map[*ssa.Function]bool {
	accs, _, _ := runGuardedBy(p, collectorGuardSpec())
	touch := map[*ssa.Function]bool{}
	for _, a := range accs {
		if a.Field == cpTemplates {
			touch[a.Fn] = true
		}
	}
	return touch
}
