package main

import (
	"fmt"
	"strings"

	"golang.org/x/tools/go/ssa"
)

// checkFreshPerIteration: a pointer / slice that a callee KEEPS (stores in a long-lived structure) and that is handed over
// from inside a loop must be made inside that loop - one object per iteration. An allocation hoisted in front of the
// loop and refilled per iteration makes every kept reference alias the last iteration's content.
// callee: function key suffix of the keeping callee; argIdx: index in Call.Args (receiver included for static calls).
func checkFreshPerIteration(p *Prog, r *Report, rule string, callerKey string, calleeMatch func(name string) bool, argIdx int, what string) {
	f := p.Fn(callerKey)
	if f == nil {
		r.Undecided(rule, "anchor: "+callerKey, "", "function not found")
		return
	}
	n := 0
	eachInstr(f, func(in ssa.Instruction) {
		c := callOf(in)
		if c == nil {
			return
		}
		name := calleeName(c)
		if !calleeMatch(name) {
			return
		}
		args := c.Args
		idx := argIdx
		if c.IsInvoke() {
			idx-- // the receiver is not in Args of an interface call
		}
		if idx < 0 || idx >= len(args) {
			return
		}
		lh := enclosingLoopHead(in.Block())
		if lh == nil {
			return
		}
		n++
		bad := staleAcrossIterations(p, args[idx], lh, 0)
		r.Check(bad == "", rule, fmt.Sprintf("%s: %s handed to %s", fnKey(f), what, name[strings.LastIndex(name, ".")+1:]), p.instrPos(in), "made inside the loop: one object per iteration",
			"the "+what+" kept by the callee is "+bad+": every iteration's kept reference aliases the same object, earlier items show the last item's content", true)
	})
	if n == 0 {
		r.Undecided(rule, "anchor: call of the keeping callee inside a loop of "+callerKey, p.pos(f.Pos()), "not found")
	}
}

// staleAcrossIterations: "" when every origin of v is an object made inside the loop headed by lh; otherwise why not.
func staleAcrossIterations(p *Prog, v ssa.Value, lh *ssa.BasicBlock, d int) string {
	if d > 10 {
		return ""
	}
	o := p.origin(v)
	switch x := o.(type) {
	case *ssa.Slice:
		return staleAcrossIterations(p, x.X, lh, d+1)
	case *ssa.ChangeType:
		return staleAcrossIterations(p, x.X, lh, d+1)
	case *ssa.Call:
		if b, ok := x.Call.Value.(*ssa.Builtin); ok && b.Name() == "append" {
			return staleAcrossIterations(p, x.Call.Args[0], lh, d+1)
		}
		if !lh.Dominates(x.Block()) {
			return "the result of a call made once at " + p.instrPos(x) + ", before the loop"
		}
		return ""
	case *ssa.Extract:
		if !lh.Dominates(x.Block()) {
			return "the result of a call made once at " + p.instrPos(x) + ", before the loop"
		}
		return ""
	case *ssa.Phi:
		if x.Block() == lh {
			return "carried from one iteration to the next (" + p.instrPos(x) + ")"
		}
		for _, e := range x.Edges {
			if w := staleAcrossIterations(p, e, lh, d+1); w != "" {
				return w
			}
		}
		return ""
	case *ssa.Alloc, *ssa.MakeSlice, *ssa.MakeMap:
		oi := o.(ssa.Instruction)
		if !lh.Dominates(oi.Block()) {
			return "made once at " + p.instrPos(oi) + ", before the loop"
		}
		return ""
	case *ssa.Const:
		return ""
	}
	return ""
}

// enclosingLoopHead: the head of the innermost natural loop whose body contains b (b reaches one of the head's back
// edges without passing through the head; a block after an inner loop is not part of that inner loop).
func enclosingLoopHead(b *ssa.BasicBlock) *ssa.BasicBlock {
	var best *ssa.BasicBlock
	for _, h := range b.Parent().Blocks {
		if !h.Dominates(b) {
			continue
		}
		in := false
		for _, pr := range h.Preds {
			if !h.Dominates(pr) {
				continue
			}
			// reach pr from b without entering h
			seen := map[*ssa.BasicBlock]bool{h: true}
			work := []*ssa.BasicBlock{b}
			for len(work) > 0 && !in {
				x := work[len(work)-1]
				work = work[:len(work)-1]
				if x == pr {
					in = true
					break
				}
				if seen[x] && x != b {
					continue
				}
				if x != b || !seen[x] {
					seen[x] = true
				}
				for _, s := range x.Succs {
					if !seen[s] || s == pr {
						work = append(work, s)
					}
				}
			}
			if b == h {
				in = true
			}
		}
		if in && (best == nil || best.Dominates(h)) {
			best = h
		}
	}
	return best
}
