package main

import (
	"fmt"
	"go/token"
	"strings"

	"golang.org/x/tools/go/ssa"
)

func init() {
	register(&propDef{
		ID:          "C11",
		Explanation: "Structural necessary conditions of TCP framing, decided on SSA for every caller of decodePacket that reads from a bufio.Reader (the per-connection reader goroutine): (a) the bytes handed to decodePacket are bytes.NewBuffer(b) where b is a buffer of exactly L bytes (fresh make([]byte, L) or b[:L]) that was completely filled from the connection's reader by a full-read idiom (io.ReadFull / io.ReadAtLeast(..., len(b))) on the path to the call, whose error edge leaves the loop; L is the result of the length function applied to the SAME reader, and that function only Peeks 4 bytes (non-consuming) and decodes the big-endian uint16 at offset 2; nothing else consumes the reader in the loop; the reader is created once per connection (outside the loop); (b) every error edge in the loop (length, full read, decodePacket) leaves the loop - none reaches the back edge, so nothing is delivered after the first undecodable message; (c) the reader goroutine defers close(doneCh), the handler blocks on doneCh/stopChan and defers conn.Close(); the reader is used by this goroutine only. (d) no-alias: if any decoder case keeps the input slice the buffer must be fresh per message; constant slicing of the message buffer needs a dominating length test; the reader has no other consumer in the reader goroutine, its creator or its sibling closures. Not decided: behaviour under real segmentation is implied by (a), not observed; other connections are unaffected only as far as no state but C12's is shared. Later additions: one helper level between the read loop and decodePacket is followed (the helper must return the decoding error); every path back to the loop head passes the full read; no deadline is armed on collector connections. Round-five additions: the length function refuses only lengths no valid message can have (below the 16-byte header); the per-domain template map shared by all connections is removed only when empty. Round-six additions: template deadlines / timers are armed under protocol == udp only (a stream's templates live as long as the session); an error merged into a variable is followed on paths.",
		Assume:      []string{"io.ReadFull fills the buffer or returns an error", "bufio.Reader.Peek does not consume"},
		Run:         runC11,
	})
}

func runC11(p *Prog, r *Report, tier string) {
	checkFraming(p, r)
	// connections share the template store: a malformed template on one connection must not cost another its templates
	checkDomainPrune(p, r, "R-OWNER.domain-prune")
	// over a stream a template lives as long as the session: what is delivered must not depend on when segments arrive
	checkExpiryUDPOnly(p, r, "R-OWNER.expiry-udp-only")
}

// checkFraming holds C11's rules; C01 imports them (fidelity over TCP/TLS needs exact framing).
func checkFraming(p *Prog, r *Report) {
	g := p.CallGraph()
	dp := p.Fn("(*pkg/collector.CollectingProcess).decodePacket")
	if dp == nil {
		r.Undecided("R-FRAME", "anchor: decodePacket", "pkg/collector/process.go", "function not found")
		return
	}
	nReaders := 0
	usesReader := func(f *ssa.Function) bool {
		found := false
		eachInstr(f, func(in ssa.Instruction) {
			if c := callOf(in); c != nil {
				for _, a := range c.Args {
					if typeName(a.Type()) == "bufio.Reader" {
						found = true
					}
				}
			}
		})
		return found
	}
	// a site is a call, inside a function that reads from a bufio.Reader, that hands a message buffer to decodePacket -
	// directly, or through one helper that wraps one of its parameters in bytes.NewBuffer and calls decodePacket
	type site struct {
		cs     ssa.Instruction
		call   *ssa.Call
		buf    ssa.Value
		helper *ssa.Function
	}
	var sites []site
	for _, cs := range g.callers[dp] {
		call, ok := cs.(*ssa.Call)
		if !ok {
			continue
		}
		f := cs.Parent()
		nb, isNB := call.Call.Args[1].(*ssa.Call)
		if usesReader(f) {
			if !isNB || calleeName(&nb.Call) != "bytes.NewBuffer" {
				nReaders++
				r.Violation("R-FRAME.message-bytes", fnKey(f)+": bytes handed to decodePacket", p.instrPos(cs), "decodePacket is not given bytes.NewBuffer(<message buffer>)")
				continue
			}
			sites = append(sites, site{cs, call, nb.Call.Args[0], nil})
			continue
		}
		// helper form
		var prm *ssa.Parameter
		if isNB && calleeName(&nb.Call) == "bytes.NewBuffer" {
			prm, _ = nb.Call.Args[0].(*ssa.Parameter)
		}
		if prm == nil {
			continue // datagram path (UDP): one packet = one message, framing does not apply
		}
		idx := -1
		for i, fp := range f.Params {
			if fp == prm {
				idx = i
			}
		}
		for _, cs2 := range g.callers[f] {
			c2, ok := cs2.(*ssa.Call)
			if !ok || !usesReader(cs2.Parent()) || idx < 0 || idx >= len(c2.Call.Args) {
				continue
			}
			sites = append(sites, site{cs2, c2, c2.Call.Args[idx], f})
			// the helper must report a decoding failure to the read loop: an error result that is non-nil whenever decodePacket failed
			hasErr := errResultIndex(f.Signature) >= 0
			propagates := false
			if hasErr {
				for _, e := range extractOf(call, 1) {
					if errEdgeReturns(e) {
						propagates = true
					}
				}
			}
			r.Check(hasErr && propagates, "R-FRAME.error-exit", fmt.Sprintf("%s: decoding failure reported to the read loop", fnKey(f)), p.instrPos(cs),
				"the helper returns decodePacket's error", "the helper that decodes a message does not return the decoding error to the read loop: the loop goes on and delivers the messages that follow an undecodable one (already buffered bytes are still readable after conn.Close())", true)
		}
	}
	for _, st := range sites {
		cs, call, buf := st.cs, st.call, st.buf
		f := cs.Parent()
		nReaders++
		k := fnKey(f)
		// full read of buf on the path
		var full *ssa.Call
		eachInstr(f, func(in ssa.Instruction) {
			c, ok := in.(*ssa.Call)
			if !ok {
				return
			}
			n := calleeName(&c.Call)
			if (n == "io.ReadFull" && c.Call.Args[1] == buf) || (n == "io.ReadAtLeast" && c.Call.Args[1] == buf && isLenOf(c.Call.Args[2], buf)) {
				if dominates(in, cs) {
					full = c
				}
			}
		})
		if full == nil {
			r.Violation("R-FRAME.full-read", k+": message body read", p.instrPos(cs),
				"the buffer handed to decodePacket is not filled by a full-read idiom (io.ReadFull / io.ReadAtLeast(..., len(buf))) on the way: a short read (TCP segment boundary inside a message) delivers a partly zero-filled message and desynchronises the stream")
			continue
		}
		r.OK("R-FRAME.full-read", k+": message body read", p.instrPos(full), calleeName(&full.Call)+" of the very buffer handed to decodePacket dominates the call", true)
		rdr := p.origin(full.Call.Args[0])
		// length L of buf
		var L ssa.Value
		switch b := buf.(type) {
		case *ssa.MakeSlice:
			if b.Len == b.Cap || b.Cap == nil {
				L = b.Len
			} else {
				L = b.Len
			}
		case *ssa.Slice:
			if b.Low == nil {
				L = b.High
			}
		}
		var lenCall *ssa.Call
		if ex, ok := L.(*ssa.Extract); ok && ex.Index == 0 {
			lenCall, _ = ex.Tuple.(*ssa.Call)
		}
		lenFn := (*ssa.Function)(nil)
		if lenCall != nil {
			lenFn = lenCall.Call.StaticCallee()
		}
		okLen := L != nil && lenCall != nil && lenFn != nil && len(lenCall.Call.Args) == 1 && p.origin(lenCall.Call.Args[0]) == rdr && dominates(lenCall, full)
		// the length read written out in the reader itself (no length function): L is computed from reader.Peek(4) of
		// the same reader, big-endian uint16 at offset 2, and that peek dominates the full read
		var inlinePeek *ssa.Call
		if !okLen && L != nil && lenCall == nil {
			// L = int(msgLen) with msgLen decoded from peeked[2:], or int(binary.BigEndian.Uint16(peeked[2:]))
			core := stripChange(L)
			if cv, ok := core.(*ssa.Convert); ok {
				core = stripChange(cv.X)
			}
			var src ssa.Value // the two bytes the length is read from
			if d, i := wireVar(p, core); d != nil && i == 0 && isBigEndianArg(d.Call.Args[1]) {
				if ts := decodeTargets(d); len(ts) == 1 && strings.Contains(ts[0].Type().String(), "uint16") {
					if nb, ok := stripChange(d.Call.Args[0]).(*ssa.Call); ok && calleeName(&nb.Call) == "bytes.NewBuffer" {
						src = nb.Call.Args[0]
					}
				}
			}
			if c2, ok := core.(*ssa.Call); ok && calleeName(&c2.Call) == "(encoding/binary.bigEndian).Uint16" {
				src = c2.Call.Args[1]
			}
			if sl, ok := src.(*ssa.Slice); ok {
				if lo, ok := constInt(sl.Low); ok && lo == 2 {
					if ex, ok := sl.X.(*ssa.Extract); ok && ex.Index == 0 {
						if c, ok := ex.Tuple.(*ssa.Call); ok && calleeName(&c.Call) == "(*bufio.Reader).Peek" && len(c.Call.Args) == 2 {
							if n4, ok := constInt(c.Call.Args[1]); ok && n4 == 4 && p.origin(c.Call.Args[0]) == rdr && dominates(c, full) {
								inlinePeek = c
							}
						}
					}
				}
			}
			if inlinePeek != nil {
				okLen = true
				lenCall = inlinePeek // the non-consuming length read, for the single-consumer rule below
				r.OK("R-FRAME.length", fnKey(f)+": message length from the header", p.instrPos(inlinePeek), "Peek(4) (non-consuming), big-endian uint16 at offset 2, read in the reader loop itself", true)
			}
		}
		r.Check(okLen, "R-FRAME.message-bytes", k+": bytes handed to decodePacket", p.instrPos(cs),
			"a buffer of exactly L bytes, L = length function applied to the same reader",
			"the buffer handed to decodePacket is not exactly the L bytes of one message (L from the length header of the same reader): stale bytes of an earlier message or bytes of the next one can be decoded", true)
		// length function: Peek(4) only, uint16 at offset 2
		if lenFn != nil && g.isRepo[lenFn] && len(lenFn.Params) == 1 {
			peekOK, offOK, consumes := false, false, ""
			var peek *ssa.Call
			eachInstr(lenFn, func(in ssa.Instruction) {
				c := callOf(in)
				if c == nil {
					return
				}
				for i, a := range c.Args {
					if a == ssa.Value(lenFn.Params[0]) {
						n := calleeName(c)
						if n == "(*bufio.Reader).Peek" && i == 0 {
							if v, ok := constInt(c.Args[1]); ok && v == 4 {
								peekOK = true
								peek, _ = in.(*ssa.Call)
							}
						} else {
							consumes = n
						}
					}
				}
			})
			if peek != nil {
				for _, ex := range extractOf(peek, 0) {
					for _, ref := range refs(ex) {
						if sl, ok := ref.(*ssa.Slice); ok {
							if lo, ok := constInt(sl.Low); ok && lo == 2 {
								offOK = true
							}
						}
					}
				}
			}
			be := false
			eachInstr(lenFn, func(in ssa.Instruction) {
				if c, ok := in.(*ssa.Call); ok && calleeName(&c.Call) == "pkg/util.Decode" {
					if gl, ok := c.Call.Args[1].(*ssa.MakeInterface); ok {
						if u, ok := gl.X.(*ssa.UnOp); ok {
							if gg, ok := u.X.(*ssa.Global); ok && gg.Name() == "BigEndian" {
								be = true
							}
						}
					}
					ts := decodeTargets(c)
					if len(ts) != 1 || !strings.Contains(ts[0].Type().String(), "uint16") {
						be = false
					}
				}
			})
			// the same two bytes read with binary.BigEndian.Uint16(peeked[2:]) (no intermediate buffer, no error path)
			if peek != nil && !be {
				for _, ex := range extractOf(peek, 0) {
					for _, ref := range refs(ex) {
						sl, ok := ref.(*ssa.Slice)
						if !ok {
							continue
						}
						lo, okLo := constInt(sl.Low)
						if !okLo || lo != 2 {
							continue
						}
						for _, r2 := range refs(sl) {
							if c2, ok := r2.(*ssa.Call); ok && calleeName(&c2.Call) == "(encoding/binary.bigEndian).Uint16" {
								be = true
							}
						}
					}
				}
			}
			// the length function may refuse lengths that cannot be a message (below the 16-byte header + 4-byte set header),
			// but nothing else: on every error exit that depends on the decoded length, every refused length is < 20
			refuses := ""
			lenSym := ""
			wl := &absWalker{MaxPaths: 2048}
			wl.OnInstr = func(st *absState, in ssa.Instruction) {
				if u, ok := in.(*ssa.UnOp); ok && u.Op == token.MUL {
					if d, i := wireVar(p, u); d != nil && i == 0 {
						lenSym = st.key(u)
					}
				}
				if c2, ok := in.(*ssa.Call); ok && calleeName(&c2.Call) == "(encoding/binary.bigEndian).Uint16" {
					lenSym = st.key(c2)
				}
			}
			wl.OnEnd = func(st *absState, last ssa.Instruction) {
				rt, ok := last.(*ssa.Return)
				if !ok || len(rt.Results) == 0 || lenSym == "" {
					return
				}
				isNil, known := st.nilness(rt.Results[len(rt.Results)-1])
				if !known || isNil {
					return
				}
				lo, hi := st.bounds(lenSym)
				if hi < absInf && hi > 19 {
					refuses = fmt.Sprintf("lengths up to %d are refused", hi)
				}
				if lo > -absInf && lo > 0 && hi == absInf {
					refuses = fmt.Sprintf("lengths from %d are refused", lo)
				}
			}
			if len(lenFn.Blocks) > 0 {
				wl.walk(newAbsState(), lenFn.Blocks[0], 0)
			}
			r.Check(refuses == "", "R-FRAME.length-accepts", fnKey(lenFn)+": every possible message length is accepted", p.pos(lenFn.Pos()),
				"no error exit depends on the decoded length, except for lengths below 20 (header + set header)",
				refuses+": a decodable message of that length (e.g. exactly 20: a header and an empty set) makes the reader report an error and close the connection, losing it and everything after it", true)
			r.Check(peekOK && offOK && be && consumes == "", "R-FRAME.length", fnKey(lenFn)+": message length from the header", p.pos(lenFn.Pos()),
				"Peek(4) (non-consuming), big-endian uint16 at offset 2, nothing else touches the reader",
				fmt.Sprintf("the length function is not 'Peek(4), big-endian uint16 at offset 2, no consumption' (peek4=%v offset2=%v bigEndianU16=%v consuming call=%q): messages are framed at the wrong boundary", peekOK, offOK, be, consumes), true)
		}
		// aliasing: a message buffer that outlives the iteration may only be used if the element decoder copies every
		// byte-slice value out of it
		fresh := false
		var under ssa.Value = buf
		if sl, ok := buf.(*ssa.Slice); ok {
			under = sl.X
		}
		if ms, ok := under.(*ssa.MakeSlice); ok && ms.Parent() == f && inLoop(ms.Block()) {
			fresh = true
		}
		aliases := decoderAliasingCases(p)
		r.Check(fresh || len(aliases) == 0, "R-FRAME.no-alias", k+": delivered values do not alias a reused read buffer", p.instrPos(cs),
			fmt.Sprintf("message buffer allocated per message: %v; decoder cases that keep the input slice: %v", fresh, aliases),
			fmt.Sprintf("the read buffer is reused across messages and the element decoder keeps sub-slices of it for %v: a value already delivered to the consumer changes when the next message is read", aliases), true)
		// constant-bound slicing / indexing of the message buffer (whose length is the wire value L) needs L >= bound
		eachInstr(f, func(in ssa.Instruction) {
			var bound int64 = -1
			switch x := in.(type) {
			case *ssa.Slice:
				if x.X == buf && x.High != nil {
					if c, ok := constInt(x.High); ok {
						bound = c
					}
				}
				if x.X == buf && x.Low != nil && bound < 0 {
					if c, ok := constInt(x.Low); ok {
						bound = c
					}
				}
			case *ssa.IndexAddr:
				if x.X == buf {
					if c, ok := constInt(x.Index); ok {
						bound = c + 1
					}
				}
			}
			if bound <= 0 {
				return
			}
			proved := false
			for _, fct := range blockFacts(in.Block()) {
				xv, op, yv := fct.X, fct.Op, fct.Y
				if yv == L {
					xv, yv, op = yv, xv, flipOp(op)
				}
				if xv != L {
					continue
				}
				if c, ok := constInt(yv); ok && ((op == token.GEQ && c >= bound) || (op == token.GTR && c >= bound-1)) {
					proved = true
				}
			}
			r.Check(proved, "R-FRAME.buffer-bounds", fmt.Sprintf("%s: message buffer sliced/indexed at constant %d", k, bound), p.instrPos(in), "dominated by length >= bound",
				fmt.Sprintf("the message buffer has the length announced on the wire (0..65535); slicing it at %d without a length test panics in the reader goroutine for shorter announced lengths and takes the whole collector down", bound), true)
		})
		// nothing else consumes the reader in this function
		other := ""
		for _, g := range p.RepoFns { // the reader goroutine, the function that created the reader, and any other closure of it
			if g != f && g != f.Parent() && g.Parent() != f.Parent() {
				continue
			}
			eachInstr(g, func(in ssa.Instruction) {
				c := callOf(in)
				if c == nil || in == ssa.Instruction(full) || in == ssa.Instruction(lenCall) {
					return
				}
				// handing the reader to the reader goroutine itself (a function literal that takes it as a parameter) consumes nothing
				if lit := literalCallee(c); lit != nil && (lit == f || lit.Parent() == f.Parent()) {
					return
				}
				for _, a := range c.Args {
					if typeName(a.Type()) == "bufio.Reader" && p.origin(a) == rdr {
						other = calleeName(c) + " in " + fnKey(g)
					}
				}
			})
		}
		r.Check(other == "", "R-FRAME.single-consumer", k+": consumers of the connection reader", p.pos(f.Pos()), "only the length peek and the full read",
			"another call ("+other+") consumes the same reader between messages", true)
		// reader created once per connection: its origin is not inside a loop of this function
		org := rdr
		once := false
		if c, ok := org.(*ssa.Call); ok && calleeName(&c.Call) == "bufio.NewReader" {
			once = c.Parent() != f || !inLoop(c.Block())
		}
		r.Check(once, "R-FRAME.reader-once", k+": bufio.Reader created once per connection", p.instrPos(cs), "created outside the read loop",
			"the buffered reader is (re)created inside the loop or not from bufio.NewReader: bytes already buffered from the next message are lost", true)

		// (b) error edges leave the loop
		var loopHead *ssa.BasicBlock
		for _, b := range f.Blocks {
			if b.Dominates(cs.Block()) {
				for _, pr := range b.Preds {
					if b.Dominates(pr) && reachableBlock(cs.Block(), pr) {
						loopHead = b
					}
				}
			}
		}
		if loopHead == nil {
			r.Undecided("R-FRAME.error-exit", k+": read loop", p.instrPos(cs), "decodePacket is not called inside a loop")
		} else {
			// progress: the length function only peeks, so an iteration that goes back to the loop head without the full read
			// has consumed nothing and reads the same header again - forever (no error, no message, Stop() hangs)
			qp := &pathQuery{loopHead: loopHead, noExit: true, discharge: func(x ssa.Instruction) bool { return x == ssa.Instruction(full) }}
			if trail, spins := qp.findFromBlock(loopHead); spins {
				r.Violation("R-FRAME.progress", k+": every iteration of the read loop consumes the message", p.instrPos(full),
					"a path returns to the head of the read loop without the full read of the message body (e.g. a `continue` for an \"invalid\" length): nothing was consumed, the same bytes are peeked again and the reader goroutine spins forever; path "+p.describePath(f, trail))
			} else {
				r.OK("R-FRAME.progress", k+": every iteration of the read loop consumes the message", p.instrPos(full), "every path back to the loop head passes the full read", true)
			}
			for _, c := range []*ssa.Call{lenCall, full, call} {
				if c == nil {
					continue
				}
				sig := c.Call.Signature()
				ei := errResultIndex(sig)
				if ei < 0 {
					continue
				}
				leaves := false
				var evs []ssa.Value
				if sig.Results().Len() == 1 {
					evs = []ssa.Value{c}
				} else {
					for _, e := range extractOf(c, ei) {
						evs = append(evs, e)
					}
				}
				for _, ev := range evs {
					if errEdgeLeavesLoop(ev, loopHead) || errPathsLeaveLoop(c, ev, loopHead) {
						leaves = true
					}
				}
				r.Check(leaves, "R-FRAME.error-exit", fmt.Sprintf("%s: error of %s", k, calleeName(&c.Call)), p.instrPos(c), "the error edge cannot reach the loop head again",
					"after this error the loop continues reading: bytes of an undecodable message are skipped and later bytes are delivered as if they were messages", true)
			}
		}
		// (c) goroutine exit protocol
		closes := ""
		for _, in := range f.Blocks[0].Instrs {
			if d, ok := in.(*ssa.Defer); ok {
				if b, ok := d.Call.Value.(*ssa.Builtin); ok && b.Name() == "close" {
					closes = p.chanIdent(d.Call.Args[0])
				}
			}
		}
		parent := f.Parent()
		okExit := false
		if closes != "" && parent != nil {
			sels, _, _ := p.blockingOps(parent)
			for _, si := range sels {
				for _, c := range si.chans {
					if c == closes {
						okExit = true
					}
				}
			}
			closesConn := false
			eachInstr(parent, func(in ssa.Instruction) {
				if d, ok := in.(*ssa.Defer); ok && d.Call.IsInvoke() && d.Call.Method.Name() == "Close" && typeName(d.Call.Value.Type()) == "net.Conn" {
					closesConn = true
				}
			})
			okExit = okExit && closesConn
		}
		r.Check(okExit, "R-FRAME.close-on-exit", k+": reader exit closes the connection", p.pos(f.Pos()),
			"the goroutine defers close(done); the handler selects on it and defers conn.Close()",
			"when the reader goroutine ends (undecodable message) the connection is not closed: the exporter keeps sending into the void", true)
	}
	// the stream reader waits for the next message for as long as the exporter is silent: no read deadline is ever armed on
	// the client connection (a deadline is absolute and stays armed: once it passes, an idle but perfectly valid stream gets
	// a read error and is closed; stopping is done by closing the connection, not by deadlines)
	for _, f := range p.RepoFns {
		if !keyInPkg(fnKey(f), "pkg/collector") || strings.Contains(fnKey(f), "fake") {
			continue
		}
		eachInstr(f, func(in ssa.Instruction) {
			c := callOf(in)
			if c == nil || !c.IsInvoke() {
				return
			}
			m := c.Method.Name()
			if m == "SetReadDeadline" || m == "SetDeadline" || m == "SetWriteDeadline" {
				r.Violation("R-FRAME.no-deadline", fmt.Sprintf("%s: %s on a collector connection", fnKey(f), m), p.instrPos(in),
					"a deadline is armed on a connection of the collecting process: unless it is cleared after every single read it fires while the exporter is merely idle, the read fails and the connection of a valid stream is closed (later messages are never delivered)")
			}
		})
	}
	r.OK("R-FRAME.no-deadline", "pkg/collector: no deadline is armed on client connections", "pkg/collector", "checked every method call on connections in pkg/collector", false)
	if nReaders == 0 {
		r.Undecided("R-FRAME", "anchor: stream reader calling decodePacket", "pkg/collector/tcp.go", "no caller of decodePacket uses a bufio.Reader")
	}
}

func isLenOf(v, s ssa.Value) bool {
	c, ok := v.(*ssa.Call)
	if !ok {
		return false
	}
	b, ok := c.Call.Value.(*ssa.Builtin)
	return ok && b.Name() == "len" && c.Call.Args[0] == s
}

// errEdgeLeavesLoop: ev is tested (nil compare or errors.Is) and from the failing edge the loop head is unreachable.
func errEdgeLeavesLoop(ev ssa.Value, loopHead *ssa.BasicBlock) bool {
	found := false
	allLeave := true
	for _, ref := range refs(ev) {
		b, ok := ref.(*ssa.BinOp)
		if !ok {
			continue
		}
		ne, ok := isNilCompare(b, ev)
		if !ok {
			continue
		}
		for _, r2 := range refs(b) {
			i, ok := r2.(*ssa.If)
			if !ok {
				continue
			}
			succ := 0
			if !ne {
				succ = 1
			}
			found = true
			if reachableBlockEdge(i.Block(), i.Block().Succs[succ], loopHead) {
				allLeave = false
			}
		}
	}
	return found && allLeave
}

var _ = token.ADD

// decoderAliasingCases lists the constructors in the element decoder that are handed the input slice itself (not a copy).
func decoderAliasingCases(p *Prog) []string {
	dec := p.Fn("pkg/entities.DecodeAndCreateInfoElementWithValue")
	if dec == nil || len(dec.Params) < 2 {
		return []string{"?"}
	}
	val := ssa.Value(dec.Params[1])
	var out []string
	eachInstr(dec, func(in ssa.Instruction) {
		c, ok := in.(*ssa.Call)
		if !ok {
			return
		}
		n := calleeName(&c.Call)
		if !strings.HasPrefix(n, "pkg/entities.New") || len(c.Call.Args) < 2 {
			return
		}
		cands := []ssa.Value{c.Call.Args[1]}
		if ph, ok := c.Call.Args[1].(*ssa.Phi); ok {
			cands = ph.Edges
		}
		for _, v := range cands {
			v = stripChange(v)
			if v == val {
				out = append(out, strings.TrimPrefix(n, "pkg/entities."))
			}
			if sl, ok := v.(*ssa.Slice); ok && sl.X == val {
				out = append(out, strings.TrimPrefix(n, "pkg/entities."))
			}
		}
	})
	return out
}

// literalCallee: the function literal applied by this call (go func(...){...}(args)), if any.
func literalCallee(c *ssa.CallCommon) *ssa.Function {
	switch v := c.Value.(type) {
	case *ssa.Function:
		if v.Parent() != nil {
			return v
		}
	case *ssa.MakeClosure:
		if fn, ok := v.Fn.(*ssa.Function); ok {
			return fn
		}
	}
	return nil
}

// errPathsLeaveLoop: the path form of errEdgeLeavesLoop - with the call's error assumed non-nil, no enumerated path from
// the call reaches the head of the read loop again (the error may be merged into a variable that is tested later).
func errPathsLeaveLoop(c *ssa.Call, ev ssa.Value, loopHead *ssa.BasicBlock) bool {
	b := c.Block()
	idx := -1
	for i, in := range b.Instrs {
		if in == ssa.Instruction(c) {
			idx = i
		}
	}
	if idx < 0 {
		return false
	}
	back, n := false, 0
	wk := &absWalker{MaxPaths: 8192, LoopHead: loopHead}
	wk.OnEnd = func(s *absState, last ssa.Instruction) {
		n++
		switch last.(type) {
		case *ssa.Return, *ssa.Panic:
		default:
			back = true
		}
	}
	s := newAbsState()
	s.bools["nil:"+s.key(ev)] = false
	wk.walk(s, b, idx+1)
	return n > 0 && !back && !wk.Overflow && !wk.Looped
}
