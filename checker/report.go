package main

import (
	"encoding/json"
	"fmt"
	"os"
	"path/filepath"
	"sort"
	"strings"
	"time"
)

// Obligation is one construct a rule had to decide.
type Obligation struct {
	Rule      string `json:"rule"`      // rule id, e.g. "R-LOCK.guarded"
	Construct string `json:"construct"` // position-free identification: function + discriminator
	Pos       string `json:"pos"`       // file:line for the reader
	Status    string `json:"status"`    // discharged | violated | undecided
	Detail    string `json:"detail,omitempty"`
	Nontriv   bool   `json:"nontrivial,omitempty"` // needed a path walk / interprocedural state / table join
}

func (o Obligation) Key() string { return o.Rule + "|" + o.Construct }

type Report struct {
	Prop   string
	Obs    []Obligation
	Info   []string
	Facts  map[string]interface{}
	seen   map[string]int
	Assume []string
}

func NewReport(prop string) *Report {
	return &Report{Prop: prop, Facts: map[string]interface{}{}, seen: map[string]int{}}
}

func (r *Report) add(o Obligation) {
	// same rule+construct decided twice (e.g. in two calling contexts): keep the worst status
	if i, ok := r.seen[o.Key()]; ok {
		rank := map[string]int{"discharged": 0, "undecided": 1, "violated": 2}
		if rank[o.Status] > rank[r.Obs[i].Status] {
			r.Obs[i] = o
		}
		return
	}
	r.seen[o.Key()] = len(r.Obs)
	r.Obs = append(r.Obs, o)
}

func (r *Report) OK(rule, construct, pos, detail string, nontriv bool) {
	r.add(Obligation{rule, construct, pos, "discharged", detail, nontriv})
}
func (r *Report) Violation(rule, construct, pos, detail string) {
	r.add(Obligation{rule, construct, pos, "violated", detail, true})
}
func (r *Report) Undecided(rule, construct, pos, detail string) {
	r.add(Obligation{rule, construct, pos, "undecided", detail, true})
}

// Check records discharged/violated according to cond.
func (r *Report) Check(cond bool, rule, construct, pos, okDetail, badDetail string, nontriv bool) bool {
	if cond {
		r.OK(rule, construct, pos, okDetail, nontriv)
	} else {
		r.Violation(rule, construct, pos, badDetail)
	}
	return cond
}

func (r *Report) Infof(f string, a ...interface{}) { r.Info = append(r.Info, fmt.Sprintf(f, a...)) }

// ---- known findings ----

type KnownFinding struct {
	Property string `json:"property"`
	Status   string `json:"status"` // "known" (still in the tree, suppressed) | "fixed" (suppresses nothing)
	Key      string `json:"key"`    // rule|construct
	Commit   string `json:"commit,omitempty"`
	What     string `json:"what"`
}

type knownFile struct {
	Findings []KnownFinding `json:"findings"`
}

func loadKnown(path string) ([]KnownFinding, error) {
	b, err := os.ReadFile(path)
	if err != nil {
		if os.IsNotExist(err) {
			return nil, nil
		}
		return nil, err
	}
	var k knownFile
	if err := json.Unmarshal(b, &k); err != nil {
		return nil, err
	}
	return k.Findings, nil
}

// ---- output ----

type runResult struct {
	Violations []Obligation
	Known      []Obligation
	Undecided  []Obligation
}

func (r *Report) classify(known []KnownFinding) runResult {
	kk := map[string]KnownFinding{}
	for _, k := range known {
		if k.Property == r.Prop && k.Status == "known" {
			kk[k.Key] = k
		}
	}
	var res runResult
	for _, o := range r.Obs {
		switch o.Status {
		case "violated":
			if _, ok := kk[o.Key()]; ok {
				res.Known = append(res.Known, o)
			} else {
				res.Violations = append(res.Violations, o)
			}
		case "undecided":
			res.Undecided = append(res.Undecided, o)
		}
	}
	return res
}

type evidence struct {
	PropertyID  string                 `json:"property_id"`
	Tier        string                 `json:"tier"`
	Seed        int                    `json:"seed"`
	Level       string                 `json:"level"`
	Coverage    map[string]interface{} `json:"coverage"`
	Assumptions []string               `json:"assumptions"`
	WallS       float64                `json:"wall_s"`
	Violations  int                    `json:"violations"`
}

func (r *Report) writeEvidence(dir, tier string, seed int, res runResult, explanation string, extra map[string]interface{}, start time.Time) error {
	if err := os.MkdirAll(dir, 0o755); err != nil {
		return err
	}
	byRule := map[string]map[string]int{}
	disc, nontriv := 0, 0
	distinct := map[string]bool{}
	for _, o := range r.Obs {
		m := byRule[o.Rule]
		if m == nil {
			m = map[string]int{}
			byRule[o.Rule] = m
		}
		m[o.Status]++
		if o.Status == "discharged" {
			disc++
		}
		if o.Nontriv && !distinct[o.Key()] {
			distinct[o.Key()] = true
			nontriv++
		}
	}
	// samples: up to 4 obligations per rule, written out
	var samples []Obligation
	perRule := map[string]int{}
	for _, o := range r.Obs {
		if perRule[o.Rule] < 4 || o.Status != "discharged" {
			samples = append(samples, o)
			perRule[o.Rule]++
		}
	}
	cov := map[string]interface{}{
		"explanation":         explanation,
		"obligations":         len(r.Obs),
		"discharged":          disc,
		"evaluations":         len(r.Obs),
		"distinct_nontrivial": nontriv,
		"rule":                "one obligation per construct (call site, switch case, literal, guarded access, path anchor) matched by a rule in /repo's current source; non-trivial = its decision needed a CFG path walk, an interprocedural lock/calling context or a join of two tables lifted from different files; distinct by rule+construct",
		"samples":             samples,
		"per_rule":            byRule,
		"info":                r.Info,
		"facts":               r.Facts,
		"known_findings":      res.Known,
		"undecided":           res.Undecided,
		"exhaustive":          false,
	}
	for k, v := range extra {
		cov[k] = v
	}
	ev := evidence{PropertyID: r.Prop, Tier: tier, Seed: seed, Level: "other", Coverage: cov,
		Assumptions: r.Assume, WallS: time.Since(start).Seconds(), Violations: len(res.Violations) + len(res.Undecided)}
	if ev.Assumptions == nil {
		ev.Assumptions = []string{}
	}
	b, err := json.MarshalIndent(ev, "", " ")
	if err != nil {
		return err
	}
	return os.WriteFile(filepath.Join(dir, r.Prop+".json"), b, 0o644)
}

// emit prints the verdict lines and returns the process exit code.
func (r *Report) emit(res runResult, known []KnownFinding, evidenceDir string) int {
	for _, o := range res.Known {
		what := ""
		for _, k := range known {
			if k.Property == r.Prop && k.Key == o.Key() {
				what = k.What
			}
		}
		fmt.Printf("KNOWN-FINDING: property=%s %s at %s [%s] %s\n", r.Prop, o.Construct, o.Pos, o.Rule, what)
	}
	if len(res.Violations) == 0 && len(res.Undecided) == 0 {
		return 0
	}
	rdir := filepath.Join(evidenceDir, "replay")
	os.MkdirAll(rdir, 0o755)
	rp := filepath.Join(rdir, r.Prop+".txt")
	var sb strings.Builder
	all := append(append([]Obligation{}, res.Violations...), res.Undecided...)
	sort.SliceStable(all, func(i, j int) bool { return all[i].Pos < all[j].Pos })
	for _, o := range all {
		kind := "violation"
		if o.Status == "undecided" {
			kind = "undecided"
		}
		fmt.Fprintf(&sb, "property=%s kind=%s rule=%s\n  construct: %s\n  at: %s\n  %s\n\n", r.Prop, kind, o.Rule, o.Construct, o.Pos, o.Detail)
	}
	os.WriteFile(rp, []byte(sb.String()), 0o644)
	for _, o := range all {
		kind := "violation"
		if o.Status == "undecided" {
			kind = "undecided"
		}
		fmt.Printf("VIOLATION property=%s replay=%s kind=%s rule=%s at=%s construct=%q :: %s\n", r.Prop, rp, kind, o.Rule, o.Pos, o.Construct, o.Detail)
	}
	return 1
}
