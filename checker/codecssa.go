package main

// Encoder / decoder case signatures extracted from the SSA form by path enumeration (abspath.go). One signature per data
// type: what reaches the wire (encoder) or the constructor (decoder) on the paths on which element's data type equals
// that label. Nothing here depends on variable names, on the statement form (if/else, switch, early return, &&) or on
// where a sub-expression is computed: a path is characterised by the values that flow, not by the text.

import (
	"fmt"
	"go/token"
	"go/types"
	"sort"
	"strings"

	"golang.org/x/tools/go/ssa"
)

func convName(t types.Type) string {
	s := types.TypeString(t, func(p *types.Package) string { return p.Name() })
	if s == "byte" {
		s = "uint8"
	}
	return s
}

// peelChain strips conversions and math.Float*bits / Float*frombits wrappers: returns the chain (outermost first) and
// the innermost value.
func peelChain(st *absState, v ssa.Value) (string, ssa.Value) {
	var chain []string
	for i := 0; i < 8; i++ {
		v = st.resolve(v)
		switch x := v.(type) {
		case *ssa.Convert:
			if types.Identical(x.Type(), x.X.Type()) {
				v = x.X
				continue
			}
			chain = append(chain, convName(x.Type()))
			v = x.X
			continue
		case *ssa.Call:
			n := calleeName(&x.Call)
			if strings.HasPrefix(n, "math.Float") && len(x.Call.Args) == 1 {
				chain = append(chain, n)
				v = x.Call.Args[0]
				continue
			}
		}
		break
	}
	return strings.Join(chain, "."), v
}

func binaryOrderWidth(n string, put bool) (int, string, bool) {
	for _, o := range [][2]string{{"bigEndian", "BigEndian"}, {"littleEndian", "LittleEndian"}} {
		for _, w := range []int{16, 32, 64} {
			name := fmt.Sprintf("(encoding/binary.%s).Uint%d", o[0], w)
			if put {
				name = fmt.Sprintf("(encoding/binary.%s).PutUint%d", o[0], w)
			}
			if n == name {
				return w / 8, o[1], true
			}
		}
	}
	return 0, "", false
}

// invokedAccessor: v is the result of element.<GetXValue>() (interface invoke or static method call).
func invokedAccessor(v ssa.Value) (string, bool) {
	c, ok := v.(*ssa.Call)
	if !ok {
		return "", false
	}
	n := calleeName(&c.Call)
	m := n[strings.LastIndex(n, ".")+1:]
	if isValueAccessor(m) && strings.HasPrefix(m, "Get") {
		return m, true
	}
	return "", false
}

type sigAcc struct {
	sigs     []codecSig
	getters  map[string]bool
	success  bool
	errOnly  bool
	boolEnc  map[bool]int64 // encoder: getter truth -> byte written
	boolDec  []string       // decoder: facts per path
	problems []string
	pos      token.Pos
}

func labelOf(st *absState, dtSyms map[string]bool, tb *ieTables) (string, bool) {
	for dtSym := range dtSyms {
		lo, hi := st.bounds(dtSym)
		if lo != hi {
			continue
		}
		if n, ok := tb.TypeNames[lo]; ok {
			return n, true
		}
	}
	return "", false
}

// ---------- encoder ----------

func (p *Prog) encoderSigs(tb *ieTables) (map[string]codecSig, []string) {
	out := map[string]codecSig{}
	var problems []string
	enc := p.Fn("pkg/entities.encodeInfoElementValueToBuff")
	if enc == nil || len(enc.Blocks) == 0 {
		return out, []string{"encodeInfoElementValueToBuff not found"}
	}
	var idxParam, bufParam *ssa.Parameter
	for _, prm := range enc.Params {
		if _, _, ok := intSize(prm.Type()); ok {
			idxParam = prm
		}
		if sl, ok := prm.Type().Underlying().(*types.Slice); ok {
			if b, ok := sl.Elem().Underlying().(*types.Basic); ok && b.Kind() == types.Uint8 {
				bufParam = prm
			}
		}
	}
	if idxParam == nil || bufParam == nil {
		return out, []string{"encoder: buffer / index parameters not found"}
	}
	acc := map[string]*sigAcc{}
	dtSyms := map[string]bool{}
	// "the value stored here on this path": the phi environment is keyed by *ssa.Phi, so a private phi object per store
	// stands for it (local to this call: nothing of the program may be retained after the analysis of one variant)
	litPhis := map[*ssa.Store]*ssa.Phi{}
	litPhi := func(s *ssa.Store) *ssa.Phi {
		if p, ok := litPhis[s]; ok {
			return p
		}
		p := &ssa.Phi{}
		litPhis[s] = p
		return p
	}
	w := &absWalker{MaxPaths: 20000}
	off := func(st *absState, v ssa.Value) (int64, bool) {
		l := st.linear(v)
		if l.Sym == st.key(idxParam) {
			return l.K, true
		}
		return 0, false
	}
	isBuf := func(st *absState, v ssa.Value) bool { return st.resolve(v) == ssa.Value(bufParam) }
	w.OnInstr = func(st *absState, in ssa.Instruction) {
		switch x := in.(type) {
		case *ssa.Call:
			n := calleeName(&x.Call)
			m := n[strings.LastIndex(n, ".")+1:]
			if m == "GetDataType" {
				dtSyms[st.key(x)] = true
			}
			if isValueAccessor(m) && x.Call.IsInvoke() {
				st.Events = append(st.Events, absEvent{Kind: "getter:" + m, In: in})
			}
			if wd, order, ok := binaryOrderWidth(n, true); ok && len(x.Call.Args) == 3 {
				sl, ok := st.resolve(x.Call.Args[1]).(*ssa.Slice)
				if !ok || !isBuf(st, sl.X) {
					return
				}
				k := int64(0)
				if sl.Low != nil {
					var ok2 bool
					if k, ok2 = off(st, sl.Low); !ok2 {
						return
					}
				}
				conv, inner := peelChain(st, x.Call.Args[2])
				if g, ok := invokedAccessor(inner); ok && k == 0 {
					st.Events = append(st.Events, absEvent{Kind: fmt.Sprintf("fixed|%d|%s|%s|%s", wd, order, conv, g), In: in})
				}
			}
			if b, ok := x.Call.Value.(*ssa.Builtin); ok && b.Name() == "copy" {
				dst, ok := st.resolve(x.Call.Args[0]).(*ssa.Slice)
				if !ok || !isBuf(st, dst.X) {
					return
				}
				k := int64(0)
				if dst.Low != nil {
					var ok2 bool
					if k, ok2 = off(st, dst.Low); !ok2 {
						return
					}
				}
				if k != 0 {
					return // payload behind a length prefix: the prefix scheme rule
				}
				src := st.resolve(stripStringBytes(st.resolve(x.Call.Args[1])))
				if ssl, ok := src.(*ssa.Slice); ok {
					if al, ok := st.resolve(ssl.X).(*ssa.Alloc); ok {
						// composite literal []byte{v}: the byte stored at [0] on this path
						for _, e := range st.Events {
							if e.Kind == "litstore" && e.In.(*ssa.Store).Addr.(*ssa.IndexAddr).X == ssa.Value(al) {
								st.Events = append(st.Events, absEvent{Kind: "bytewrite", In: e.In})
							}
						}
						return
					}
				}
				if g, ok := invokedAccessor(src); ok {
					st.Events = append(st.Events, absEvent{Kind: "raw||" + g, In: in})
					return
				}
				if c, ok := src.(*ssa.Call); ok {
					cn := calleeName(&c.Call)
					for _, to := range []string{"To4", "To16"} {
						if cn == "(net.IP)."+to && len(c.Call.Args) == 1 {
							if g, ok := invokedAccessor(st.resolve(c.Call.Args[0])); ok {
								st.Events = append(st.Events, absEvent{Kind: "raw|" + to + "|" + g + "|" + st.key(c), In: in})
							}
						}
					}
				}
			}
		case *ssa.UnOp:
			if tn, fn, _, ok := loadedField(x); ok && x.Op == token.MUL && tn == "pkg/entities.InfoElement" && fn == "DataType" {
				dtSyms[st.key(x)] = true
			}
		case *ssa.Store:
			ia, ok := x.Addr.(*ssa.IndexAddr)
			if !ok {
				return
			}
			base := st.resolve(ia.X)
			if _, ok := base.(*ssa.Alloc); ok {
				if c, ok := constInt(ia.Index); ok && c == 0 {
					// remember the value as resolved on this path
					st.Events = append(st.Events, absEvent{Kind: "litstore", In: in})
					st.env[litPhi(x)] = st.resolveRaw(x.Val)
				}
				return
			}
			if isBuf(st, base) {
				if k, ok := off(st, ia.Index); ok && k == 0 {
					st.env[litPhi(x)] = st.resolveRaw(x.Val)
					st.Events = append(st.Events, absEvent{Kind: "bytewrite", In: in})
				}
			}
		}
	}
	w.OnEnd = func(st *absState, last ssa.Instruction) {
		rt, ok := last.(*ssa.Return)
		if !ok || len(rt.Results) != 1 {
			return
		}
		label, ok := labelOf(st, dtSyms, tb)
		if !ok {
			return
		}
		a := acc[label]
		if a == nil {
			a = &sigAcc{getters: map[string]bool{}, boolEnc: map[bool]int64{}, errOnly: true, pos: rt.Pos()}
			acc[label] = a
		}
		var getters []string
		for _, e := range st.Events {
			if strings.HasPrefix(e.Kind, "getter:") {
				g := strings.TrimPrefix(e.Kind, "getter:")
				a.getters[g] = true
				getters = append(getters, g)
			}
		}
		isNil, known := st.nilness(rt.Results[0])
		if !known || !isNil {
			return
		}
		a.errOnly = false
		sig := codecSig{Form: "unknown", Pos: rt.Pos()}
		for _, e := range st.Events {
			if e.In != nil && e.In.Pos().IsValid() && sig.Pos == rt.Pos() {
				sig.Pos = e.In.Pos()
			}
			parts := strings.Split(e.Kind, "|")
			switch parts[0] {
			case "fixed":
				if sig.Form == "unknown" {
					fmt.Sscanf(parts[1], "%d", &sig.Width)
					sig.Order, sig.Conv, sig.Access, sig.Form = parts[2], parts[3], parts[4], "fixed"
				}
			case "raw":
				if sig.Form == "unknown" {
					sig.Form, sig.Extra, sig.Access = "raw", parts[1], parts[2]
					if parts[1] == "To4" {
						sig.Width = 4
					}
					if parts[1] == "To16" {
						sig.Width = 16
					}
					// the only value-dependent test on the way to the copy is the nil test of the converted address: any
					// other nil test (a second conversion that must fail / succeed) narrows the set of encodable values
					if len(parts) > 3 {
						var extra []string
						for k := range st.bools {
							if strings.HasPrefix(k, "nil:") && k != "nil:"+parts[3] {
								extra = append(extra, k)
							}
						}
						if len(extra) > 0 {
							sort.Strings(extra)
							sig.Extra += "+also-tested:" + strings.Join(extra, ",")
						}
					}
				}
			case "bytewrite":
				if sig.Form != "unknown" {
					break
				}
				sto := e.In.(*ssa.Store)
				val := st.env[litPhi(sto)]
				conv, inner := peelChain(st, val)
				if g, ok := invokedAccessor(inner); ok {
					sig.Form, sig.Width, sig.Conv, sig.Access = "byte", 1, conv, g
				} else if c, ok := constInt(inner); ok {
					// a constant byte chosen by a boolean accessor
					for _, g := range st.Events {
						if !strings.HasPrefix(g.Kind, "getter:") {
							continue
						}
						if truth, ok := st.bools[st.key(g.In.(*ssa.Call))]; ok {
							sig.Form, sig.Width, sig.Access = "boolean", 1, strings.TrimPrefix(g.Kind, "getter:")
							if old, seen := a.boolEnc[truth]; seen && old != c {
								a.problems = append(a.problems, fmt.Sprintf("encoder case %s writes both %d and %d for %v", label, old, c, truth))
							}
							a.boolEnc[truth] = c
						}
					}
				}
			}
		}
		if sig.Access == "" && len(getters) > 0 {
			sig.Access = getters[0]
		}
		a.sigs = append(a.sigs, sig)
	}
	w.walk(newAbsState(), enc.Blocks[0], 0)
	if w.Overflow || w.Looped {
		return out, []string{"the encoder is not a loop-free decision on the data type"}
	}
	var labels []string
	for l := range acc {
		labels = append(labels, l)
	}
	sort.Strings(labels)
	for _, l := range labels {
		a := acc[l]
		problems = append(problems, a.problems...)
		var gs []string
		for g := range a.getters {
			gs = append(gs, g)
		}
		sort.Strings(gs)
		if len(gs) > 1 {
			problems = append(problems, fmt.Sprintf("encoder case [%s] uses two getters %s and %s", l, gs[0], gs[1]))
		}
		if a.errOnly {
			s := codecSig{Form: "unknown", Pos: a.pos}
			if len(gs) == 0 {
				s.Form = "error"
			} else {
				s.Access = gs[0]
			}
			out[l] = s
			continue
		}
		// all successful paths of one label must agree (the prefix forms of string / octet array are one form here)
		var merged *codecSig
		for i := range a.sigs {
			s := a.sigs[i]
			if s.Access == "GetStringValue" {
				s = codecSig{Form: "string", Access: s.Access, Pos: s.Pos}
			}
			if s.Access == "GetOctetArrayValue" {
				s = codecSig{Form: "octets", Access: s.Access, Pos: s.Pos}
			}
			if s.Form == "boolean" {
				t, okT := a.boolEnc[true]
				f, okF := a.boolEnc[false]
				ts, fs := "?", "?"
				if okT {
					ts = fmt.Sprint(t)
				}
				if okF {
					fs = fmt.Sprint(f)
				}
				s.Extra = fmt.Sprintf("true=%s,false=%s", ts, fs)
			}
			if merged == nil {
				merged = &s
				continue
			}
			m := *merged
			m.Pos, s.Pos = 0, 0
			if m != s {
				problems = append(problems, fmt.Sprintf("encoder case [%s] writes %s on one path and %s on another", l, m.String(), s.String()))
			}
		}
		if merged != nil {
			out[l] = *merged
		}
	}
	return out, problems
}

// ---------- decoder ----------

func (p *Prog) decoderSigs(tb *ieTables) (map[string]codecSig, []string) {
	out := map[string]codecSig{}
	var problems []string
	dec := p.Fn("pkg/entities.DecodeAndCreateInfoElementWithValue")
	if dec == nil || len(dec.Blocks) == 0 {
		return out, []string{"DecodeAndCreateInfoElementWithValue not found"}
	}
	var valParam *ssa.Parameter
	for _, prm := range dec.Params {
		if sl, ok := prm.Type().Underlying().(*types.Slice); ok {
			if b, ok := sl.Elem().Underlying().(*types.Basic); ok && b.Kind() == types.Uint8 {
				valParam = prm
			}
		}
	}
	if valParam == nil {
		return out, []string{"decoder: value parameter not found"}
	}
	dtSyms := map[string]bool{}
	acc := map[string]*sigAcc{}
	isVal := func(st *absState, v ssa.Value) bool {
		v = st.resolve(v)
		if v == ssa.Value(valParam) {
			return true
		}
		if sl, ok := v.(*ssa.Slice); ok && st.resolve(sl.X) == ssa.Value(valParam) {
			if sl.Low == nil {
				return true
			}
			if c, ok := constInt(sl.Low); ok && c == 0 {
				return true
			}
		}
		return false
	}
	byte0 := func(st *absState, v ssa.Value) bool {
		u, ok := st.resolve(v).(*ssa.UnOp)
		if !ok || u.Op != token.MUL {
			return false
		}
		ia, ok := st.resolve(u.X).(*ssa.IndexAddr)
		if !ok || !isVal(st, ia.X) {
			return false
		}
		c, ok := constInt(ia.Index)
		return ok && c == 0
	}
	w := &absWalker{MaxPaths: 20000}
	w.OnInstr = func(st *absState, in ssa.Instruction) {
		if u, ok := in.(*ssa.UnOp); ok && u.Op == token.MUL {
			if tn, fn, _, ok := loadedField(u); ok && tn == "pkg/entities.InfoElement" && fn == "DataType" {
				dtSyms[st.key(u)] = true
			}
		}
	}
	w.OnEnd = func(st *absState, last ssa.Instruction) {
		rt, ok := last.(*ssa.Return)
		if !ok || len(rt.Results) != 2 {
			return
		}
		label, ok := labelOf(st, dtSyms, tb)
		if !ok {
			return
		}
		a := acc[label]
		if a == nil {
			a = &sigAcc{getters: map[string]bool{}, errOnly: true, pos: rt.Pos()}
			acc[label] = a
		}
		isNil, known := st.nilness(rt.Results[1])
		if !known || !isNil {
			return
		}
		res := st.resolveRaw(rt.Results[0])
		if mi, ok := res.(*ssa.MakeInterface); ok {
			res = st.resolveRaw(mi.X)
		}
		c, ok := res.(*ssa.Call)
		if !ok || c.Call.StaticCallee() == nil {
			a.errOnly = false
			a.sigs = append(a.sigs, codecSig{Form: "unknown", Pos: rt.Pos()})
			return
		}
		ctor := c.Call.StaticCallee().Name()
		if !(strings.HasPrefix(ctor, "New") && strings.HasSuffix(ctor, "InfoElement")) || len(c.Call.Args) < 2 {
			a.errOnly = false
			a.sigs = append(a.sigs, codecSig{Form: "unknown", Pos: c.Pos()})
			return
		}
		a.errOnly = false
		a.getters[ctor] = true
		sig := codecSig{Form: "unknown", Access: ctor, Pos: c.Pos()}
		arg := c.Call.Args[1]
		if valNil, ok := st.bools["nil:"+st.key(valParam)]; ok && valNil {
			// the value is absent: the constructor must get the zero value
			// conversions and Float*frombits of zero are zero
			_, r := peelChain(st, arg)
			r = st.resolve(r)
			zero := false
			if k, ok := r.(*ssa.Const); ok {
				zero = k.Value == nil || k.Value.ExactString() == "0" || k.Value.ExactString() == "false" || k.Value.ExactString() == `""`
			}
			if !zero {
				a.problems = append(a.problems, fmt.Sprintf("decoder case [%s]: an absent value does not decode to the zero value", label))
			}
			return
		}
		conv, inner := peelChain(st, arg)
		inner = st.resolve(inner)
		switch x := inner.(type) {
		case *ssa.Call:
			n := calleeName(&x.Call)
			if wd, order, ok := binaryOrderWidth(n, false); ok && len(x.Call.Args) == 2 && isVal(st, x.Call.Args[1]) {
				sig.Form, sig.Width, sig.Order, sig.Conv = "fixed", wd, order, conv
			}
			if b, ok := x.Call.Value.(*ssa.Builtin); ok && b.Name() == "append" && len(x.Call.Args) == 2 && isVal(st, x.Call.Args[1]) {
				sig.Form = "raw"
			}
		case *ssa.UnOp:
			if byte0(st, x) {
				sig.Form, sig.Width, sig.Conv = "byte", 1, conv
			}
		case *ssa.BinOp:
			if x.Op == token.EQL || x.Op == token.NEQ {
				for _, pr := range [][2]ssa.Value{{x.X, x.Y}, {x.Y, x.X}} {
					cv, in2 := peelChain(st, pr[0])
					if k, ok := constInt(st.resolve(pr[1])); ok && byte0(st, in2) {
						sig.Form, sig.Width, sig.Conv = "boolean", 1, cv
						if x.Op == token.EQL {
							a.boolDec = append(a.boolDec, fmt.Sprintf("expr:true=%d", k))
						} else {
							a.boolDec = append(a.boolDec, fmt.Sprintf("expr:false=%d", k))
						}
					}
				}
			}
		case *ssa.Const:
			// a boolean constant chosen by a test of the first byte on this path
			if b, ok := x.Type().Underlying().(*types.Basic); ok && b.Info()&types.IsBoolean != 0 && x.Value != nil {
				truth := x.Value.ExactString() == "true"
				for sym := range symsOfByte0(st, byte0) {
					lo, hi := st.bounds(sym.sym)
					if lo == hi {
						sig.Form, sig.Width, sig.Conv = "boolean", 1, sym.conv
						a.boolDec = append(a.boolDec, fmt.Sprintf("const:%v when byte==%d", truth, lo))
					} else {
						for _, rel := range st.rels {
							var k int64
							if strings.HasPrefix(rel, sym.sym+"!=") {
								if _, err := fmt.Sscanf(strings.TrimPrefix(rel, sym.sym+"!="), "%d", &k); err == nil {
									sig.Form, sig.Width, sig.Conv = "boolean", 1, sym.conv
									a.boolDec = append(a.boolDec, fmt.Sprintf("const:%v when byte!=%d", truth, k))
								}
							}
						}
					}
				}
			}
		}
		if cvt, ok := st.resolve(arg).(*ssa.Convert); ok && isVal(st, cvt.X) {
			if b, ok := cvt.Type().Underlying().(*types.Basic); ok && b.Kind() == types.String {
				sig.Form, sig.Conv = "string", ""
			}
		}
		a.sigs = append(a.sigs, sig)
	}
	w.walk(newAbsState(), dec.Blocks[0], 0)
	if w.Overflow || w.Looped {
		return out, []string{"the decoder is not a loop-free decision on the data type"}
	}
	var labels []string
	for l := range acc {
		labels = append(labels, l)
	}
	sort.Strings(labels)
	for _, l := range labels {
		a := acc[l]
		problems = append(problems, a.problems...)
		if a.errOnly {
			out[l] = codecSig{Form: "error", Pos: a.pos}
			continue
		}
		var gs []string
		for g := range a.getters {
			gs = append(gs, g)
		}
		sort.Strings(gs)
		if len(gs) > 1 {
			problems = append(problems, fmt.Sprintf("decoder case [%s] uses two constructors %s and %s", l, gs[0], gs[1]))
		}
		var merged *codecSig
		for i := range a.sigs {
			s := a.sigs[i]
			if s.Access == "NewOctetArrayInfoElement" {
				s = codecSig{Form: "octets", Access: s.Access, Pos: s.Pos}
			}
			if s.Form == "boolean" {
				s.Extra = boolDecExtra(a.boolDec)
				if s.Conv == "int8" {
					s.Conv = "" // the sign of the byte does not matter for a comparison with 1
				}
			}
			if merged == nil {
				merged = &s
				continue
			}
			m := *merged
			m.Pos, s.Pos = 0, 0
			if m != s {
				problems = append(problems, fmt.Sprintf("decoder case [%s] builds %s on one path and %s on another", l, m.String(), s.String()))
			}
		}
		if merged != nil {
			out[l] = *merged
		} else {
			out[l] = codecSig{Form: "unknown", Pos: a.pos, Access: strings.Join(gs, ",")}
		}
	}
	return out, problems
}

type byteSym struct{ sym, conv string }

// symsOfByte0 lists the symbols of this path that stand for value[0] (directly or through a conversion) and carry a
// bound or a disequality.
func symsOfByte0(st *absState, byte0 func(*absState, ssa.Value) bool) map[byteSym]bool {
	out := map[byteSym]bool{}
	for _, b := range st.Blocks {
		for _, in := range b.Instrs {
			v, ok := in.(ssa.Value)
			if !ok {
				continue
			}
			conv, inner := peelChain(st, v)
			if byte0(st, inner) {
				l := st.linear(v)
				if l.Sym != "" && l.K == 0 {
					_, okLo := st.lo[l.Sym]
					_, okHi := st.hi[l.Sym]
					hasRel := false
					for _, r := range st.rels {
						if strings.HasPrefix(r, l.Sym+"!=") {
							hasRel = true
						}
					}
					if okLo || okHi || hasRel {
						out[byteSym{l.Sym, conv}] = true
					}
				}
			}
		}
	}
	return out
}

// boolDecExtra summarises the boolean decoder: "true=1,eq=>true,else=>false" when the value is true exactly for the
// byte 1.
func boolDecExtra(facts []string) string {
	set := map[string]bool{}
	for _, f := range facts {
		set[f] = true
	}
	var ks []string
	for k := range set {
		ks = append(ks, k)
	}
	sort.Strings(ks)
	switch strings.Join(ks, ";") {
	case "expr:true=1", "const:false when byte!=1;const:true when byte==1":
		return "true=1,eq=>true,else=>false"
	}
	return strings.Join(ks, ";")
}
