package main

// Path-sensitive abstract interpretation of loop-free regions of one function (no solver: integer quantities are kept as
// "symbol + constant" with per-path lower/upper bounds collected from the branch conditions, from index expressions
// (an index that was used is >= 0) and from builtins (len/cap >= 0); phis are resolved by the edge the path took).
// It exists for rules whose subject is a small decision table (the variable-length prefix scheme, the correlation
// table): whichever way the table is spelled - if/else chain, switch, early returns, a helper spliced back by the
// normaliser, swapped operands, sentinel results tested afterwards - the set of (input interval, effects) pairs is the
// same, and that set is what the rule compares with the specification.

import (
	"fmt"
	"go/constant"
	"go/token"
	"go/types"
	"math"

	"golang.org/x/tools/go/ssa"
)

const absInf = math.MaxInt64 / 4

type linForm struct {
	Sym  string    // "" for a constant
	SymV ssa.Value // a representative of the symbol
	K    int64
}

type absState struct {
	env    map[*ssa.Phi]ssa.Value
	lo, hi map[string]int64
	bools  map[string]bool          // truth of opaque conditions already decided on this path
	rels   []string                 // relational facts between two symbols, as text "a<b"
	epoch  map[string]int           // stores seen per address key (loads of a location are the same value only between stores)
	mem    map[*ssa.Alloc]ssa.Value // last value stored into a local cell on this path (defer-spilled results, address-taken locals)
	Blocks []*ssa.BasicBlock
	Events []absEvent
	Conds  []absCond // every branch taken on this path, in order
}

// absCond: the condition of an If and the successor the path took.
type absCond struct {
	If   *ssa.If
	Succ int
}

type absEvent struct {
	Kind string
	Off  int64
	Val  int64
	In   ssa.Instruction
}

func newAbsState() *absState {
	return &absState{env: map[*ssa.Phi]ssa.Value{}, lo: map[string]int64{}, hi: map[string]int64{}, bools: map[string]bool{}, epoch: map[string]int{}, mem: map[*ssa.Alloc]ssa.Value{}}
}

func (s *absState) clone() *absState {
	n := newAbsState()
	for k, v := range s.env {
		n.env[k] = v
	}
	for k, v := range s.lo {
		n.lo[k] = v
	}
	for k, v := range s.hi {
		n.hi[k] = v
	}
	for k, v := range s.bools {
		n.bools[k] = v
	}
	for k, v := range s.epoch {
		n.epoch[k] = v
	}
	for k, v := range s.mem {
		n.mem[k] = v
	}
	n.rels = append([]string(nil), s.rels...)
	n.Blocks = append([]*ssa.BasicBlock(nil), s.Blocks...)
	n.Events = append([]absEvent(nil), s.Events...)
	n.Conds = append([]absCond(nil), s.Conds...)
	return n
}

// resolve follows phis along the path taken and value-preserving wrappers.
func (s *absState) resolve(v ssa.Value) ssa.Value {
	for i := 0; i < 32; i++ {
		v = stripChange(v)
		if u, ok := v.(*ssa.UnOp); ok && u.Op == token.MUL {
			if al, ok := u.X.(*ssa.Alloc); ok {
				if mv, ok := s.mem[al]; ok {
					v = mv
					continue
				}
			}
			return v
		}
		ph, ok := v.(*ssa.Phi)
		if !ok {
			return v
		}
		e, ok := s.env[ph]
		if !ok {
			return v
		}
		v = e
	}
	return v
}

func intSize(t types.Type) (int, bool, bool) {
	b, ok := t.Underlying().(*types.Basic)
	if !ok || b.Info()&types.IsInteger == 0 {
		return 0, false, false
	}
	unsigned := b.Info()&types.IsUnsigned != 0
	switch b.Kind() {
	case types.Int8, types.Uint8:
		return 1, unsigned, true
	case types.Int16, types.Uint16:
		return 2, unsigned, true
	case types.Int32, types.Uint32:
		return 4, unsigned, true
	default:
		return 8, unsigned, true
	}
}

// wideningConv: an integer conversion that preserves the number (same or larger size; a change of signedness only when
// the destination is strictly larger and the source unsigned, or both have the same signedness).
func wideningConv(x *ssa.Convert) bool {
	ds, du, ok := intSize(x.Type())
	if !ok {
		return false
	}
	ss, su, ok := intSize(x.X.Type())
	if !ok {
		return false
	}
	if du == su {
		return ds >= ss
	}
	return su && ds > ss
}

// key is a structural name of a value: two values with the same key are equal on this path.
func (s *absState) key(v ssa.Value) string { return s.keyD(v, 0) }

func (s *absState) keyD(v ssa.Value, d int) string {
	v = s.resolve(v)
	if v == nil {
		return "<nil>"
	}
	if d > 8 {
		return v.Name()
	}
	switch x := v.(type) {
	case *ssa.Const:
		if x.Value == nil {
			return "const:nil"
		}
		return "const:" + x.Value.ExactString()
	case *ssa.Call:
		if b, ok := x.Call.Value.(*ssa.Builtin); ok && (b.Name() == "len" || b.Name() == "cap") && len(x.Call.Args) == 1 {
			return b.Name() + "(" + s.keyD(x.Call.Args[0], d+1) + ")"
		}
	case *ssa.UnOp:
		if x.Op == token.MUL {
			ak := s.addrKey(x.X, d+1)
			return fmt.Sprintf("*%s#%d", ak, s.epoch[ak])
		}
		return x.Op.String() + s.keyD(x.X, d+1)
	case *ssa.Field:
		return s.keyD(x.X, d+1) + fmt.Sprintf(".%d", x.Field)
	case *ssa.Convert:
		if wideningConv(x) {
			return s.keyD(x.X, d+1) // widening: same number
		}
		return "conv<" + x.Type().String() + ">(" + s.keyD(x.X, d+1) + ")"
	case *ssa.Parameter:
		return "param:" + x.Name()
	case *ssa.Global:
		return "global:" + x.String()
	case *ssa.FreeVar:
		return "free:" + x.Name()
	case *ssa.FieldAddr, *ssa.IndexAddr:
		return "&" + s.addrKey(v, d+1)
	}
	return v.Name()
}

func (s *absState) addrKey(a ssa.Value, d int) string {
	a = s.resolve(a)
	switch x := a.(type) {
	case *ssa.FieldAddr:
		return s.keyD(x.X, d+1) + fmt.Sprintf("->%d", x.Field)
	case *ssa.IndexAddr:
		return s.keyD(x.X, d+1) + "[" + s.keyD(x.Index, d+1) + "]"
	case *ssa.Global:
		return "global:" + x.String()
	}
	return s.keyD(a, d+1)
}

// linear reads v as symbol + constant.
func (s *absState) linear(v ssa.Value) linForm { return s.linearD(v, 0) }

func (s *absState) linearD(v ssa.Value, d int) linForm {
	v = s.resolve(v)
	if c, ok := v.(*ssa.Const); ok && c.Value != nil && c.Value.Kind() == constant.Int {
		if i, ok := constant.Int64Val(c.Value); ok {
			return linForm{K: i}
		}
	}
	if d < 8 {
		switch x := v.(type) {
		case *ssa.Convert:
			if ds, _, ok := intSize(x.Type()); ok {
				if wideningConv(x) {
					return s.linearD(x.X, d+1)
				}
				// a narrowing conversion of a constant is the constant when it fits
				if l := s.linearD(x.X, d+1); l.Sym == "" && l.K >= 0 && l.K < 1<<(8*uint(ds)-1) {
					return l
				}
			}
		case *ssa.BinOp:
			if x.Op == token.ADD || x.Op == token.SUB {
				a, b := s.linearD(x.X, d+1), s.linearD(x.Y, d+1)
				if x.Op == token.ADD {
					if b.Sym == "" {
						return linForm{a.Sym, a.SymV, a.K + b.K}
					}
					if a.Sym == "" {
						return linForm{b.Sym, b.SymV, a.K + b.K}
					}
				} else if b.Sym == "" {
					return linForm{a.Sym, a.SymV, a.K - b.K}
				}
			}
		}
	}
	return linForm{Sym: s.key(v), SymV: v}
}

func (s *absState) bounds(sym string) (int64, int64) {
	lo, ok := s.lo[sym]
	if !ok {
		lo = -absInf
	}
	hi, ok := s.hi[sym]
	if !ok {
		hi = absInf
	}
	return lo, hi
}

func (s *absState) boundsOf(l linForm) (int64, int64) {
	if l.Sym == "" {
		return l.K, l.K
	}
	lo, hi := s.bounds(l.Sym)
	if l.SymV != nil {
		if c, ok := s.resolve(l.SymV).(*ssa.Call); ok {
			if b, ok := c.Call.Value.(*ssa.Builtin); ok && (b.Name() == "len" || b.Name() == "cap") && lo < 0 {
				lo = 0
			}
		}
		if _, uns, ok := intSize(l.SymV.Type()); ok && uns && lo < 0 {
			lo = 0
		}
	}
	if lo > -absInf {
		lo += l.K
	}
	if hi < absInf {
		hi += l.K
	}
	return lo, hi
}

func (s *absState) assume(sym string, op token.Token, c int64) bool {
	lo, hi := s.bounds(sym)
	switch op {
	case token.LSS:
		if c-1 < hi {
			hi = c - 1
		}
	case token.LEQ:
		if c < hi {
			hi = c
		}
	case token.GTR:
		if c+1 > lo {
			lo = c + 1
		}
	case token.GEQ:
		if c > lo {
			lo = c
		}
	case token.EQL:
		if c > lo {
			lo = c
		}
		if c < hi {
			hi = c
		}
	case token.NEQ:
		if lo == c {
			lo = c + 1
		}
		if hi == c {
			hi = c - 1
		}
		s.rels = append(s.rels, fmt.Sprintf("%s!=%d", sym, c))
	}
	if lo > -absInf {
		s.lo[sym] = lo
	}
	if hi < absInf {
		s.hi[sym] = hi
	}
	return lo <= hi
}

// evalRel decides "a op b" from the bounds when it can: 1 true, 0 false, -1 unknown.
func (s *absState) evalRel(a linForm, op token.Token, b linForm) int {
	if a.Sym != "" && a.Sym == b.Sym {
		a, b = linForm{K: a.K}, linForm{K: b.K}
	}
	alo, ahi := s.boundsOf(a)
	blo, bhi := s.boundsOf(b)
	switch op {
	case token.LSS:
		if ahi < blo {
			return 1
		}
		if alo >= bhi {
			return 0
		}
	case token.LEQ:
		if ahi <= blo {
			return 1
		}
		if alo > bhi {
			return 0
		}
	case token.GTR:
		return s.evalRel(b, token.LSS, a)
	case token.GEQ:
		return s.evalRel(b, token.LEQ, a)
	case token.EQL:
		if alo == ahi && blo == bhi && alo == blo {
			return 1
		}
		if ahi < blo || bhi < alo {
			return 0
		}
	case token.NEQ:
		switch s.evalRel(a, token.EQL, b) {
		case 1:
			return 0
		case 0:
			return 1
		}
	}
	return -1
}

func isNilConst(v ssa.Value) bool {
	c, ok := v.(*ssa.Const)
	return ok && c.Value == nil
}

// definitelyNonNil: values that cannot be nil (fresh objects, boxed non-pointer values).
func definitelyNonNil(v ssa.Value) bool {
	switch x := v.(type) {
	case *ssa.MakeInterface, *ssa.Alloc, *ssa.MakeSlice, *ssa.MakeMap, *ssa.MakeChan, *ssa.MakeClosure, *ssa.Function:
		return true
	case *ssa.Call:
		n := calleeName(&x.Call)
		return n == "fmt.Errorf" || n == "errors.New"
	case *ssa.UnOp:
		return isSentinelError(x)
	}
	return false
}

// branch evaluates the condition of an If on this path: returns the successors to follow with the state to use for
// each (bounds refined by the branch taken).
func (s *absState) branch(cond ssa.Value) (t, f *absState) {
	pol := true
	c := s.resolve(cond)
	for {
		u, ok := c.(*ssa.UnOp)
		if !ok || u.Op != token.NOT {
			break
		}
		c = s.resolve(u.X)
		pol = !pol
	}
	ret := func(a, b *absState) (*absState, *absState) {
		if pol {
			return a, b
		}
		return b, a
	}
	if k, ok := c.(*ssa.Const); ok && k.Value != nil && k.Value.Kind() == constant.Bool {
		if constant.BoolVal(k.Value) {
			return ret(s, nil)
		}
		return ret(nil, s)
	}
	if b, ok := c.(*ssa.BinOp); ok {
		switch b.Op {
		case token.LSS, token.LEQ, token.GTR, token.GEQ, token.EQL, token.NEQ:
			x, y := s.resolveRaw(b.X), s.resolveRaw(b.Y)
			// nil comparisons
			if (b.Op == token.EQL || b.Op == token.NEQ) && (isNilConst(stripNilSide(x)) || isNilConst(stripNilSide(y))) {
				other := x
				if isNilConst(stripNilSide(x)) {
					other = y
				}
				known, isNil := false, false
				if isNilConst(stripNilSide(other)) {
					known, isNil = true, true
				} else if definitelyNonNil(other) {
					known, isNil = true, false
				}
				nk := "nil:" + s.key(other)
				if v, ok := s.bools[nk]; ok && !known {
					known, isNil = true, v
				}
				if known {
					if isNil == (b.Op == token.EQL) {
						return ret(s, nil)
					}
					return ret(nil, s)
				}
				ts, fs := s.clone(), s.clone()
				ts.bools[nk] = b.Op == token.EQL
				fs.bools[nk] = b.Op != token.EQL
				return ret(ts, fs)
			}
			if _, _, isInt := intSize(b.X.Type()); isInt {
				lx, ly := s.linear(b.X), s.linear(b.Y)
				switch s.evalRel(lx, b.Op, ly) {
				case 1:
					return ret(s, nil)
				case 0:
					return ret(nil, s)
				}
				ts, fs := s.clone(), s.clone()
				okT := ts.assumeRel(lx, b.Op, ly)
				okF := fs.assumeRel(lx, negateOp(b.Op), ly)
				if !okT {
					ts = nil
				}
				if !okF {
					fs = nil
				}
				return ret(ts, fs)
			}
		}
	}
	// opaque condition: remember its truth so that a second test of the same condition follows the same way
	k := s.key(c)
	if v, ok := s.bools[k]; ok {
		if v {
			return ret(s, nil)
		}
		return ret(nil, s)
	}
	ts, fs := s.clone(), s.clone()
	ts.bools[k] = true
	fs.bools[k] = false
	return ret(ts, fs)
}

func (s *absState) resolveRaw(v ssa.Value) ssa.Value {
	for i := 0; i < 32; i++ {
		switch x := v.(type) {
		case *ssa.UnOp:
			if al, ok := x.X.(*ssa.Alloc); ok && x.Op == token.MUL {
				if mv, ok := s.mem[al]; ok {
					v = mv
					continue
				}
			}
			return v
		case *ssa.Phi:
			e, ok := s.env[x]
			if !ok {
				return v
			}
			v = e
		case *ssa.ChangeType:
			v = x.X
		case *ssa.ChangeInterface:
			v = x.X
		default:
			return v
		}
	}
	return v
}

func stripNilSide(v ssa.Value) ssa.Value { return v }

func (s *absState) assumeRel(a linForm, op token.Token, b linForm) bool {
	switch {
	case a.Sym != "" && b.Sym == "":
		return s.assume(a.Sym, op, b.K-a.K)
	case a.Sym == "" && b.Sym != "":
		return s.assume(b.Sym, flipOp(op), a.K-b.K)
	case a.Sym != "" && b.Sym != "":
		s.rels = append(s.rels, fmt.Sprintf("%s%+d %s %s%+d", a.Sym, a.K, op, b.Sym, b.K))
	}
	return true
}

// absWalk enumerates the paths that start at instruction index start of block b and end at a Return / Panic / block
// without successors; every block is entered at most once per path (a path that would re-enter a block is reported to
// onLoop and abandoned). onInstr sees each instruction in path order; onEnd sees the final state and last instruction.
type absWalker struct {
	MaxPaths int
	MaxSteps int // blocks entered over the whole enumeration (default 400000): bounds the work on functions with loops
	Steps    int
	Paths    int
	Overflow bool
	Looped   bool
	OnInstr  func(s *absState, in ssa.Instruction)
	OnEnd    func(s *absState, last ssa.Instruction)
	Stop     func(in ssa.Instruction) bool // optional: treat this instruction as the end of the region
	LoopHead *ssa.BasicBlock               // optional: a path that (re-)enters this block ends there (one iteration of a loop body)
}

func (w *absWalker) walk(s *absState, b *ssa.BasicBlock, start int) {
	if w.Overflow {
		return
	}
	w.Steps++
	max := w.MaxSteps
	if max == 0 {
		max = 400000
	}
	if w.Steps > max {
		w.Overflow = true
		return
	}
	s.Blocks = append(s.Blocks, b)
	for i := start; i < len(b.Instrs); i++ {
		in := b.Instrs[i]
		if _, ok := in.(*ssa.Phi); ok {
			continue
		}
		if w.Stop != nil && w.Stop(in) {
			w.end(s, in)
			return
		}
		switch x := in.(type) {
		case *ssa.Store:
			ak := s.addrKey(x.Addr, 0)
			s.epoch[ak]++
			if al, ok := x.Addr.(*ssa.Alloc); ok {
				s.mem[al] = s.resolveRaw(x.Val)
			}
		case *ssa.IndexAddr:
			// the index was in range, or the path ended in a panic: index >= 0
			if l := s.linear(x.Index); l.Sym != "" {
				s.assume(l.Sym, token.GEQ, -l.K)
			}
		case *ssa.Index:
			if l := s.linear(x.Index); l.Sym != "" {
				s.assume(l.Sym, token.GEQ, -l.K)
			}
		case *ssa.Slice:
			if x.Low != nil {
				if l := s.linear(x.Low); l.Sym != "" {
					s.assume(l.Sym, token.GEQ, -l.K)
				}
			}
		}
		if w.OnInstr != nil {
			w.OnInstr(s, in)
		}
		switch x := in.(type) {
		case *ssa.Return, *ssa.Panic:
			w.end(s, in)
			return
		case *ssa.If:
			ts, fs := s.branch(x.Cond)
			if ts != nil && fs != nil && ts == fs {
				fs = ts.clone()
			}
			if ts != nil {
				ts.Conds = append(ts.Conds, absCond{x, 0})
				w.enter(ts, b, b.Succs[0])
			}
			if fs != nil {
				fs.Conds = append(fs.Conds, absCond{x, 1})
				w.enter(fs, b, b.Succs[1])
			}
			return
		case *ssa.Jump:
			w.enter(s, b, b.Succs[0])
			return
		}
	}
	if len(b.Succs) == 0 && len(b.Instrs) > 0 {
		w.end(s, b.Instrs[len(b.Instrs)-1])
	}
}

func (w *absWalker) end(s *absState, last ssa.Instruction) {
	w.Paths++
	if w.MaxPaths > 0 && w.Paths > w.MaxPaths {
		w.Overflow = true
		return
	}
	if w.OnEnd != nil {
		w.OnEnd(s, last)
	}
}

func (w *absWalker) enter(s *absState, from, to *ssa.BasicBlock) {
	if w.LoopHead != nil && to == w.LoopHead {
		w.end(s, from.Instrs[len(from.Instrs)-1])
		return
	}
	for _, b := range s.Blocks {
		if b == to {
			w.Looped = true
			w.Paths++
			if w.MaxPaths > 0 && w.Paths > w.MaxPaths {
				w.Overflow = true
			}
			return
		}
	}
	idx := -1
	for i, p := range to.Preds {
		if p == from {
			idx = i
			break
		}
	}
	if idx >= 0 {
		// phis are assigned in parallel: read every edge with the environment of the predecessor
		vals := map[*ssa.Phi]ssa.Value{}
		for _, in := range to.Instrs {
			ph, ok := in.(*ssa.Phi)
			if !ok {
				break
			}
			vals[ph] = s.resolveRaw(ph.Edges[idx])
		}
		for ph, v := range vals {
			s.env[ph] = v
		}
	}
	w.walk(s, to, 0)
}

// retIsNilError: on this path, is result i of the return a nil error? (known=false when it cannot be told)
func (s *absState) nilness(v ssa.Value) (isNil, known bool) {
	r := s.resolveRaw(v)
	if isNilConst(r) {
		return true, true
	}
	if definitelyNonNil(r) {
		return false, true
	}
	if b, ok := s.bools["nil:"+s.key(r)]; ok {
		return b, true
	}
	return false, false
}
