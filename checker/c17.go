package main

import (
	"fmt"
	"go/token"
	"go/types"

	"golang.org/x/tools/go/ssa"
)

func init() {
	register(&propDef{
		ID:          "C17",
		Explanation: "Sibling-agreement, value-origin and ordering rules for unknown information elements, decided on SSA: (1) in the template field reader every registry lookup (one per sibling branch: IANA / enterprise) is followed, on its miss edge, by 'decodingMode == Strict => return the error', and otherwise by the substitute NewInfoElement(\"\", id, OctetArray, enterprise, length) whose id and enterprise number are the very values passed to the lookup and whose length is the field-length wire variable of this field specifier (not the registry default, not VariableLength, not a cached element); both branches have the same shape; (2) in the data reader every bytes.Buffer.Next(n) takes n from the one length selection 'getFieldLength() if ie.Len == VariableLength else int(ie.Len)', that Next dominates the drop decision, and the drop decision is exactly decodingMode == LenientDropUnknown && ie.Name == \"\" whose taken edge skips only the append - so the bytes of an unknown field are consumed identically in all three modes and known fields keep their alignment; (3) no registry literal has an empty name (a known field can never be dropped); (4) keep mode: the octet-array case of the element decoder copies exactly the bytes it is given. Strict mode's 'the data that follows is rejected' is C04's rule (no template stored on the error path). Not decided: value equality of known fields across modes (implied by identical consumption). Later additions: field-specifier values are fresh per field; the stored field list is replaced unconditionally (a placeholder's length comes from the template); reverse-registry entries only under err == nil. Round-five additions: the decodingMode field is initialised from the defaulted value (empty input means strict). Round-six additions: no error return of decodeDataSet is decided by the number of kept elements.",
		Assume:      []string{"registry.GetInfoElementFromID returns an error exactly when the element is not registered"},
		Run:         runC17,
	})
}

func runC17(p *Prog, r *Report, tier string) {
	checkKeptCountNotDeciding(p, r, "R-MODE.kept-count")
	// (1) field reader: the closure of decodeTemplateSet that calls registry.GetInfoElementFromID
	var fr *ssa.Function
	for _, f := range p.RepoFns {
		if !keyInPkg(fnKey(f), "pkg/collector") {
			continue
		}
		if len(callsTo(f, "pkg/registry.GetInfoElementFromID")) > 0 {
			fr = f
		}
	}
	if fr == nil {
		r.Undecided("R-SIBLING.unknown", "anchor: template field reader (calls registry.GetInfoElementFromID)", "pkg/collector/process.go", "not found")
	} else {
		lookups := callsTo(fr, "pkg/registry.GetInfoElementFromID")
		// the field specifier decode: targets (elementid []byte, elementLength uint16)
		var specDecode *ssa.Call
		eachInstr(fr, func(in ssa.Instruction) {
			// identified by what it reads (2 raw id bytes and a u16), not by its position in the function
			if c, ok := in.(*ssa.Call); ok && calleeName(&c.Call) == "pkg/util.Decode" && specDecode == nil {
				if ts := decodeTargets(c); len(ts) == 2 {
					w1, _ := widthOfPtr(ts[0].Type())
					w2, _ := widthOfPtr(ts[1].Type())
					if w1 == 0 && w2 == 2 {
						specDecode = c
					}
				}
			}
		})
		// IANA and enterprise-specific elements alike are looked up: no path from the field-specifier read to the creation
		// of the template field avoids a lookup (one shared lookup after the two branches, or one per branch)
		if specDecode != nil {
			isLookup := map[ssa.Instruction]bool{}
			for _, l := range lookups {
				isLookup[l] = true
			}
			q := &pathQuery{noExit: true, discharge: func(in ssa.Instruction) bool { return isLookup[in] },
				terminal: func(in ssa.Instruction) bool {
					c, ok := in.(*ssa.Call)
					return ok && calleeName(&c.Call) == "pkg/entities.DecodeAndCreateInfoElementWithValue"
				}}
			trail, bad := q.find(specDecode)
			r.Check(!bad, "R-SIBLING.unknown", fnKey(fr)+": registry lookups", p.pos(fr.Pos()), fmt.Sprintf("%d lookup(s); every path from the field specifier to the template field passes one", len(lookups)),
				"a template field can be created without a registry lookup ("+p.describePath(fr, trail)+"): one kind of element (IANA / enterprise) is never resolved", true)
		}
		specTargets := decodeTargets(specDecode)
		// the handling of a registry miss, on the enumerated paths from each lookup to the exits of the field reader:
		// every path on which the lookup error is non-nil either knows decodingMode == Strict and returns an error, or
		// knows it is not Strict and creates the template field from the substitute
		// NewInfoElement("", lookedUpID, OctetArray, lookedUpEnterprise, wireFieldLength) - whichever way the two tests
		// (miss, mode) are nested, combined with && or written one after the other
		isStrict := func(cf cmpForm) bool {
			if cf.Op != token.EQL || !isFieldLoad(cf.X, "pkg/collector.CollectingProcess.decodingMode") {
				return false
			}
			sv, ok := constString(cf.Y)
			return ok && sv == "Strict"
		}
		for i, lin := range lookups {
			lk := lin.(*ssa.Call)
			branch := fmt.Sprintf("%s: lookup #%d", fnKey(fr), i+1)
			var errV ssa.Value
			for _, e := range extractOf(lk, 1) {
				errV = e
			}
			if errV == nil {
				r.Violation("R-SIBLING.unknown", branch+" miss handling", p.instrPos(lk), "the lookup error is not examined")
				continue
			}
			whyStrict, whySub := "", ""
			nStrict, nLenient := 0, 0
			w := &absWalker{MaxPaths: 8192}
			checkSub := func(st *absState, sub *ssa.Call) string {
				a := sub.Call.Args
				if len(a) < 5 {
					return "the substitute is not built with NewInfoElement(name, id, type, enterprise, length)"
				}
				if sv, ok := constString(a[0]); !ok || sv != "" {
					return "the substitute has a name: drop mode identifies unknown elements by the empty name"
				}
				if st.resolve(a[1]) != st.resolve(lk.Call.Args[0]) && !sameValue(a[1], lk.Call.Args[0]) {
					return "the substitute's element id is not the id that was looked up"
				}
				if v, ok := constInt(a[2]); !ok || v != 0 {
					return "the substitute's data type is not OctetArray"
				}
				if !sameCell(a[3], lk.Call.Args[1]) && st.resolve(a[3]) != st.resolve(lk.Call.Args[1]) {
					return "the substitute's enterprise number is not the one that was looked up"
				}
				if u, ok := a[4].(*ssa.UnOp); !ok || len(specTargets) != 2 || u.X != ssa.Value(specTargets[1]) {
					return "the substitute's length is not the field length read from this field specifier (registry default, VariableLength or a cached value would mis-frame the data records)"
				}
				return ""
			}
			w.OnInstr = func(st *absState, in ssa.Instruction) {
				if c, ok := in.(*ssa.Call); ok && calleeName(&c.Call) == "pkg/entities.NewInfoElement" {
					st.Events = append(st.Events, absEvent{Kind: "substitute", In: in})
				}
				if c, ok := in.(*ssa.Call); ok && calleeName(&c.Call) == "pkg/entities.DecodeAndCreateInfoElementWithValue" {
					st.Events = append(st.Events, absEvent{Kind: "create", In: in})
				}
			}
			w.OnEnd = func(st *absState, last ssa.Instruction) {
				rt, isRet := last.(*ssa.Return)
				if _, isPanic := last.(*ssa.Panic); isPanic {
					return
				}
				isNil, known := st.bools["nil:"+st.key(errV)]
				if !known || isNil {
					return // hit, or the path does not test the error (reported by R-ERR of C03)
				}
				strict := 0
				for _, cd := range st.Conds {
					for _, cf := range cmpForms(cd.If.Cond) {
						if isStrict(cf) {
							if cf.Succ == cd.Succ {
								strict = 1
							} else {
								strict = -1
							}
						}
					}
				}
				// a path that goes on to the next field (the reader spliced into the field loop) has succeeded
				errNil, errKnown := true, true
				if isRet && len(rt.Results) > 0 {
					errNil, errKnown = st.nilness(rt.Results[len(rt.Results)-1])
				}
				switch strict {
				case 1:
					nStrict++
					if !errKnown || errNil {
						whyStrict = "a path that knows the mode to be Strict does not return an error (" + p.instrPos(last) + ")"
					}
				default:
					nLenient++
					var sub, create *ssa.Call
					for _, e := range st.Events {
						if e.Kind == "substitute" {
							sub = e.In.(*ssa.Call)
						}
						if e.Kind == "create" {
							create = e.In.(*ssa.Call)
						}
					}
					if errKnown && !errNil && create == nil {
						if strict == 0 {
							whyStrict = "on a registry miss an error is returned without a test of decodingMode == Strict (" + p.instrPos(last) + ")"
						} else {
							whySub = "in a lenient mode a registry miss can still end in an error (" + p.instrPos(last) + "): the unknown element is not replaced by the placeholder on that path"
						}
						return
					}
					if strict == 0 {
						whyStrict = "on a registry miss strict mode is not tested before the field is created (test missing, inverted or not first)"
					}
					switch {
					case sub == nil:
						whySub = "the lenient edge does not build NewInfoElement(\"\", id, OctetArray, enterprise, wireLength) directly (cached / shared / other element)"
					case create == nil || st.resolve(create.Call.Args[0]) != ssa.Value(sub):
						whySub = "the substitute element is not the one the template field is created from"
					default:
						if wv := checkSub(st, sub); wv != "" {
							whySub = wv
						}
					}
				}
			}
			w.LoopHead = loopHeadOf(lk.Block())
			w.walk(newAbsState(), lk.Block(), instrIndex(lk)+1)
			if w.Overflow || (w.Looped && w.LoopHead == nil) {
				whyStrict = "the field reader is not a loop-free decision after the lookup"
			}
			if nStrict == 0 && whyStrict == "" {
				whyStrict = "on a registry miss strict mode does not return an error in this branch (test missing, inverted or not first)"
			}
			r.Check(whyStrict == "", "R-SIBLING.strict", branch+": strict mode rejects an unknown element", p.instrPos(lk), "miss && decodingMode == Strict => error return",
				"on a registry miss strict mode does not return an error in this branch (test missing, inverted or not first): "+whyStrict, true)
			if nLenient == 0 && whySub == "" {
				whySub = "no lenient path after a registry miss"
			}
			r.Check(whySub == "", "R-SIBLING.unknown", branch+": substitute for an unknown element", p.instrPos(lk), "NewInfoElement(\"\", lookedUpID, OctetArray, lookedUpEnterprise, wireFieldLength)", whySub, true)
		}
	}

	checkDecodingModeDefault(p, r, "R-MODE.default")
	checkInfoElementImmutable(p, r, "R-OWNER.info-element")
	checkSpecifierFreshness(p, r, "R-SIBLING.specifier-fresh")
	checkReverseRegistration(p, r, "R-TABLE.reverse")
	// strict mode: "the data that follows is rejected" needs the rejected template to invalidate an older one (C04's rule)
	if dts, first, dels, adds := templateDecoderAnchors(p); dts != nil {
		checkInvalidate(p, r, dts, first, dels, adds)
	}
	// the placeholder of an unknown element carries the length the TEMPLATE announced: a re-sent template must replace the
	// stored field list even when the element ids are unchanged (C04's unconditional-replacement rule)
	checkTemplateReplace(p, r)
	// keep mode: "exactly the bytes received" must stay true after the next message is read (C11's framing/alias rules)
	checkFraming(p, r)
	// (2) data reader
	dds := p.Fn("(*pkg/collector.CollectingProcess).decodeDataSet")
	if dds == nil {
		r.Undecided("R-GATE.consume", "anchor: decodeDataSet", "pkg/collector/process.go", "function not found")
		return
	}
	var nexts []*ssa.Call
	eachInstr(dds, func(in ssa.Instruction) {
		if c, ok := in.(*ssa.Call); ok && calleeName(&c.Call) == "(*bytes.Buffer).Next" {
			nexts = append(nexts, c)
		}
	})
	if len(nexts) == 0 {
		r.Undecided("R-GATE.consume", fnKey(dds)+": field consumption", p.pos(dds.Pos()), "no bytes.Buffer.Next found")
	}
	for i, nx := range nexts {
		why := ""
		ph, ok := nx.Call.Args[1].(*ssa.Phi)
		if !ok || len(ph.Edges) != 2 {
			why = "the consumed length is not the selection between the variable-length prefix and the template's fixed length"
		} else {
			varEdge, fixEdge := false, false
			for k, e := range ph.Edges {
				pred := ph.Block().Preds[k]
				isVar := false
				decided := false
				for _, fct := range append(blockFacts(pred), edgeFacts(pred, ph.Block())...) {
					if tn, fn, _, ok := loadedField(fct.X); ok && tn == "pkg/entities.InfoElement" && fn == "Len" {
						if v, ok := constInt(fct.Y); ok && v == 65535 {
							decided = true
							isVar = fct.Op == token.EQL
						}
					}
				}
				if !decided {
					why = "the length selection is not decided by ie.Len == VariableLength"
					continue
				}
				if isVar {
					if ex, ok := e.(*ssa.Extract); ok && ex.Index == 0 {
						if c, ok := ex.Tuple.(*ssa.Call); ok && c.Call.StaticCallee() != nil && c.Call.StaticCallee().Name() == "getFieldLength" {
							varEdge = true
						}
					}
				} else {
					if cv, ok := e.(*ssa.Convert); ok {
						if tn, fn, _, ok := loadedField(cv.X); ok && tn == "pkg/entities.InfoElement" && fn == "Len" {
							fixEdge = true
						}
					}
				}
			}
			if why == "" && !(varEdge && fixEdge) {
				why = "the consumed length is not 'getFieldLength() for variable-length elements, int(ie.Len) otherwise'"
			}
		}
		r.Check(why == "", "R-GATE.consume", fmt.Sprintf("%s: length consumed by Next #%d", fnKey(dds), i+1), p.instrPos(nx),
			"n = getFieldLength() if ie.Len == VariableLength else int(ie.Len)", why+" (an unknown variable-length field would swallow the rest of the set / mis-align the known fields)", true)
	}
	// the drop decision, on the paths of one iteration of the field loop from the consumption of the field's bytes to
	// the next field: the decoded element is appended unless decodingMode == LenientDropUnknown and ie.Name == "" both
	// hold - whichever way the test is spelled (operand order, order of the conjuncts, continue / if-else / flag)
	isModeDrop := func(cf cmpForm) bool {
		if cf.Op != token.EQL || !isFieldLoad(cf.X, "pkg/collector.CollectingProcess.decodingMode") {
			return false
		}
		sv, ok := constString(cf.Y)
		return ok && sv == "LenientDropUnknown"
	}
	isNameEmpty := func(cf cmpForm) bool {
		if cf.Op != token.EQL {
			return false
		}
		if tn, fn, _, ok := loadedField(cf.X); !ok || tn != "pkg/entities.InfoElement" || fn != "Name" {
			return false
		}
		sv, ok := constString(cf.Y)
		return ok && sv == ""
	}
	var dropIfs []*ssa.If
	eachInstr(dds, func(in ssa.Instruction) {
		if i, ok := in.(*ssa.If); ok {
			for _, cf := range cmpForms(i.Cond) {
				if isModeDrop(cf) {
					dropIfs = append(dropIfs, i)
					break
				}
			}
		}
	})
	if len(dropIfs) == 0 || len(nexts) == 0 {
		r.Undecided("R-GATE.drop", fnKey(dds)+": drop decision", p.pos(dds.Pos()), "no test of decodingMode == LenientDropUnknown found")
	} else {
		dropIf := dropIfs[0]
		okOrder := len(nexts) == 1
		for _, di := range dropIfs {
			if !dominates(nexts[0], di) {
				okOrder = false
			}
		}
		r.Check(okOrder, "R-GATE.drop-after-consume", fnKey(dds)+": bytes consumed before the drop decision", p.instrPos(dropIf), "the single Next dominates the drop test",
			"the drop decision is taken before (or instead of) the regular consumption of the field's bytes: in drop mode the unknown field's bytes are skipped by a different length computation", true)
		lh := loopHeadOf(nexts[0].Block())
		whyCrit, whyEdge := "", ""
		nDrop, nKeep := 0, 0
		if lh == nil {
			whyCrit = "the field's bytes are not consumed inside a loop over the template's fields"
		} else {
			w := &absWalker{MaxPaths: 4096, LoopHead: lh}
			w.OnInstr = func(st *absState, in ssa.Instruction) {
				c, ok := in.(*ssa.Call)
				if !ok {
					return
				}
				if bi, ok := c.Call.Value.(*ssa.Builtin); ok && bi.Name() == "append" {
					for _, a := range c.Call.Args {
						if ex, ok := st.resolve(a).(*ssa.Extract); ok && ex.Index == 0 {
							if cc, ok := ex.Tuple.(*ssa.Call); ok && calleeName(&cc.Call) == "pkg/entities.DecodeAndCreateInfoElementWithValue" {
								st.Events = append(st.Events, absEvent{Kind: "append", In: in})
							}
						}
						// append(elements, element) is compiled with a one-element slice literal
						if sl, ok := st.resolve(a).(*ssa.Slice); ok {
							if al, ok := sl.X.(*ssa.Alloc); ok {
								for _, ref := range refs(al) {
									if ia, ok := ref.(*ssa.IndexAddr); ok {
										for _, r2 := range refs(ia) {
											if sto, ok := r2.(*ssa.Store); ok {
												if ex, ok := st.resolve(sto.Val).(*ssa.Extract); ok && ex.Index == 0 {
													if cc, ok := ex.Tuple.(*ssa.Call); ok && calleeName(&cc.Call) == "pkg/entities.DecodeAndCreateInfoElementWithValue" {
														st.Events = append(st.Events, absEvent{Kind: "append", In: in})
													}
												}
											}
										}
									}
								}
							}
						}
					}
				}
			}
			w.OnEnd = func(st *absState, last ssa.Instruction) {
				if _, isRet := last.(*ssa.Return); isRet {
					return // error exits (and the function's end) are not "next field"
				}
				if _, isPanic := last.(*ssa.Panic); isPanic {
					return
				}
				mode, name := 0, 0
				for _, cd := range st.Conds {
					for _, cf := range cmpForms(cd.If.Cond) {
						v := -1
						if cf.Succ == cd.Succ {
							v = 1
						}
						if isModeDrop(cf) {
							mode = v
						}
						if isNameEmpty(cf) {
							name = v
						}
					}
				}
				appended := false
				for _, e := range st.Events {
					if e.Kind == "append" {
						appended = true
					}
				}
				switch {
				case mode == 1 && name == 1:
					nDrop++
					if appended {
						whyEdge = "a nameless element is appended although the mode is LenientDropUnknown"
					}
				case mode == -1 || name == -1:
					nKeep++
					if !appended {
						whyEdge = "an element is not appended although it is known or the mode is not LenientDropUnknown (" + p.instrPos(last) + ")"
					}
				default:
					if !appended {
						whyCrit = "an element is skipped on a path that does not test both decodingMode == LenientDropUnknown and ie.Name == \"\" (" + p.instrPos(last) + ")"
					} else {
						nKeep++
					}
				}
			}
			w.walk(newAbsState(), nexts[0].Block(), instrIndex(nexts[0])+1)
			if w.Overflow {
				whyCrit = "too many paths through one iteration of the field loop"
			}
			if whyCrit == "" && nDrop == 0 {
				whyCrit = "no path of the field loop stands for 'drop mode and nameless element'"
			}
		}
		r.Check(whyCrit == "", "R-GATE.drop", fnKey(dds)+": drop criterion", p.instrPos(dropIf), "decodingMode == LenientDropUnknown && ie.Name == \"\"", "fields are dropped by a criterion other than 'drop mode and nameless (unknown) element': "+whyCrit, true)
		if whyCrit == "" {
			r.Check(whyEdge == "" && nKeep > 0, "R-GATE.drop", fnKey(dds)+": drop edge skips exactly the append", p.instrPos(dropIf), "drop edge: no append; other edge: append of the decoded element",
				"the drop/keep edges are swapped or both append: "+whyEdge, true)
		}
	}
	// (3) registry names
	reg, problems := p.liftRegistry()
	for _, pr := range problems {
		r.Undecided("R-TABLE.registry", "anchor: registry literals", "pkg/registry", pr)
	}
	empty := 0
	tb := p.liftIETables()
	for _, e := range reg {
		if e.Name != "" {
			continue
		}
		tname := tb.TypeNames[e.Type]
		if _, sup := tb.Concrete[tname]; sup {
			empty++
			r.Violation("R-TABLE.registry", fmt.Sprintf("registry entry id=%d ent=%d: empty name with a decodable type", e.ID, e.Ent), p.pos(e.Pos), "a registered, decodable element without a name would be dropped in drop mode although it is known")
		} else {
			r.OK("R-TABLE.registry", fmt.Sprintf("registry entry id=%d ent=%d: empty name", e.ID, e.Ent), p.pos(e.Pos), "placeholder of type "+tname+": the element decoder rejects it, so a template containing it is never stored and nothing can be dropped", true)
		}
	}
	if len(reg) < 400 {
		r.Undecided("R-TABLE.registry", "anchor: registry literals", "pkg/registry", fmt.Sprintf("only %d literals lifted", len(reg)))
	} else if empty == 0 {
		r.OK("R-TABLE.registry", "registry: no decodable element with an empty name", "pkg/registry", fmt.Sprintf("%d literals", len(reg)), true)
	}
	// (4) keep mode: octet-array decode copies exactly the given bytes
	dec := p.Fn("pkg/entities.DecodeAndCreateInfoElementWithValue")
	if dec == nil {
		r.Undecided("R-VALUE.keep", "anchor: element decoder", "pkg/entities/ie.go", "not found")
		return
	}
	okKeep := false
	eachInstr(dec, func(in ssa.Instruction) {
		c, ok := in.(*ssa.Call)
		if !ok || calleeName(&c.Call) != "pkg/entities.NewOctetArrayInfoElement" {
			return
		}
		vals := []ssa.Value{c.Call.Args[1]}
		if ph, ok := c.Call.Args[1].(*ssa.Phi); ok {
			vals = ph.Edges
		}
		for _, v := range vals {
			if ap, ok := v.(*ssa.Call); ok {
				if b, ok := ap.Call.Value.(*ssa.Builtin); ok && b.Name() == "append" && ap.Call.Args[1] == ssa.Value(dec.Params[1]) {
					okKeep = true
				}
			}
			if v == ssa.Value(dec.Params[1]) {
				okKeep = true
			}
		}
	})
	r.Check(okKeep, "R-VALUE.keep", fnKey(dec)+": octet-array value = all bytes given", p.pos(dec.Pos()), "NewOctetArrayInfoElement(element, append(nil, value...))", "the octet-array case does not preserve exactly the received bytes", true)
}

// sameCell: both values are loads of the same local variable (or identical values).
func sameCell(a, b ssa.Value) bool {
	if a == b {
		return true
	}
	ua, ok1 := a.(*ssa.UnOp)
	ub, ok2 := b.(*ssa.UnOp)
	return ok1 && ok2 && ua.Op == token.MUL && ub.Op == token.MUL && ua.X == ub.X
}

// checkReverseRegistration: an element gets an entry in the reverse (PEN 29305) registry only if it HAS a reverse
// element: the two reverse-map updates in registerInfoElement are guarded by `err == nil` of the reverse lookup.
// getIANAReverseInfoElement returns the forward element together with its error for non-reversible elements, so a
// `!= nil` test on the element registers e.g. flowId under the reverse PEN: a field that must be unknown resolves.
func checkReverseRegistration(p *Prog, r *Report, rule string) {
	rg := p.Fn("pkg/registry.registerInfoElement")
	if rg == nil {
		r.Undecided(rule, "anchor: registerInfoElement", "pkg/registry/registry.go", "not found")
		return
	}
	var lk *ssa.Call
	eachInstr(rg, func(in ssa.Instruction) {
		if c, ok := in.(*ssa.Call); ok && c.Call.StaticCallee() != nil && c.Call.StaticCallee().Name() == "getIANAReverseInfoElement" {
			lk = c
		}
	})
	if lk == nil {
		r.Undecided(rule, fnKey(rg)+": reverse lookup", p.pos(rg.Pos()), "call of getIANAReverseInfoElement not found")
		return
	}
	var errV, ieV ssa.Value
	for _, e := range extractOf(lk, 1) {
		errV = e
	}
	for _, e := range extractOf(lk, 0) {
		ieV = e
	}
	n := 0
	eachInstr(rg, func(in ssa.Instruction) {
		mu, ok := in.(*ssa.MapUpdate)
		if !ok || stripChange(mu.Value) != ieV || ieV == nil {
			return
		}
		n++
		okG := false
		for _, fct := range blockFacts(in.Block()) {
			if errV != nil && fct.X == errV && fct.Op == token.EQL {
				if c, ok := fct.Y.(*ssa.Const); ok && c.IsNil() {
					okG = true
				}
			}
		}
		r.Check(okG, rule, fmt.Sprintf("%s: reverse registration #%d guarded by the lookup's error", fnKey(rg), n), p.instrPos(in), "only when getIANAReverseInfoElement returned no error",
			"the reverse registry is filled although the reverse lookup failed (or its error is ignored): non-reversible elements are registered under the reverse enterprise number, so a template field that must be unknown resolves to a forward element - strict mode accepts it, keep/drop modes treat it as known and decode the following fields from the wrong offsets", true)
	})
	if n < 2 {
		r.Undecided(rule, fnKey(rg)+": reverse map updates", p.pos(rg.Pos()), fmt.Sprintf("found %d", n))
	}
}

// checkDecodingModeDefault: "strict is the default": the decoding mode a collecting process works with is never the empty
// string - every value stored into CollectingProcess.decodingMode is a mode constant, or the caller's DecodingMode on a
// way in on which it is known not to be empty (the default is applied before the process is built). With an empty
// mode none of the three mode tests holds: unknown elements are accepted as if a lenient mode had been chosen.
func checkDecodingModeDefault(p *Prog, r *Report, rule string) {
	n := 0
	for _, f := range p.RepoFns {
		if !keyInPkg(fnKey(f), "pkg/collector") {
			continue
		}
		eachInstr(f, func(in ssa.Instruction) {
			st, ok := in.(*ssa.Store)
			if !ok {
				return
			}
			if tn, fn, _, ok := fieldOf(st.Addr); !ok || tn+"."+fn != "pkg/collector.CollectingProcess.decodingMode" {
				return
			}
			n++
			why := ""
			for _, lf := range valueLeaves(st.Val, in.Block(), 4) {
				v := stripChange(lf.V)
				if cv, ok := v.(*ssa.Convert); ok {
					v = stripChange(cv.X)
				}
				if s, ok := constString(v); ok {
					if s == "" {
						why = "the empty mode is stored"
					}
					continue
				}
				// a value taken from the caller's input: must be known non-empty on this way in
				nonEmpty := false
				for _, fct := range lf.Facts {
					if fct.X == lf.V || fct.X == v {
						if s, ok := constString(fct.Y); ok && s == "" && fct.Op == token.NEQ {
							nonEmpty = true
						}
					}
				}
				if !nonEmpty {
					why = "the caller's DecodingMode is stored without the default being applied (it may be empty)"
				}
			}
			r.Check(why == "", rule, fnKey(f)+": value stored into decodingMode", p.instrPos(in), "a mode constant, or the caller's mode where it is known to be non-empty",
				why+": a collector created without an explicit mode is documented to be strict, but with an empty mode no mode test holds and templates with unknown elements are accepted", true)
		})
	}
	if n == 0 {
		r.Undecided(rule, "anchor: stores to CollectingProcess.decodingMode", "pkg/collector/process.go", "none found")
	}
}

// checkKeptCountNotDeciding: in drop mode the decoded record holds only the KEPT fields, so their number depends on the
// decoding mode; whether a data set is accepted must depend on what was consumed, never on how many elements were kept
// (a template made of unknown elements only is delivered with zero fields in drop mode, exactly the unknown ones omitted).
func checkKeptCountNotDeciding(p *Prog, r *Report, rule string) {
	f := p.Fn("(*pkg/collector.CollectingProcess).decodeDataSet")
	if f == nil {
		r.Undecided(rule, "anchor: decodeDataSet", "pkg/collector/process.go", "not found")
		return
	}
	isKeptLen := func(v ssa.Value) bool {
		c, ok := v.(*ssa.Call)
		if !ok {
			return false
		}
		b, ok := c.Call.Value.(*ssa.Builtin)
		if !ok || b.Name() != "len" {
			return false
		}
		sl, ok := c.Call.Args[0].Type().Underlying().(*types.Slice)
		return ok && typeName(sl.Elem()) == "pkg/entities.InfoElementWithValue"
	}
	errorAhead := func(b *ssa.BasicBlock) bool {
		for d := 0; d < 3 && b != nil; d++ {
			if len(b.Instrs) == 0 {
				return false
			}
			last := b.Instrs[len(b.Instrs)-1]
			if isErrorReturn(last) {
				return true
			}
			if _, ok := last.(*ssa.Jump); ok {
				b = b.Succs[0]
				continue
			}
			return false
		}
		return false
	}
	bad := ""
	pos := p.pos(f.Pos())
	eachInstr(f, func(in ssa.Instruction) {
		iff, ok := in.(*ssa.If)
		if !ok {
			return
		}
		bo, ok := iff.Cond.(*ssa.BinOp)
		if !ok || !(isKeptLen(bo.X) || isKeptLen(bo.Y)) {
			return
		}
		if errorAhead(in.Block().Succs[0]) || errorAhead(in.Block().Succs[1]) {
			bad = "an error return is decided by the number of kept elements"
			pos = p.instrPos(in)
		}
	})
	r.Check(bad == "", rule, fnKey(f)+": acceptance does not depend on the number of kept elements", pos, "errors depend on consumption (bytes read) only",
		bad+": in LenientDropUnknown a data set whose template holds unknown elements only is refused instead of delivered with those fields omitted", true)
}
