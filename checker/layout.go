package main

import (
	"fmt"
	"go/ast"
	"go/constant"
	"go/token"
	"go/types"
	"strings"

	"golang.org/x/tools/go/packages"
	"golang.org/x/tools/go/ssa"
)

// ---------- reference table: RFC 7011 section 6.1 (encoding of abstract data types) and RFC 7012 section 3.1 ----------
// Transcribed from the RFCs; shares nothing with the library. width 0 = variable length (RFC 7011 section 7).

type refCodec struct {
	Width int    // bytes on the wire for the fixed encoding
	Kind  string // unsigned | signed | float | boolean | raw | string | octets
}

var rfc7011Types = map[string]refCodec{
	"OctetArray":           {0, "octets"},   // 6.1.6: finite-length string of octets; variable length per section 7 unless the template gives a fixed length
	"Unsigned8":            {1, "unsigned"}, // 6.1.1: network byte order
	"Unsigned16":           {2, "unsigned"},
	"Unsigned32":           {4, "unsigned"},
	"Unsigned64":           {8, "unsigned"},
	"Signed8":              {1, "signed"}, // 6.1.1: two's complement, network byte order
	"Signed16":             {2, "signed"},
	"Signed32":             {4, "signed"},
	"Signed64":             {8, "signed"},
	"Float32":              {4, "float"}, // 6.1.2: IEEE 754 binary32, network byte order
	"Float64":              {8, "float"},
	"Boolean":              {1, "boolean"},  // 6.1.5: single octet, 1 = true, 2 = false
	"MacAddress":           {6, "raw"},      // 6.1.3: 6 octets
	"String":               {0, "string"},   // 6.1.6: UTF-8, variable length per section 7
	"DateTimeSeconds":      {4, "unsigned"}, // 6.1.7: 32-bit unsigned seconds since the epoch
	"DateTimeMilliseconds": {8, "unsigned"}, // 6.1.8: 64-bit unsigned milliseconds since the epoch
	"Ipv4Address":          {4, "raw"},      // 6.1.3
	"Ipv6Address":          {16, "raw"},
}

// RFC 7011 section 7: length < 255 => 1 length octet; otherwise 255 followed by a 2-octet length; max 65535.
type prefixScheme struct {
	Threshold int64 // value lengths below this use the short form
	ShortOver int64 // bytes added in the short form
	LongOver  int64 // bytes added in the long form
	Marker    int64 // first octet of the long form (-1 when the site does not write/read it)
	Max       int64 // largest encodable length (-1 when the site does not bound it)
}

var rfcPrefix = prefixScheme{Threshold: 255, ShortOver: 1, LongOver: 3, Marker: 255, Max: 65535}

// ---------- encoder / decoder case signatures (AST) ----------

type codecSig struct {
	Width  int    // bytes read/written by a fixed-width primitive (0 = none recognised)
	Order  string // "BigEndian" / "LittleEndian" / "" (single byte or raw)
	Conv   string // conversion chain between the typed value and the unsigned wire word, outermost first, e.g. "uint16" / "math.Float32bits"
	Access string // encoder: getter; decoder: constructor
	Form   string // fixed | byte | raw | string | octets | boolean | error | unknown
	Extra  string // boolean: "true=1,false=2"; raw: To4/To16
	Pos    token.Pos
}

func (s codecSig) String() string {
	return fmt.Sprintf("{form=%s width=%d order=%s conv=%q via=%s %s}", s.Form, s.Width, s.Order, s.Conv, s.Access, s.Extra)
}

func callName(e ast.Expr) string {
	if c, ok := e.(*ast.CallExpr); ok {
		return types.ExprString(c.Fun)
	}
	return ""
}

// peelConv strips conversions / math.FloatNbits wrappers and returns the chain and the innermost expression.
func peelConv(pk *packages.Package, e ast.Expr) (string, ast.Expr) {
	var chain []string
	for {
		e = ast.Unparen(e)
		c, ok := e.(*ast.CallExpr)
		if !ok || len(c.Args) != 1 {
			break
		}
		name := types.ExprString(c.Fun)
		tv, isType := pk.TypesInfo.Types[c.Fun]
		if isType && tv.IsType() {
			chain = append(chain, name)
			e = c.Args[0]
			continue
		}
		if strings.HasPrefix(name, "math.Float") {
			chain = append(chain, name)
			e = c.Args[0]
			continue
		}
		break
	}
	return strings.Join(chain, "."), e
}

func putWidth(name string) (int, string, bool) {
	for _, o := range []string{"BigEndian", "LittleEndian"} {
		for _, w := range []int{16, 32, 64} {
			if name == fmt.Sprintf("binary.%s.PutUint%d", o, w) || name == fmt.Sprintf("binary.%s.Uint%d", o, w) {
				return w / 8, o, true
			}
		}
	}
	return 0, "", false
}

// encoderSigs extracts one signature per case label of the encoder switch.
func (p *Prog) encoderSigs(tb *ieTables) (map[string]codecSig, []string) {
	out := map[string]codecSig{}
	var problems []string
	fd, pk := p.funcDecl("pkg/entities", "", "encodeInfoElementValueToBuff")
	if fd == nil {
		return out, []string{"encodeInfoElementValueToBuff not found"}
	}
	sws := ieSwitches(pk, fd)
	if len(sws) != 1 {
		return out, []string{fmt.Sprintf("encoder has %d IEDataType switches", len(sws))}
	}
	for _, c := range clausesOf(pk, sws[0], tb) {
		if c.Default {
			continue
		}
		sig := codecSig{Form: "unknown", Pos: c.Pos}
		getters := []string{}
		for _, m := range methodCallsOn(pk, c.Body, "pkg/entities.InfoElementWithValue") {
			if isValueAccessor(m) {
				getters = append(getters, m)
			}
		}
		if len(getters) > 0 {
			sig.Access = getters[0]
			for _, g := range getters {
				if g != getters[0] {
					problems = append(problems, fmt.Sprintf("encoder case %v uses two getters %s and %s", c.Labels, getters[0], g))
				}
			}
		}
		onlyReturnErr := len(c.Body) == 1
		if onlyReturnErr {
			if rs, ok := c.Body[0].(*ast.ReturnStmt); ok && len(rs.Results) == 1 && strings.HasPrefix(callName(rs.Results[0]), "fmt.Errorf") {
				sig.Form = "error"
			}
		}
		ast.Inspect(&ast.BlockStmt{List: c.Body}, func(n ast.Node) bool {
			call, ok := n.(*ast.CallExpr)
			if !ok {
				return true
			}
			name := types.ExprString(call.Fun)
			if w, o, ok := putWidth(name); ok && strings.Contains(name, "Put") && sig.Form == "unknown" {
				dst := strings.ReplaceAll(types.ExprString(call.Args[0]), " ", "")
				if dst != "buffer[index:]" {
					return true // prefix writes of the variable-length forms are handled by the prefix scheme
				}
				conv, inner := peelConv(pk, call.Args[1])
				sig.Width, sig.Order, sig.Conv, sig.Form = w, o, conv, "fixed"
				if callName(inner) == "" || !strings.HasPrefix(callName(inner), "element.Get") {
					sig.Form = "unknown"
				}
			}
			if name == "copy" && len(call.Args) == 2 && sig.Form == "unknown" {
				dst := strings.ReplaceAll(types.ExprString(call.Args[0]), " ", "")
				src := ast.Unparen(call.Args[1])
				switch {
				case dst == "buffer[index:index+1]":
					if cl, ok := src.(*ast.CompositeLit); ok && len(cl.Elts) == 1 {
						conv, inner := peelConv(pk, cl.Elts[0])
						sig.Width, sig.Form, sig.Conv = 1, "byte", conv
						if id, ok := inner.(*ast.Ident); ok && id.Name == "indicator" {
							sig.Form = "boolean"
						}
					}
				case dst == "buffer[index:]":
					sig.Form = "raw"
					if strings.HasPrefix(callName(src), "element.Get") {
						sig.Extra = ""
					} else if id, ok := src.(*ast.Ident); ok {
						sig.Extra = "var:" + id.Name
					}
				}
			}
			return true
		})
		// raw via To4/To16
		for _, fc := range funcCalls(pk, c.Body) {
			if strings.HasSuffix(fc, ".To4") {
				sig.Extra, sig.Width = "To4", 4
			}
			if strings.HasSuffix(fc, ".To16") {
				sig.Extra, sig.Width = "To16", 16
			}
		}
		if sig.Form == "boolean" {
			sig.Extra = booleanEncoding(pk, c.Body)
		}
		if sig.Access == "GetStringValue" {
			sig.Form = "string"
		}
		if sig.Access == "GetOctetArrayValue" {
			sig.Form = "octets"
		}
		for _, l := range c.Labels {
			out[l] = sig
		}
	}
	return out, problems
}

// booleanEncoding evaluates "indicator := byte(int8(A)); if !element.GetBooleanValue() { indicator = byte(int8(B)) }".
func booleanEncoding(pk *packages.Package, body []ast.Stmt) string {
	cv := func(e ast.Expr) string {
		if tv, ok := pk.TypesInfo.Types[e]; ok && tv.Value != nil {
			return tv.Value.ExactString()
		}
		return "?"
	}
	t, f := "?", "?"
	for _, st := range body {
		switch x := st.(type) {
		case *ast.AssignStmt:
			if len(x.Lhs) == 1 && types.ExprString(x.Lhs[0]) == "indicator" {
				t = cv(x.Rhs[0])
			}
		case *ast.IfStmt:
			cond := types.ExprString(x.Cond)
			for _, s2 := range x.Body.List {
				if as, ok := s2.(*ast.AssignStmt); ok && len(as.Lhs) == 1 && types.ExprString(as.Lhs[0]) == "indicator" {
					if cond == "!element.GetBooleanValue()" {
						f = cv(as.Rhs[0])
					} else if cond == "element.GetBooleanValue()" {
						// inverted form: default is the false value
						f, t = t, cv(as.Rhs[0])
					}
				}
			}
		}
	}
	return fmt.Sprintf("true=%s,false=%s", t, f)
}

// decoderSigs extracts one signature per case label of the decoder switch.
func (p *Prog) decoderSigs(tb *ieTables) (map[string]codecSig, []string) {
	out := map[string]codecSig{}
	var problems []string
	fd, pk := p.funcDecl("pkg/entities", "", "DecodeAndCreateInfoElementWithValue")
	if fd == nil {
		return out, []string{"DecodeAndCreateInfoElementWithValue not found"}
	}
	sws := ieSwitches(pk, fd)
	if len(sws) != 1 {
		return out, []string{fmt.Sprintf("decoder has %d IEDataType switches", len(sws))}
	}
	for _, c := range clausesOf(pk, sws[0], tb) {
		if c.Default {
			continue
		}
		sig := codecSig{Form: "unknown", Pos: c.Pos}
		for _, fc := range funcCalls(pk, c.Body) {
			if strings.HasPrefix(fc, "New") && strings.HasSuffix(fc, "InfoElement") {
				sig.Access = fc
			}
		}
		if sig.Access == "" {
			sig.Form = "error"
		}
		ast.Inspect(&ast.BlockStmt{List: c.Body}, func(n ast.Node) bool {
			switch x := n.(type) {
			case *ast.AssignStmt:
				if len(x.Lhs) != 1 || len(x.Rhs) != 1 {
					return true
				}
				lhs := types.ExprString(x.Lhs[0])
				if lhs != "val" && lhs != "addr" {
					return true
				}
				conv, inner := peelConv(pk, x.Rhs[0])
				name := callName(inner)
				if w, o, ok := putWidth(name); ok && types.ExprString(inner.(*ast.CallExpr).Args[0]) == "value" {
					sig.Width, sig.Order, sig.Conv, sig.Form = w, o, conv, "fixed"
				} else if types.ExprString(inner) == "value[0]" {
					sig.Width, sig.Conv, sig.Form = 1, conv, "byte"
				} else if types.ExprString(inner) == "value" && conv == "string" {
					sig.Form = "string"
				} else if name == "append" {
					args := inner.(*ast.CallExpr).Args
					if len(args) == 2 && types.ExprString(args[1]) == "value" && inner.(*ast.CallExpr).Ellipsis.IsValid() {
						if sig.Form == "unknown" {
							sig.Form = "raw"
						}
					}
				}
			case *ast.BinaryExpr:
				if x.Op == token.EQL {
					conv, inner := peelConv(pk, x.X)
					if types.ExprString(inner) == "value[0]" {
						if tv, ok := pk.TypesInfo.Types[x.Y]; ok && tv.Value != nil {
							sig.Form, sig.Width, sig.Conv = "boolean", 1, conv
							sig.Extra = "true=" + tv.Value.ExactString()
						}
					}
				}
			}
			return true
		})
		if sig.Form == "boolean" {
			// the true constructor must be on the == edge
			sig.Extra += booleanDecodeEdges(c.Body)
		}
		if sig.Access == "NewOctetArrayInfoElement" {
			sig.Form = "octets"
		}
		for _, l := range c.Labels {
			out[l] = sig
		}
	}
	return out, problems
}

func booleanDecodeEdges(body []ast.Stmt) string {
	res := ""
	for _, st := range body {
		iff, ok := st.(*ast.IfStmt)
		if !ok {
			continue
		}
		if be, ok := iff.Cond.(*ast.BinaryExpr); ok && be.Op == token.EQL && strings.Contains(types.ExprString(be.X), "value[0]") {
			thenS := types.ExprString(iff.Body.List[0].(*ast.ReturnStmt).Results[0])
			elseS := ""
			if eb, ok := iff.Else.(*ast.BlockStmt); ok && len(eb.List) > 0 {
				if rs, ok := eb.List[0].(*ast.ReturnStmt); ok {
					elseS = types.ExprString(rs.Results[0])
				}
			}
			if strings.Contains(thenS, "true") && strings.Contains(elseS, "false") {
				res = ",eq=>true,else=>false"
			} else {
				res = ",edges=?"
			}
		}
	}
	return res
}

// ---------- variable-length prefix scheme (SSA) ----------

func lenOfValue(v ssa.Value) (ssa.Value, bool) {
	c, ok := v.(*ssa.Call)
	if !ok {
		return nil, false
	}
	b, ok := c.Call.Value.(*ssa.Builtin)
	if !ok || b.Name() != "len" {
		return nil, false
	}
	return c.Call.Args[0], true
}

// normThreshold turns "len OP c" into the threshold T such that the short form is used iff len < T; succShort is the
// successor index of the short form.
func normThreshold(op token.Token, c int64) (int64, int, bool) {
	switch op {
	case token.LSS:
		return c, 0, true
	case token.LEQ:
		return c + 1, 0, true
	case token.GEQ:
		return c, 1, true
	case token.GTR:
		return c + 1, 1, true
	}
	return 0, 0, false
}

// getLengthScheme extracts the scheme of a GetLength method: returns len+short on one edge and len+long on the other.
// The computation may sit in the method itself or in a helper that the method calls with len(value) (one level).
func getLengthScheme(f *ssa.Function) (prefixScheme, string) {
	isFieldLen := func(v ssa.Value) bool {
		val, isLen := lenOfValue(v)
		if !isLen {
			return false
		}
		_, fn, _, ok := loadedField(val)
		return ok && fn == "value"
	}
	s, why := lengthSchemeOf(f, isFieldLen)
	if why == "" {
		return s, ""
	}
	// helper form: return h(len(x.value)) on the variable-length path
	var res prefixScheme
	resWhy := why
	eachInstr(f, func(in ssa.Instruction) {
		rt, ok := in.(*ssa.Return)
		if !ok || len(rt.Results) != 1 {
			return
		}
		c, ok := rt.Results[0].(*ssa.Call)
		if !ok || c.Call.StaticCallee() == nil || c.Call.StaticCallee().Blocks == nil {
			return
		}
		h := c.Call.StaticCallee()
		for idx, a := range c.Call.Args {
			if isFieldLen(a) && idx < len(h.Params) {
				prm := h.Params[idx]
				hs, hw := lengthSchemeOf(h, func(v ssa.Value) bool { return v == ssa.Value(prm) })
				if hw == "" {
					res, resWhy = hs, ""
				} else {
					resWhy = "helper " + h.Name() + ": " + hw
				}
			}
		}
	})
	return res, resWhy
}

func lengthSchemeOf(f *ssa.Function, isLen func(ssa.Value) bool) (prefixScheme, string) {
	s := prefixScheme{Marker: -1, Max: -1}
	found := false
	why := "no comparison of len(value) with a constant found"
	eachInstr(f, func(in ssa.Instruction) {
		i, ok := in.(*ssa.If)
		if !ok {
			return
		}
		b, ok := i.Cond.(*ssa.BinOp)
		if !ok {
			return
		}
		c, isC := constInt(b.Y)
		if !isLen(b.X) || !isC {
			return
		}
		t, ss, ok := normThreshold(b.Op, c)
		if !ok {
			return
		}
		over := func(blk *ssa.BasicBlock) (int64, bool) {
			for _, x := range blk.Instrs {
				if rt, ok := x.(*ssa.Return); ok && len(rt.Results) == 1 {
					if add, ok := rt.Results[0].(*ssa.BinOp); ok && add.Op == token.ADD {
						if isLen(add.X) {
							return constInt(add.Y)
						}
					}
				}
			}
			return 0, false
		}
		so, ok1 := over(i.Block().Succs[ss])
		lo, ok2 := over(i.Block().Succs[1-ss])
		if !ok1 || !ok2 {
			why = "the two edges do not return len(value)+constant"
			return
		}
		s.Threshold, s.ShortOver, s.LongOver = t, so, lo
		found = true
	})
	if !found {
		return s, why
	}
	return s, ""
}

// encoderPrefixSchemes extracts the scheme from each variable-length branch of the encoder (keyed by getter).
func encoderPrefixSchemes(enc *ssa.Function) map[string]prefixScheme {
	out := map[string]prefixScheme{}
	eachInstr(enc, func(in ssa.Instruction) {
		i, ok := in.(*ssa.If)
		if !ok {
			return
		}
		b, ok := i.Cond.(*ssa.BinOp)
		if !ok {
			return
		}
		val, isLen := lenOfValue(b.X)
		c, isC := constInt(b.Y)
		if !isLen || !isC {
			return
		}
		vc, ok := stripChange(val).(*ssa.Call)
		if !ok {
			return
		}
		getter := calleeName(&vc.Call)
		getter = getter[strings.LastIndex(getter, ".")+1:]
		t, ss, ok := normThreshold(b.Op, c)
		if !ok {
			return
		}
		s, have := out[getter]
		if !have {
			s = prefixScheme{Marker: -1, Max: -1, Threshold: -1}
		}
		taken := i.Block().Succs[ss] // edge on which len < T
		// what does the "len < T" edge do? single-byte length store => this is the short/long threshold;
		// marker store + PutUint16 => this comparison is the maximum
		kind := ""
		for _, x := range taken.Instrs {
			if st, ok := x.(*ssa.Store); ok {
				if _, ok := st.Addr.(*ssa.IndexAddr); ok {
					if cv, ok := st.Val.(*ssa.Convert); ok {
						if _, isL := lenOfValue(cv.X); isL {
							kind = "short"
						}
					}
					if m, ok := constInt(st.Val); ok && kind == "" {
						kind = "long"
						s.Marker = m
					}
				}
			}
		}
		copyOff := func(blk *ssa.BasicBlock) int64 {
			for _, x := range blk.Instrs {
				if cc, ok := x.(*ssa.Call); ok {
					if bi, ok := cc.Call.Value.(*ssa.Builtin); ok && bi.Name() == "copy" {
						if sl, ok := cc.Call.Args[0].(*ssa.Slice); ok {
							if add, ok := sl.Low.(*ssa.BinOp); ok && add.Op == token.ADD {
								if k, ok := constInt(add.Y); ok {
									return k
								}
							}
						}
					}
				}
			}
			return -1
		}
		switch kind {
		case "short":
			s.Threshold = t
			s.ShortOver = copyOff(taken)
		case "long":
			s.Max = t - 1
			s.LongOver = copyOff(taken)
		}
		out[getter] = s
	})
	return out
}

// readerPrefixScheme extracts the scheme of the collector's prefix reader (getFieldLength): one byte b; b < T => b,
// otherwise a 2-byte big-endian length follows.
func readerPrefixScheme(p *Prog, f *ssa.Function) (prefixScheme, string) {
	s := prefixScheme{Marker: -1, Max: 65535}
	var rb *ssa.Call
	eachInstr(f, func(in ssa.Instruction) {
		if c, ok := in.(*ssa.Call); ok && calleeName(&c.Call) == "(*bytes.Buffer).ReadByte" {
			rb = c
		}
	})
	if rb == nil {
		return s, "no ReadByte of the first length octet"
	}
	found := false
	eachInstr(f, func(in ssa.Instruction) {
		i, ok := in.(*ssa.If)
		if !ok {
			return
		}
		b, ok := i.Cond.(*ssa.BinOp)
		if !ok {
			return
		}
		ex, ok := b.X.(*ssa.Extract)
		if !ok || ex.Tuple != ssa.Value(rb) || ex.Index != 0 {
			return
		}
		c, ok := constInt(b.Y)
		if !ok {
			return
		}
		t, ss, ok := normThreshold(b.Op, c)
		if !ok {
			if b.Op == token.EQL { // b == 255 => long
				t, ss, ok = c, 1, true
				s.Marker = c
			} else if b.Op == token.NEQ {
				t, ss, ok = c, 0, true
				s.Marker = c
			}
		}
		if !ok {
			return
		}
		s.Threshold = t
		if s.Marker < 0 {
			s.Marker = t // every first octet >= T announces the long form; with T = 255 that is exactly 255
		}
		s.ShortOver = 1
		// long edge decodes a uint16
		long := i.Block().Succs[1-ss]
		okLong := false
		var walk func(b *ssa.BasicBlock, d int)
		walk = func(b *ssa.BasicBlock, d int) {
			if d > 3 {
				return
			}
			for _, x := range b.Instrs {
				if c, ok := x.(*ssa.Call); ok && calleeName(&c.Call) == "pkg/util.Decode" {
					ts := decodeTargets(c)
					if len(ts) == 1 && strings.Contains(ts[0].Type().String(), "uint16") {
						okLong = true
					}
				}
			}
			for _, sx := range b.Succs {
				walk(sx, d+1)
			}
		}
		walk(long, 0)
		if okLong {
			s.LongOver = 3
		}
		found = true
	})
	if !found {
		return s, "no comparison of the first length octet with a constant"
	}
	return s, ""
}

var _ = constant.MakeBool

// ---------- fixed-offset writes (message header, set header, template record) ----------

type putSite struct {
	In    *ssa.Call
	Width int
	Order string
	Base  string // "T.f" for a field-held buffer, "local" for a fresh local array
	Low   int64  // -1 when not constant
	High  int64  // -1 when absent
	Val   ssa.Value
}

func putSites(f *ssa.Function) []putSite {
	var out []putSite
	eachInstr(f, func(in ssa.Instruction) {
		c, ok := in.(*ssa.Call)
		if !ok {
			return
		}
		n := calleeName(&c.Call)
		var w int
		var o string
		for _, oo := range []string{"bigEndian", "littleEndian"} {
			for _, ww := range []int{16, 32, 64} {
				if n == fmt.Sprintf("(encoding/binary.%s).PutUint%d", oo, ww) {
					w, o = ww/8, map[string]string{"bigEndian": "BigEndian", "littleEndian": "LittleEndian"}[oo]
				}
			}
		}
		if w == 0 {
			return
		}
		ps := putSite{In: c, Width: w, Order: o, Low: -1, High: -1, Val: c.Call.Args[2], Base: "?"}
		dst := c.Call.Args[1]
		if sl, ok := dst.(*ssa.Slice); ok {
			if sl.Low == nil {
				ps.Low = 0
			} else if v, ok := constInt(sl.Low); ok {
				ps.Low = v
			}
			if sl.High != nil {
				if v, ok := constInt(sl.High); ok {
					ps.High = v
				}
			}
			base := sl.X
			if inner, ok := base.(*ssa.Slice); ok { // slice of a slice of a local array: addBytes[0:2]
				base = inner.X
				if inner.Low != nil {
					if v, ok := constInt(inner.Low); ok && v != 0 {
						ps.Low = -1
					}
				}
			}
			if tn, fn, _, ok := loadedField(base); ok {
				ps.Base = tn + "." + fn
			} else if _, ok := base.(*ssa.Alloc); ok {
				ps.Base = "local"
			}
		}
		out = append(out, ps)
	})
	return out
}

func valueDesc(v ssa.Value) string {
	v = stripChange(v)
	if c, ok := v.(*ssa.Const); ok && c.Value != nil {
		return "const " + c.Value.ExactString()
	}
	if pa, ok := v.(*ssa.Parameter); ok {
		return "param " + pa.Name()
	}
	if tn, fn, _, ok := loadedField(v); ok {
		return "field " + tn + "." + fn
	}
	if cv, ok := v.(*ssa.Convert); ok {
		return "convert(" + valueDesc(cv.X) + ")"
	}
	return v.Name()
}
