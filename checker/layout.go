package main

import (
	"fmt"
	"go/ast"
	"go/constant"
	"go/token"
	"go/types"
	"strings"

	"golang.org/x/tools/go/packages"
	"golang.org/x/tools/go/ssa"
)

// ---------- reference table: RFC 7011 section 6.1 (encoding of abstract data types) and RFC 7012 section 3.1 ----------
// Transcribed from the RFCs; shares nothing with the library. width 0 = variable length (RFC 7011 section 7).

type refCodec struct {
	Width int    // bytes on the wire for the fixed encoding
	Kind  string // unsigned | signed | float | boolean | raw | string | octets
}

var rfc7011Types = map[string]refCodec{
	"OctetArray":           {0, "octets"},   // 6.1.6: finite-length string of octets; variable length per section 7 unless the template gives a fixed length
	"Unsigned8":            {1, "unsigned"}, // 6.1.1: network byte order
	"Unsigned16":           {2, "unsigned"},
	"Unsigned32":           {4, "unsigned"},
	"Unsigned64":           {8, "unsigned"},
	"Signed8":              {1, "signed"}, // 6.1.1: two's complement, network byte order
	"Signed16":             {2, "signed"},
	"Signed32":             {4, "signed"},
	"Signed64":             {8, "signed"},
	"Float32":              {4, "float"}, // 6.1.2: IEEE 754 binary32, network byte order
	"Float64":              {8, "float"},
	"Boolean":              {1, "boolean"},  // 6.1.5: single octet, 1 = true, 2 = false
	"MacAddress":           {6, "raw"},      // 6.1.3: 6 octets
	"String":               {0, "string"},   // 6.1.6: UTF-8, variable length per section 7
	"DateTimeSeconds":      {4, "unsigned"}, // 6.1.7: 32-bit unsigned seconds since the epoch
	"DateTimeMilliseconds": {8, "unsigned"}, // 6.1.8: 64-bit unsigned milliseconds since the epoch
	"Ipv4Address":          {4, "raw"},      // 6.1.3
	"Ipv6Address":          {16, "raw"},
}

// RFC 7011 section 7: length < 255 => 1 length octet; otherwise 255 followed by a 2-octet length; max 65535.
type prefixScheme struct {
	Threshold int64 // value lengths below this use the short form
	ShortOver int64 // bytes added in the short form
	LongOver  int64 // bytes added in the long form
	Marker    int64 // first octet of the long form (-1 when the site does not write/read it)
	Max       int64 // largest encodable length (-1 when the site does not bound it)
}

var rfcPrefix = prefixScheme{Threshold: 255, ShortOver: 1, LongOver: 3, Marker: 255, Max: 65535}

// ---------- encoder / decoder case signatures (AST) ----------

type codecSig struct {
	Width  int    // bytes read/written by a fixed-width primitive (0 = none recognised)
	Order  string // "BigEndian" / "LittleEndian" / "" (single byte or raw)
	Conv   string // conversion chain between the typed value and the unsigned wire word, outermost first, e.g. "uint16" / "math.Float32bits"
	Access string // encoder: getter; decoder: constructor
	Form   string // fixed | byte | raw | string | octets | boolean | error | unknown
	Extra  string // boolean: "true=1,false=2"; raw: To4/To16
	Pos    token.Pos
}

func (s codecSig) String() string {
	return fmt.Sprintf("{form=%s width=%d order=%s conv=%q via=%s %s}", s.Form, s.Width, s.Order, s.Conv, s.Access, s.Extra)
}

func callName(e ast.Expr) string {
	if c, ok := e.(*ast.CallExpr); ok {
		return types.ExprString(c.Fun)
	}
	return ""
}

// peelConv strips conversions / math.FloatNbits wrappers and returns the chain and the innermost expression.
func peelConv(pk *packages.Package, e ast.Expr) (string, ast.Expr) {
	var chain []string
	for {
		e = ast.Unparen(e)
		c, ok := e.(*ast.CallExpr)
		if !ok || len(c.Args) != 1 {
			break
		}
		name := types.ExprString(c.Fun)
		tv, isType := pk.TypesInfo.Types[c.Fun]
		if isType && tv.IsType() {
			chain = append(chain, name)
			e = c.Args[0]
			continue
		}
		if strings.HasPrefix(name, "math.Float") {
			chain = append(chain, name)
			e = c.Args[0]
			continue
		}
		break
	}
	return strings.Join(chain, "."), e
}

func putWidth(name string) (int, string, bool) {
	for _, o := range []string{"BigEndian", "LittleEndian"} {
		for _, w := range []int{16, 32, 64} {
			if name == fmt.Sprintf("binary.%s.PutUint%d", o, w) || name == fmt.Sprintf("binary.%s.Uint%d", o, w) {
				return w / 8, o, true
			}
		}
	}
	return 0, "", false
}

// ---------- variable-length prefix scheme (SSA) ----------

func lenOfValue(v ssa.Value) (ssa.Value, bool) {
	c, ok := v.(*ssa.Call)
	if !ok {
		return nil, false
	}
	b, ok := c.Call.Value.(*ssa.Builtin)
	if !ok || b.Name() != "len" {
		return nil, false
	}
	return c.Call.Args[0], true
}

// normThreshold turns "len OP c" into the threshold T such that the short form is used iff len < T; succShort is the
// successor index of the short form.
func normThreshold(op token.Token, c int64) (int64, int, bool) {
	switch op {
	case token.LSS:
		return c, 0, true
	case token.LEQ:
		return c + 1, 0, true
	case token.GEQ:
		return c, 1, true
	case token.GTR:
		return c + 1, 1, true
	}
	return 0, 0, false
}

// getLengthScheme extracts the scheme of a GetLength method: returns len+short on one edge and len+long on the other.
// The computation may sit in the method itself or in a helper that the method calls with len(value) (one level).
func getLengthScheme(f *ssa.Function) (prefixScheme, string) {
	isFieldLen := func(v ssa.Value) bool {
		val, isLen := lenOfValue(v)
		if !isLen {
			return false
		}
		_, fn, _, ok := loadedField(val)
		return ok && fn == "value"
	}
	s, why := lengthSchemeOf(f, isFieldLen)
	if why == "" {
		return s, ""
	}
	// helper form: return h(len(x.value)) on the variable-length path
	var res prefixScheme
	resWhy := why
	eachInstr(f, func(in ssa.Instruction) {
		rt, ok := in.(*ssa.Return)
		if !ok || len(rt.Results) != 1 {
			return
		}
		c, ok := rt.Results[0].(*ssa.Call)
		if !ok || c.Call.StaticCallee() == nil || c.Call.StaticCallee().Blocks == nil {
			return
		}
		h := c.Call.StaticCallee()
		for idx, a := range c.Call.Args {
			if isFieldLen(a) && idx < len(h.Params) {
				prm := h.Params[idx]
				hs, hw := lengthSchemeOf(h, func(v ssa.Value) bool { return v == ssa.Value(prm) })
				if hw == "" {
					res, resWhy = hs, ""
				} else {
					resWhy = "helper " + h.Name() + ": " + hw
				}
			}
		}
	})
	return res, resWhy
}

func lengthSchemeOf(f *ssa.Function, isLen func(ssa.Value) bool) (prefixScheme, string) {
	s := prefixScheme{Marker: -1, Max: -1}
	type leaf struct{ lo, hi, k int64 }
	var leaves []leaf
	w := &absWalker{MaxPaths: 512}
	w.OnEnd = func(st *absState, last ssa.Instruction) {
		rt, ok := last.(*ssa.Return)
		if !ok || len(rt.Results) != 1 {
			return
		}
		l := st.linear(rt.Results[0])
		if l.Sym == "" || l.SymV == nil || !isLen(st.resolve(l.SymV)) {
			return // the fixed-length leaf (int(Len)) is the subject of the length-accounting rule
		}
		lo, hi := st.boundsOf(linForm{Sym: l.Sym, SymV: l.SymV})
		leaves = append(leaves, leaf{lo, hi, l.K})
	}
	if len(f.Blocks) == 0 {
		return s, "no body"
	}
	w.walk(newAbsState(), f.Blocks[0], 0)
	if w.Overflow || w.Looped {
		return s, "the method is not a loop-free decision on len(value)"
	}
	if len(leaves) == 0 {
		return s, "no comparison of len(value) with a constant found"
	}
	haveS, haveL := false, false
	for _, lf := range leaves {
		switch {
		case lf.hi < absInf && lf.lo <= 0:
			if haveS && (s.Threshold != lf.hi+1 || s.ShortOver != lf.k) {
				return s, "the short-form exits disagree with each other"
			}
			haveS, s.Threshold, s.ShortOver = true, lf.hi+1, lf.k
		case lf.hi == absInf && lf.lo > 0:
			if haveL && (s.Max != lf.lo || s.LongOver != lf.k) {
				return s, "the long-form exits disagree with each other"
			}
			haveL, s.Max, s.LongOver = true, lf.lo, lf.k // Max temporarily holds the lower bound of the long form
		case lf.hi == absInf:
			return s, fmt.Sprintf("len(value)%+d is returned without a test of the length", lf.k)
		default:
			return s, fmt.Sprintf("len(value)%+d is returned for lengths in [%d,%d]: more than two forms", lf.k, lf.lo, lf.hi)
		}
	}
	if !haveS || !haveL {
		return s, "the two edges do not return len(value)+constant"
	}
	if s.Max != s.Threshold {
		return s, fmt.Sprintf("short form below %d but long form from %d", s.Threshold, s.Max)
	}
	s.Max = -1
	return s, ""
}

// encoderPrefixSchemes extracts the scheme from each variable-length branch of the encoder (keyed by getter): the paths
// from the getter call to the function's exits are enumerated; on each, the interval of len(value), the bytes written
// relative to the index parameter (length octet, marker, two-byte length, payload) and the outcome are collected.
func encoderPrefixSchemes(enc *ssa.Function) map[string]prefixScheme {
	s, _ := encoderPrefixSchemesWhy(enc)
	return s
}

func encoderPrefixSchemesWhy(enc *ssa.Function) (map[string]prefixScheme, map[string]string) {
	out := map[string]prefixScheme{}
	whys := map[string]string{}
	var idxParam *ssa.Parameter
	for _, prm := range enc.Params {
		if _, _, ok := intSize(prm.Type()); ok {
			idxParam = prm
		}
	}
	eachInstr(enc, func(in ssa.Instruction) {
		gc, ok := in.(*ssa.Call)
		if !ok {
			return
		}
		getter := calleeName(&gc.Call)
		getter = getter[strings.LastIndex(getter, ".")+1:]
		if getter != "GetOctetArrayValue" && getter != "GetStringValue" {
			return
		}
		isL := func(st *absState, v ssa.Value) bool {
			val, ok := lenOfValue(st.resolve(v))
			return ok && st.resolve(val) == ssa.Value(gc)
		}
		type leaf struct {
			lo, hi                       int64
			len8, marker, len16, payload int64
			markerVal                    int64
			success, known               bool
		}
		var leaves []leaf
		w := &absWalker{MaxPaths: 2048}
		off := func(st *absState, v ssa.Value) (int64, bool) {
			l := st.linear(v)
			if idxParam != nil && l.Sym == st.key(idxParam) {
				return l.K, true
			}
			return 0, false
		}
		var lSym string
		var lSymV ssa.Value
		w.OnInstr = func(st *absState, x ssa.Instruction) {
			switch y := x.(type) {
			case *ssa.Store:
				ia, ok := st.resolve(y.Addr).(*ssa.IndexAddr)
				if !ok {
					return
				}
				k, ok := off(st, ia.Index)
				if !ok {
					return
				}
				v := st.resolve(y.Val)
				if cv, ok := v.(*ssa.Convert); ok && isL(st, cv.X) {
					st.Events = append(st.Events, absEvent{Kind: "len8", Off: k, In: x})
				} else if m, ok := constInt(v); ok {
					st.Events = append(st.Events, absEvent{Kind: "marker", Off: k, Val: m, In: x})
				}
			case *ssa.Call:
				n := calleeName(&y.Call)
				if b, ok := y.Call.Value.(*ssa.Builtin); ok && b.Name() == "copy" {
					if st.resolve(stripStringBytes(y.Call.Args[1])) != ssa.Value(gc) {
						return
					}
					if sl, ok := st.resolve(y.Call.Args[0]).(*ssa.Slice); ok && sl.Low != nil {
						if k, ok := off(st, sl.Low); ok {
							st.Events = append(st.Events, absEvent{Kind: "payload", Off: k, In: x})
						}
					} else if sl != nil && sl.Low == nil {
						st.Events = append(st.Events, absEvent{Kind: "payload", Off: 0, In: x})
					}
				} else if n == "(encoding/binary.bigEndian).PutUint16" && len(y.Call.Args) == 3 {
					cv, ok := st.resolve(y.Call.Args[2]).(*ssa.Convert)
					if !ok || !isL(st, cv.X) {
						return
					}
					if sl, ok := st.resolve(y.Call.Args[1]).(*ssa.Slice); ok && sl.Low != nil {
						if k, ok := off(st, sl.Low); ok {
							st.Events = append(st.Events, absEvent{Kind: "len16", Off: k, In: x})
						}
					}
				}
				if lv, ok := lenOfValue(y); ok && st.resolve(lv) == ssa.Value(gc) && lSym == "" {
					lSym, lSymV = st.key(y), y
				}
			}
		}
		w.OnEnd = func(st *absState, last ssa.Instruction) {
			rt, ok := last.(*ssa.Return)
			if !ok {
				return
			}
			lf := leaf{len8: -1, marker: -1, len16: -1, payload: -1, markerVal: -1, lo: 0, hi: absInf}
			if lSym != "" {
				lf.lo, lf.hi = st.boundsOf(linForm{Sym: lSym, SymV: lSymV})
			}
			for _, e := range st.Events {
				switch e.Kind {
				case "len8":
					lf.len8 = e.Off
				case "marker":
					lf.marker, lf.markerVal = e.Off, e.Val
				case "len16":
					lf.len16 = e.Off
				case "payload":
					lf.payload = e.Off
				}
			}
			if len(rt.Results) > 0 {
				isNil, known := st.nilness(rt.Results[len(rt.Results)-1])
				lf.success, lf.known = isNil, known
			}
			leaves = append(leaves, lf)
		}
		st0 := newAbsState()
		w.walk(st0, gc.Block(), instrIndex(gc)+1)
		s := prefixScheme{Marker: -1, Max: -1, Threshold: -1, ShortOver: -1, LongOver: -1}
		why := ""
		if w.Overflow || w.Looped {
			why = "the branch of " + getter + " is not a loop-free decision on the value length"
		}
		haveS, haveL := false, false
		errLo := int64(absInf)
		for _, lf := range leaves {
			prefix := lf.len8 >= 0 || lf.len16 >= 0 || (lf.marker >= 0 && lf.len16 >= 0)
			constrained := lf.lo > 0 || lf.hi < absInf
			switch {
			case !lf.known:
				if prefix && why == "" {
					why = "an exit that wrote a length prefix returns an error value that cannot be told from nil"
				}
			case !lf.success:
				if constrained && lf.lo < errLo {
					errLo = lf.lo
				}
			case !constrained:
				if prefix && why == "" {
					why = "a length prefix is written without a test of the value length"
				}
			case lf.len8 >= 0 && lf.len16 < 0:
				if lf.len8 != 0 && why == "" {
					why = fmt.Sprintf("the length octet is written at offset %d", lf.len8)
				}
				if haveS && (s.Threshold != lf.hi+1 || s.ShortOver != lf.payload) && why == "" {
					why = "the short-form exits disagree with each other"
				}
				if lf.lo > 0 && why == "" {
					why = fmt.Sprintf("the short form is used from length %d only", lf.lo)
				}
				haveS, s.Threshold, s.ShortOver = true, lf.hi+1, lf.payload
			case lf.len16 >= 0:
				if (lf.marker != 0 || lf.len16 != 1) && why == "" {
					why = fmt.Sprintf("long form: marker at offset %d, two-byte length at offset %d (expected 0 and 1)", lf.marker, lf.len16)
				}
				if haveL && (s.Max != lf.hi || s.LongOver != lf.payload || s.Marker != lf.markerVal) && why == "" {
					why = "the long-form exits disagree with each other"
				}
				haveL, s.Max, s.LongOver, s.Marker = true, lf.hi, lf.payload, lf.markerVal
				if haveS && lf.lo != s.Threshold && why == "" {
					why = fmt.Sprintf("short form below %d but long form from %d", s.Threshold, lf.lo)
				}
			default:
				if why == "" {
					why = fmt.Sprintf("lengths in [%d,%d] are accepted without a length prefix", lf.lo, lf.hi)
				}
			}
		}
		if haveL && s.Max == absInf {
			s.Max = -1
		}
		if haveL && s.Max >= 0 && errLo != absInf && errLo != s.Max+1 && why == "" {
			why = fmt.Sprintf("lengths from %d are refused but the long form ends at %d", errLo, s.Max)
		}
		if (!haveS || !haveL) && why == "" {
			why = "no length-prefix selection found for " + getter
		}
		out[getter] = s
		if why != "" {
			whys[getter] = why
		}
	})
	return out, whys
}

// stripStringBytes: copy(dst, string) is compiled with the string passed as is; a []byte(s) conversion is transparent.
func stripStringBytes(v ssa.Value) ssa.Value {
	if cv, ok := v.(*ssa.Convert); ok {
		return cv.X
	}
	return v
}

// readerPrefixScheme extracts the scheme of the collector's prefix reader (getFieldLength): one byte b; b < T => b,
// otherwise a 2-byte big-endian length follows.
func readerPrefixScheme(p *Prog, f *ssa.Function) (prefixScheme, string) {
	s := prefixScheme{Marker: -1, Max: 65535}
	var rb *ssa.Call
	eachInstr(f, func(in ssa.Instruction) {
		if c, ok := in.(*ssa.Call); ok && calleeName(&c.Call) == "(*bytes.Buffer).ReadByte" {
			rb = c
		}
	})
	if rb == nil {
		return s, "no ReadByte of the first length octet"
	}
	found := false
	eachInstr(f, func(in ssa.Instruction) {
		i, ok := in.(*ssa.If)
		if !ok {
			return
		}
		b, ok := i.Cond.(*ssa.BinOp)
		if !ok {
			return
		}
		ex, ok := b.X.(*ssa.Extract)
		if !ok || ex.Tuple != ssa.Value(rb) || ex.Index != 0 {
			return
		}
		c, ok := constInt(b.Y)
		if !ok {
			return
		}
		t, ss, ok := normThreshold(b.Op, c)
		if !ok {
			if b.Op == token.EQL { // b == 255 => long
				t, ss, ok = c, 1, true
				s.Marker = c
			} else if b.Op == token.NEQ {
				t, ss, ok = c, 0, true
				s.Marker = c
			}
		}
		if !ok {
			return
		}
		s.Threshold = t
		if s.Marker < 0 {
			s.Marker = t // every first octet >= T announces the long form; with T = 255 that is exactly 255
		}
		s.ShortOver = 1
		// long edge decodes a uint16
		long := i.Block().Succs[1-ss]
		okLong := false
		var walk func(b *ssa.BasicBlock, d int)
		walk = func(b *ssa.BasicBlock, d int) {
			if d > 3 {
				return
			}
			for _, x := range b.Instrs {
				if c, ok := x.(*ssa.Call); ok && calleeName(&c.Call) == "pkg/util.Decode" {
					ts := decodeTargets(c)
					if len(ts) == 1 && strings.Contains(ts[0].Type().String(), "uint16") {
						okLong = true
					}
				}
			}
			for _, sx := range b.Succs {
				walk(sx, d+1)
			}
		}
		walk(long, 0)
		if okLong {
			s.LongOver = 3
		}
		found = true
	})
	if !found {
		return s, "no comparison of the first length octet with a constant"
	}
	return s, ""
}

var _ = constant.MakeBool

// ---------- fixed-offset writes (message header, set header, template record) ----------

type putSite struct {
	In    *ssa.Call
	Width int
	Order string
	Base  string // "T.f" for a field-held buffer, "local" for a fresh local array
	Low   int64  // -1 when not constant
	High  int64  // -1 when absent
	Val   ssa.Value
}

func putSites(f *ssa.Function) []putSite {
	var out []putSite
	eachInstr(f, func(in ssa.Instruction) {
		c, ok := in.(*ssa.Call)
		if !ok {
			return
		}
		n := calleeName(&c.Call)
		var w int
		var o string
		for _, oo := range []string{"bigEndian", "littleEndian"} {
			for _, ww := range []int{16, 32, 64} {
				if n == fmt.Sprintf("(encoding/binary.%s).PutUint%d", oo, ww) {
					w, o = ww/8, map[string]string{"bigEndian": "BigEndian", "littleEndian": "LittleEndian"}[oo]
				}
			}
		}
		if w == 0 {
			return
		}
		ps := putSite{In: c, Width: w, Order: o, Low: -1, High: -1, Val: c.Call.Args[2], Base: "?"}
		dst := c.Call.Args[1]
		if sl, ok := dst.(*ssa.Slice); ok {
			if sl.Low == nil {
				ps.Low = 0
			} else if v, ok := constInt(sl.Low); ok {
				ps.Low = v
			}
			if sl.High != nil {
				if v, ok := constInt(sl.High); ok {
					ps.High = v
				}
			}
			base := sl.X
			if inner, ok := base.(*ssa.Slice); ok { // slice of a slice of a local array: addBytes[0:2]
				base = inner.X
				if inner.Low != nil {
					if v, ok := constInt(inner.Low); ok && v != 0 {
						ps.Low = -1
					}
				}
			}
			if tn, fn, _, ok := loadedField(base); ok {
				ps.Base = tn + "." + fn
			} else if _, ok := base.(*ssa.Alloc); ok {
				ps.Base = "local"
			}
		}
		out = append(out, ps)
	})
	return out
}

func valueDesc(v ssa.Value) string {
	v = stripChange(v)
	if c, ok := v.(*ssa.Const); ok && c.Value != nil {
		return "const " + c.Value.ExactString()
	}
	if pa, ok := v.(*ssa.Parameter); ok {
		return "param " + pa.Name()
	}
	if tn, fn, _, ok := loadedField(v); ok {
		return "field " + tn + "." + fn
	}
	if cv, ok := v.(*ssa.Convert); ok {
		return "convert(" + valueDesc(cv.X) + ")"
	}
	return v.Name()
}
