package main

// Source normalisation ("de-extraction"). The rules of this checker are written against the functions of the tree they
// were developed on (known_funcs.txt). The most common behaviour-preserving refactor - moving a block into a new
// private helper (or turning a closure into a method) - moves the constructs a rule looks at into a function the rule
// does not know. Before the program is loaded for analysis, every NEW unexported function or method (one that is not in
// known_funcs.txt), that has no defer/recover, is not recursive, does not escape as a value and is called from at most
// maxSites places of its own package, is spliced back into its call sites:
//
//	x, err := cp.helper(a, b)      =>   var __i1_a0 T0 = a; var __i1_a1 T1 = b; var __i1_r0 R0; var __i1_r1 R1
//	                                    { cp := cp; p0 := __i1_a0; p1 := __i1_a1; <body, `return e0, e1` => { __i1_r0, __i1_r1 = e0, e1; goto __i1_L }> }
//	                                    __i1_L: x, err := __i1_r0, __i1_r1
//
// The result is ordinary Go that type-checks and has the control flow of the un-extracted code; //line directives keep
// every reported position pointing at the real file and line. Nothing is executed. If a helper cannot be spliced
// (unsupported call position, name capture, missing import) it is left alone and the rules see it as it is.

import (
	"bytes"
	_ "embed"
	"fmt"
	"go/ast"
	"go/parser"
	"go/token"
	"go/types"
	"os"
	"path/filepath"
	"regexp"
	"sort"
	"strings"

	"golang.org/x/tools/go/packages"
)

//go:embed known_funcs.txt
var knownFuncsTxt string

const maxInlineSites = 4

func knownFuncs() map[string]bool {
	m := map[string]bool{}
	for _, l := range strings.Split(knownFuncsTxt, "\n") {
		l = strings.TrimSpace(l)
		if l != "" && !strings.HasPrefix(l, "#") {
			m[l] = true
		}
	}
	return m
}

// funcDeclKey: "<dir relative to repo>|<receiver type or empty>|<name>"
func funcDeclKey(relDir string, fd *ast.FuncDecl) string {
	recv := ""
	if fd.Recv != nil && len(fd.Recv.List) > 0 {
		t := fd.Recv.List[0].Type
		if s, ok := t.(*ast.StarExpr); ok {
			t = s.X
		}
		if ix, ok := t.(*ast.IndexExpr); ok {
			t = ix.X
		}
		if id, ok := t.(*ast.Ident); ok {
			recv = id.Name
		}
	}
	return relDir + "|" + recv + "|" + fd.Name.Name
}

// repoGoFiles lists the non-test Go files of the repository (path -> content, overlay applied).
func repoGoFiles(repo string, overlay map[string][]byte) (map[string][]byte, error) {
	out := map[string][]byte{}
	err := filepath.Walk(repo, func(path string, fi os.FileInfo, err error) error {
		if err != nil {
			return err
		}
		if fi.IsDir() {
			n := fi.Name()
			if path != repo && (strings.HasPrefix(n, ".") || n == "vendor" || n == "testdata" || n == "_out") {
				return filepath.SkipDir
			}
			return nil
		}
		if !strings.HasSuffix(path, ".go") || strings.HasSuffix(path, "_test.go") {
			return nil
		}
		if b, ok := overlay[path]; ok {
			out[path] = b
			return nil
		}
		b, err := os.ReadFile(path)
		if err != nil {
			return err
		}
		out[path] = b
		return nil
	})
	return out, err
}

// DumpFuncs prints the function keys of the tree (used to regenerate known_funcs.txt).
func DumpFuncs(repo string) error {
	files, err := repoGoFiles(repo, nil)
	if err != nil {
		return err
	}
	var keys []string
	fset := token.NewFileSet()
	for path, src := range files {
		f, err := parser.ParseFile(fset, path, src, parser.SkipObjectResolution)
		if err != nil {
			return err
		}
		rel, _ := filepath.Rel(repo, filepath.Dir(path))
		for _, d := range f.Decls {
			if fd, ok := d.(*ast.FuncDecl); ok {
				keys = append(keys, funcDeclKey(rel, fd))
				if countIIFE(fd) > 0 {
					keys = append(keys, "iife:"+funcDeclKey(rel, fd))
				}
				if countLocalClosureDefs(fd) > 0 {
					keys = append(keys, "lclosure:"+funcDeclKey(rel, fd))
				}
			}
		}
	}
	sort.Strings(keys)
	for _, k := range keys {
		fmt.Println(k)
	}
	return nil
}

type localClosure struct {
	name     string
	def      *ast.AssignStmt
	lit      *ast.FuncLit
	sig      *types.Signature
	sites    []*siteInfo
	hasDefer bool
}

// localClosures finds "name := func(...) {...}" statements of fd whose variable is only ever called (1..4 calls, all in
// fd itself and not inside another function literal or a go / defer statement), never reassigned, not recursive, and
// whose free variables mean the same at every call site.
func localClosures(pk *packages.Package, fd *ast.FuncDecl) []*localClosure {
	var out []*localClosure
	byObj := map[types.Object]*localClosure{}
	ast.Inspect(fd.Body, func(n ast.Node) bool {
		as, ok := n.(*ast.AssignStmt)
		if !ok || as.Tok != token.DEFINE || len(as.Lhs) != 1 || len(as.Rhs) != 1 {
			return true
		}
		id, ok := as.Lhs[0].(*ast.Ident)
		lit, ok2 := as.Rhs[0].(*ast.FuncLit)
		if !ok || !ok2 {
			return true
		}
		obj := pk.TypesInfo.Defs[id]
		sig, ok := pk.TypesInfo.TypeOf(lit).(*types.Signature)
		if obj == nil || !ok || sig.Variadic() {
			return true
		}
		lc := &localClosure{name: id.Name, def: as, lit: lit, sig: sig}
		byObj[obj] = lc
		out = append(out, lc)
		return true
	})
	if len(out) == 0 {
		return nil
	}
	bad := map[*localClosure]bool{}
	var stack []ast.Node
	ast.Inspect(fd, func(n ast.Node) bool {
		if n == nil {
			stack = stack[:len(stack)-1]
			return true
		}
		stack = append(stack, n)
		id, ok := n.(*ast.Ident)
		if !ok {
			return true
		}
		lc := byObj[pk.TypesInfo.Uses[id]]
		if lc == nil {
			return true
		}
		// must be the callee of a call
		if len(stack) < 2 {
			bad[lc] = true
			return true
		}
		call, isCall := stack[len(stack)-2].(*ast.CallExpr)
		if !isCall || ast.Unparen(call.Fun) != ast.Expr(id) {
			bad[lc] = true
			return true
		}
		for k := len(stack) - 3; k >= 0; k-- {
			switch x := stack[k].(type) {
			case *ast.FuncLit:
				bad[lc] = true // called from another literal (possibly itself)
			case *ast.GoStmt:
				if x.Call == call {
					bad[lc] = true
				}
			case *ast.DeferStmt:
				if x.Call == call {
					bad[lc] = true
				}
			}
		}
		lc.sites = append(lc.sites, &siteInfo{call: call, stack: append([]ast.Node{}, stack[:len(stack)-1]...)})
		return true
	})
	var res []*localClosure
	for _, lc := range out {
		if bad[lc] || len(lc.sites) == 0 || len(lc.sites) > maxInlineSites {
			continue
		}
		okLC := true
		ast.Inspect(lc.lit.Body, func(m ast.Node) bool {
			switch x := m.(type) {
			case *ast.DeferStmt:
				if !insideFuncLit(lc.lit.Body, x) {
					lc.hasDefer = true
				}
			case *ast.CallExpr:
				if id, ok := x.Fun.(*ast.Ident); ok && id.Name == "recover" {
					okLC = false
				}
			case *ast.LabeledStmt:
				okLC = false
			case *ast.Ident:
				// a free variable of the literal must be the same object at every call site
				o := pk.TypesInfo.Uses[x]
				if o == nil || o.Parent() == nil || o.Parent() == pk.Types.Scope() || o.Parent() == types.Universe {
					return true
				}
				if o.Pos() >= lc.lit.Pos() && o.Pos() < lc.lit.End() {
					return true // declared inside the literal
				}
				for _, si := range lc.sites {
					inner := pk.Types.Scope().Innermost(si.call.Pos())
					if inner == nil {
						okLC = false
						continue
					}
					if _, o2 := inner.LookupParent(x.Name, si.call.Pos()); o2 != o {
						okLC = false
					}
				}
			}
			return true
		})
		if okLC {
			res = append(res, lc)
		}
	}
	return res
}

// countIIFE: function literals applied in place (not as go / defer statements) inside fd.
func countIIFE(fd *ast.FuncDecl) int {
	if fd.Body == nil {
		return 0
	}
	n := 0
	var stack []ast.Node
	ast.Inspect(fd.Body, func(nd ast.Node) bool {
		if nd == nil {
			stack = stack[:len(stack)-1]
			return true
		}
		stack = append(stack, nd)
		if call, ok := nd.(*ast.CallExpr); ok {
			if _, isLit := ast.Unparen(call.Fun).(*ast.FuncLit); isLit && len(stack) >= 2 {
				switch stack[len(stack)-2].(type) {
				case *ast.GoStmt, *ast.DeferStmt:
				default:
					n++
				}
			}
		}
		return true
	})
	return n
}

// countLocalClosureDefs: "name := func(...) {...}" statements inside fd (syntactic).
func countLocalClosureDefs(fd *ast.FuncDecl) int {
	if fd.Body == nil {
		return 0
	}
	n := 0
	ast.Inspect(fd.Body, func(nd ast.Node) bool {
		if as, ok := nd.(*ast.AssignStmt); ok && as.Tok == token.DEFINE && len(as.Lhs) == 1 && len(as.Rhs) == 1 {
			if _, isLit := as.Rhs[0].(*ast.FuncLit); isLit {
				n++
			}
		}
		return true
	})
	return n
}

// hasNewFuncs: cheap syntactic pre-check.
func hasNewFuncs(repo string, overlay map[string][]byte, known map[string]bool) bool {
	files, err := repoGoFiles(repo, overlay)
	if err != nil {
		return false
	}
	fset := token.NewFileSet()
	for path, src := range files {
		f, err := parser.ParseFile(fset, path, src, parser.SkipObjectResolution)
		if err != nil {
			return false // let the real loader report it
		}
		rel, _ := filepath.Rel(repo, filepath.Dir(path))
		for _, d := range f.Decls {
			if fd, ok := d.(*ast.FuncDecl); ok && !known[funcDeclKey(rel, fd)] {
				return true
			}
			if fd, ok := d.(*ast.FuncDecl); ok && !known["iife:"+funcDeclKey(rel, fd)] && countIIFE(fd) > 0 {
				return true
			}
			if fd, ok := d.(*ast.FuncDecl); ok && !known["lclosure:"+funcDeclKey(rel, fd)] && countLocalClosureDefs(fd) > 0 {
				return true
			}
		}
	}
	return false
}

type textEdit struct {
	file       string
	start, end int
	text       string
	helper     string // key of the helper this edit splices (SplicedHelpers)
}

// Normalize returns an overlay in which new private helpers are spliced into their call sites, plus notes for the evidence.
// SplicedHelpers is filled by Normalize: "<relDir>|<recv>|<name>" of the new helpers whose every call site was spliced. Their
// own declarations are kept in the source (so that the program still compiles) but are not analysed a second time.
var SplicedHelpers = map[string]bool{}

func Normalize(repo string, overlay map[string][]byte) (map[string][]byte, []string) {
	SplicedHelpers = map[string]bool{}
	known := knownFuncs()
	var notes []string
	cur := map[string][]byte{}
	for k, v := range overlay {
		cur[k] = v
	}
	if !hasNewFuncs(repo, cur, known) {
		return overlay, nil
	}
	counter := 0
	for iter := 0; iter < 5; iter++ {
		edits, imports, ns, err := collectInlineEdits(repo, cur, known, &counter)
		if err != nil {
			notes = append(notes, "normalisation stopped: "+firstLine(err.Error()))
			break
		}
		notes = append(notes, ns...)
		if len(edits) == 0 {
			break
		}
		byFile := map[string][]textEdit{}
		for _, e := range edits {
			byFile[e.file] = append(byFile[e.file], e)
		}
		for file, es := range byFile {
			src, ok := cur[file]
			if !ok {
				b, err := os.ReadFile(file)
				if err != nil {
					continue
				}
				src = b
			}
			sort.Slice(es, func(i, j int) bool { return es[i].start > es[j].start })
			// drop overlapping edits (a nested site is handled in the next iteration)
			var kept []textEdit
			lastStart := len(src) + 1
			for _, e := range es {
				if e.end <= lastStart {
					kept = append(kept, e)
					lastStart = e.start
				} else if e.helper != "" {
					// dropped because it overlaps an enclosing edit: the helper still has a call site; it is looked at
					// again in the next round
					delete(SplicedHelpers, e.helper)
				}
			}
			out := append([]byte{}, src...)
			for _, e := range kept {
				out = append(out[:e.start], append([]byte(e.text), out[e.end:]...)...)
			}
			// missing imports
			if imps := imports[file]; len(imps) > 0 {
				real := map[string]string{}
				var aliases []string
				for n, p := range imps {
					if strings.HasPrefix(n, "\x00type:") {
						aliases = append(aliases, strings.TrimPrefix(n, "\x00type:")+" = "+p)
					} else {
						real[n] = p
					}
				}
				if len(real) > 0 {
					out = addImports(out, real)
				}
				sort.Strings(aliases)
				for _, a := range aliases {
					decl := "\ntype " + a + "\n"
					if !bytes.Contains(out, []byte(decl)) {
						out = append(out, []byte(decl)...)
					}
				}
			}
			cur[file] = out
		}
	}
	return cur, notes
}

func addImports(src []byte, imps map[string]string) []byte {
	// insert after the package clause line
	i := bytes.Index(src, []byte("\npackage "))
	if bytes.HasPrefix(src, []byte("package ")) {
		i = -1
	} else if i < 0 {
		return src
	}
	j := bytes.IndexByte(src[i+1:], '\n')
	if j < 0 {
		return src
	}
	at := i + 1 + j + 1
	var b strings.Builder
	names := make([]string, 0, len(imps))
	for n := range imps {
		names = append(names, n)
	}
	sort.Strings(names)
	for _, n := range names {
		// keep the line count of the file unchanged for the code below: put all imports on one line
		fmt.Fprintf(&b, "import %s %q; ", n, imps[n])
	}
	lineOf := 1 + bytes.Count(src[:at], []byte("\n"))
	ins := b.String() + fmt.Sprintf("\n//line %s:%d\n", "", lineOf)
	_ = ins
	// simpler and exact: imports on the same line as the package clause (no line shift)
	clauseEnd := at - 1
	res := append([]byte{}, src[:clauseEnd]...)
	res = append(res, []byte("; "+strings.TrimSuffix(b.String(), "; "))...)
	res = append(res, src[clauseEnd:]...)
	return res
}

type helperInfo struct {
	decl     *ast.FuncDecl
	obj      *types.Func
	file     *ast.File
	path     string
	pkg      *packages.Package
	sites    []*siteInfo
	reason   string // non-empty: not inlinable
	hasDefer bool   // its own deferred calls must keep running at ITS exit: spliced as a function literal only
}

type siteInfo struct {
	call  *ast.CallExpr
	stack []ast.Node // ancestors, outermost first, ending with the call
	file  *ast.File
	path  string
}

func collectInlineEdits(repo string, overlay map[string][]byte, known map[string]bool, counter *int) ([]textEdit, map[string]map[string]string, []string, error) {
	env := append(os.Environ(), "GOFLAGS=-mod=mod", "GOPROXY=off", "GOSUMDB=off", "GOTOOLCHAIN=local", "GOWORK=off")
	cfg := &packages.Config{
		Mode:    packages.NeedName | packages.NeedFiles | packages.NeedCompiledGoFiles | packages.NeedImports | packages.NeedTypes | packages.NeedTypesSizes | packages.NeedSyntax | packages.NeedTypesInfo,
		Dir:     repo,
		Env:     env,
		Overlay: overlay,
	}
	pkgs, err := packages.Load(cfg, "./...")
	if err != nil {
		return nil, nil, nil, err
	}
	var notes []string
	var edits []textEdit
	imports := map[string]map[string]string{}
	for _, pk := range pkgs {
		if !strings.HasPrefix(pk.PkgPath, modPath) || len(pk.Errors) > 0 {
			continue
		}
		helpers := map[*types.Func]*helperInfo{}
		// functions of the reference tree that are gone from this package: a new function with a similar name is a
		// RENAME of one of them (possibly with another signature), not an extracted helper, and stays a function
		present := map[string]bool{}
		pkRel := ""
		for i, f := range pk.Syntax {
			path := pk.CompiledGoFiles[i]
			if strings.HasSuffix(path, "_test.go") {
				continue
			}
			rel, _ := filepath.Rel(repo, filepath.Dir(path))
			pkRel = rel
			for _, d := range f.Decls {
				if fd, ok := d.(*ast.FuncDecl); ok {
					present[funcDeclKey(rel, fd)] = true
				}
			}
		}
		var goneNames []string
		for k := range known {
			if strings.HasPrefix(k, pkRel+"|") && !present[k] && pkRel != "" {
				goneNames = append(goneNames, k[strings.LastIndex(k, "|")+1:])
			}
		}
		renameOf := func(name string) string {
			for _, g := range goneNames {
				n := 0
				for n < len(g) && n < len(name) && g[n] == name[n] {
					n++
				}
				m := len(g)
				if len(name) < m {
					m = len(name)
				}
				if n >= 6 && n*10 >= m*6 {
					return g
				}
			}
			return ""
		}
		for i, f := range pk.Syntax {
			path := pk.CompiledGoFiles[i]
			if strings.HasSuffix(path, "_test.go") {
				continue
			}
			rel, _ := filepath.Rel(repo, filepath.Dir(path))
			for _, d := range f.Decls {
				fd, ok := d.(*ast.FuncDecl)
				if !ok || fd.Body == nil || known[funcDeclKey(rel, fd)] {
					continue
				}
				obj, _ := pk.TypesInfo.Defs[fd.Name].(*types.Func)
				if obj == nil {
					continue
				}
				h := &helperInfo{decl: fd, obj: obj, file: f, path: path, pkg: pk}
				switch {
				case ast.IsExported(fd.Name.Name):
					h.reason = "exported"
				case fd.Type.TypeParams != nil:
					h.reason = "generic"
				case obj.Type().(*types.Signature).Variadic():
					h.reason = "variadic"
				case fd.Name.Name == "init" || fd.Name.Name == "main":
					h.reason = "init/main"
				case renameOf(fd.Name.Name) != "":
					h.reason = "renamed from " + renameOf(fd.Name.Name)
				}
				helpers[obj] = h
			}
		}
		// function literals applied in place (func() {...}()) in functions of the reference tree that had none: the same
		// splice with the literal as the helper and its only call as the site (not for go / defer statements)
		for i, f := range pk.Syntax {
			path := pk.CompiledGoFiles[i]
			if strings.HasSuffix(path, "_test.go") {
				continue
			}
			rel, _ := filepath.Rel(repo, filepath.Dir(path))
			for _, d := range f.Decls {
				fd, ok := d.(*ast.FuncDecl)
				if !ok || fd.Body == nil || known["iife:"+funcDeclKey(rel, fd)] {
					continue
				}
				var stack []ast.Node
				ast.Inspect(fd, func(n ast.Node) bool {
					if n == nil {
						stack = stack[:len(stack)-1]
						return true
					}
					stack = append(stack, n)
					call, ok := n.(*ast.CallExpr)
					if !ok {
						return true
					}
					lit, ok := ast.Unparen(call.Fun).(*ast.FuncLit)
					if !ok || len(stack) < 2 {
						return true
					}
					switch stack[len(stack)-2].(type) {
					case *ast.GoStmt, *ast.DeferStmt:
						return true
					}
					sig, ok := pk.TypesInfo.TypeOf(lit).(*types.Signature)
					if !ok || sig.Variadic() {
						return true
					}
					h := &helperInfo{decl: &ast.FuncDecl{Name: ast.NewIdent("__lit"), Type: lit.Type, Body: lit.Body},
						obj: types.NewFunc(lit.Pos(), pk.Types, "__lit", sig), file: f, path: path, pkg: pk}
					bad := false
					ast.Inspect(lit.Body, func(m ast.Node) bool {
						switch x := m.(type) {
						case *ast.DeferStmt:
							if !insideFuncLit(lit.Body, x) {
								h.hasDefer = true
							}
						case *ast.CallExpr:
							if id, ok := x.Fun.(*ast.Ident); ok && id.Name == "recover" {
								bad = true
							}
						case *ast.LabeledStmt:
							if !strings.HasPrefix(x.Label.Name, "__i") {
								bad = true
							}
						}
						return true
					})
					if bad {
						return true
					}
					si := &siteInfo{call: call, stack: append([]ast.Node{}, stack...), file: f, path: path}
					*counter++
					e, imps, why := spliceSite(pk, overlay, h, si, *counter)
					if why != "" || strings.HasPrefix(e.text, "(func(") {
						return true // left as it is (also when only the literal form would be possible: nothing gained)
					}
					edits = append(edits, e)
					for n2, p2 := range imps {
						if imports[si.path] == nil {
							imports[si.path] = map[string]string{}
						}
						imports[si.path][n2] = p2
					}
					notes = append(notes, fmt.Sprintf("function literal applied in place in %s.%s spliced at %s", pk.Name, fd.Name.Name, shortPos(repo, pk.Fset.Position(call.Pos()))))
					return true
				})
			}
		}
		// local closures ("name := func(...) {...}" that is only ever called, in the function that defines it), in functions
		// of the reference tree that had none: every call is spliced and the definition removed
		for i, f := range pk.Syntax {
			path := pk.CompiledGoFiles[i]
			if strings.HasSuffix(path, "_test.go") {
				continue
			}
			rel, _ := filepath.Rel(repo, filepath.Dir(path))
			for _, d := range f.Decls {
				fd, ok := d.(*ast.FuncDecl)
				if !ok || fd.Body == nil || known["lclosure:"+funcDeclKey(rel, fd)] {
					continue
				}
				for _, lc := range localClosures(pk, fd) {
					var es []textEdit
					okAll := true
					for _, si := range lc.sites {
						si.file, si.path = f, path
						h := &helperInfo{decl: &ast.FuncDecl{Name: ast.NewIdent(lc.name), Type: lc.lit.Type, Body: lc.lit.Body},
							obj: types.NewFunc(lc.lit.Pos(), pk.Types, lc.name, lc.sig), file: f, path: path, pkg: pk, hasDefer: lc.hasDefer}
						*counter++
						e, imps, why := spliceSite(pk, overlay, h, si, *counter)
						if why != "" || strings.HasPrefix(e.text, "(func(") || len(imps) > 0 {
							okAll = false
							break
						}
						es = append(es, e)
					}
					if !okAll {
						continue
					}
					// the definition goes: keep its line count
					srcB := overlay[path]
					if srcB == nil {
						srcB, _ = os.ReadFile(path)
					}
					a, b := pk.Fset.PositionFor(lc.def.Pos(), false).Offset, pk.Fset.PositionFor(lc.def.End(), false).Offset
					es = append(es, textEdit{file: path, start: a, end: b, text: strings.Repeat("\n", strings.Count(string(srcB[a:b]), "\n"))})
					// overlapping edits (a call inside another spliced region) would be dropped one by one: all or nothing
					overlap := false
					for x := range es {
						for y := range es {
							if x != y && es[x].start < es[y].end && es[y].start < es[x].end {
								overlap = true
							}
						}
						for _, e0 := range edits {
							if e0.file == path && es[x].start < e0.end && e0.start < es[x].end {
								overlap = true
							}
						}
					}
					if overlap {
						continue
					}
					edits = append(edits, es...)
					notes = append(notes, fmt.Sprintf("local closure %s of %s.%s spliced into its %d call site(s)", lc.name, pk.Name, fd.Name.Name, len(lc.sites)))
				}
			}
		}
		if len(helpers) == 0 {
			continue
		}
		// body restrictions
		for _, h := range helpers {
			if h.reason != "" {
				continue
			}
			ast.Inspect(h.decl.Body, func(n ast.Node) bool {
				switch x := n.(type) {
				case *ast.DeferStmt:
					if !insideFuncLit(h.decl.Body, x) {
						h.hasDefer = true
					}
				case *ast.CallExpr:
					if id, ok := x.Fun.(*ast.Ident); ok && id.Name == "recover" {
						h.reason = "uses recover"
					}
					if calleeOf(pk.TypesInfo, x) == h.obj {
						h.reason = "recursive"
					}
				case *ast.LabeledStmt:
					// labels left by an earlier splice (__iN_L) are renamed per site; a label of the author's is not
					if !strings.HasPrefix(x.Label.Name, "__i") {
						h.reason = "has labels"
					}
				}
				return true
			})
		}
		// uses
		for i, f := range pk.Syntax {
			path := pk.CompiledGoFiles[i]
			if strings.HasSuffix(path, "_test.go") {
				continue
			}
			var stack []ast.Node
			ast.Inspect(f, func(n ast.Node) bool {
				if n == nil {
					stack = stack[:len(stack)-1]
					return true
				}
				stack = append(stack, n)
				if call, ok := n.(*ast.CallExpr); ok {
					if fn := calleeOf(pk.TypesInfo, call); fn != nil {
						if h := helpers[fn]; h != nil {
							h.sites = append(h.sites, &siteInfo{call: call, stack: append([]ast.Node{}, stack...), file: f, path: path})
						}
					}
				}
				if id, ok := n.(*ast.Ident); ok {
					if fn, ok := pk.TypesInfo.Uses[id].(*types.Func); ok {
						if h := helpers[fn]; h != nil {
							// a use that is not the function position of a call => escapes as a value
							isCallee := false
							for k := len(stack) - 2; k >= 0 && k >= len(stack)-3; k-- {
								if c, ok := stack[k].(*ast.CallExpr); ok {
									if calleeIdent(c) == id {
										isCallee = true
									}
								}
							}
							if !isCallee {
								h.reason = "used as a value"
							}
						}
					}
				}
				return true
			})
		}
		// leaf-first: a helper that calls another pending helper waits for the next iteration
		pending := func(h *helperInfo) bool { return h.reason == "" && len(h.sites) > 0 && len(h.sites) <= maxInlineSites }
		for _, h := range helpers {
			if !pending(h) {
				continue
			}
			ast.Inspect(h.decl.Body, func(n ast.Node) bool {
				if c, ok := n.(*ast.CallExpr); ok {
					if fn := calleeOf(pk.TypesInfo, c); fn != nil && fn != h.obj {
						if o := helpers[fn]; o != nil && pending(o) {
							h.reason = "waits for " + fn.Name()
						}
					}
				}
				return true
			})
		}
		keys := make([]*helperInfo, 0, len(helpers))
		for _, h := range helpers {
			keys = append(keys, h)
		}
		sort.Slice(keys, func(i, j int) bool { return keys[i].decl.Pos() < keys[j].decl.Pos() })
		for _, h := range keys {
			if h.reason == "" && len(h.sites) == 0 {
				rel, _ := filepath.Rel(repo, filepath.Dir(pk.Fset.Position(h.decl.Pos()).Filename))
				if SplicedHelpers[funcDeclKey(rel, h.decl)] {
					continue
				}
				h.reason = "no call site in its package"
			}
			if h.reason == "" && len(h.sites) > maxInlineSites {
				h.reason = fmt.Sprintf("%d call sites", len(h.sites))
			}
			if h.reason != "" {
				if !strings.HasPrefix(h.reason, "waits for") {
					notes = append(notes, fmt.Sprintf("new function %s.%s left as it is (%s)", pk.Name, h.decl.Name.Name, h.reason))
				}
				continue
			}
			allSpliced := true
			for _, s := range h.sites {
				*counter++
				e, imps, why := spliceSite(pk, overlay, h, s, *counter)
				if why != "" {
					allSpliced = false
					notes = append(notes, fmt.Sprintf("call of new function %s.%s at %s not spliced (%s)", pk.Name, h.decl.Name.Name, pk.Fset.Position(s.call.Pos()), why))
					continue
				}
				{
					rel, _ := filepath.Rel(repo, filepath.Dir(pk.Fset.Position(h.decl.Pos()).Filename))
					e.helper = funcDeclKey(rel, h.decl)
				}
				edits = append(edits, e)
				for n, p := range imps {
					if imports[s.path] == nil {
						imports[s.path] = map[string]string{}
					}
					imports[s.path][n] = p
				}
				notes = append(notes, fmt.Sprintf("new function %s.%s spliced into its call site at %s", pk.Name, h.decl.Name.Name, shortPos(repo, pk.Fset.Position(s.call.Pos()))))
			}
			if allSpliced {
				rel, _ := filepath.Rel(repo, filepath.Dir(pk.Fset.Position(h.decl.Pos()).Filename))
				SplicedHelpers[funcDeclKey(rel, h.decl)] = true
			}
		}
	}
	return edits, imports, notes, nil
}

func shortPos(repo string, p token.Position) string {
	rel, err := filepath.Rel(repo, p.Filename)
	if err != nil {
		rel = p.Filename
	}
	return fmt.Sprintf("%s:%d", rel, p.Line)
}

func insideFuncLit(root ast.Node, target ast.Node) bool {
	inside := false
	var walk func(n ast.Node, depth int)
	walk = func(n ast.Node, depth int) {
		ast.Inspect(n, func(m ast.Node) bool {
			if m == nil {
				return true
			}
			if m == target {
				if depth > 0 {
					inside = true
				}
				return false
			}
			if fl, ok := m.(*ast.FuncLit); ok && m != n {
				walk(fl.Body, depth+1)
				return false
			}
			return true
		})
	}
	walk(root, 0)
	return inside
}

func calleeIdent(c *ast.CallExpr) *ast.Ident {
	switch f := ast.Unparen(c.Fun).(type) {
	case *ast.Ident:
		return f
	case *ast.SelectorExpr:
		return f.Sel
	}
	return nil
}

func calleeOf(info *types.Info, c *ast.CallExpr) *types.Func {
	id := calleeIdent(c)
	if id == nil {
		return nil
	}
	fn, _ := info.Uses[id].(*types.Func)
	return fn
}

// exprInlineOK: the helper's body is "return <expr>" (one result, no named results) and receiver and arguments at this
// call site are plain names / selector chains / literals (evaluating them once, twice or not at all makes no difference),
// and the receiver's pointer-ness matches.
func exprInlineOK(pk *packages.Package, h *helperInfo, s *siteInfo) bool {
	if h.hasDefer || len(h.decl.Body.List) != 1 {
		return false
	}
	ret, ok := h.decl.Body.List[0].(*ast.ReturnStmt)
	if !ok || len(ret.Results) != 1 {
		return false
	}
	sig := h.obj.Type().(*types.Signature)
	if sig.Results().Len() != 1 || (h.decl.Type.Results.List[0].Names != nil) {
		return false
	}
	// no function literal inside (its own returns / scopes)
	hasLit := false
	ast.Inspect(ret.Results[0], func(n ast.Node) bool {
		if _, ok := n.(*ast.FuncLit); ok {
			hasLit = true
		}
		return true
	})
	if hasLit {
		return false
	}
	var simple func(e ast.Expr) bool
	simple = func(e ast.Expr) bool {
		switch x := ast.Unparen(e).(type) {
		case *ast.Ident, *ast.BasicLit:
			return true
		case *ast.SelectorExpr:
			return simple(x.X)
		}
		return false
	}
	for _, a := range s.call.Args {
		if !simple(a) {
			return false
		}
	}
	if s.call.Ellipsis.IsValid() {
		return false
	}
	if h.decl.Recv != nil && len(h.decl.Recv.List) > 0 {
		sel, ok := ast.Unparen(s.call.Fun).(*ast.SelectorExpr)
		if !ok || !simple(sel.X) {
			return false
		}
		_, wantPtr := sig.Recv().Type().(*types.Pointer)
		_, havePtr := pk.TypesInfo.TypeOf(sel.X).(*types.Pointer)
		if wantPtr != havePtr {
			return false
		}
	}
	// parameter count must match the arguments (no unnamed parameters used)
	n := 0
	for _, fld := range h.decl.Type.Params.List {
		if len(fld.Names) == 0 {
			n++
		}
		n += len(fld.Names)
	}
	return n == len(s.call.Args)
}

var splicedName = regexp.MustCompile(`\b__i([0-9x]+)_`)

// spliceSite builds the replacement of the statement that contains the call.
func spliceSite(pk *packages.Package, overlay map[string][]byte, h *helperInfo, s *siteInfo, n int) (textEdit, map[string]string, string) {
	fset := pk.Fset
	srcOf := func(path string) []byte {
		if b, ok := overlay[path]; ok {
			return b
		}
		b, _ := os.ReadFile(path)
		return b
	}
	callerSrc, calleeSrc := srcOf(s.path), srcOf(h.path)
	off := func(p token.Pos) int { return fset.PositionFor(p, false).Offset }
	text := func(src []byte, a, b token.Pos) string { return string(src[off(a):off(b)]) }
	sig := h.obj.Type().(*types.Signature)
	prefix := fmt.Sprintf("__i%d_", n)

	// the statement that contains the call and how the call sits in it
	var stmt ast.Stmt
	var stmtIdx int
	for i := len(s.stack) - 2; i >= 0; i-- {
		if _, isLit := s.stack[i].(*ast.FuncLit); isLit {
			break
		}
		if st, ok := s.stack[i].(ast.Stmt); ok {
			stmt, stmtIdx = st, i
			break
		}
	}
	if stmt == nil {
		return textEdit{}, nil, "call is not inside a statement"
	}
	parent := s.stack[stmtIdx-1]
	kind := ""
	var replaceNode ast.Node = stmt
	var ifStmt *ast.IfStmt
	switch st := stmt.(type) {
	case *ast.ExprStmt:
		if ast.Unparen(st.X) == ast.Expr(s.call) {
			kind = "expr"
		}
	case *ast.AssignStmt:
		if len(st.Rhs) == 1 && ast.Unparen(st.Rhs[0]) == ast.Expr(s.call) {
			kind = "assign"
		}
	case *ast.ReturnStmt:
		if len(st.Results) == 1 && ast.Unparen(st.Results[0]) == ast.Expr(s.call) {
			kind = "return"
		}
	case *ast.GoStmt:
		if st.Call == s.call {
			kind = "go"
		}
	case *ast.DeferStmt:
		if st.Call == s.call {
			kind = "defer"
		}
	case *ast.IfStmt:
		// call is (part of) the condition
		c := ast.Unparen(st.Cond)
		if u, ok := c.(*ast.UnaryExpr); ok && u.Op == token.NOT {
			c = ast.Unparen(u.X)
		}
		if c == ast.Expr(s.call) && st.Init == nil && sig.Results().Len() == 1 {
			kind = "ifcond"
			ifStmt = st
		}
	case *ast.ForStmt:
		// for h(args) { body }  =>  for { <h spliced>; if !r0 { break }; body }   (no init / post statement)
		if st.Cond != nil && st.Init == nil && st.Post == nil && sig.Results().Len() == 1 && !h.hasDefer {
			c := ast.Unparen(st.Cond)
			if u, ok := c.(*ast.UnaryExpr); ok && u.Op == token.NOT {
				c = ast.Unparen(u.X)
			}
			if c == ast.Expr(s.call) {
				kind = "forcond"
			}
		}
	}
	// the call sits somewhere inside a simple statement (an argument of another call, an operand): hoist it in front of the
	// statement, provided it is evaluated unconditionally (no && / ||, no function literal, no selector of a go/defer)
	if kind == "" && sig.Results().Len() == 1 && !h.hasDefer {
		switch stmt.(type) {
		case *ast.ExprStmt, *ast.AssignStmt, *ast.ReturnStmt:
			okNest := true
			for i := stmtIdx + 1; i < len(s.stack)-1; i++ {
				switch x := s.stack[i].(type) {
				case *ast.FuncLit:
					okNest = false
				case *ast.BinaryExpr:
					if x.Op == token.LAND || x.Op == token.LOR {
						okNest = false
					}
				}
			}
			if okNest {
				kind = "nested"
			}
		}
	}
	// a helper with deferred calls can still be spliced as statements when it is called as the LAST statement of the
	// enclosing function: its defers then run at the same moment (the caller's exit)
	tail := false
	if kind == "expr" && h.hasDefer {
		if blk, ok := parent.(*ast.BlockStmt); ok && len(blk.List) > 0 && blk.List[len(blk.List)-1] == stmt && stmtIdx >= 2 {
			switch fn := s.stack[stmtIdx-2].(type) {
			case *ast.FuncDecl:
				tail = fn.Body == blk
			case *ast.FuncLit:
				tail = fn.Body == blk
			}
		}
	}
	if kind == "" || kind == "go" || kind == "defer" || (h.hasDefer && !tail) {
		kind = "lit"
	}
	// a helper that is one expression ("return <expr>") called with plain names: substitute the expression in place,
	// wherever the call stands (right operand of &&, loop condition, argument ...). Preferred over the statement forms
	// for predicates: the result is exactly the expression the author factored out.
	if exprInlineOK(pk, h, s) && kind != "go" && kind != "defer" {
		kind = "exprinline"
	}
	// is the statement the Init of an if?
	if kind == "lit" || kind == "exprinline" {
		// nothing to check: the call expression itself is replaced
	} else if is, ok := parent.(*ast.IfStmt); ok && is.Init == stmt {
		if kind != "expr" && kind != "assign" && kind != "nested" {
			return textEdit{}, nil, "unsupported call position (if init)"
		}
		ifStmt = is
		replaceNode = is
		if kind == "nested" {
			// the call is an operand inside the init statement: evaluated first and once, like the init's own call
			kind = "assign"
		}
		kind = "ifinit-" + kind
	} else if kind == "forcond" {
		switch parent.(type) {
		case *ast.BlockStmt, *ast.CaseClause, *ast.CommClause:
		default:
			return textEdit{}, nil, "statement is not in a statement list"
		}
	} else if kind != "ifcond" {
		switch parent.(type) {
		case *ast.BlockStmt, *ast.CaseClause, *ast.CommClause:
		default:
			return textEdit{}, nil, "statement is not in a statement list"
		}
	} else {
		replaceNode = ifStmt
	}
	if _, isLabeled := parent.(*ast.LabeledStmt); isLabeled && kind != "lit" && kind != "exprinline" {
		return textEdit{}, nil, "labeled statement"
	}

	// name capture: package-level / universe names used by the callee must mean the same thing at the call site
	inner := pk.Types.Scope().Innermost(s.call.Pos())
	capture := ""
	type typeRename struct {
		at, n int
		alias string
	}
	var typeRenames []typeRename
	needImports := map[string]string{}
	callerImports := map[string]string{} // name -> path
	for _, is := range s.file.Imports {
		if pn, ok := pk.TypesInfo.Implicits[is].(*types.PkgName); ok {
			callerImports[pn.Name()] = pn.Imported().Path()
		} else if is.Name != nil {
			if pn, ok := pk.TypesInfo.Defs[is.Name].(*types.PkgName); ok {
				callerImports[pn.Name()] = pn.Imported().Path()
			}
		}
	}
	ast.Inspect(h.decl, func(nd ast.Node) bool {
		id, ok := nd.(*ast.Ident)
		if !ok {
			return true
		}
		obj := pk.TypesInfo.Uses[id]
		if obj == nil {
			return true
		}
		if pn, ok := obj.(*types.PkgName); ok {
			if p, bound := callerImports[pn.Name()]; bound {
				if p != pn.Imported().Path() {
					capture = "import name " + pn.Name() + " means another package in the caller's file"
				}
			} else if inner != nil {
				if _, o := inner.LookupParent(pn.Name(), s.call.Pos()); o != nil {
					capture = "name " + pn.Name() + " is shadowed at the call site"
				} else {
					needImports[pn.Name()] = pn.Imported().Path()
				}
			}
			return true
		}
		if obj.Parent() == pk.Types.Scope() || obj.Parent() == types.Universe {
			if inner != nil {
				if _, o := inner.LookupParent(id.Name, s.call.Pos()); o != obj {
					// a package-level TYPE whose name is used for a variable at the call site (template, set, record ...):
					// the spliced text refers to it through an alias of the same byte length, declared at the end of the file
					if tn, isType := obj.(*types.TypeName); isType && obj.Parent() == pk.Types.Scope() && len(id.Name) >= 3 && !tn.IsAlias() {
						alias := "\u039e" + id.Name[2:]
						if ex := pk.Types.Scope().Lookup(alias); ex == nil || types.Identical(ex.Type(), obj.Type()) {
							typeRenames = append(typeRenames, typeRename{off(id.Pos()), len(id.Name), alias})
							needImports["\x00type:"+alias] = id.Name
							return true
						}
					}
					capture = "name " + id.Name + " is shadowed at the call site"
				}
			}
		}
		return true
	})
	if capture != "" {
		return textEdit{}, nil, capture
	}
	if len(typeRenames) > 0 {
		patched := append([]byte{}, calleeSrc...)
		for _, tr := range typeRenames {
			copy(patched[tr.at:tr.at+tr.n], []byte(tr.alias))
		}
		calleeSrc = patched
	}

	if kind == "exprinline" {
		ret := h.decl.Body.List[0].(*ast.ReturnStmt)
		expr := ret.Results[0]
		// parameter / receiver objects -> argument text
		subst := map[types.Object]string{}
		if h.decl.Recv != nil && len(h.decl.Recv.List) > 0 && len(h.decl.Recv.List[0].Names) > 0 {
			sel := ast.Unparen(s.call.Fun).(*ast.SelectorExpr)
			if o := pk.TypesInfo.Defs[h.decl.Recv.List[0].Names[0]]; o != nil {
				subst[o] = text(callerSrc, sel.X.Pos(), sel.X.End())
			}
		}
		ai := 0
		for _, fld := range h.decl.Type.Params.List {
			for _, nm := range fld.Names {
				if o := pk.TypesInfo.Defs[nm]; o != nil && ai < len(s.call.Args) {
					subst[o] = text(callerSrc, s.call.Args[ai].Pos(), s.call.Args[ai].End())
				}
				ai++
			}
		}
		type rep struct {
			a, b int
			t    string
		}
		var reps []rep
		ast.Inspect(expr, func(nd ast.Node) bool {
			if id, ok := nd.(*ast.Ident); ok {
				if o := pk.TypesInfo.Uses[id]; o != nil {
					if t, ok := subst[o]; ok {
						reps = append(reps, rep{off(id.Pos()), off(id.End()), t})
					}
				}
			}
			return true
		})
		sort.Slice(reps, func(i, j int) bool { return reps[i].a < reps[j].a })
		var eb strings.Builder
		at := off(expr.Pos())
		for _, rp := range reps {
			eb.Write(calleeSrc[at:rp.a])
			eb.WriteString(rp.t)
			at = rp.b
		}
		eb.Write(calleeSrc[at:off(expr.End())])
		callEnd := fset.Position(s.call.End())
		// conversions to the declared result type keep the static type of the call
		resT := text(calleeSrc, h.decl.Type.Results.List[0].Type.Pos(), h.decl.Type.Results.List[0].Type.End())
		txt := "(" + resT + ")(" + strings.ReplaceAll(eb.String(), "\n", " ") + ")"
		if _, isBasic := sig.Results().At(0).Type().(*types.Basic); isBasic {
			txt = "(" + strings.ReplaceAll(eb.String(), "\n", " ") + ")"
		}
		txt += fmt.Sprintf("/*line %s:%d:%d*/", callEnd.Filename, callEnd.Line, callEnd.Column)
		return textEdit{file: s.path, start: off(s.call.Pos()), end: off(s.call.End()), text: txt}, needImports, ""
	}

	if kind == "lit" {
		// (func(recv R, params) results { body })(recvExpr, args): the helper's body as a function literal applied in place.
		// Its returns and defers keep their meaning; used for go/defer statements, helpers with deferred calls and call
		// positions that cannot take a statement list.
		var lit strings.Builder
		calleePos := fset.Position(h.decl.Body.Lbrace)
		callEnd := fset.Position(s.call.End())
		lit.WriteString("(func(")
		var argTxt []string
		if h.decl.Recv != nil && len(h.decl.Recv.List) > 0 {
			sel, ok := ast.Unparen(s.call.Fun).(*ast.SelectorExpr)
			if !ok {
				return textEdit{}, nil, "method call without selector"
			}
			rf := h.decl.Recv.List[0]
			rname := "_"
			if len(rf.Names) > 0 {
				rname = rf.Names[0].Name
			}
			rtxt := text(callerSrc, sel.X.Pos(), sel.X.End())
			_, wantPtr := sig.Recv().Type().(*types.Pointer)
			_, havePtr := pk.TypesInfo.TypeOf(sel.X).(*types.Pointer)
			if wantPtr && !havePtr {
				rtxt = "&(" + rtxt + ")"
			} else if !wantPtr && havePtr {
				rtxt = "*(" + rtxt + ")"
			}
			lit.WriteString(rname + " " + text(calleeSrc, rf.Type.Pos(), rf.Type.End()))
			if len(h.decl.Type.Params.List) > 0 {
				lit.WriteString(", ")
			}
			argTxt = append(argTxt, rtxt)
		}
		if pl := h.decl.Type.Params; pl != nil && len(pl.List) > 0 {
			lit.WriteString(strings.ReplaceAll(text(calleeSrc, pl.List[0].Pos(), pl.List[len(pl.List)-1].End()), "\n", " "))
		}
		lit.WriteString(")")
		if rl := h.decl.Type.Results; rl != nil && len(rl.List) > 0 {
			lit.WriteString(" (" + strings.ReplaceAll(text(calleeSrc, rl.List[0].Pos(), rl.List[len(rl.List)-1].End()), "\n", " ") + ")")
		}
		lit.WriteString(" {")
		fmt.Fprintf(&lit, "\n//line %s:%d:%d\n", calleePos.Filename, calleePos.Line, calleePos.Column+1)
		lit.WriteString(string(calleeSrc[off(h.decl.Body.Lbrace)+1 : off(h.decl.Body.Rbrace)]))
		lit.WriteString("\n})(")
		for _, a := range s.call.Args {
			argTxt = append(argTxt, text(callerSrc, a.Pos(), a.End()))
		}
		lit.WriteString(strings.Join(argTxt, ", "))
		if s.call.Ellipsis.IsValid() {
			lit.WriteString("...")
		}
		lit.WriteString(")")
		fmt.Fprintf(&lit, "/*line %s:%d:%d*/", callEnd.Filename, callEnd.Line, callEnd.Column)
		return textEdit{file: s.path, start: off(s.call.Pos()), end: off(s.call.End()), text: lit.String()}, needImports, ""
	}

	var b strings.Builder
	calleePos := fset.Position(h.decl.Body.Lbrace) // adjusted by earlier //line directives: the real file and line
	stmtEndPos := fset.Position(replaceNode.End())

	// receiver and arguments are evaluated first, into uniquely named temporaries of the enclosing scope
	type bind struct{ name, typ, tmp string }
	var binds []bind
	if h.decl.Recv != nil && len(h.decl.Recv.List) > 0 {
		sel, ok := ast.Unparen(s.call.Fun).(*ast.SelectorExpr)
		if !ok {
			return textEdit{}, nil, "method call without selector"
		}
		rf := h.decl.Recv.List[0]
		rname := "_"
		if len(rf.Names) > 0 {
			rname = rf.Names[0].Name
		}
		rtxt := text(callerSrc, sel.X.Pos(), sel.X.End())
		_, wantPtr := sig.Recv().Type().(*types.Pointer)
		_, havePtr := pk.TypesInfo.TypeOf(sel.X).(*types.Pointer)
		if wantPtr && !havePtr {
			rtxt = "&(" + rtxt + ")"
		} else if !wantPtr && havePtr {
			rtxt = "*(" + rtxt + ")"
		}
		tmp := prefix + "recv"
		fmt.Fprintf(&b, "%s := %s; ", tmp, rtxt)
		binds = append(binds, bind{rname, "", tmp})
	}
	argi := 0
	for _, fld := range h.decl.Type.Params.List {
		ttxt := text(calleeSrc, fld.Type.Pos(), fld.Type.End())
		names := fld.Names
		if len(names) == 0 {
			names = []*ast.Ident{{Name: "_"}}
		}
		for _, nm := range names {
			if argi >= len(s.call.Args) {
				return textEdit{}, nil, "argument count mismatch"
			}
			a := s.call.Args[argi]
			tmp := fmt.Sprintf("%sa%d", prefix, argi)
			fmt.Fprintf(&b, "var %s %s = %s; ", tmp, ttxt, text(callerSrc, a.Pos(), a.End()))
			binds = append(binds, bind{nm.Name, ttxt, tmp})
			argi++
		}
	}
	if argi != len(s.call.Args) {
		return textEdit{}, nil, "argument count mismatch"
	}
	// result temporaries
	var rtmps, rnames []string
	if h.decl.Type.Results != nil {
		ri := 0
		for _, fld := range h.decl.Type.Results.List {
			ttxt := text(calleeSrc, fld.Type.Pos(), fld.Type.End())
			cnt := len(fld.Names)
			if cnt == 0 {
				cnt = 1
			}
			for k := 0; k < cnt; k++ {
				tmp := fmt.Sprintf("%sr%d", prefix, ri)
				fmt.Fprintf(&b, "var %s %s; ", tmp, ttxt)
				rtmps = append(rtmps, tmp)
				if len(fld.Names) > 0 {
					rnames = append(rnames, fld.Names[k].Name+" "+ttxt)
				}
				ri++
			}
		}
	}
	label := prefix + "L"
	usedLabel := false
	// temporaries and labels of helpers spliced into this helper in an earlier round become unique per site of this splice
	renameSpliced := func(t string) string {
		if !strings.Contains(t, "__i") {
			return t
		}
		return splicedName.ReplaceAllString(t, prefix+"x${1}_")
	}
	// the body with its returns rewritten
	body := h.decl.Body
	bodySrcStart, bodySrcEnd := off(body.Lbrace)+1, off(body.Rbrace)
	type rep struct {
		a, b int
		t    string
	}
	var reps []rep
	named := len(rnames) > 0
	var namedOnly []string
	for _, rn := range rnames {
		namedOnly = append(namedOnly, strings.SplitN(rn, " ", 2)[0])
	}
	var bad string
	var visit func(n ast.Node) bool
	visit = func(nd ast.Node) bool {
		switch x := nd.(type) {
		case *ast.FuncLit:
			return false
		case *ast.ReturnStmt:
			var t strings.Builder
			t.WriteString("{ ")
			switch {
			case len(x.Results) == 0:
				if named {
					fmt.Fprintf(&t, "%s = %s; ", strings.Join(rtmps, ", "), strings.Join(namedOnly, ", "))
				}
			case len(rtmps) == 0:
				bad = "return with values in a function without results"
			default:
				var es []string
				for _, e := range x.Results {
					es = append(es, renameSpliced(text(calleeSrc, e.Pos(), e.End())))
				}
				fmt.Fprintf(&t, "%s = %s; ", strings.Join(rtmps, ", "), strings.Join(es, ", "))
			}
			fmt.Fprintf(&t, "goto %s }", label)
			usedLabel = true
			reps = append(reps, rep{off(x.Pos()), off(x.End()), t.String()})
			return false
		}
		return true
	}
	ast.Inspect(body, visit)
	if bad != "" {
		return textEdit{}, nil, bad
	}
	sort.Slice(reps, func(i, j int) bool { return reps[i].a < reps[j].a })
	var bodyTxt strings.Builder
	at := bodySrcStart
	for _, rp := range reps {
		seg := string(calleeSrc[rp.a:rp.b])
		if strings.Contains(seg, "\n") {
			// keep the line count: pad the replacement with the newlines the original had
			rp.t += strings.Repeat("\n", strings.Count(seg, "\n"))
		}
		bodyTxt.WriteString(renameSpliced(string(calleeSrc[at:rp.a])))
		bodyTxt.WriteString(rp.t)
		at = rp.b
	}
	bodyTxt.WriteString(renameSpliced(string(calleeSrc[at:bodySrcEnd])))

	// the spliced block
	var blk strings.Builder
	blk.WriteString("{ ")
	for _, bd := range binds {
		if bd.name == "_" {
			fmt.Fprintf(&blk, "_ = %s; ", bd.tmp)
		} else {
			fmt.Fprintf(&blk, "%s := %s; _ = %s; ", bd.name, bd.tmp, bd.name)
		}
	}
	for _, rn := range rnames {
		nm := strings.SplitN(rn, " ", 2)
		if nm[0] != "_" {
			fmt.Fprintf(&blk, "var %s; _ = %s; ", rn, nm[0])
		}
	}
	fmt.Fprintf(&blk, "\n//line %s:%d:%d\n", calleePos.Filename, calleePos.Line, calleePos.Column+1)
	blk.WriteString(bodyTxt.String())
	if named {
		// falling off the end is impossible for functions with results, but keep the named results flowing
		fmt.Fprintf(&blk, "; %s = %s", strings.Join(rtmps, ", "), strings.Join(namedOnly, ", "))
	}
	blk.WriteString("\n}")
	lbl := ""
	if usedLabel {
		lbl = label + ": "
	}
	back := fmt.Sprintf("\n//line %s:%d:%d\n", stmtEndPos.Filename, stmtEndPos.Line, stmtEndPos.Column)

	results := strings.Join(rtmps, ", ")
	var out strings.Builder
	switch kind {
	case "expr":
		out.WriteString(b.String())
		out.WriteString(blk.String())
		if usedLabel {
			out.WriteString("\n" + lbl + ";")
		}
		for _, t := range rtmps {
			fmt.Fprintf(&out, " _ = %s;", t)
		}
	case "assign":
		st := stmt.(*ast.AssignStmt)
		out.WriteString(b.String())
		out.WriteString(blk.String())
		out.WriteString("\n" + lbl)
		out.WriteString(text(callerSrc, st.Pos(), s.call.Pos()) + results + text(callerSrc, s.call.End(), st.End()))
	case "nested":
		out.WriteString(b.String())
		out.WriteString(blk.String())
		out.WriteString("\n" + lbl)
		out.WriteString(text(callerSrc, stmt.Pos(), s.call.Pos()) + results + text(callerSrc, s.call.End(), stmt.End()))
	case "return":
		out.WriteString(b.String())
		out.WriteString(blk.String())
		out.WriteString("\n" + lbl + "return " + results)
	case "go", "defer":
		// evaluate the arguments now, run the body in a closure
		out.WriteString(b.String())
		out.WriteString(kind + " func() { ")
		out.WriteString(blk.String())
		if usedLabel {
			out.WriteString("\n" + lbl + ";")
		}
		for _, t := range rtmps {
			fmt.Fprintf(&out, " _ = %s;", t)
		}
		out.WriteString(" }()")
	case "ifcond":
		out.WriteString("{ " + b.String())
		out.WriteString(blk.String())
		out.WriteString("\n" + lbl)
		out.WriteString(text(callerSrc, ifStmt.Pos(), s.call.Pos()) + results + text(callerSrc, s.call.End(), ifStmt.End()))
		out.WriteString(" }")
	case "forcond":
		fs := stmt.(*ast.ForStmt)
		bodyPos := fset.Position(fs.Body.Lbrace)
		out.WriteString("for { " + b.String())
		out.WriteString(blk.String())
		out.WriteString("\n" + lbl)
		out.WriteString("if !(" + text(callerSrc, fs.Cond.Pos(), s.call.Pos()) + results + text(callerSrc, s.call.End(), fs.Cond.End()) + ") { break }")
		fmt.Fprintf(&out, "\n//line %s:%d:%d\n", bodyPos.Filename, bodyPos.Line, bodyPos.Column+1)
		out.WriteString(text(callerSrc, fs.Body.Lbrace+1, fs.Body.Rbrace))
		out.WriteString("\n}")
	case "ifinit-expr", "ifinit-assign":
		out.WriteString("{ " + b.String())
		out.WriteString(blk.String())
		out.WriteString("\n" + lbl)
		if kind == "ifinit-assign" {
			out.WriteString(text(callerSrc, ifStmt.Pos(), s.call.Pos()) + results + text(callerSrc, s.call.End(), ifStmt.End()))
		} else {
			for _, t := range rtmps {
				fmt.Fprintf(&out, "_ = %s; ", t)
			}
			// drop the init: "if <init>; cond" => "if cond"
			out.WriteString("if " + text(callerSrc, ifStmt.Cond.Pos(), ifStmt.End()))
		}
		out.WriteString(" }")
	}
	out.WriteString(back)
	return textEdit{file: s.path, start: off(replaceNode.Pos()), end: off(replaceNode.End()), text: out.String()}, needImports, ""
}
