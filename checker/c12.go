package main

import (
	"fmt"
	"go/types"
	"strings"

	"golang.org/x/tools/go/ssa"
)

const cpMutex = "pkg/collector.CollectingProcess.mutex"
const cpWG = "pkg/collector.CollectingProcess.wg"

func collectorGuardSpec() *guardSpec {
	return &guardSpec{
		Guarded: map[string]string{
			"pkg/collector.CollectingProcess.templatesMap":         cpMutex,
			"pkg/collector.CollectingProcess.clients":              cpMutex,
			"pkg/collector.CollectingProcess.numOfRecordsReceived": cpMutex,
			"pkg/collector.CollectingProcess.netAddress":           cpMutex,
			"pkg/collector.template.expiryTime":                    cpMutex,
			"pkg/collector.template.expiryTimer":                   cpMutex,
			"pkg/collector.template.ies":                           cpMutex,
		},
		Exempt: map[string]string{
			"(*pkg/collector.CollectingProcess).startTCPServer": "netAddress is only logged right after updateAddress by the single goroutine that sets it (log line, not part of the property's state)",
			"(*pkg/collector.CollectingProcess).startUDPServer": "netAddress is only logged right after updateAddress by the single goroutine that sets it (log line, not part of the property's state)",
		},
	}
}

func init() {
	register(&propDef{
		ID:          "C12",
		Explanation: "Necessary structural conditions for race-free multi-client collection and clean shutdown, decided on SSA: (1) guarded-by/balanced lockset for CollectingProcess.clients / templatesMap / numOfRecordsReceived and the template fields under CollectingProcess.mutex (W for stores, map updates, deletes; R for reads) in every calling context incl. closures and the timer-condition callback; (2) R-WG: every go statement of pkg/collector is dominated by wg.Add and its goroutine defers wg.Done at entry; Stop closes stopChan and then waits on the wait group; (3) registration pairing: every clients[k]=... is followed on all paths by a deferred delete(clients,k) of the same key (in the function or in the goroutine it starts); (4) stop observability: every blocking select reachable from a tracked goroutine has a receive case on a channel of the least stop-closed set S (stopChan; channels closed by a deferred close in a goroutine whose own selects are S-guarded), every bare receive is on S, and the only bare send is the delivery on messageChan (exempt by the property's proviso); (5) delivery order: sends on messageChan occur only in decodePacket, which is called synchronously (no go statement in between) from the per-connection reader and the per-address UDP client. (6) R-STOP.netread: a tracked goroutine that blocks on the network (Accept/Read/ReadFull/Peek...) is ended by its spawner closing the connection/listener after a wait that observes stop - decided in the stop-closed fixpoint without using what the goroutine closes itself; the handler that waits for stop calls no blocking method of the connection; (7) R-OWNER.datagram-buffer: the slice handed to the per-client goroutine is allocated or copied per datagram. Not decided: exactly-once/in-order delivery under all schedules, deadlock freedom with a stalled consumer, promptness, kernel socket release. Later additions: the stored template list is never rewritten in place; the stream framing rules of C11 (a short read loses order / messages). Round-five additions: methods of lock-bearing structs have pointer receivers; registry InfoElements (shared by all connection goroutines without a lock) are never written.",
		Assume:      []string{"sync / channel semantics of the Go memory model", "net.Listener.Accept and Conn.Read return once the owner closes the listener/connection (owner closes after <-stopChan)", "the DTLS listener (outside C12's {tcp,udp,tls}) is reported as information only"},
		Run:         runC12,
	})
}

func runC12(p *Prog, r *Report, tier string) {
	gs := collectorGuardSpec()
	_, accs := checkGuardedBy(p, r, gs, "R-LOCK", "pkg/collector")
	checkLockBearingReceivers(p, r, "R-LOCK.receiver", "pkg/collector")
	// registry elements are shared by every connection goroutine without a lock: they are read-only (no data races)
	checkInfoElementImmutable(p, r, "R-LOCK.info-element")
	if len(accs) < 20 {
		r.Undecided("R-LOCK.guarded", "anchor: guarded accesses of CollectingProcess", "pkg/collector", fmt.Sprintf("only %d guarded accesses found", len(accs)))
	}
	bodies := checkGoTracked(p, r, "R-WG.tracked", "pkg/collector", cpWG, 5)

	// Stop = close(stopChan) then wg.Wait()
	stop := p.Fn("(*pkg/collector.CollectingProcess).Stop")
	if stop == nil {
		r.Undecided("R-WG.stop", "anchor: (*CollectingProcess).Stop", "pkg/collector/process.go", "function not found")
	} else {
		var closeIn, waitIn ssa.Instruction
		eachInstr(stop, func(in ssa.Instruction) {
			c := callOf(in)
			if c == nil {
				return
			}
			if b, ok := c.Value.(*ssa.Builtin); ok && b.Name() == "close" && p.chanIdent(c.Args[0]) == "field:pkg/collector.CollectingProcess.stopChan" {
				closeIn = in
			}
			if id, ok := isWGCall(c, "Wait"); ok && id == cpWG {
				waitIn = in
			}
		})
		okStop := closeIn != nil && waitIn != nil && dominates(closeIn, waitIn)
		if _, isCall := waitIn.(*ssa.Call); !isCall {
			okStop = false
		}
		r.Check(okStop, "R-WG.stop", "(*pkg/collector.CollectingProcess).Stop: close(stopChan) then wg.Wait()", p.pos(stop.Pos()),
			"close(stopChan) dominates wg.Wait()", "Stop does not close stopChan and then wait for the wait group on every path", true)
	}

	// registration pairing on clients
	checkClientPairing(p, r)

	// stop observability
	S := p.stopClosedSet([]string{"field:pkg/collector.CollectingProcess.stopChan"}, bodies)
	var sl []string
	for k := range S {
		sl = append(sl, k)
	}
	r.Facts["stop_closed_set"] = sl
	g := p.CallGraph()
	reach := g.reach(bodies...)
	// also the functions that start goroutines and block themselves (startTCPServer, startUDPServer, handle*)
	for _, f := range p.RepoFns {
		if keyInPkg(fnKey(f), "pkg/collector") {
			reach[f] = true
		}
	}
	nsel := 0
	for f := range reach {
		if !keyInPkg(fnKey(f), "pkg/collector") {
			continue
		}
		if strings.Contains(fnKey(f), "fakeClock") || strings.Contains(fnKey(f), "fakeTimer") {
			continue
		}
		sels, recvs, sends := p.blockingOps(f)
		for i, si := range sels {
			nsel++
			has := false
			for j, c := range si.chans {
				if si.dirs[j] == types.RecvOnly && S[c] {
					has = true
				}
			}
			r.Check(has, "R-STOP.select", fmt.Sprintf("%s: blocking select #%d", fnKey(f), i+1), p.instrPos(si.sel),
				"has a receive case on a stop-closed channel "+fmt.Sprint(si.chans), "blocking select without a case on a stop-closed channel "+fmt.Sprint(si.chans)+": the goroutine cannot observe Stop", true)
		}
		for i, in := range recvs {
			u := in.(*ssa.UnOp)
			c := p.chanIdent(u.X)
			// receives that are select cases are not separate UnOps in SSA; these are bare receives
			r.Check(S[c], "R-STOP.recv", fmt.Sprintf("%s: bare receive #%d on %s", fnKey(f), i+1, c), p.instrPos(in),
				"channel is stop-closed", "bare blocking receive on a channel that Stop does not close", true)
		}
		for i, in := range sends {
			s := in.(*ssa.Send)
			c := p.chanIdent(s.Chan)
			ok := c == "field:pkg/collector.CollectingProcess.messageChan"
			why := "delivery to the consumer (exempt by the property's proviso: the consumer keeps draining)"
			if ok && fnKey(f) != "(*pkg/collector.CollectingProcess).decodePacket" {
				ok = false
			}
			r.Check(ok, "R-STOP.send", fmt.Sprintf("%s: bare send #%d on %s", fnKey(f), i+1, c), p.instrPos(in), why,
				"bare blocking send outside decodePacket's delivery: a stopped peer goroutine would block it forever (or delivery happens outside the per-connection order)", true)
		}
	}
	if nsel < 2 {
		r.Undecided("R-STOP.select", "anchor: blocking selects in pkg/collector", "pkg/collector", "fewer than 2 blocking selects found")
	}

	// goroutines that block on the network end only through a Close by their spawner, which must itself observe stop
	nNet := 0
	for _, b := range bodies {
		calls := p.netBlockingCalls(b)
		if len(calls) == 0 {
			continue
		}
		nNet++
		Sb := map[string]bool{}
		for k := range S {
			Sb[k] = true
		}
		for _, in := range b.Blocks[0].Instrs { // not through what this goroutine closes itself
			if d, ok := in.(*ssa.Defer); ok {
				if bi, ok := d.Call.Value.(*ssa.Builtin); ok && bi.Name() == "close" {
					delete(Sb, p.chanIdent(d.Call.Args[0]))
				}
			}
		}
		r.Check(p.spawnerClosesOnStop(b, Sb), "R-STOP.netread", fnKey(b)+": blocks on the network", p.instrPos(calls[0]),
			calleeName(callOf(calls[0]))+": the spawning function closes the connection/listener after a wait that observes stop",
			"this goroutine blocks in a network read that ends only when the connection is closed, and the function that would close it does not wait on a stop-closed channel: Stop() never returns while the peer keeps the connection open", true)
	}
	if nNet < 4 {
		r.Undecided("R-STOP.netread", "anchor: network-reading goroutines of pkg/collector", "pkg/collector", fmt.Sprintf("expected the accept loop, the TCP reader and the two UDP readers, found %d", nNet))
	}

	// the template list handed out by the lookup is shared between client goroutines without the lock: replacement must
	// not write into it (C04's fresh-list rule)
	checkTemplateReplace(p, r)
	// "every message accepted from a connection is delivered exactly once, in order": the stream framing rules of C11
	checkFraming(p, r)
	// datagram buffers: what is handed to the per-client goroutine must not be overwritten by the next read
	if hu := p.Fn("(*pkg/collector.CollectingProcess).handleUDPMessage"); hu != nil {
		for _, cs := range g.callers[hu] {
			c := callOf(cs)
			if c == nil || len(c.Args) < 3 {
				continue
			}
			f := cs.Parent()
			var under ssa.Value = c.Args[2]
			if sl, ok := under.(*ssa.Slice); ok {
				under = sl.X
			}
			fresh := false
			if ms, ok := under.(*ssa.MakeSlice); ok && ms.Parent() == f && inLoop(ms.Block()) {
				fresh = true
			}
			r.Check(fresh, "R-OWNER.datagram-buffer", fnKey(f)+": buffer handed to handleUDPMessage", p.instrPos(cs), "allocated per datagram inside the read loop (or a per-datagram copy)",
				"the datagram handed to the per-client goroutine shares its array with the buffer of the next read: the message being decoded is overwritten by the following datagram (data race, corrupted delivery)", true)
		}
	}
	// the handler goroutine that waits for stop must not block on the connection itself
	for _, f := range p.RepoFns {
		if !keyInPkg(fnKey(f), "pkg/collector") || len(f.Params) < 2 || typeName(f.Params[1].Type()) != "net.Conn" {
			continue
		}
		sels, _, _ := p.blockingOps(f)
		if len(sels) == 0 {
			continue
		}
		conn := ssa.Value(f.Params[1])
		eachInstr(f, func(in ssa.Instruction) {
			switch x := in.(type) {
			case *ssa.TypeAssert:
				if x.X == conn {
					r.Violation("R-STOP.handler-blocking", fnKey(f)+": connection used through a type assertion", p.instrPos(in), "the handler reaches transport-specific (possibly blocking) methods of the connection before it starts waiting for stop")
				}
			case *ssa.Call:
				if x.Call.IsInvoke() && x.Call.Value == conn {
					m := x.Call.Method.Name()
					ok := m == "RemoteAddr" || m == "LocalAddr" || m == "Close"
					r.Check(ok, "R-STOP.handler-blocking", fmt.Sprintf("%s: conn.%s in the handler", fnKey(f), m), p.instrPos(in), "non-blocking accessor",
						"the handler goroutine (tracked by the wait group) calls a blocking method on the connection before its stop select: Stop() cannot return while a peer stalls there", true)
				}
			}
		})
	}
	// delivery order: decodePacket is called synchronously from the readers (call instruction is a plain Call)
	dp := p.Fn("(*pkg/collector.CollectingProcess).decodePacket")
	if dp == nil {
		r.Undecided("R-OWNER.delivery", "anchor: decodePacket", "pkg/collector/process.go", "function not found")
	} else {
		for _, cs := range g.callers[dp] {
			_, isCall := cs.(*ssa.Call)
			r.Check(isCall, "R-OWNER.delivery", fnKey(cs.Parent())+": call of decodePacket", p.instrPos(cs),
				"synchronous call: messages of one connection are delivered in read order", "decodePacket is started with go/defer: per-connection order is lost", true)
		}
		nSend := 0
		for _, f := range p.RepoFns {
			if !keyInPkg(fnKey(f), "pkg/collector") {
				continue
			}
			eachInstr(f, func(in ssa.Instruction) {
				if s, ok := in.(*ssa.Send); ok && p.chanIdent(s.Chan) == "field:pkg/collector.CollectingProcess.messageChan" {
					nSend++
					r.Check(f == dp, "R-OWNER.delivery", fnKey(f)+": send on messageChan", p.instrPos(in), "sent by decodePacket itself, before it returns to the reader",
						"a decoded message is handed to the output channel from another function or goroutine: messages of one connection can overtake each other", true)
				}
			})
		}
		if nSend == 0 {
			r.Undecided("R-OWNER.delivery", "anchor: send on messageChan", "pkg/collector", "no send on CollectingProcess.messageChan found")
		}
		if len(g.callers[dp]) < 2 {
			r.Undecided("R-OWNER.delivery", "anchor: callers of decodePacket", "pkg/collector", "expected the TCP reader and the UDP client to call decodePacket")
		}
	}
}

// checkClientPairing: every insertion into CollectingProcess.clients is paired with a deferred deletion of the same key.
func checkClientPairing(p *Prog, r *Report) {
	const fld = "pkg/collector.CollectingProcess.clients"
	isClientsMap := func(v ssa.Value) bool {
		tn, fn, _, ok := loadedField(v)
		return ok && tn+"."+fn == fld
	}
	// deletions: closure/function -> key origins
	type del struct {
		fn  *ssa.Function
		key ssa.Value
	}
	var dels []del
	var ups []struct {
		fn  *ssa.Function
		in  ssa.Instruction
		key ssa.Value
	}
	for _, f := range p.RepoFns {
		if !keyInPkg(fnKey(f), "pkg/collector") {
			continue
		}
		eachInstr(f, func(in ssa.Instruction) {
			switch x := in.(type) {
			case *ssa.MapUpdate:
				if isClientsMap(x.Map) && !freshMapBase(x.Map) {
					ups = append(ups, struct {
						fn  *ssa.Function
						in  ssa.Instruction
						key ssa.Value
					}{f, in, p.origin(x.Key)})
				}
			case *ssa.Call:
				if b, ok := x.Call.Value.(*ssa.Builtin); ok && b.Name() == "delete" && isClientsMap(x.Call.Args[0]) {
					dels = append(dels, del{f, p.origin(x.Call.Args[1])})
				}
			}
		})
	}
	if len(ups) == 0 {
		r.Undecided("R-PAIR.clients", "anchor: insertions into CollectingProcess.clients", "pkg/collector", "no insertion found")
		return
	}
	// deferredDelete(fn, key): does fn register (in any block) a Defer whose callee deletes key?
	defersDelete := func(d *ssa.Defer, key ssa.Value) bool {
		callee := d.Call.StaticCallee()
		if callee == nil {
			return false
		}
		for _, dl := range dels {
			if dl.fn == callee && dl.key == key {
				return true
			}
		}
		return false
	}
	for _, u := range ups {
		// the "owner" is the outermost enclosing function in which the update happens synchronously
		owner := u.fn
		anchor := u.in
		for owner.Parent() != nil {
			// the literal is applied synchronously (a plain call) at exactly one place of its parent
			var callIn ssa.Instruction
			n := 0
			eachInstr(owner.Parent(), func(x ssa.Instruction) {
				if c, ok := x.(*ssa.Call); ok && literalCallee(&c.Call) == owner {
					callIn = x
					n++
				}
			})
			if callIn == nil || n != 1 {
				break
			}
			anchor = callIn
			owner = owner.Parent()
		}
		q := &pathQuery{discharge: func(in ssa.Instruction) bool {
			switch x := in.(type) {
			case *ssa.Defer:
				return defersDelete(x, u.key)
			case *ssa.Go:
				if callee := x.Call.StaticCallee(); callee != nil && callee.Blocks != nil {
					for _, y := range callee.Blocks[0].Instrs {
						if d, ok := y.(*ssa.Defer); ok && defersDelete(d, u.key) {
							return true
						}
					}
				}
			case *ssa.Return:
				// returning the freshly registered client to a caller that holds the lock and starts nothing else is
				// still an exit without deregistration
			}
			return false
		}}
		construct := fnKey(owner) + ": clients[k] = ... registration"
		if trail, bad := q.find(anchor); bad {
			r.Violation("R-PAIR.clients", construct, p.instrPos(u.in), "a path to the function exit registers the client without arranging delete(clients, k) of the same key (defer in this function or in the goroutine it starts): the connection count never returns to zero; path "+p.describePath(owner, trail))
		} else {
			r.OK("R-PAIR.clients", construct, p.instrPos(u.in), "every path after the registration passes a deferred delete(clients, sameKey)", true)
		}
	}
}

func freshMapBase(v ssa.Value) bool { return false }
