package main

import (
	"fmt"
	"go/token"
	"go/types"
	"strings"

	"golang.org/x/tools/go/ssa"
)

func init() {
	register(&propDef{
		ID:          "C10",
		Explanation: "Structural preconditions of the UDP template lifetime, decided on SSA: (1) on the UDP side of addTemplate every path stores expiryTime = clock.Now() + templateTTL and then performs exactly one of: install clock.AfterFunc(templateTTL, f) into an expiryTimer that is nil, or Reset(templateTTL) the existing timer (never both, never none; the same TTL field on all three); (2) the timer callback f reaches the template map only through deleteTemplateWithConds with a non-empty condition whose closure reads expiryTime of ITS OWN argument (the template currently stored, looked up under the lock) and compares it with a clock.Now() taken inside f by !After, for the same (obsDomainID, templateID) the timer was armed for; (3) in the delete function the conditions are evaluated before anything is changed: once expiryTimer.Stop() has been called every path performs the deletion (a vetoed delete never stops the re-armed timer), every path to the map deletion passes Stop() unless the timer is nil, and an emptied domain map is pruned; (4) the lockset rules for the template fields and the map (the condition closure is entered only from the locked call site). The interleavings of timer firing, callback execution, refresh and invalidation themselves are schedules and are not enumerated; time.Timer semantics are trusted. Later additions: the entry whose timer fields are written is a fresh &template{} or the lookup result under this call's keys, and a fresh entry is stored only on the miss edge of that lookup. Round-five additions: the per-domain map is created only on the miss edge of the domain lookup (never replaced when it exists). Round-six additions: template.expiryTime / expiryTimer are written by the add / delete functions only.",
		Assume:      []string{"time.AfterFunc / Timer.Reset / Timer.Stop semantics as documented (quoted in the source comment)", "the clock interface is implemented by realClock in production"},
		Run:         runC10,
	})
}

func isFieldLoad(v ssa.Value, want string) bool {
	tn, fn, _, ok := loadedField(v)
	return ok && tn+"."+fn == want
}

func runC10(p *Prog, r *Report, tier string) {
	checkExpiryOwners(p, r, "R-TIMER.owners")
	at := p.Fn("(*pkg/collector.CollectingProcess).addTemplate")
	del := p.Fn("(*pkg/collector.CollectingProcess).deleteTemplateWithConds")
	if at == nil || del == nil {
		r.Undecided("R-TIMER", "anchor: addTemplate / deleteTemplateWithConds", "pkg/collector/process.go", "function not found")
		return
	}
	const ttl = "pkg/collector.CollectingProcess.templateTTL"
	// (1) expiryTime store
	var expStore *ssa.Store
	eachInstr(at, func(in ssa.Instruction) {
		if s, ok := in.(*ssa.Store); ok {
			if tn, fn, _, ok := fieldOf(s.Addr); ok && tn == "pkg/collector.template" && fn == "expiryTime" {
				expStore = s
			}
		}
	})
	okExp := false
	if expStore != nil {
		if c, ok := expStore.Val.(*ssa.Call); ok && calleeName(&c.Call) == "(time.Time).Add" {
			if now, ok := c.Call.Args[0].(*ssa.Call); ok && calleeName(&now.Call) == "iface:pkg/collector.clock.Now" && isFieldLoad(c.Call.Args[1], ttl) {
				okExp = true
			}
		}
	}
	r.Check(okExp, "R-TIMER.expiry-time", fnKey(at)+": expiryTime = clock.Now() + templateTTL", p.pos(at.Pos()), "found", "the expiry time of a (re)transmitted template is not set to now + templateTTL", true)
	// udp-side: every path on the udp edge passes the expiryTime store
	var udpEdge *ssa.BasicBlock
	eachInstr(at, func(in ssa.Instruction) {
		i, ok := in.(*ssa.If)
		if !ok {
			return
		}
		for _, cf := range cmpForms(i.Cond) {
			if cf.Op != token.EQL || !isFieldLoad(cf.X, "pkg/collector.CollectingProcess.protocol") {
				continue
			}
			if s, ok := constString(cf.Y); ok && s == "udp" {
				udpEdge = i.Block().Succs[cf.Succ]
			}
		}
	})
	if udpEdge == nil || expStore == nil {
		r.Undecided("R-TIMER.arm", fnKey(at)+": UDP side", p.pos(at.Pos()), "protocol == \"udp\" test or expiryTime store not found")
	} else {
		q := &pathQuery{discharge: func(in ssa.Instruction) bool { return in == ssa.Instruction(expStore) }}
		_, bad := q.findFromBlock(udpEdge)
		r.Check(!bad, "R-TIMER.expiry-time", fnKey(at)+": every UDP path refreshes expiryTime", p.instrPos(expStore), "the store post-dominates the UDP edge", "a UDP path through addTemplate does not refresh the expiry time: the template is discarded although it was just retransmitted", true)
		// arming
		isArm := func(in ssa.Instruction) string {
			switch x := in.(type) {
			case *ssa.Store:
				if tn, fn, _, ok := fieldOf(x.Addr); ok && tn == "pkg/collector.template" && fn == "expiryTimer" {
					if c, ok := stripChange(x.Val).(*ssa.Call); ok && calleeName(&c.Call) == "iface:pkg/collector.clock.AfterFunc" {
						return "afterfunc"
					}
					return "other-store"
				}
			case *ssa.Call:
				if calleeName(&x.Call) == "iface:pkg/collector.timer.Reset" && isFieldLoad(x.Call.Value, "pkg/collector.template.expiryTimer") {
					return "reset"
				}
			}
			return ""
		}
		q2 := &pathQuery{discharge: func(in ssa.Instruction) bool { a := isArm(in); return a == "afterfunc" || a == "reset" }}
		trail, bad2 := q2.find(expStore)
		twice := false
		eachInstr(at, func(in ssa.Instruction) {
			if a := isArm(in); a == "afterfunc" || a == "reset" {
				q3 := &pathQuery{noExit: true, terminal: func(x ssa.Instruction) bool { b := isArm(x); return b == "afterfunc" || b == "reset" }}
				if _, again := q3.find(in); again {
					twice = true
				}
			}
		})
		switch {
		case bad2:
			r.Violation("R-TIMER.arm", fnKey(at)+": exactly one timer armed per (re)transmission", p.instrPos(expStore), "a path after refreshing expiryTime neither installs AfterFunc nor Resets the existing timer: the template has no expiry pending (or keeps a timer that fires too early); path "+p.describePath(at, trail))
		case twice:
			r.Violation("R-TIMER.arm", fnKey(at)+": exactly one timer armed per (re)transmission", p.instrPos(expStore), "both AfterFunc and Reset (or two timers) can be armed on one path")
		default:
			r.OK("R-TIMER.arm", fnKey(at)+": exactly one timer armed per (re)transmission", p.instrPos(expStore), "every path passes exactly one of AfterFunc-install / Reset", true)
		}
		// guards and TTL arguments of the two arms
		eachInstr(at, func(in ssa.Instruction) {
			switch isArm(in) {
			case "afterfunc":
				c := stripChange(in.(*ssa.Store).Val).(*ssa.Call)
				nilEdge := false
				for _, fct := range blockFacts(in.Block()) {
					if isFieldLoad(fct.X, "pkg/collector.template.expiryTimer") && fct.Op == token.EQL {
						if cst, ok := fct.Y.(*ssa.Const); ok && cst.IsNil() {
							nilEdge = true
						}
					}
				}
				r.Check(nilEdge && isFieldLoad(c.Call.Args[0], ttl), "R-TIMER.arm-new", fnKey(at)+": AfterFunc(templateTTL, f) only when no timer exists", p.instrPos(in), "guarded by expiryTimer == nil, armed for templateTTL",
					"a new timer is created although one may exist (two timers for one template), or it is armed for a duration other than templateTTL", true)
			case "reset":
				c := in.(*ssa.Call)
				r.Check(isFieldLoad(c.Call.Args[0], ttl), "R-TIMER.arm-reset", fnKey(at)+": Reset(templateTTL)", p.instrPos(in), "re-armed for templateTTL", "the existing timer is re-armed for a duration other than templateTTL", true)
			case "other-store":
				r.Violation("R-TIMER.arm", fnKey(at)+": expiryTimer assigned something else than clock.AfterFunc(...)", p.instrPos(in), "unrecognised timer installation")
			}
		})
	}
	// (1b) the entry that carries the timer: a timer's callback is bound to the keys addTemplate was called with when the
	// timer was created, so an entry may only ever be reached under those keys: it is a fresh allocation (no timer yet)
	// or the result of the map lookup under this call's keys - never an object recycled from elsewhere.
	// Both rules are decided on the enumerated paths of addTemplate (abspath.go): the entry may be merged from a lookup
	// helper's results (nil when the domain has no templates yet, the stored entry otherwise) and replaced on the miss
	// edge; which value reaches a store depends on the path taken, and so does "the lookup missed".
	nEnt := 0
	type entrySite struct {
		fn  string
		bad string
	}
	entries := map[ssa.Instruction]*entrySite{}
	var entryOrder []ssa.Instruction
	type updSite struct{ onMissAll, seen bool }
	updates := map[ssa.Instruction]*updSite{}
	var updOrder []ssa.Instruction
	domainUpd := map[ssa.Instruction]*updSite{}
	var domainOrder []ssa.Instruction
	// the comma-ok lookups of the template store in this function: outer (by observation domain) and inner (by template id)
	type lk struct {
		ex    *ssa.Extract // the ok result (comma-ok form)
		val   *ssa.Lookup  // the looked-up entry itself (plain form: nil means "none stored", only non-nil entries are stored)
		inner bool
	}
	var lookups []lk
	eachInstr(at, func(in ssa.Instruction) {
		l, ok := in.(*ssa.Lookup)
		if !ok {
			return
		}
		if !l.CommaOk {
			if mt, ok := l.X.Type().Underlying().(*types.Map); ok && typeName(mt.Elem()) == "pkg/collector.template" {
				if pf, i := paramIndex(p.origin(l.Index)); pf == at && i == 2 {
					lookups = append(lookups, lk{val: l, inner: true})
				}
			}
			return
		}
		mt, ok := l.X.Type().Underlying().(*types.Map)
		if !ok {
			return
		}
		inner := typeName(mt.Elem()) == "pkg/collector.template"
		outer := isFieldLoad(l.X, "pkg/collector.CollectingProcess.templatesMap")
		if !inner && !outer {
			return
		}
		want := 1
		if inner {
			want = 2
		}
		if pf, i := paramIndex(p.origin(l.Index)); pf != at || i != want {
			return
		}
		for _, ex := range extractOf(l, 1) {
			lookups = append(lookups, lk{ex: ex, inner: inner})
		}
	})
	w := &absWalker{MaxPaths: 20000}
	w.OnInstr = func(st *absState, in ssa.Instruction) {
		switch x := in.(type) {
		case *ssa.Store:
			tn, fn, base, ok := fieldOf(x.Addr)
			if !ok || tn != "pkg/collector.template" || (fn != "expiryTimer" && fn != "expiryTime") {
				return
			}
			es := entries[in]
			if es == nil {
				es = &entrySite{fn: fn}
				entries[in] = es
				entryOrder = append(entryOrder, in)
			}
			switch v := st.resolve(base).(type) {
			case *ssa.Alloc:
				if !v.Heap {
					es.bad = "a non-heap allocation"
				}
			case *ssa.Extract:
				if l, ok := v.Tuple.(*ssa.Lookup); ok && l.CommaOk {
					if pf, i := paramIndex(p.origin(l.Index)); pf == at && i == 2 {
						return
					}
					es.bad = "a lookup under another key"
					return
				}
				es.bad = "the result of " + v.Tuple.Name()
			case *ssa.Lookup:
				if pf, i := paramIndex(p.origin(v.Index)); pf == at && i == 2 && !v.CommaOk {
					return
				}
				es.bad = "a lookup under another key"
			default:
				es.bad = fmt.Sprintf("%T %s", v, v.Name())
			}
		case *ssa.MapUpdate:
			// a fresh per-domain map replaces whatever the domain held: allowed only where the domain is known to hold nothing
			if _, isMake := st.resolve(x.Value).(*ssa.MakeMap); isMake && isFieldLoad(x.Map, "pkg/collector.CollectingProcess.templatesMap") {
				ds := domainUpd[in]
				if ds == nil {
					ds = &updSite{onMissAll: true}
					domainUpd[in] = ds
					domainOrder = append(domainOrder, in)
				}
				missOuter := false
				for _, l := range lookups {
					if l.ex != nil && !l.inner {
						if okV, known := st.bools[st.key(l.ex)]; known && !okV {
							missOuter = true
						}
					}
				}
				if !missOuter {
					ds.onMissAll = false
				}
				return
			}
			al, ok := st.resolve(x.Value).(*ssa.Alloc)
			if !ok || typeName(al.Type()) != "pkg/collector.template" {
				return
			}
			us := updates[in]
			if us == nil {
				us = &updSite{onMissAll: true}
				updates[in] = us
				updOrder = append(updOrder, in)
			}
			us.seen = true
			miss := false
			for _, l := range lookups {
				if l.ex != nil {
					if okV, known := st.bools[st.key(l.ex)]; known && !okV {
						miss = true
					}
				} else if isNil, known := st.bools["nil:"+st.key(l.val)]; known && isNil {
					miss = true
				}
			}
			if !miss {
				us.onMissAll = false
			}
		}
	}
	if len(at.Blocks) > 0 {
		w.walk(newAbsState(), at.Blocks[0], 0)
	}
	if w.Overflow {
		r.Undecided("R-TIMER.entry-origin", fnKey(at)+": paths of addTemplate", p.pos(at.Pos()), "too many paths")
	}
	for _, in := range entryOrder {
		es := entries[in]
		nEnt++
		r.Check(es.bad == "", "R-TIMER.entry-origin", fmt.Sprintf("%s: entry whose %s is written", fnKey(at), es.fn), p.instrPos(in), "a fresh &template{} or templatesMap[obsDomainID][templateID] of this call",
			"the template entry comes from "+es.bad+": an entry that already carries a timer armed for other keys would be re-armed, and its callback expires the wrong template", true)
	}
	// a fresh entry replaces nothing: it is created and put into the map only on a way in on which the lookup missed.
	// Created for an id that IS stored (for whatever reason: "different definition", ...) it orphans the old entry's armed
	// timer and gives the template a second one.
	for _, in := range domainOrder {
		r.Check(domainUpd[in].onMissAll, "R-TIMER.domain-on-miss", fnKey(at)+": a fresh per-domain map is stored only for a domain that has none", p.instrPos(in), "on the miss edge of templatesMap[obsDomainID]",
			"a new map replaces the observation domain's templates although the domain may already hold some: the sibling templates are dropped before their lifetime ends (their timers stay armed) and data sets for them are rejected", true)
	}
	for _, in := range updOrder {
		r.Check(updates[in].onMissAll, "R-TIMER.entry-on-miss", fnKey(at)+": a new template entry is stored only when none exists", p.instrPos(in), "dominated by the miss edge of templatesMap[obsDomainID][templateID]",
			"a fresh entry can replace a stored one: the replaced entry's timer stays armed (an orphan that fires later) and the template gets a second timer - 'exactly one armed timer per stored template, none for removed ones' is lost", true)
	}
	if nEnt == 0 {
		r.Undecided("R-TIMER.entry-origin", fnKey(at)+": stores to template.expiryTimer / expiryTime", p.pos(at.Pos()), "none found")
	}
	// (2) the callback
	var cb *ssa.Function
	eachInstr(at, func(in ssa.Instruction) {
		if c, ok := in.(*ssa.Call); ok && calleeName(&c.Call) == "iface:pkg/collector.clock.AfterFunc" {
			if mc, ok := c.Call.Args[1].(*ssa.MakeClosure); ok {
				cb, _ = mc.Fn.(*ssa.Function)
			}
		}
	})
	if cb == nil {
		r.Undecided("R-TIMER.callback", fnKey(at)+": timer callback", p.pos(at.Pos()), "AfterFunc is not given a closure literal")
	} else {
		var dcall *ssa.Call
		other := ""
		var now ssa.Value
		eachInstr(cb, func(in ssa.Instruction) {
			c, ok := in.(*ssa.Call)
			if !ok {
				return
			}
			n := calleeName(&c.Call)
			if c.Call.StaticCallee() == del {
				dcall = c
			} else if sc := c.Call.StaticCallee(); sc != nil && keyInPkg(fnKey(sc), "pkg/collector") {
				other = n
			}
			if n == "iface:pkg/collector.clock.Now" {
				now = c
			}
		})
		okCB := dcall != nil && other == "" && now != nil
		why := ""
		if !okCB {
			why = "the callback does not go through deleteTemplateWithConds only, with a clock.Now() of its own (it calls " + other + ")"
		} else {
			// keys
			pf1, i1 := paramIndex(p.origin(dcall.Call.Args[1]))
			pf2, i2 := paramIndex(p.origin(dcall.Call.Args[2]))
			if !(pf1 == at && pf2 == at && i1 == 1 && i2 == 2) {
				okCB, why = false, "the callback deletes a template other than the (obsDomainID, templateID) it was armed for"
			}
			// condition present
			var cond *ssa.Function
			if sl, ok := dcall.Call.Args[3].(*ssa.Slice); ok {
				if al, ok := sl.X.(*ssa.Alloc); ok {
					for _, ref := range refs(al) {
						if ia, ok := ref.(*ssa.IndexAddr); ok {
							for _, r2 := range refs(ia) {
								if st, ok := r2.(*ssa.Store); ok {
									if mc, ok := st.Val.(*ssa.MakeClosure); ok {
										cond, _ = mc.Fn.(*ssa.Function)
									}
								}
							}
						}
					}
				}
			}
			if cond == nil {
				okCB, why = false, "the callback deletes unconditionally: a refresh that re-armed the timer while the callback was pending is ignored and the fresh template is dropped early"
			} else {
				// cond: return !tpl.expiryTime.After(now) with tpl = its own parameter, now captured from cb
				okCond := false
				eachInstr(cond, func(in ssa.Instruction) {
					c, ok := in.(*ssa.Call)
					if !ok {
						return
					}
					n := calleeName(&c.Call)
					if n != "(time.Time).After" && n != "(time.Time).Before" {
						return
					}
					a0, a1 := c.Call.Args[0], c.Call.Args[1]
					if n == "(time.Time).Before" { // now.Before(exp)  ==  exp.After(now)
						a0, a1 = a1, a0
					}
					tn, fn, base, isF := loadedField(a0)
					if !(isF && tn == "pkg/collector.template" && fn == "expiryTime" && len(cond.Params) == 1 && base == ssa.Value(cond.Params[0])) {
						return
					}
					if p.origin(a1) != now {
						return
					}
					// returned negated
					for _, ref := range refs(c) {
						if u, ok := ref.(*ssa.UnOp); ok && u.Op == token.NOT {
							for _, r2 := range refs(u) {
								if _, ok := r2.(*ssa.Return); ok {
									okCond = true
								}
							}
						}
					}
				})
				if !okCond {
					okCB, why = false, "the condition is not '!<template passed by the delete function>.expiryTime.After(<Now() taken in the callback>)': it must re-check the CURRENT template's expiry time under the lock (a captured template object or an old 'now' deletes a refreshed/replaced template)"
				}
			}
		}
		r.Check(okCB, "R-TIMER.callback", fnKey(cb)+": expiry callback re-checks the stored template", p.pos(cb.Pos()),
			"deleteTemplateWithConds(sameObs, sameID, func(tpl) !tpl.expiryTime.After(now)) with now = clock.Now() inside the callback", why, true)
	}
	// (3) delete function ordering
	var stop, innerDel, outerDel *ssa.Call
	eachInstr(del, func(in ssa.Instruction) {
		c, ok := in.(*ssa.Call)
		if !ok {
			return
		}
		if calleeName(&c.Call) == "iface:pkg/collector.timer.Stop" {
			stop = c
		}
		if b, ok := c.Call.Value.(*ssa.Builtin); ok && b.Name() == "delete" {
			if tn, fn, _, ok := loadedField(c.Call.Args[0]); ok && tn+"."+fn == cpTemplates {
				outerDel = c
			} else {
				innerDel = c
			}
		}
	})
	if stop == nil || innerDel == nil {
		r.Undecided("R-TIMER.delete", fnKey(del)+": Stop and delete", p.pos(del.Pos()), "expiryTimer.Stop() or the inner-map delete not found")
	} else {
		q := &pathQuery{discharge: func(in ssa.Instruction) bool { return in == ssa.Instruction(innerDel) }}
		trail, bad := q.find(stop)
		r.Check(!bad, "R-TIMER.stop-then-delete", fnKey(del)+": after Stop() the template is always deleted", p.instrPos(stop), "every path from Stop() reaches the deletion",
			"the timer can be stopped on a path that does not delete the template (e.g. a condition vetoes afterwards): the template stays stored with no expiry pending and is never discarded; path "+p.describePath(del, trail), true)
		// every path to delete passes Stop unless timer nil
		q2 := &pathQuery{noExit: true, terminal: func(in ssa.Instruction) bool { return in == ssa.Instruction(innerDel) },
			discharge: func(in ssa.Instruction) bool { return in == ssa.Instruction(stop) },
			prune: func(from *ssa.BasicBlock, si int) bool {
				for _, f := range edgeFacts(from, from.Succs[si]) {
					if isFieldLoad(f.X, "pkg/collector.template.expiryTimer") && f.Op == token.EQL {
						if cst, ok := f.Y.(*ssa.Const); ok && cst.IsNil() {
							return true
						}
					}
				}
				return false
			}}
		_, bad2 := q2.findFromBlock(del.Blocks[0])
		r.Check(!bad2, "R-TIMER.delete-stops", fnKey(del)+": a deleted template's timer is stopped", p.instrPos(innerDel), "every path to the deletion passes Stop() unless expiryTimer == nil",
			"a template can be removed while its timer stays armed: the stale timer later deletes a newer template with the same id", true)
		okPrune := false
		if outerDel != nil {
			for _, fct := range blockFacts(outerDel.Block()) {
				if lc, ok := fct.X.(*ssa.Call); ok {
					if b, ok := lc.Call.Value.(*ssa.Builtin); ok && b.Name() == "len" {
						if z, ok := constInt(fct.Y); ok && z == 0 && fct.Op == token.EQL && dominates(innerDel, outerDel) {
							okPrune = true
						}
					}
				}
			}
		}
		r.Check(okPrune, "R-TIMER.prune", fnKey(del)+": empty domain pruned", p.pos(del.Pos()), "delete(templatesMap, obsDomainID) when the inner map became empty", "an emptied observation-domain map is not removed", false)
	}
	// the expiry decision and the deletion (and a refresh's expiry update and re-arm) are one critical section each
	checkSingleSection(p, r, "R-LOCK.whole-op", cpMutex, "pkg/collector", "addTemplate", "deleteTemplateWithConds", "getTemplateIEs")
	// (4) lockset for the template fields
	gs := collectorGuardSpec()
	accs, _, _ := runGuardedBy(p, gs)
	n := 0
	for _, a := range accs {
		if a.Field != "pkg/collector.template.expiryTime" && a.Field != "pkg/collector.template.expiryTimer" {
			continue
		}
		n++
		r.Check(a.Held >= a.Need, "R-LOCK.guarded", fmt.Sprintf("%s: %s of %s", fnKey(a.Fn), a.Kind, a.Field), p.instrPos(a.In),
			"holds "+modeName[a.Held]+" (entered with {"+string(a.Entry)+"})", fmt.Sprintf("needs %s on %s, holds %s", modeName[a.Need], a.Lock, modeName[a.Held]), true)
	}
	if n < 5 {
		r.Undecided("R-LOCK.guarded", "anchor: accesses of template.expiryTime/expiryTimer", "pkg/collector/process.go", fmt.Sprintf("only %d found", n))
	}
}

// checkDomainPrune: the whole per-domain template map is removed only when it has become empty (C10's prune rule in a
// form other properties import: removing it while it still holds templates drops definitions that were validly received -
// other template ids, other connections of the same observation domain).
func checkDomainPrune(p *Prog, r *Report, rule string) {
	n := 0
	for _, f := range p.RepoFns {
		if !keyInPkg(fnKey(f), "pkg/collector") {
			continue
		}
		eachInstr(f, func(in ssa.Instruction) {
			c, ok := in.(*ssa.Call)
			if !ok {
				return
			}
			b, ok := c.Call.Value.(*ssa.Builtin)
			if !ok || b.Name() != "delete" || len(c.Call.Args) != 2 || !isFieldLoad(c.Call.Args[0], "pkg/collector.CollectingProcess.templatesMap") {
				return
			}
			n++
			okEmpty := false
			for _, fct := range blockFacts(in.Block()) {
				lc, ok := fct.X.(*ssa.Call)
				if !ok {
					continue
				}
				if bb, ok := lc.Call.Value.(*ssa.Builtin); !ok || bb.Name() != "len" {
					continue
				}
				if mt, ok := lc.Call.Args[0].Type().Underlying().(*types.Map); !ok || typeName(mt.Elem()) != "pkg/collector.template" {
					continue
				}
				z, ok := constInt(fct.Y)
				if !ok {
					continue
				}
				if (fct.Op == token.EQL && z == 0) || (fct.Op == token.LSS && z == 1) || (fct.Op == token.LEQ && z == 0) {
					okEmpty = true
				}
			}
			r.Check(okEmpty, rule, fnKey(f)+": the observation domain's map is removed only when empty", p.instrPos(in), "delete(templatesMap, obsDomainID) under len(inner map) == 0",
				"the per-domain map is removed while it may still hold templates (an off-by-one in the emptiness test): valid templates of other ids / other connections in the same observation domain are dropped and their data sets rejected", true)
		})
	}
	if n == 0 {
		r.Undecided(rule, "anchor: delete(templatesMap, obsDomainID)", "pkg/collector/process.go", "not found")
	}
}

// checkExpiryOwners: the lifetime of a template (expiryTime / expiryTimer) is written by the add and delete functions
// only, where the deadline and the timer are kept in step; another writer (a "keep alive" on data, say) moves the
// deadline without re-arming the timer, and the expiry callback then refuses to delete.
func checkExpiryOwners(p *Prog, r *Report, rule string) {
	n := 0
	for _, f := range p.RepoFns {
		if !keyInPkg(fnKey(f), "pkg/collector") {
			continue
		}
		eachInstr(f, func(in ssa.Instruction) {
			st, ok := in.(*ssa.Store)
			if !ok {
				return
			}
			tn, fn, _, ok := fieldOf(st.Addr)
			if !ok || tn != "pkg/collector.template" || (fn != "expiryTime" && fn != "expiryTimer") {
				return
			}
			n++
			owner := f
			for owner.Parent() != nil {
				owner = owner.Parent()
			}
			okOwner := owner.Name() == "addTemplate" || owner.Name() == "deleteTemplateWithConds"
			r.Check(okOwner, rule, fmt.Sprintf("%s: writes template.%s", fnKey(f), fn), p.instrPos(in), "addTemplate / deleteTemplateWithConds (deadline and timer kept in step)",
				"a function other than the add / delete functions changes a template's deadline or timer: the deadline moves without the timer (or the reverse), so the template is discarded early or never", true)
		})
	}
	if n == 0 {
		r.Undecided(rule, "anchor: stores to template.expiryTime / expiryTimer", "pkg/collector/process.go", "not found")
	}
}

// checkExpiryUDPOnly: templates expire on UDP only (RFC 7011 8.1: over a connection a template lives as long as the
// session). Every timer arm and deadline store of addTemplate is under protocol == "udp".
func checkExpiryUDPOnly(p *Prog, r *Report, rule string) {
	at := p.Fn("(*pkg/collector.CollectingProcess).addTemplate")
	if at == nil {
		r.Undecided(rule, "anchor: addTemplate", "pkg/collector/process.go", "not found")
		return
	}
	n := 0
	eachInstr(at, func(in ssa.Instruction) {
		relevant := false
		if st, ok := in.(*ssa.Store); ok {
			if tn, fn, _, ok := fieldOf(st.Addr); ok && tn == "pkg/collector.template" && (fn == "expiryTime" || fn == "expiryTimer") {
				relevant = true
			}
		}
		if c := callOf(in); c != nil {
			nm := calleeName(c)
			if strings.HasSuffix(nm, ".AfterFunc") || strings.HasSuffix(nm, ".Reset") {
				relevant = true
			}
		}
		if !relevant {
			return
		}
		n++
		udp := false
		for _, fct := range blockFacts(in.Block()) {
			x, y := fct.X, fct.Y
			if _, ok := constString(x); ok {
				x, y = y, x
			}
			if s, ok := constString(y); ok && s == "udp" && fct.Op == token.EQL && isFieldLoad(x, "pkg/collector.CollectingProcess.protocol") {
				udp = true
			}
		}
		r.Check(udp, rule, fnKey(at)+": template lifetime armed for UDP only", p.instrPos(in), "under protocol == \"udp\"",
			"a template deadline / timer is set on a path that stream transports take too: over TCP/TLS a valid data message that arrives after the lifetime is refused (its template was discarded although the session is open)", true)
	})
	if n == 0 {
		r.Undecided(rule, fnKey(at)+": timer arms", p.pos(at.Pos()), "no deadline store / timer arm found")
	}
}
