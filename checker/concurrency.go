package main

import (
	"fmt"
	"go/token"
	"go/types"
	"sort"
	"strings"

	"golang.org/x/tools/go/ssa"
)

// origin resolves a value through closure captures and single-assignment locals to the value it denotes in
// the enclosing function (so that "the same key / channel / item" can be compared by identity).
func (p *Prog) origin(v ssa.Value) ssa.Value {
	for i := 0; i < 12; i++ {
		v = stripChange(v)
		switch x := v.(type) {
		case *ssa.FreeVar:
			fn := x.Parent()
			idx := -1
			for i, fv := range fn.FreeVars {
				if fv == x {
					idx = i
				}
			}
			mc := p.makeClosureOf(fn)
			if mc == nil || idx < 0 || idx >= len(mc.Bindings) {
				return v
			}
			v = mc.Bindings[idx]
			continue
		case *ssa.Parameter:
			// parameter of a function literal that is applied (called, started with go, deferred) at exactly one place:
			// "go func(r *bufio.Reader) {...}(reader)" denotes reader
			fn := x.Parent()
			if fn == nil || fn.Parent() == nil {
				return v
			}
			cc := p.literalCallSite(fn)
			if cc == nil {
				return v
			}
			idx := -1
			for i, prm := range fn.Params {
				if prm == x {
					idx = i
				}
			}
			if idx < 0 || idx >= len(cc.Args) {
				return v
			}
			v = cc.Args[idx]
			continue
		case *ssa.UnOp:
			if x.Op == token.MUL {
				// load of a captured / local variable cell with exactly one store
				if cell := p.origin(x.X); cell != nil {
					if al, ok := cell.(*ssa.Alloc); ok {
						stores, okAll := cellStores(al, 0)
						if okAll && len(stores) == 1 {
							v = stores[0].Val
							continue
						}
					}
				}
			}
		}
		return v
	}
	return v
}

// makeClosureOf returns the unique MakeClosure instruction creating fn (nil if none or several).
func (p *Prog) makeClosureOf(fn *ssa.Function) *ssa.MakeClosure {
	parent := fn.Parent()
	if parent == nil {
		return nil
	}
	var found *ssa.MakeClosure
	n := 0
	eachInstr(parent, func(in ssa.Instruction) {
		if mc, ok := in.(*ssa.MakeClosure); ok && mc.Fn == fn {
			found = mc
			n++
		}
	})
	if n == 1 {
		return found
	}
	return nil
}

// chanIdent names a channel value: "field:pkg.T.f" for a struct field, "param:fn#i", or "local:<fn>@<pos>" for a make(chan).
func (p *Prog) chanIdent(v ssa.Value) string {
	v = p.origin(v)
	if tn, fn, _, ok := loadedField(v); ok {
		return "field:" + tn + "." + fn
	}
	switch x := v.(type) {
	case *ssa.MakeChan:
		return "local:" + fnKey(x.Parent()) + "#make(chan)"
	case *ssa.Parameter:
		// a channel parameter: resolve through the unique static call site when possible
		fn := x.Parent()
		idx := -1
		for i, pa := range fn.Params {
			if pa == x {
				idx = i
			}
		}
		g := p.CallGraph()
		if cs := g.callers[fn]; len(cs) == 1 && idx >= 0 {
			c := callOf(cs[0])
			args := c.Args
			if idx < len(args) {
				return p.chanIdent(args[idx])
			}
		}
		return "param:" + fnKey(fn) + "#" + x.Name()
	case *ssa.Call:
		return "call:" + calleeName(&x.Call)
	}
	return "?"
}

// ---------- wait-group discipline ----------

func isWGCall(c *ssa.CallCommon, method string) (string, bool) {
	if c.IsInvoke() {
		return "", false
	}
	sc := c.StaticCallee()
	if sc == nil || funcName(sc) != "(*sync.WaitGroup)."+method || len(c.Args) == 0 {
		return "", false
	}
	id := lockIdent(c.Args[0])
	return id, id != ""
}

// checkGoTracked: every `go` statement of the package is preceded (dominated) by wg.Add on the struct's wait
// group and the goroutine defers wg.Done in its entry block.
func checkGoTracked(p *Prog, r *Report, rule, pkgRel, wgID string, minGo int) []*ssa.Function {
	var bodies []*ssa.Function
	n := 0
	for _, f := range p.RepoFns {
		if !keyInPkg(fnKey(f), pkgRel) {
			continue
		}
		goIdx := 0
		eachInstr(f, func(in ssa.Instruction) {
			g, ok := in.(*ssa.Go)
			if !ok {
				return
			}
			n++
			goIdx++
			construct := fmt.Sprintf("%s: go statement #%d", fnKey(f), goIdx)
			// Add dominates
			added := false
			eachInstr(f, func(x ssa.Instruction) {
				if c, ok := x.(*ssa.Call); ok {
					if id, ok := isWGCall(&c.Call, "Add"); ok && id == wgID && dominates(x, in) {
						if v, ok := constInt(c.Call.Args[1]); ok && v >= 1 {
							added = true
						}
					}
				}
			})
			callee := g.Call.StaticCallee()
			done := false
			if callee != nil && callee.Blocks != nil {
				bodies = append(bodies, callee)
				for _, x := range callee.Blocks[0].Instrs {
					if d, ok := x.(*ssa.Defer); ok {
						if id, ok := isWGCall(&d.Call, "Done"); ok && id == wgID {
							done = true
						}
					}
				}
			}
			switch {
			case !added:
				r.Violation(rule, construct, p.instrPos(in), "no "+wgID+".Add(n>=1) dominates this go statement: Stop/Close can return while the goroutine is still running")
			case !done:
				r.Violation(rule, construct, p.instrPos(in), "the goroutine does not defer "+wgID+".Done() at its entry: the wait group is never released (or released only on some paths)")
			default:
				r.OK(rule, construct, p.instrPos(in), "Add dominates the go statement; goroutine defers Done in its entry block", true)
			}
		})
	}
	if n < minGo {
		r.Undecided(rule, "anchor: go statements in "+pkgRel, pkgRel, fmt.Sprintf("found %d go statements, expected at least %d", n, minGo))
	}
	return bodies
}

// ---------- stop-observability of blocking operations ----------

type selInfo struct {
	fn    *ssa.Function
	sel   *ssa.Select
	chans []string
	dirs  []types.ChanDir
}

// blockingOps lists blocking selects and bare channel receives/sends of a function.
func (p *Prog) blockingOps(f *ssa.Function) (sels []selInfo, recvs []ssa.Instruction, sends []ssa.Instruction) {
	eachInstr(f, func(in ssa.Instruction) {
		switch x := in.(type) {
		case *ssa.Select:
			if !x.Blocking {
				return
			}
			si := selInfo{fn: f, sel: x}
			for _, st := range x.States {
				si.chans = append(si.chans, p.chanIdent(st.Chan))
				si.dirs = append(si.dirs, st.Dir)
			}
			sels = append(sels, si)
		case *ssa.UnOp:
			if x.Op == token.ARROW {
				recvs = append(recvs, in)
			}
		case *ssa.Send:
			sends = append(sends, in)
		}
	})
	return
}

// stopClosedSet computes the least set S of channel identities that are closed when the process stops:
// seed ∈ S; c ∈ S if a goroutine body in `bodies` defers close(c) in its entry block and every blocking select of
// that goroutine (and of the repo functions it calls synchronously) has a receive case on a channel in S.
func (p *Prog) stopClosedSet(seed []string, bodies []*ssa.Function) map[string]bool {
	S := map[string]bool{}
	for _, s := range seed {
		S[s] = true
	}
	g := p.CallGraph()
	for changed := true; changed; {
		changed = false
		for _, b := range bodies {
			// channels closed by deferred close in the entry block
			var closes []string
			for _, in := range b.Blocks[0].Instrs {
				if d, ok := in.(*ssa.Defer); ok {
					if bi, ok := d.Call.Value.(*ssa.Builtin); ok && bi.Name() == "close" {
						closes = append(closes, p.chanIdent(d.Call.Args[0]))
					}
					// several clean-up steps merged into one deferred function literal: a close in its entry block runs
					// on every exit just the same
					var lit *ssa.Function
					if mc, ok := d.Call.Value.(*ssa.MakeClosure); ok {
						lit, _ = mc.Fn.(*ssa.Function)
					} else if fn, ok := d.Call.Value.(*ssa.Function); ok && fn.Parent() == b {
						lit = fn
					}
					if lit != nil && len(lit.Blocks) > 0 {
						for _, x := range lit.Blocks[0].Instrs {
							if c, ok := x.(*ssa.Call); ok {
								if bi, ok := c.Call.Value.(*ssa.Builtin); ok && bi.Name() == "close" {
									closes = append(closes, p.chanIdent(c.Call.Args[0]))
								}
							}
						}
					}
				}
			}
			if len(closes) == 0 {
				continue
			}
			okAll := true
			for f := range g.reach(b) {
				sels, _, _ := p.blockingOps(f)
				for _, si := range sels {
					has := false
					for i, c := range si.chans {
						if si.dirs[i] == types.RecvOnly && S[c] {
							has = true
						}
					}
					if !has {
						okAll = false
					}
				}
			}
			// a goroutine that blocks on the network ends only when its spawner closes the connection, and the spawner
			// gets there only if its own waits observe stop (with the set known so far: no circular argument)
			if okAll && len(p.netBlockingCalls(b)) > 0 {
				okAll = p.spawnerClosesOnStop(b, S)
			}
			if okAll {
				for _, c := range closes {
					if !S[c] {
						S[c] = true
						changed = true
					}
				}
			}
		}
	}
	return S
}

// ---------- cross-goroutine field sharing ----------

type fieldAccess struct {
	Fn     *ssa.Function
	In     ssa.Instruction
	Field  string
	Write  bool
	Atomic bool
	Constr bool // write into a fresh allocation before any go statement of the same function
}

// fieldAccesses collects accesses to fields of struct `structName` in function f.
func (p *Prog) fieldAccesses(f *ssa.Function, structName string) []fieldAccess {
	var out []fieldAccess
	var gos []ssa.Instruction
	eachInstr(f, func(in ssa.Instruction) {
		if _, ok := in.(*ssa.Go); ok {
			gos = append(gos, in)
		}
	})
	eachInstr(f, func(in ssa.Instruction) {
		fa, ok := in.(*ssa.FieldAddr)
		if !ok {
			return
		}
		tn, fname, _, ok := fieldOf(fa)
		if !ok || tn != structName {
			return
		}
		fresh := freshBase(fa)
		for _, ref := range refs(fa) {
			acc := fieldAccess{Fn: f, In: ref, Field: fname}
			switch x := ref.(type) {
			case *ssa.Store:
				if x.Addr != fa {
					continue
				}
				acc.Write = true
				if fresh {
					acc.Constr = true
					for _, g := range gos {
						if !dominates(ref, g) {
							acc.Constr = false
						}
					}
				}
			case *ssa.UnOp:
				// load; look at what is done with a loaded map/slice
				for _, r2 := range refs(x) {
					switch y := r2.(type) {
					case *ssa.MapUpdate:
						if y.Map == x {
							out = append(out, fieldAccess{Fn: f, In: r2, Field: fname, Write: true})
						}
					case *ssa.Call:
						if b, ok := y.Call.Value.(*ssa.Builtin); ok && b.Name() == "delete" {
							out = append(out, fieldAccess{Fn: f, In: r2, Field: fname, Write: true})
						}
					}
				}
			case *ssa.Call, *ssa.Defer, *ssa.Go:
				c := callOf(ref)
				n := calleeName(c)
				if strings.HasPrefix(n, "sync/atomic.") || strings.HasPrefix(n, "(*sync/atomic.") {
					acc.Atomic = true
					acc.Write = !strings.Contains(n, "Load")
				} else {
					acc.Write = true // address handed out: assume mutation
				}
			case *ssa.FieldAddr, *ssa.DebugRef:
				continue
			default:
				acc.Write = true
			}
			out = append(out, acc)
		}
	})
	return out
}

func isSyncType(t types.Type) bool {
	n := typeName(t)
	if strings.HasPrefix(n, "sync.") || strings.HasPrefix(n, "sync/atomic.") {
		return true
	}
	_, isChan := t.Underlying().(*types.Chan)
	return isChan
}

// checkSharing implements R-SHARE for one struct type.
func checkSharing(p *Prog, r *Report, rule, pkgRel, structName string, exceptions map[string]string, heldAt map[ssa.Instruction]lstate) {
	g := p.CallGraph()
	// roots
	type root struct {
		name string
		fns  map[*ssa.Function]bool
		bg   bool
	}
	var roots []root
	var api []*ssa.Function
	for _, f := range p.RepoFns {
		if !keyInPkg(fnKey(f), pkgRel) {
			continue
		}
		if f.Parent() == nil && f.Object() != nil && f.Object().Exported() {
			api = append(api, f)
		}
		idx := 0
		eachInstr(f, func(in ssa.Instruction) {
			if gi, ok := in.(*ssa.Go); ok {
				idx++
				if c := gi.Call.StaticCallee(); c != nil && g.isRepo[c] {
					roots = append(roots, root{name: fmt.Sprintf("goroutine %s#%d", fnKey(f), idx), fns: g.reach(c), bg: true})
				}
			}
		})
	}
	roots = append(roots, root{name: "API (exported functions, one application goroutine)", fns: g.reach(api...), bg: false})

	st := p.structType(pkgRel, structName)
	if st == nil {
		r.Undecided(rule, "anchor: struct "+structName, pkgRel, "struct type not found")
		return
	}
	full := pkgRel + "." + structName
	for i := 0; i < st.NumFields(); i++ {
		fld := st.Field(i)
		construct := full + "." + fld.Name()
		if isSyncType(fld.Type()) {
			r.OK(rule, construct, p.pos(fld.Pos()), "synchronising type ("+fld.Type().String()+")", false)
			continue
		}
		type use struct {
			root string
			bg   bool
			acc  fieldAccess
		}
		var uses []use
		for _, rt := range roots {
			for f := range rt.fns {
				for _, a := range p.fieldAccesses(f, full) {
					if a.Field == fld.Name() {
						uses = append(uses, use{rt.name, rt.bg, a})
					}
				}
			}
		}
		rootsTouching := map[string]bool{}
		bgTouch := false
		var writes []use
		allAtomic := true
		common := lstate("?")
		for _, u := range uses {
			if u.acc.Constr {
				continue
			}
			rootsTouching[u.root] = true
			if u.bg {
				bgTouch = true
			}
			if u.acc.Write {
				writes = append(writes, u)
			}
			if !u.acc.Atomic {
				allAtomic = false
			}
			h, ok := heldAt[u.acc.In]
			if !ok {
				h = ""
			}
			if common == "?" {
				common = h
			} else {
				common = meet(common, h)
			}
		}
		switch {
		case len(rootsTouching) < 2 || !bgTouch:
			r.OK(rule, construct, p.pos(fld.Pos()), fmt.Sprintf("touched after construction by %d thread root(s), no background goroutine involved", len(rootsTouching)), true)
		case len(writes) == 0:
			r.OK(rule, construct, p.pos(fld.Pos()), "read-only after construction", true)
		case allAtomic:
			r.OK(rule, construct, p.pos(fld.Pos()), "every access is a sync/atomic operation", true)
		case common != "" && common != "?":
			r.OK(rule, construct, p.pos(fld.Pos()), "common lock held at every access: "+string(common), true)
		default:
			w := writes[0]
			names := make([]string, 0, len(rootsTouching))
			for k := range rootsTouching {
				names = append(names, k)
			}
			sort.Strings(names)
			if why, ok := exceptions[construct]; ok {
				r.OK(rule, construct, p.pos(fld.Pos()), "named exception: "+why, true)
			} else {
				r.Violation(rule, construct, p.instrPos(w.acc.In),
					fmt.Sprintf("field is written at %s (%s) and accessed from %s without a common lock or atomic access", p.instrPos(w.acc.In), fnKey(w.acc.Fn), strings.Join(names, " + ")))
			}
		}
	}
}

func (p *Prog) structType(pkgRel, name string) *types.Struct {
	pk := p.pkg(pkgRel)
	if pk == nil {
		return nil
	}
	o := pk.Types.Scope().Lookup(name)
	if o == nil {
		return nil
	}
	st, _ := o.Type().Underlying().(*types.Struct)
	return st
}

// heldLocks runs the lock analysis and returns, per instruction, the meet of the locksets held in all contexts.
func heldLocks(p *Prog) map[ssa.Instruction]lstate {
	la := newLockAnalysis(p)
	held := map[ssa.Instruction]lstate{}
	la.visit = func(fn *ssa.Function, entry lstate, in ssa.Instruction, st lstate) {
		if h, ok := held[in]; ok {
			held[in] = meet(h, st)
		} else {
			held[in] = st
		}
	}
	la.RunAll()
	return held
}

// cellStores returns every store into a local variable cell, including stores made through closure captures of the cell
// (free variables of nested closures). okAll is false when the cell's address is used in a way we do not follow.
func cellStores(cell ssa.Value, depth int) ([]*ssa.Store, bool) {
	var stores []*ssa.Store
	okAll := true
	if depth > 4 {
		return nil, false
	}
	for _, r := range refs(cell) {
		switch y := r.(type) {
		case *ssa.Store:
			if y.Addr == cell {
				stores = append(stores, y)
			} else {
				okAll = false
			}
		case *ssa.UnOp, *ssa.DebugRef:
		case *ssa.MakeClosure:
			fn, _ := y.Fn.(*ssa.Function)
			for i, b := range y.Bindings {
				if b == cell && fn != nil && i < len(fn.FreeVars) {
					st, ok := cellStores(fn.FreeVars[i], depth+1)
					stores = append(stores, st...)
					if !ok {
						okAll = false
					}
				}
			}
		default:
			okAll = false
		}
	}
	return stores, okAll
}

// syncReach is reach() without following go statements: the functions that run on the goroutine of root.
func (g *callGraph) syncReach(root *ssa.Function) map[*ssa.Function]bool {
	seen := map[*ssa.Function]bool{}
	var visit func(f *ssa.Function)
	visit = func(f *ssa.Function) {
		if f == nil || seen[f] {
			return
		}
		seen[f] = true
		eachInstr(f, func(in ssa.Instruction) {
			if _, isGo := in.(*ssa.Go); isGo {
				return
			}
			for _, c := range g.callees[in] {
				visit(c)
			}
		})
	}
	visit(root)
	return seen
}

var netBlockingNames = map[string]bool{
	"iface:net.Conn.Read": true, "iface:net.Listener.Accept": true, "iface:net.PacketConn.ReadFrom": true,
	"(*net.UDPConn).ReadFromUDP": true, "(*net.UDPConn).ReadFrom": true, "(*net.UDPConn).Read": true, "(*net.TCPConn).Read": true,
	"io.ReadFull": true, "io.ReadAtLeast": true, "io.ReadAll": true, "io.Copy": true,
	"(*bufio.Reader).Peek": true, "(*bufio.Reader).Read": true, "(*bufio.Reader).ReadByte": true, "(*bufio.Reader).Discard": true,
	"(*crypto/tls.Conn).Handshake": true, "(*crypto/tls.Conn).HandshakeContext": true, "(*crypto/tls.Conn).Read": true,
}

// netBlockingCalls lists the calls executed on root's own goroutine that can block on the network.
func (p *Prog) netBlockingCalls(root *ssa.Function) []ssa.Instruction {
	var out []ssa.Instruction
	for f := range p.CallGraph().syncReach(root) {
		eachInstr(f, func(in ssa.Instruction) {
			if _, isGo := in.(*ssa.Go); isGo {
				return
			}
			if c := callOf(in); c != nil && netBlockingNames[calleeName(c)] {
				out = append(out, in)
			}
		})
	}
	sort.Slice(out, func(i, j int) bool { return out[i].Pos() < out[j].Pos() })
	return out
}

// spawnerClosesOnStop: the function that starts goroutine body b closes a connection/listener, and each of its own
// blocking waits has a case on a channel in S.
func (p *Prog) spawnerClosesOnStop(b *ssa.Function, S map[string]bool) bool {
	e := b.Parent()
	if e == nil {
		return false
	}
	closes := false
	eachInstr(e, func(in ssa.Instruction) {
		c := callOf(in)
		if c == nil {
			return
		}
		if _, isGo := in.(*ssa.Go); isGo {
			return
		}
		n := calleeName(c)
		if strings.HasSuffix(n, ".Close") || strings.HasSuffix(n, ").Close") {
			if strings.Contains(n, "net.") || strings.Contains(n, "dtls") || strings.Contains(n, "tls.") {
				closes = true
			}
		}
	})
	if !closes {
		return false
	}
	sels, recvs, _ := p.blockingOps(e)
	if len(sels)+len(recvs) == 0 {
		return false
	}
	for _, si := range sels {
		has := false
		for i, c := range si.chans {
			if si.dirs[i] == types.RecvOnly && S[c] {
				has = true
			}
		}
		if !has {
			return false
		}
	}
	for _, in := range recvs {
		if !S[p.chanIdent(in.(*ssa.UnOp).X)] {
			return false
		}
	}
	return true
}

// literalCallSite returns the unique call (plain, go or defer) whose callee is the function literal fn (directly or through
// its MakeClosure); nil if there is none or more than one, or if the literal is used in any other way.
func (p *Prog) literalCallSite(fn *ssa.Function) *ssa.CallCommon {
	parent := fn.Parent()
	if parent == nil {
		return nil
	}
	var found *ssa.CallCommon
	n, other := 0, 0
	eachInstr(parent, func(in ssa.Instruction) {
		if c := callOf(in); c != nil {
			switch v := c.Value.(type) {
			case *ssa.Function:
				if v == fn {
					found = c
					n++
				}
			case *ssa.MakeClosure:
				if v.Fn == fn {
					found = c
					n++
				}
			}
		}
		if mc, ok := in.(*ssa.MakeClosure); ok && mc.Fn == fn {
			for _, r := range refs(mc) {
				if c := callOf(r); c == nil || c.Value != ssa.Value(mc) {
					if _, dbg := r.(*ssa.DebugRef); !dbg {
						other++
					}
				}
			}
		}
	})
	if n == 1 && other == 0 {
		return found
	}
	return nil
}

// appliedInPlace: the function literal fn is only ever called directly where it is written ((func(){...})(args)): no go,
// no defer, not stored or passed on.
func appliedInPlace(fn *ssa.Function) bool {
	par := fn.Parent()
	if par == nil {
		return false
	}
	used := false
	ok := true
	eachInstr(par, func(in ssa.Instruction) {
		for _, op := range in.Operands(nil) {
			if op == nil || *op == nil {
				continue
			}
			v := *op
			if mc, isMC := v.(*ssa.MakeClosure); isMC && mc.Fn == ssa.Value(fn) {
				// the closure object itself: must be the callee of a plain call
				for _, ref := range refs(mc) {
					if c, isCall := ref.(*ssa.Call); isCall && c.Call.Value == ssa.Value(mc) {
						used = true
					} else {
						ok = false
					}
				}
				continue
			}
			if v == ssa.Value(fn) {
				if c, isCall := in.(*ssa.Call); isCall && c.Call.Value == ssa.Value(fn) {
					used = true
				} else if _, isMC := in.(*ssa.MakeClosure); !isMC {
					ok = false
				}
			}
		}
	})
	return used && ok
}
