package main

import (
	"fmt"
	"go/ast"
	"go/constant"
	"go/token"
	"go/types"
	"strings"

	"golang.org/x/tools/go/ssa"
)

const c20Store = "global:cmd/collector.flowRecords"
const c20Mutex = "global:cmd/collector.mutex"

func init() {
	register(&propDef{
		ID:          "C20",
		Explanation: "Structural conditions of the standalone collector's bounded window, decided from cmd/collector: (1) R-LOCK: the store (global flowRecords) and every alias of its contents (the queried sub-slice) is only accessed under the global mutex, in the mode needed; lock-balanced exits; (2) R-OWNER: only the add, query and reset functions touch the store; (3) cap shape: the add function evicts exactly when len >= maxFlowRecords (normalised comparison against the constant), the eviction is s = s[1:] (front, exactly one), and every path through the locked region ends with exactly one append of the rendered entry => by the ±1 argument len never exceeds the cap and arrival order is preserved; (4) query: the count is clamped into [0,len] by comparisons against 0 and len(store) before the suffix slice s[len-count:] (no high bound); every 4xx reply is sent on a path that never reaches the lock/store; reset stores an empty slice; (5) rendering: the loops over records and elements contain no break/continue/return; R-SWITCH/R-GETTER: the data-type switch has an explicit case for every data type the decoder supports, each using an accessor declared by that type's concrete element. (6) a parsed count is used only under err == nil and count >= 0; the text branch writes each stored entry with Write (never as a format); a lockset difference at a join (lock held on one branch only) is reported unless a deferred unlock sits next to the acquisition. Not decided: HTTP/JSON behaviour, equality of rendered text and values. Later additions: both formats are built from the window; the query path reads no mutable package state but the store (pure counters excepted); every return of the add function follows the insertion; a non-decimal parse of the count is refused. Round-five additions: a count is refused only for a parse error or a negative value; the query handler reads entries through the window only. Round-six additions: the decoder makes one element slice per record; the count clamp is decided on enumerated paths (a requested count within range is never replaced by the whole store). Round-seven additions: the add function reads no package state that changes at run time (an entry is a function of its message; a per-template-id render cache is reported); the render rule accepts the value form (each case yields the value, one print writes name and value) and index loops.",
		Assume:      []string{"net/http handler contract", "fmt renders what it is given"},
		Run:         runC20,
	})
}

func runC20(p *Prog, r *Report, tier string) {
	// AddRecordV2 adopts the element slice it is given: the decoder makes one slice per record
	checkFreshPerIteration(p, r, "R-OWNER.elements-fresh", "(*pkg/collector.CollectingProcess).decodeDataSet", func(n string) bool { return strings.HasSuffix(n, ".AddRecordV2") }, 1, "element slice")
	checkCountRefusal(p, r, "R-GATE.refuse-count")
	gs := &guardSpec{Guarded: map[string]string{c20Store: c20Mutex}, Exempt: map[string]string{}}
	_, accs := checkGuardedBy(p, r, gs, "R-LOCK", "cmd/collector")
	if len(accs) < 6 {
		r.Undecided("R-LOCK.guarded", "anchor: accesses of cmd/collector.flowRecords", "cmd/collector/collector.go", fmt.Sprintf("only %d guarded accesses found", len(accs)))
	}
	// R-OWNER
	owners := map[string]bool{}
	for _, a := range accs {
		owners[fnKey(a.Fn)] = true
	}
	for k := range owners {
		ok := k == "cmd/collector.addIPFIXMessage" || k == "cmd/collector.flowRecordHandler" || k == "cmd/collector.resetRecordHandler"
		r.Check(ok, "R-OWNER.store", k+": touches flowRecords", "cmd/collector/collector.go", "one of the three store functions", "a function other than add/query/reset touches the store", false)
	}

	add := p.Fn("cmd/collector.addIPFIXMessage")
	q := p.Fn("cmd/collector.flowRecordHandler")
	rs := p.Fn("cmd/collector.resetRecordHandler")
	if add == nil || q == nil || rs == nil {
		r.Undecided("R-VALUE.cap", "anchor: addIPFIXMessage / flowRecordHandler / resetRecordHandler", "cmd/collector/collector.go", "function not found")
		return
	}
	pk := p.pkg("cmd/collector")
	capVal := int64(-1)
	if c, ok := pk.Types.Scope().Lookup("maxFlowRecords").(*types.Const); ok {
		capVal, _ = constant.Int64Val(c.Val())
	}
	isStoreLoad := func(v ssa.Value) bool {
		v = stripChange(v)
		u, ok := v.(*ssa.UnOp)
		if !ok || u.Op != token.MUL {
			return false
		}
		g, ok := u.X.(*ssa.Global)
		return ok && g.Name() == "flowRecords"
	}
	isLenStore := func(v ssa.Value) bool {
		c, ok := v.(*ssa.Call)
		if !ok {
			return false
		}
		b, ok := c.Call.Value.(*ssa.Builtin)
		return ok && b.Name() == "len" && isStoreLoad(c.Call.Args[0])
	}
	isStoreStore := func(in ssa.Instruction) (*ssa.Store, bool) {
		s, ok := in.(*ssa.Store)
		if !ok {
			return nil, false
		}
		g, ok := s.Addr.(*ssa.Global)
		return s, ok && g.Name() == "flowRecords"
	}

	// --- cap: eviction test, eviction, insertion
	var evictIf *ssa.If
	evictSucc := -1
	eachInstr(add, func(in ssa.Instruction) {
		i, ok := in.(*ssa.If)
		if !ok {
			return
		}
		b, ok := i.Cond.(*ssa.BinOp)
		if !ok {
			return
		}
		// normalise to len OP const
		var op token.Token
		var c int64
		if isLenStore(b.X) {
			if v, ok := constInt(b.Y); ok {
				op, c = b.Op, v
			}
		} else if isLenStore(b.Y) {
			if v, ok := constInt(b.X); ok {
				c = v
				switch b.Op {
				case token.LSS:
					op = token.GTR
				case token.LEQ:
					op = token.GEQ
				case token.GTR:
					op = token.LSS
				case token.GEQ:
					op = token.LEQ
				default:
					op = b.Op
				}
			}
		}
		switch {
		case op == token.GEQ && c == capVal, op == token.GTR && c == capVal-1:
			evictIf, evictSucc = i, 0
		case op == token.LSS && c == capVal, op == token.LEQ && c == capVal-1:
			evictIf, evictSucc = i, 1
		case op != token.ILLEGAL:
			r.Violation("R-VALUE.cap", "cmd/collector.addIPFIXMessage: eviction test", p.instrPos(in),
				fmt.Sprintf("the store length is compared with %s %d; eviction must happen exactly when len >= maxFlowRecords (%d), otherwise the store exceeds its cap or shrinks early", op, c, capVal))
		}
	})
	if evictIf == nil {
		r.Undecided("R-VALUE.cap", "cmd/collector.addIPFIXMessage: eviction test", p.pos(add.Pos()), "no comparison of len(flowRecords) with the cap constant found")
	} else {
		r.OK("R-VALUE.cap", "cmd/collector.addIPFIXMessage: eviction test", p.instrPos(evictIf), fmt.Sprintf("normalises to len(flowRecords) >= %d", capVal), true)
		// eviction: on the evict edge, store of flowRecords[1:]
		evB := evictIf.Block().Succs[evictSucc]
		nEv := 0
		eachInstr(add, func(in ssa.Instruction) {
			s, ok := isStoreStore(in)
			if !ok {
				return
			}
			sl, isSlice := s.Val.(*ssa.Slice)
			if !isSlice {
				// eviction and insertion in one statement: flowRecords = append(flowRecords[1:], entry)
				if c, ok := s.Val.(*ssa.Call); ok && calleeName(&c.Call) == "builtin:append" && len(c.Call.Args) == 2 {
					sl, isSlice = c.Call.Args[0].(*ssa.Slice)
				}
			}
			if !isSlice {
				return
			}
			nEv++
			lo, okLo := int64(-1), false
			if sl.Low != nil {
				lo, okLo = constInt(sl.Low)
			}
			good := isStoreLoad(sl.X) && okLo && lo == 1 && sl.High == nil && (in.Block() == evB || evB.Dominates(in.Block()))
			r.Check(good, "R-VALUE.evict", "cmd/collector.addIPFIXMessage: eviction", p.instrPos(in), "flowRecords = flowRecords[1:] on the len >= cap edge only (oldest entry, exactly one)",
				"the eviction is not 'drop exactly the first element on the cap edge' (wrong end, wrong count, or not guarded by the cap test)", true)
		})
		if nEv == 0 {
			r.Violation("R-VALUE.evict", "cmd/collector.addIPFIXMessage: eviction", p.instrPos(evictIf), "no 'flowRecords = flowRecords[1:]' on the cap edge: the oldest entry is not evicted by reslicing from the front")
		}
	}
	// insertion: every path from the Lock to the exit passes exactly one store of append(flowRecords, x)
	var lockIn ssa.Instruction
	eachInstr(add, func(in ssa.Instruction) {
		if c, ok := in.(*ssa.Call); ok {
			if id, m, ok := lockOp(&c.Call); ok && id == c20Mutex && m == 2 {
				lockIn = in
			}
		}
	})
	isAppendStore := func(in ssa.Instruction) bool {
		s, ok := isStoreStore(in)
		if !ok {
			return false
		}
		c, ok := s.Val.(*ssa.Call)
		if !ok {
			return false
		}
		b, ok := c.Call.Value.(*ssa.Builtin)
		if !ok || b.Name() != "append" {
			return false
		}
		// appended slice has exactly one element
		if sl, ok := c.Call.Args[1].(*ssa.Slice); ok {
			if al, ok := sl.X.(*ssa.Alloc); ok {
				if at, ok := al.Type().Underlying().(*types.Pointer).Elem().Underlying().(*types.Array); ok && at.Len() == 1 {
					return true
				}
			}
		}
		return false
	}
	if lockIn == nil {
		r.Undecided("R-VALUE.insert", "cmd/collector.addIPFIXMessage: insertion", p.pos(add.Pos()), "mutex.Lock() not found")
	} else {
		pq := &pathQuery{discharge: isAppendStore}
		if trail, bad := pq.find(lockIn); bad {
			r.Violation("R-VALUE.insert", "cmd/collector.addIPFIXMessage: insertion", p.instrPos(lockIn), "a path through the locked region reaches the exit without 'flowRecords = append(flowRecords, entry)': the newest message is not stored at the end; path "+p.describePath(add, trail))
		} else {
			// not two appends on one path
			var first ssa.Instruction
			double := false
			eachInstr(add, func(in ssa.Instruction) {
				if isAppendStore(in) {
					if first == nil {
						first = in
					}
					pq2 := &pathQuery{terminal: isAppendStore, noExit: true}
					if _, again := pq2.find(in); again {
						double = true
					}
				}
			})
			r.Check(!double, "R-VALUE.insert", "cmd/collector.addIPFIXMessage: insertion", p.instrPos(first), "exactly one append of one entry at the end on every path", "two appends on one path: the store grows by more than one per message and exceeds the cap", true)
		}
	}

	// every message that arrives is stored: the add function has no exit that skips the insertion ("nothing to show" for
	// some kind of message makes the window hold older messages than the most recent ones)
	{
		var ins []ssa.Instruction
		eachInstr(add, func(in ssa.Instruction) {
			if st, ok := in.(*ssa.Store); ok {
				if gl, ok := st.Addr.(*ssa.Global); ok && gl.Name() == "flowRecords" {
					if c, ok := st.Val.(*ssa.Call); ok {
						if b, ok := c.Call.Value.(*ssa.Builtin); ok && b.Name() == "append" {
							ins = append(ins, in)
						}
					}
				}
			}
		})
		nRet, okRet := 0, len(ins) > 0
		eachInstr(add, func(in ssa.Instruction) {
			if _, ok := in.(*ssa.Return); !ok || in.Block() == add.Recover {
				return
			}
			nRet++
			dom := false
			for _, i := range ins {
				if dominates(i, in) {
					dom = true
				}
			}
			if !dom {
				okRet = false
			}
		})
		r.Check(okRet && nRet > 0, "R-VALUE.insert", "cmd/collector.addIPFIXMessage: every return follows the insertion", p.pos(add.Pos()), "no exit before flowRecords = append(flowRecords, entry)",
			"the add function can return without storing the message (an early return for some kind of message): the store is no longer 'the most recently received messages'", true)
	}
	// --- query
	var qslice *ssa.Slice
	eachInstr(q, func(in ssa.Instruction) {
		if s, ok := in.(*ssa.Slice); ok && isStoreLoad(s.X) {
			qslice = s
		}
	})
	if qslice == nil {
		r.Undecided("R-VALUE.query", "cmd/collector.flowRecordHandler: window slice", p.pos(q.Pos()), "no slice expression over flowRecords found")
	} else {
		suffix := qslice.High == nil
		var cnt ssa.Value
		if b, ok := qslice.Low.(*ssa.BinOp); ok && b.Op == token.SUB && isLenStore(b.X) {
			cnt = b.Y
		}
		r.Check(suffix && cnt != nil, "R-VALUE.query", "cmd/collector.flowRecordHandler: window slice", p.instrPos(qslice),
			"flowRecords[len(flowRecords)-count:] (suffix: the most recent entries, in stored order)", "the returned window is not the suffix flowRecords[len-count:] (prefix or bounded slice returns the wrong entries)", true)
		if cnt != nil {
			// clamp: on every phi edge the count is either len(store) itself or a value v for which the facts
			// v >= 0 and v <= len(store) hold on that edge (dominating guards + the branch taken)
			type edgeVal struct {
				v    ssa.Value
				pred *ssa.BasicBlock
				blk  *ssa.BasicBlock
			}
			var evs []edgeVal
			if ph, ok := cnt.(*ssa.Phi); ok {
				for i, e := range ph.Edges {
					evs = append(evs, edgeVal{e, ph.Block().Preds[i], ph.Block()})
				}
			} else {
				evs = []edgeVal{{cnt, nil, qslice.Block()}}
			}
			clamped := true
			why := ""
			for _, ev := range evs {
				if isLenStore(ev.v) {
					continue
				}
				var facts []relFact
				if ev.pred != nil {
					facts = edgeFacts(ev.pred, ev.blk)
				} else {
					facts = blockFacts(ev.blk)
				}
				nonneg, atMost := false, false
				for _, f := range facts {
					x, op, y := f.X, f.Op, f.Y
					if y == ev.v { // normalise to v OP other
						x, y, op = y, x, flipOp(op)
					}
					if x != ev.v {
						continue
					}
					if z, ok := constInt(y); ok {
						if (op == token.GEQ && z >= 0) || (op == token.GTR && z >= -1) {
							nonneg = true
						}
					}
					if isLenStore(y) && (op == token.LEQ || op == token.LSS) {
						atMost = true
					}
				}
				if !nonneg || !atMost {
					clamped = false
					why = fmt.Sprintf("count value %s reaches the slice bound without the facts %s>=0 and %s<=len(flowRecords) on that edge", ev.v.Name(), ev.v.Name(), ev.v.Name())
				}
			}
			if pOK, pWhy, conclusive := pathClamped(q, qslice, isLenStore); conclusive {
				// the enumerated paths decide (a sentinel compared by equality, a bound held in a local are read there); the
				// edge facts above are the fallback when the enumeration is inconclusive
				clamped = pOK
				if !pOK {
					why = pWhy
				}
			}
			r.Check(clamped, "R-VALUE.clamp", "cmd/collector.flowRecordHandler: count clamped to [0,len]", p.instrPos(qslice),
				"on every edge into the slice bound the count is len(flowRecords) or proven 0 <= count <= len(flowRecords) by the branch conditions", "the count used in the slice bound is not clamped to [0, len(flowRecords)]: "+why+" (a large or negative count panics or returns the wrong window)", true)
		}
	}
	// the query answers from the store alone: nothing remembered across requests (a cached body, a remembered length) may
	// reach the response, or the answer can be stale although the store moved on. A pure counter (x = x + 1) is fine.
	{
		nG := 0
		eachInstr(q, func(in ssa.Instruction) {
			u, ok := in.(*ssa.UnOp)
			if !ok || u.Op != token.MUL {
				return
			}
			gl, ok := u.X.(*ssa.Global)
			if !ok || gl.Pkg == nil || gl.Pkg.Pkg.Path() != modPath+"/cmd/collector" {
				return
			}
			nG++
			switch gl.Name() {
			case "flowRecords", "mutex", "flowTextSeparator":
				return
			}
			if !globalWrittenOutsideInit(p, gl) {
				return // a constant-like configuration variable
			}
			counterOnly := len(refs(u)) > 0
			for _, ref := range refs(u) {
				b, isB := ref.(*ssa.BinOp)
				if !isB || (b.Op != token.ADD && b.Op != token.SUB) {
					if _, isDbg := ref.(*ssa.DebugRef); !isDbg {
						counterOnly = false
					}
					continue
				}
				for _, r2 := range refs(b) {
					if st, ok := r2.(*ssa.Store); !ok || st.Addr != ssa.Value(gl) {
						if _, isDbg := r2.(*ssa.DebugRef); !isDbg {
							counterOnly = false
						}
					}
				}
			}
			if counterOnly {
				return
			}
			r.Violation("R-OWNER.stateless", fmt.Sprintf("%s: reads package variable %s", fnKey(q), gl.Name()), p.instrPos(in),
				"the query handler reads mutable package state other than the store: what it answers then depends on earlier requests, not only on the messages received (e.g. a cached response that is not invalidated by every arrival and reset)")
		})
		r.Check(nG > 0, "R-OWNER.stateless", fnKey(q)+": package variables read", p.pos(q.Pos()), "only the store, its mutex and constants (pure counters excepted)", "no package variable read at all: the store anchor is lost", true)
	}
	// the same for the add function: the entry rendered for a message is a function of that message alone. A package
	// variable it reads that is assigned outside the initialiser, or a package-level map / slice it fills as it goes (a
	// cache of rendered template fields keyed by template id), makes the entry depend on earlier messages.
	if add != nil {
		nAdd := 0
		seenG := map[*ssa.Global]bool{}
		for _, f := range withClosures(add) {
			eachInstr(f, func(in ssa.Instruction) {
				for _, op := range in.Operands(nil) {
					gl, ok := (*op).(*ssa.Global)
					if !ok || gl.Pkg == nil || gl.Pkg.Pkg.Path() != modPath+"/cmd/collector" || seenG[gl] {
						continue
					}
					if gl.Name() == "flowRecords" || gl.Name() == "mutex" {
						continue
					}
					seenG[gl] = true
					nAdd++
					mutable := globalWrittenOutsideInit(p, gl) || globalContentsWritten(p, gl)
					r.Check(!mutable, "R-OWNER.add-state", "cmd/collector.addIPFIXMessage: reads package variable "+gl.Name(), p.instrPos(in),
						"never assigned outside the initialiser and its contents are never updated",
						"the add function reads package state that changes at run time: the entry stored for a message then depends on earlier messages (e.g. template fields rendered once per template id and reused for a different template with the same id)", true)
				}
			})
		}
		r.Facts["R-OWNER.add-state.globals-read"] = nAdd
	}
	// both formats answer with the window: the JSON body is built from it and the text loop ranges over it
	if qslice != nil {
		nJ, okJ := 0, true
		eachInstr(q, func(in ssa.Instruction) {
			st, ok := in.(*ssa.Store)
			if !ok {
				return
			}
			tn, fn, _, ok := fieldOf(st.Addr)
			if !ok || tn != "cmd/collector.jsonResponse" || fn != "FlowRecords" {
				return
			}
			nJ++
			if st.Val != ssa.Value(qslice) {
				okJ = false
			}
		})
		r.Check(nJ >= 1 && okJ, "R-VALUE.query", "cmd/collector.flowRecordHandler: JSON response carries the window", p.instrPos(qslice), "jsonResponse.FlowRecords = flowRecords[len-count:]",
			"the JSON response is not built from the requested window (whole store, or another slice): the two formats answer differently", true)
		okT := false
		eachInstr(q, func(in ssa.Instruction) {
			c, ok := in.(*ssa.Call)
			if !ok || !c.Call.IsInvoke() || c.Call.Method.Name() != "Write" {
				return
			}
			if cv, ok := c.Call.Args[0].(*ssa.Convert); ok {
				if base, ok := rangeElemIndex(cv.X); ok && base == ssa.Value(qslice) {
					okT = true
				} else if base, ok := rangeElem(cv.X); ok && base == ssa.Value(qslice) {
					okT = true
				}
			}
		})
		// everything the reply is computed from comes through the window: no element of the raw store is read beside it
		var rawRead ssa.Instruction
		eachInstr(q, func(in ssa.Instruction) {
			if ia, ok := in.(*ssa.IndexAddr); ok && isStoreLoad(ia.X) {
				rawRead = in
			}
		})
		posRaw := p.instrPos(qslice)
		if rawRead != nil {
			posRaw = p.instrPos(rawRead)
		}
		r.Check(rawRead == nil, "R-VALUE.query", "cmd/collector.flowRecordHandler: entries are read through the window only", posRaw, "no flowRecords[i] beside records := flowRecords[len-count:]",
			"an element of the whole store is read in the query handler beside the requested window: something in the reply (a length, a header, an entry) is computed from entries the query did not ask for", true)
		r.Check(okT, "R-VALUE.query", "cmd/collector.flowRecordHandler: text response ranges over the window", p.instrPos(qslice), "for idx := range records { w.Write([]byte(records[idx])) }",
			"the text response does not write every entry of the requested window in order", true)
	}
	// a parsed count is used only where parsing succeeded and the value is not negative (invalid queries are refused)
	nParsed := 0
	eachInstr(q, func(in ssa.Instruction) {
		c, ok := in.(*ssa.Call)
		if !ok || calleeName(&c.Call) != "strconv.Atoi" {
			return
		}
		var val, perr ssa.Value
		for _, ref := range refs(c) {
			if ex, ok := ref.(*ssa.Extract); ok {
				if ex.Index == 0 {
					val = ex
				} else {
					perr = ex
				}
			}
		}
		if val == nil {
			return
		}
		nParsed++
		for _, ref := range refs(val.(*ssa.Extract)) {
			var factSets [][]relFact
			switch x := ref.(type) {
			case *ssa.BinOp:
				switch x.Op {
				case token.LSS, token.LEQ, token.GTR, token.GEQ, token.EQL, token.NEQ:
					continue // a test of the value, not a use
				}
				factSets = append(factSets, blockFacts(x.Block()))
			case *ssa.DebugRef:
				continue
			case *ssa.Phi:
				for i, e := range x.Edges {
					if e == val {
						factSets = append(factSets, edgeFacts(x.Block().Preds[i], x.Block()))
					}
				}
			default:
				factSets = append(factSets, blockFacts(ref.Block()))
			}
			for _, facts := range factSets {
				nonneg, parsed := false, perr == nil
				for _, f := range facts {
					x, op, y := f.X, f.Op, f.Y
					if y == val {
						x, y, op = y, x, flipOp(op)
					}
					if x == val {
						if z, ok := constInt(y); ok && ((op == token.GEQ && z >= 0) || (op == token.GTR && z >= -1)) {
							nonneg = true
						}
					}
					if f.X == perr && f.Op == token.EQL {
						if k, ok := f.Y.(*ssa.Const); ok && k.IsNil() {
							parsed = true
						}
					}
				}
				r.Check(nonneg && parsed, "R-GATE.refuse", "cmd/collector.flowRecordHandler: parsed count used", p.instrPos(ref), "only where err == nil and count >= 0 hold",
					"the count query parameter is used although parsing failed or the value is negative: an invalid query is answered instead of refused", true)
			}
		}
	})
	if nParsed == 0 {
		// name the usual replacement precisely: ParseInt/ParseUint with base 0 auto-detects the base
		diagnosed := false
		eachInstr(q, func(in ssa.Instruction) {
			c, ok := in.(*ssa.Call)
			if !ok {
				return
			}
			n := calleeName(&c.Call)
			if n == "strconv.ParseInt" || n == "strconv.ParseUint" {
				if b, ok := constInt(c.Call.Args[1]); ok && b != 10 {
					diagnosed = true
					r.Violation("R-GATE.refuse", "cmd/collector.flowRecordHandler: count parsed with base "+fmt.Sprint(b), p.instrPos(in),
						"the count is parsed with base auto-detection / a non-decimal base: 010 is read as 8, and 0x5, 0b11, 0o7 are answered instead of refused")
				}
			}
		})
		if !diagnosed {
			r.Undecided("R-GATE.refuse", "anchor: strconv.Atoi of the count parameter", p.pos(q.Pos()), "the count parameter is no longer parsed with strconv.Atoi: cannot see how invalid counts are refused")
		}
	}
	// the stored entries are written verbatim (never used as a format string)
	eachInstr(q, func(in ssa.Instruction) {
		c, ok := in.(*ssa.Call)
		if !ok {
			return
		}
		n := calleeName(&c.Call)
		if n == "fmt.Fprintf" || n == "fmt.Sprintf" || n == "fmt.Printf" {
			fa := c.Call.Args[0]
			if n == "fmt.Fprintf" {
				fa = c.Call.Args[1]
			}
			if _, isConst := fa.(*ssa.Const); !isConst {
				if _, ok := gs.derives(fa, 0); ok || derivesFromStore(fa, 0) {
					r.Violation("R-VALUE.verbatim", fnKey(q)+": stored entry used as a format string", p.instrPos(in), "a rendered entry is passed as the format of "+n+": '%' sequences in field values are mangled in the text response")
				}
			}
		}
	})
	nw := 0
	eachInstr(q, func(in ssa.Instruction) {
		c, ok := in.(*ssa.Call)
		if !ok || !c.Call.IsInvoke() || c.Call.Method.Name() != "Write" {
			return
		}
		if cv, ok := c.Call.Args[0].(*ssa.Convert); ok && derivesFromStore(cv.X, 0) {
			nw++
		}
	})
	r.Check(nw >= 1, "R-VALUE.verbatim", fnKey(q)+": text format writes each entry's bytes", p.pos(q.Pos()), "w.Write([]byte(records[i]))", "the text response does not write the stored entries' bytes as they are", true)
	// 4xx before the store
	n4 := 0
	for _, fn := range []*ssa.Function{q, rs} {
		eachInstr(fn, func(in ssa.Instruction) {
			c, ok := in.(*ssa.Call)
			if !ok || calleeName(&c.Call) != "net/http.Error" {
				return
			}
			code, ok := constInt(c.Call.Args[2])
			if !ok || code < 400 || code > 499 {
				return
			}
			n4++
			pq := &pathQuery{noExit: true, terminal: func(x ssa.Instruction) bool {
				if cc := callOf(x); cc != nil {
					if id, _, ok := lockOp(cc); ok && id == c20Mutex {
						return true
					}
				}
				return len(gs.classify(x)) > 0
			}}
			_, touches := pq.find(in)
			r.Check(!touches, "R-GATE.refuse", fmt.Sprintf("%s: %d reply #%d", fnKey(fn), code, n4), p.instrPos(in), "the refusal path returns without reaching the lock or the store",
				"after refusing the request the handler still reaches the store", true)
		})
	}
	// reference count on the pinned tree: 4 (invalid count / format / method x2); several refusals may share one reply
	// (a helper that returns the message), so only "none left" loses the anchor - a refusal that disappears is the
	// business of the rules on the count and on what reaches the store
	r.Facts["R-GATE.refuse.replies"] = n4
	if n4 < 1 {
		r.Undecided("R-GATE.refuse", "anchor: 4xx replies in the handlers", "cmd/collector/collector.go", fmt.Sprintf("found %d, expected invalid count / format / method x2", n4))
	}
	// reset stores an empty slice
	nr := 0
	eachInstr(rs, func(in ssa.Instruction) {
		s, ok := isStoreStore(in)
		if !ok {
			return
		}
		nr++
		empty := false
		switch v := s.Val.(type) {
		case *ssa.Const:
			empty = v.IsNil()
		case *ssa.Slice:
			if al, ok := v.X.(*ssa.Alloc); ok {
				if at, ok := al.Type().Underlying().(*types.Pointer).Elem().Underlying().(*types.Array); ok && at.Len() == 0 {
					empty = true
				}
			}
		case *ssa.MakeSlice:
			if l, ok := constInt(v.Len); ok && l == 0 {
				empty = true
			}
		}
		r.Check(empty, "R-VALUE.reset", "cmd/collector.resetRecordHandler: store after reset", p.instrPos(in), "an empty slice is stored", "reset does not store an empty slice", true)
	})
	if nr == 0 {
		r.Violation("R-VALUE.reset", "cmd/collector.resetRecordHandler: store after reset", p.pos(rs.Pos()), "reset never assigns the store")
	}

	// --- rendering
	fd, _ := p.funcDecl("cmd/collector", "", "addIPFIXMessage")
	if fd == nil {
		r.Undecided("R-SWITCH", "anchor: addIPFIXMessage (syntax)", "cmd/collector/collector.go", "declaration not found")
		return
	}
	tb := p.liftIETables()
	for _, pr := range tb.Problems {
		r.Undecided("R-TABLE", "anchor: entities tables", "pkg/entities/ie.go", pr)
	}
	sws := ieSwitches(pk, fd)
	if len(sws) != 1 {
		r.Undecided("R-SWITCH", "anchor: data-type switch in addIPFIXMessage", p.pos(fd.Pos()), fmt.Sprintf("found %d switches over IEDataType", len(sws)))
	} else {
		checkIESwitch(p, r, pk, tb, "cmd/collector.addIPFIXMessage", sws[0], true, nil)
	}
	// every case renders "<name>: <value>" from elem.Name and the case's own accessor
	if len(sws) == 1 {
		for _, c := range clausesOf(pk, sws[0], tb) {
			if c.Default {
				continue
			}
			okPrint := false
			ast.Inspect(&ast.BlockStmt{List: c.Body}, func(n ast.Node) bool {
				call, ok := n.(*ast.CallExpr)
				if !ok || types.ExprString(call.Fun) != "fmt.Fprintf" || len(call.Args) < 4 {
					return true
				}
				hasName, hasVal := false, false
				for _, a := range call.Args[2:] {
					s := types.ExprString(a)
					if s == "elem.Name" {
						hasName = true
					}
					if strings.HasPrefix(s, "ie.Get") && strings.HasSuffix(s, "Value()") || s == "err" {
						hasVal = true
					}
				}
				if hasName && hasVal && types.ExprString(call.Args[0]) == "&buf" {
					okPrint = true
				}
				return true
			})
			if !okPrint && add != nil && len(c.Body) > 0 {
				// value form: the case only produces the value (assigned, returned by a helper spliced back in place) and one
				// print after the switch writes it next to the element's name
				okPrint = caseValueIsRendered(add, c.Body[0].Pos(), c.Body[len(c.Body)-1].End())
			}
			r.Check(okPrint, "R-EXHAUST.render", "cmd/collector.addIPFIXMessage: case "+strings.Join(c.Labels, ",")+" renders name and value", p.pos(c.Pos), "Fprintf(&buf, ..., elem.Name, <value>)",
				"the case does not write the element's name and value into the rendered entry", false)
		}
	}
	nloops, nbad := 0, 0
	ast.Inspect(fd.Body, func(n ast.Node) bool {
		var rg *ast.RangeStmt
		switch l := n.(type) {
		case *ast.RangeStmt:
			rg = l
		case *ast.ForStmt:
			// an index loop over the same list: treated like the range form (only its body matters below)
			if l.Cond == nil {
				return true
			}
			rg = &ast.RangeStmt{For: l.For, Body: l.Body}
		default:
			return true
		}
		nloops++
		ast.Inspect(rg.Body, func(m ast.Node) bool {
			switch x := m.(type) {
			case *ast.BranchStmt:
				if x.Tok == token.GOTO && x.Label != nil && labelInside(rg.Body, x.Label.Name) {
					// a forward jump to a label of the same iteration (the form a spliced helper's return takes)
				} else if x.Tok == token.CONTINUE || x.Tok == token.GOTO || (x.Tok == token.BREAK && x.Label != nil) {
					nbad++
				}
				if x.Tok == token.BREAK && x.Label == nil {
					// a bare break inside the switch is harmless; inside the loop directly it skips entries
					nbad += breakLeavesLoop(rg, x)
				}
			case *ast.ReturnStmt:
				nbad++
			case *ast.FuncLit:
				return false
			}
			return true
		})
		return true
	})
	r.Facts["R-EXHAUST.render.loops"] = nloops // 4 on the pinned tree (records x elements, for the template and the data set); one shared nest is 2
	r.Check(nloops >= 2 && nbad == 0, "R-EXHAUST.render", "cmd/collector.addIPFIXMessage: loops over records and elements", p.pos(fd.Pos()),
		fmt.Sprintf("%d range loops, none contains continue/break-out/return", nloops), "a rendering loop can skip or stop early (continue/break/return inside it), or the loops over records/elements are gone", false)
}

// breakLeavesLoop returns 1 if the unlabeled break statement b exits the range loop rg itself (i.e. it is not
// nested in an inner switch/select/for inside rg).
func breakLeavesLoop(rg *ast.RangeStmt, b *ast.BranchStmt) int {
	leaves := 1
	var walk func(n ast.Node, inBreakable bool) bool
	walk = func(n ast.Node, inBreakable bool) bool {
		found := false
		ast.Inspect(n, func(m ast.Node) bool {
			if found || m == nil {
				return false
			}
			if m == ast.Node(b) {
				found = true
				if inBreakable {
					leaves = 0
				}
				return false
			}
			if m != n {
				switch m.(type) {
				case *ast.SwitchStmt, *ast.TypeSwitchStmt, *ast.SelectStmt, *ast.ForStmt, *ast.RangeStmt:
					if walk(m, true) {
						found = true
					}
					return false
				}
			}
			return true
		})
		return found
	}
	walk(rg.Body, false)
	return leaves
}

// derivesFromStore: v is an element / sub-slice of the flowRecords store.
func derivesFromStore(v ssa.Value, d int) bool {
	if d > 6 || v == nil {
		return false
	}
	switch x := v.(type) {
	case *ssa.UnOp:
		if g, ok := x.X.(*ssa.Global); ok && g.Name() == "flowRecords" {
			return true
		}
		return derivesFromStore(x.X, d+1)
	case *ssa.IndexAddr:
		return derivesFromStore(x.X, d+1)
	case *ssa.Slice:
		return derivesFromStore(x.X, d+1)
	case *ssa.Convert:
		return derivesFromStore(x.X, d+1)
	case *ssa.Phi:
		for _, e := range x.Edges {
			if derivesFromStore(e, d+1) {
				return true
			}
		}
	}
	return false
}

// globalWrittenOutsideInit: is the package variable assigned anywhere but in the package initialiser?
func globalWrittenOutsideInit(p *Prog, gl *ssa.Global) bool {
	w := false
	for _, f := range p.RepoFns {
		if f.Name() == "init" || strings.HasPrefix(f.Name(), "init#") {
			continue
		}
		eachInstr(f, func(in ssa.Instruction) {
			if st, ok := in.(*ssa.Store); ok && st.Addr == ssa.Value(gl) {
				w = true
			}
		})
	}
	return w
}

// checkCountRefusal: a query for n returns the last min(n, stored) entries for ANY n >= 0: the handler answers 4xx for
// a count only when it could not be parsed or is negative - never for a non-negative count, however large.
func checkCountRefusal(p *Prog, r *Report, rule string) {
	f := p.Fn("cmd/collector.flowRecordHandler")
	if f == nil || len(f.Blocks) == 0 {
		r.Undecided(rule, "anchor: flowRecordHandler", "cmd/collector/collector.go", "not found")
		return
	}
	var atoi *ssa.Call
	eachInstr(f, func(in ssa.Instruction) {
		if c, ok := in.(*ssa.Call); ok && (calleeName(&c.Call) == "strconv.Atoi" || calleeName(&c.Call) == "strconv.ParseInt" || calleeName(&c.Call) == "strconv.ParseUint") {
			atoi = c
		}
	})
	if atoi == nil {
		r.Undecided(rule, fnKey(f)+": parse of the count parameter", p.pos(f.Pos()), "no strconv parse found")
		return
	}
	var cnt *ssa.Extract
	for _, e := range extractOf(atoi, 0) {
		cnt = e
	}
	bad := ""
	n := 0
	w := &absWalker{MaxPaths: 20000}
	w.OnInstr = func(st *absState, in ssa.Instruction) {
		c, ok := in.(*ssa.Call)
		if !ok || calleeName(&c.Call) != "net/http.Error" || len(c.Call.Args) != 3 || cnt == nil {
			return
		}
		code, ok := constInt(c.Call.Args[2])
		if !ok || code < 400 || code > 499 {
			return
		}
		// only the reply that the count test leads to: the last branch taken before it compares the count (or tests the
		// parse error)
		if len(st.Conds) == 0 {
			return
		}
		lastC := st.Conds[len(st.Conds)-1].If.Cond
		about := false
		for _, v := range backwardSlice(lastC, 40) {
			if v == ssa.Value(cnt) || v == ssa.Value(atoi) {
				about = true
			}
		}
		if !about {
			return
		}
		n++
		lo, _ := st.boundsOf(st.linear(cnt))
		if lo >= 0 {
			bad = fmt.Sprintf("a count of %d or more is answered with %d at %s", lo, code, p.instrPos(in))
		}
	}
	w.walk(newAbsState(), f.Blocks[0], 0)
	r.Check(bad == "" && !w.Overflow, rule, fnKey(f)+": no non-negative count is refused", p.pos(f.Pos()), "4xx replies only for an unparsable or negative count",
		bad+": a query for more entries than are stored must return all of them (the last min(n, stored)), not an error", true)
}

// pathClamped: on every enumerated path from the handler's entry to the window slice store[len(store)-count:] the count
// is (a) a value with lower bound >= 0 for which "count <= len(store)" was established by a branch on that path, or (b)
// len(store) itself, and then the value it replaced was the negative "no count given" constant or was proven > len(store)
// (a requested count within range must not be replaced: n = 0 asks for no entries).
func pathClamped(q *ssa.Function, qslice *ssa.Slice, isLenStore func(ssa.Value) bool) (okAll bool, why string, conclusive bool) {
	if len(q.Blocks) == 0 {
		return false, "", false
	}
	okAll = true
	n := 0
	relHolds := func(s *absState, a linForm, strict bool, b linForm) bool { // a < b (strict) or a <= b
		op := token.LEQ
		if strict {
			op = token.LSS
		}
		if s.evalRel(a, op, b) == 1 {
			return true
		}
		if a.Sym == "" || b.Sym == "" {
			return false
		}
		need := b.K - a.K // A - B <= need (or < need+... ) with A, B the bare symbols
		if strict {
			need--
		}
		for _, rel := range s.rels {
			for _, f := range []struct {
				l, r linForm
				op   string
				flip bool
			}{{a, b, "<=", false}, {a, b, "<", false}, {b, a, ">=", true}, {b, a, ">", true}} {
				pre := f.l.Sym
				if !strings.HasPrefix(rel, pre) {
					continue
				}
				rest := rel[len(pre):]
				var k1, k2 int64
				var o, sym2 string
				if cnt, err := fmt.Sscanf(rest, "%d %s ", &k1, &o); err != nil || cnt != 2 || o != f.op {
					continue
				}
				tail := rest[strings.Index(rest, " "+o+" ")+len(o)+2:]
				if !strings.HasPrefix(tail, f.r.Sym) {
					continue
				}
				sym2 = tail[len(f.r.Sym):]
				if cnt, err := fmt.Sscanf(sym2, "%d", &k2); err != nil || cnt != 1 {
					continue
				}
				// relation: L + k1 op R + k2
				var d int64 // A - B <= d
				if !f.flip {
					d = k2 - k1 // A + k1 <= B + k2
					if f.op == "<" {
						d--
					}
				} else {
					d = k1 - k2 // B + k1 >= A + k2  =>  A - B <= k1 - k2
					if f.op == ">" {
						d--
					}
				}
				if d <= need {
					return true
				}
			}
		}
		return false
	}
	wk := &absWalker{MaxPaths: 20000}
	wk.Stop = func(in ssa.Instruction) bool { return in == ssa.Instruction(qslice) }
	wk.OnEnd = func(s *absState, in ssa.Instruction) {
		if in != ssa.Instruction(qslice) {
			return
		}
		n++
		b, ok := s.resolve(qslice.Low).(*ssa.BinOp)
		if !ok || b.Op != token.SUB || !isLenStore(s.resolve(b.X)) {
			okAll, why = false, "the low bound is not len(flowRecords) - count on some path"
			return
		}
		c, l := s.linear(b.Y), s.linear(b.X)
		if c.Sym == l.Sym && c.K == l.K {
			// the whole store: what was the count before it was replaced? The other edges of the phi that selected
			// len(store), each followed along the edges this path took
			top, isPhi := b.Y.(*ssa.Phi)
			if !isPhi {
				return
			}
			for _, e := range top.Edges {
				if e == s.env[top] || isLenStore(e) {
					continue
				}
				v := e
				known := true
				for d := 0; d < 6; d++ {
					ph, ok := v.(*ssa.Phi)
					if !ok {
						break
					}
					nv, ok := s.env[ph]
					if !ok {
						known = false
						break
					}
					v = nv
				}
				if !known || !valueOnPath(s, v) || isLenStore(v) {
					continue
				}
				o := s.linear(v)
				if o.Sym == l.Sym && o.K == l.K {
					continue
				}
				if o.Sym == "" {
					if o.K >= 0 {
						okAll, why = false, fmt.Sprintf("the constant count %d (within range) is replaced by the whole store", o.K)
					}
					continue
				}
				if _, hi := s.boundsOf(o); hi < 0 {
					continue
				}
				if !relHolds(s, l, true, o) {
					okAll, why = false, "a requested count that is not proven > len(flowRecords) on that path is replaced by the whole store (count = 0 must return no entry)"
				}
			}
			return
		}
		lo, _ := s.boundsOf(c)
		if lo < 0 || !relHolds(s, c, false, l) {
			okAll, why = false, "a count reaches the slice bound on a path that does not establish 0 <= count <= len(flowRecords)"
		}
	}
	wk.walk(newAbsState(), q.Blocks[0], 0)
	return okAll, why, n > 0 && !wk.Overflow
}

// valueOnPath: the block defining v was entered on this path.
func valueOnPath(s *absState, v ssa.Value) bool {
	in, ok := v.(ssa.Instruction)
	if !ok {
		return true
	}
	for _, b := range s.Blocks {
		if b == in.Block() {
			return true
		}
	}
	return false
}

// caseValueIsRendered: some value produced between the source positions lo and hi of fn (an accessor call on the
// element, or the error made for an unsupported type) is in the backward slice of a fmt.Fprint* call that writes into a
// local buffer and whose operands also contain a load of the information element's Name.
func caseValueIsRendered(fn *ssa.Function, lo, hi token.Pos) bool {
	var cands []ssa.Value
	var prints []*ssa.Call
	for _, f := range withClosures(fn) {
		eachInstr(f, func(in ssa.Instruction) {
			c, ok := in.(*ssa.Call)
			if !ok {
				return
			}
			name := calleeName(&c.Call)
			if strings.HasPrefix(name, "fmt.Fprint") && len(c.Call.Args) >= 2 {
				if _, ok := stripChange(c.Call.Args[0]).(*ssa.Alloc); ok {
					prints = append(prints, c)
				}
				return
			}
			if c.Pos() < lo || c.Pos() > hi {
				return
			}
			if c.Call.IsInvoke() && strings.HasPrefix(c.Call.Method.Name(), "Get") && strings.HasSuffix(c.Call.Method.Name(), "Value") &&
				strings.HasSuffix(typeName(c.Call.Value.Type()), "InfoElementWithValue") {
				cands = append(cands, c)
			} else if name == "fmt.Errorf" || name == "errors.New" {
				cands = append(cands, c)
			}
		})
	}
	for _, pr := range prints {
		hasName := false
		in := map[ssa.Value]bool{}
		for _, a := range pr.Call.Args[1:] {
			for _, v := range backwardSlice(a, 400) {
				in[v] = true
				if _, fname, _, ok := fieldOf(v); ok && fname == "Name" {
					hasName = true
				}
			}
		}
		if !hasName {
			continue
		}
		for _, c := range cands {
			if in[c] {
				return true
			}
		}
	}
	return false
}

// labelInside: a labeled statement named name is part of body, after no enclosing loop of its own (so a jump to it
// from inside body stays in the current iteration of the loop whose body this is).
func labelInside(body *ast.BlockStmt, name string) bool {
	found := false
	var walk func(n ast.Node, inner bool)
	walk = func(n ast.Node, inner bool) {
		ast.Inspect(n, func(m ast.Node) bool {
			switch x := m.(type) {
			case *ast.FuncLit:
				return false
			case *ast.LabeledStmt:
				if x.Label.Name == name {
					found = true
				}
			}
			return true
		})
	}
	walk(body, false)
	return found
}

// globalContentsWritten: a map / slice / pointer held in the package variable is updated in place somewhere in its
// package (map update or delete, element or field store through a value loaded from the variable).
func globalContentsWritten(p *Prog, gl *ssa.Global) bool {
	written := false
	var viaValue func(v ssa.Value, d int)
	viaValue = func(v ssa.Value, d int) {
		if d > 4 || written {
			return
		}
		for _, ref := range refs(v) {
			switch y := ref.(type) {
			case *ssa.MapUpdate:
				if y.Map == v {
					written = true
				}
			case *ssa.IndexAddr:
				for _, r2 := range refs(y) {
					if st, ok := r2.(*ssa.Store); ok && st.Addr == ssa.Value(y) {
						written = true
					}
				}
			case *ssa.FieldAddr:
				for _, r2 := range refs(y) {
					if st, ok := r2.(*ssa.Store); ok && st.Addr == ssa.Value(y) {
						written = true
					}
				}
			case *ssa.Call:
				if calleeName(&y.Call) == "builtin:delete" && len(y.Call.Args) > 0 && y.Call.Args[0] == v {
					written = true
				}
			case *ssa.Phi:
				viaValue(y, d+1)
			case *ssa.Slice:
				viaValue(y, d+1)
			case *ssa.ChangeType:
				viaValue(y, d+1)
			}
		}
	}
	for _, f := range p.RepoFns {
		if f.Pkg == nil || f.Pkg != gl.Pkg || written {
			continue
		}
		eachInstr(f, func(in ssa.Instruction) {
			if u, ok := in.(*ssa.UnOp); ok && u.Op == token.MUL && u.X == ssa.Value(gl) {
				viaValue(u, 0)
			}
		})
	}
	return written
}
