package main

import (
	"fmt"
	"go/token"
	"sort"
	"strings"

	"golang.org/x/tools/go/ssa"
)

// nf renders an SSA value as a small, position-free normal form. Leaves: constants, parameters ($name), field loads
// (T.f), elements looked up by name in a record: elem(<record>, <name>), list entries L[i]. Commutative operands are
// sorted; phis are rendered as the sorted set of their (distinct, non-self) edges.
type nfCtx struct {
	p     *Prog
	depth int
	seen  map[ssa.Value]bool
}

func (p *Prog) nf(v ssa.Value) string {
	c := &nfCtx{p: p, seen: map[ssa.Value]bool{}}
	return c.nf(v)
}

func (c *nfCtx) nf(v ssa.Value) string {
	if v == nil {
		return "nil"
	}
	c.depth++
	defer func() { c.depth-- }()
	if c.depth > 14 {
		return "…"
	}
	switch x := v.(type) {
	case *ssa.Const:
		if x.Value == nil {
			return "nil"
		}
		return x.Value.ExactString()
	case *ssa.Parameter:
		return "$" + x.Name()
	case *ssa.FreeVar:
		return "^" + x.Name()
	case *ssa.Convert:
		return "conv(" + c.nf(x.X) + ")"
	case *ssa.ChangeType:
		return c.nf(x.X)
	case *ssa.MakeInterface:
		return c.nf(x.X)
	case *ssa.BinOp:
		a, b := c.nf(x.X), c.nf(x.Y)
		switch x.Op {
		case token.ADD, token.MUL, token.EQL, token.NEQ, token.AND, token.OR:
			if b < a {
				a, b = b, a
			}
		}
		return "(" + a + " " + x.Op.String() + " " + b + ")"
	case *ssa.UnOp:
		if x.Op == token.MUL {
			if tn, fn, base, ok := fieldOf(x.X); ok {
				if _, isParam := base.(*ssa.Parameter); isParam {
					return short(tn) + "." + fn
				}
				return c.nf(base) + "." + fn
			}
			if ia, ok := x.X.(*ssa.IndexAddr); ok {
				return c.nf(ia.X) + "[" + c.idx(ia.Index) + "]"
			}
			if g, ok := x.X.(*ssa.Global); ok {
				return g.Name()
			}
			if al, ok := x.X.(*ssa.Alloc); ok {
				return "*" + al.Comment
			}
			return "*" + c.nf(x.X)
		}
		return x.Op.String() + c.nf(x.X)
	case *ssa.Extract:
		if call, ok := x.Tuple.(*ssa.Call); ok && call.Call.IsInvoke() && call.Call.Method.Name() == "GetInfoElementWithValue" {
			s := "elem(" + c.nf(call.Call.Value) + ", " + c.nf(call.Call.Args[0]) + ")"
			switch x.Index {
			case 0:
				return s
			case 2:
				return "exists" + s[4:]
			}
			return s + fmt.Sprintf("#%d", x.Index)
		}
		return c.nf(x.Tuple) + fmt.Sprintf("#%d", x.Index)
	case *ssa.Call:
		name := calleeName(&x.Call)
		var args []string
		if x.Call.IsInvoke() {
			m := x.Call.Method.Name()
			for _, a := range x.Call.Args {
				args = append(args, c.nf(a))
			}
			return m + "(" + strings.Join(append([]string{c.nf(x.Call.Value)}, args...), ", ") + ")"
		}
		for _, a := range x.Call.Args {
			args = append(args, c.nf(a))
		}
		name = name[strings.LastIndex(name, ".")+1:]
		return name + "(" + strings.Join(args, ", ") + ")"
	case *ssa.Phi:
		if c.seen[v] {
			return "self"
		}
		c.seen[v] = true
		defer delete(c.seen, v)
		set := map[string]bool{}
		for _, e := range x.Edges {
			s := c.nf(e)
			if s != "self" {
				set[s] = true
			}
		}
		var parts []string
		for s := range set {
			parts = append(parts, s)
		}
		sort.Strings(parts)
		if len(parts) == 1 {
			return parts[0]
		}
		return "phi{" + strings.Join(parts, " | ") + "}"
	case *ssa.Slice:
		return c.nf(x.X)
	case *ssa.Alloc:
		return "local:" + x.Comment
	case *ssa.Lookup:
		return c.nf(x.X) + "[" + c.nf(x.Index) + "]"
	case *ssa.IndexAddr:
		return "&" + c.nf(x.X) + "[" + c.idx(x.Index) + "]"
	case *ssa.FieldAddr:
		tn, fn, _, _ := fieldOf(x)
		return "&" + short(tn) + "." + fn
	case *ssa.Global:
		return x.Name()
	}
	return v.Name()
}

// idx renders a canonical range index as "i".
func (c *nfCtx) idx(v ssa.Value) string {
	if b, ok := v.(*ssa.BinOp); ok && b.Op == token.ADD {
		if ph, ok := b.X.(*ssa.Phi); ok && ph.Comment == "rangeindex" {
			return "i"
		}
	}
	return c.nf(v)
}

func short(tn string) string { return tn[strings.LastIndex(tn, ".")+1:] }

// boolFacts returns the guard conditions that hold at a block, rendered with nf ("!x" for false edges).
func (p *Prog) boolFacts(b *ssa.BasicBlock) []string {
	var out []string
	for _, g := range guardsOf(b) {
		s := p.nf(g.If.Cond)
		if g.Succ == 1 {
			s = "!" + s
		}
		out = append(out, s)
	}
	sort.Strings(out)
	return out
}

func hasFact(facts []string, want string) bool {
	for _, f := range facts {
		if f == want {
			return true
		}
	}
	return false
}
