package main

import (
	"fmt"
	"go/token"
	"go/types"
	"strings"

	"golang.org/x/tools/go/ssa"
)

func init() {
	register(&propDef{
		ID:          "C03",
		Explanation: "Structural necessary conditions for total and exact decoding of arbitrary bytes, decided on SSA over everything reachable from the collector's decode entry points (decodePacket, getMessageLength, util.Decode, the element decoder): (1) R-BOUNDS.next: every bytes.Buffer.Next(n) is dominated by the fact buf.Len() >= n for the same buffer and the same n (so no field is built from fewer bytes than requested; with C15's width agreement no fixed-width read can index out of range); (2) R-BOUNDS.progress: every loop conditioned on buf.Len() > 0 reaches its back edge only through a progress test (a Len() snapshot taken at the top of the body compared after the iteration, the 'no progress' edge leaving the loop) - so degenerate templates (zero fields / zero-length fields) cannot loop forever; (3) R-ERR: every call on the decode path that returns an error has that error tested, returned or wrapped - none is dropped; (4) R-NIL: in the element decoder every index into / fixed-width read of the value slice is dominated by value != nil; (5) R-PANIC: no explicit panic is reachable from decodePacket through the repo call graph; (6) R-ALLOC: every make() on the decode/reader path has a size built from constants, <=16-bit wire values, len() of existing buffers and constructor configuration, so memory is O(message size); (7) R-BOUNDS.setlen: the set length decoded from the wire (7th header variable) flows into a bound (Truncate/Next) on the packet buffer before the set is decoded, so trailing bytes are not turned into records. Not decided: wall-clock promptness, agreement of decoded values with a reference parser (only consumption, order and totality), behaviour of bytes.Buffer/encoding/binary themselves. Later additions: the record loop has no successful exit but its condition; Buffer.Read counts are compared with the length asked for; the variable-length prefix is read as the writer writes it; the field-specifier values are fresh per field; the stream reader consumes the message on every iteration and leaves on errors (C11's rules). Round-five additions: the argument of Buffer.Truncate is proven within [0, Len()]; buffer sizes are not computed in a narrow integer type. Round-six additions: the decoder makes one element slice per record. Round-seven addition (imported from C04): the decode path reads no per-process state besides the configuration and the template entry of this (domain, id) - a cache of placeholder elements keyed without the declared length would decode later sets with a stale width.",
		Assume:      []string{"bytes.Buffer, bufio and encoding/binary behave as documented", "fixed-width decoder reads need exactly InfoElement.Len bytes (decided by C15's codec agreement)"},
		Run:         runC03,
	})
}

func isBufLen(v ssa.Value) (ssa.Value, bool) {
	v = stripChange(v)
	// a loop variable that holds buffer.Len() (for n := buf.Len(); n > 0; n = buf.Len()): every way in is Len() of one buffer
	if ph, ok := v.(*ssa.Phi); ok {
		var buf ssa.Value
		for _, e := range ph.Edges {
			b, ok := isBufLenCall(e)
			if !ok || (buf != nil && b != buf) {
				return nil, false
			}
			buf = b
		}
		return buf, buf != nil
	}
	return isBufLenCall(v)
}

func isBufLenCall(v ssa.Value) (ssa.Value, bool) {
	c, ok := stripChange(v).(*ssa.Call)
	if !ok || calleeName(&c.Call) != "(*bytes.Buffer).Len" {
		return nil, false
	}
	return c.Call.Args[0], true
}

// decodeScope returns the repo functions on the decode path.
func decodeScope(p *Prog) (map[*ssa.Function]bool, *ssa.Function) {
	g := p.CallGraph()
	dp := p.Fn("(*pkg/collector.CollectingProcess).decodePacket")
	roots := []*ssa.Function{}
	if dp != nil {
		roots = append(roots, dp)
	}
	if f := p.Fn("pkg/collector.getMessageLength"); f != nil {
		roots = append(roots, f)
	}
	return g.reach(roots...), dp
}

func runC03(p *Prog, r *Report, tier string) {
	// AddRecordV2 adopts the element slice it is given: the decoder makes one slice per record
	checkFreshPerIteration(p, r, "R-ALLOC.elements-fresh", "(*pkg/collector.CollectingProcess).decodeDataSet", func(n string) bool { return strings.HasSuffix(n, ".AddRecordV2") }, 1, "element slice")
	// imported from C04: the width a field is decoded with comes from the template entry in force, not from any other
	// per-process state (a cache of placeholder elements keyed without the declared length decodes later sets with a
	// stale width: wrong field sizes, leftover bytes as extra records)
	checkDecodeScopedState(p, r, templateStoreFns(p))
	scope, dp := decodeScope(p)
	if dp == nil {
		r.Undecided("R-BOUNDS", "anchor: (*CollectingProcess).decodePacket", "pkg/collector/process.go", "function not found")
		return
	}
	r.Facts["decode_path_functions"] = len(scope)
	inCollector := func(f *ssa.Function) bool {
		k := fnKey(f)
		return keyInPkg(k, "pkg/collector") || keyInPkg(k, "pkg/util")
	}

	// (1) Next(n) dominated by Len() >= n
	nNext := 0
	for f := range scope {
		if !inCollector(f) {
			continue
		}
		idx := 0
		eachInstr(f, func(in ssa.Instruction) {
			c, ok := in.(*ssa.Call)
			if !ok || calleeName(&c.Call) != "(*bytes.Buffer).Next" {
				return
			}
			nNext++
			idx++
			buf, n := c.Call.Args[0], c.Call.Args[1]
			proved := false
			for _, fct := range blockFacts(in.Block()) {
				x, op, y := fct.X, fct.Op, fct.Y
				if b, ok := isBufLen(y); ok && b == buf { // n OP Len  -> Len flip(OP) n
					x, y, op = y, x, flipOp(op)
				}
				if b, ok := isBufLen(x); ok && b == buf && y == n && (op == token.GEQ || op == token.GTR) {
					proved = true
				}
			}
			// a constant n <= 0 needs no proof
			if v, ok := constInt(n); ok && v <= 0 {
				proved = true
			}
			// no other consumption between the proof and the Next: the Len() call and the Next are in straight-line code
			r.Check(proved, "R-BOUNDS.next", fmt.Sprintf("%s: bytes.Buffer.Next #%d", fnKey(f), idx), p.instrPos(in),
				"dominated by the branch fact buf.Len() >= n (same buffer, same n)",
				"Next(n) is not dominated by a test that n bytes remain: bytes.Buffer.Next silently returns a shorter slice, so a field is built from fewer bytes than its width (index-out-of-range panic in the fixed-width decoders, or a short value delivered)", true)
		})
	}
	if nNext == 0 {
		r.Undecided("R-BOUNDS.next", "anchor: bytes.Buffer.Next on the decode path", "pkg/collector/process.go", "no Next call found: the data-record slicing idiom changed")
	}

	// (2) progress of loops over remaining bytes
	nLoop := 0
	for f := range scope {
		if !inCollector(f) {
			continue
		}
		for _, hb := range f.Blocks {
			i := ifOf(hb)
			if i == nil {
				continue
			}
			// buffer.Len() > 0 (or != 0, >= 1), whichever way it is spelled; the body is the edge on which it holds
			var buf ssa.Value
			bodySucc := -1
			for _, cf := range cmpForms(i.Cond) {
				bv, isLen := isBufLen(cf.X)
				z, isC := constInt(cf.Y)
				if isLen && isC && ((z == 0 && (cf.Op == token.GTR || cf.Op == token.NEQ)) || (z == 1 && cf.Op == token.GEQ)) {
					buf, bodySucc = bv, cf.Succ
				}
			}
			if bodySucc < 0 {
				continue
			}
			// is hb a loop head? (has a predecessor it dominates)
			isLoop := false
			for _, pr := range hb.Preds {
				if hb.Dominates(pr) {
					isLoop = true
				}
			}
			if !isLoop {
				continue
			}
			nLoop++
			body := hb.Succs[bodySucc]
			construct := fmt.Sprintf("%s: loop while buffer.Len() > 0", fnKey(f))
			q := &pathQuery{loopHead: hb, noExit: true, discharge: func(x ssa.Instruction) bool {
				ii, ok := x.(*ssa.If)
				if !ok {
					return false
				}
				c, ok := ii.Cond.(*ssa.BinOp)
				if !ok || (c.Op != token.EQL && c.Op != token.NEQ) {
					return false
				}
				a, b := c.X, c.Y
				ba, okA := isBufLen(a)
				bb, okB := isBufLen(b)
				if !okA || !okB || ba != buf || bb != buf {
					return false
				}
				// one of the two Len() calls is the snapshot: taken in the loop body's first block (before any consumption)
				snapOK := false
				for _, s := range []ssa.Value{a, b} {
					if sc, ok := s.(*ssa.Call); ok && sc.Block() == body && noConsumptionBefore(sc, buf) {
						snapOK = true
					}
					// the loop variable itself: its value at the loop head is the length before this iteration
					if ph, ok := s.(*ssa.Phi); ok && ph.Block() == hb {
						snapOK = true
					}
				}
				if !snapOK {
					return false
				}
				// the 'equal' edge must not come back to the loop head
				eq := 0
				if c.Op == token.NEQ {
					eq = 1
				}
				return !reachableBlock(ii.Block().Succs[eq], hb)
			}}
			if trail, bad := q.findFromBlock(body); bad {
				r.Violation("R-BOUNDS.progress", construct, p.instrPos(i),
					"an iteration can return to the loop head without a progress test (Len() snapshot compared after the iteration): a template whose records consume no bytes (zero fields, zero-length unknown elements) makes decoding loop forever, appending records; path "+p.describePath(f, trail))
			} else {
				r.OK("R-BOUNDS.progress", construct, p.instrPos(i), "every path to the back edge passes 'Len() == snapshot => leave the loop with an error'", true)
			}
		}
	}
	if nLoop == 0 {
		r.Undecided("R-BOUNDS.progress", "anchor: loop over the remaining bytes of the data set", "pkg/collector/process.go", "no loop conditioned on buffer.Len() > 0 found")
	}

	// (3) error discipline
	nErr := 0
	for f := range scope {
		if !inCollector(f) {
			continue
		}
		idx := map[string]int{}
		eachInstr(f, func(in ssa.Instruction) {
			c, ok := in.(*ssa.Call)
			if !ok {
				return
			}
			sig, ok := c.Call.Value.Type().Underlying().(*types.Signature)
			if c.Call.IsInvoke() {
				sig = c.Call.Method.Type().(*types.Signature)
				ok = true
			}
			if !ok {
				return
			}
			ei := errResultIndex(sig)
			if ei < 0 {
				return
			}
			name := calleeName(&c.Call)
			if strings.HasPrefix(name, "fmt.") || strings.Contains(name, "klog") {
				return
			}
			nErr++
			idx[name]++
			var errVals []ssa.Value
			if sig.Results().Len() == 1 {
				errVals = []ssa.Value{c}
			} else {
				for _, e := range extractOf(c, ei) {
					errVals = append(errVals, e)
				}
				// the whole tuple returned as is
				for _, ref := range refs(c) {
					if _, ok := ref.(*ssa.Return); ok {
						errVals = append(errVals, c)
					}
				}
			}
			handled := false
			for _, ev := range errVals {
				if errUsed(ev, 0) {
					handled = true
				}
			}
			r.Check(handled, "R-ERR", fmt.Sprintf("%s: error of %s #%d", fnKey(f), name, idx[name]), p.instrPos(in),
				"tested, returned or wrapped", "the error result is dropped: a short or failing read is treated as success and decoding continues on garbage", true)
		})
	}
	if nErr < 8 {
		r.Undecided("R-ERR", "anchor: error-returning calls on the decode path", "pkg/collector", fmt.Sprintf("only %d found", nErr))
	}

	// (4) nil / deref discipline in the element decoder
	dec := p.Fn("pkg/entities.DecodeAndCreateInfoElementWithValue")
	if dec == nil || len(dec.Params) < 2 {
		r.Undecided("R-NIL", "anchor: DecodeAndCreateInfoElementWithValue", "pkg/entities/ie.go", "function not found")
	} else {
		val := dec.Params[1]
		n := 0
		eachInstr(dec, func(in ssa.Instruction) {
			deref := ""
			switch x := in.(type) {
			case *ssa.IndexAddr:
				if x.X == ssa.Value(val) {
					deref = "index"
				}
			case *ssa.Call:
				name := calleeName(&x.Call)
				if strings.HasPrefix(name, "(encoding/binary.bigEndian).Uint") || strings.HasPrefix(name, "(encoding/binary.littleEndian).Uint") {
					for _, a := range x.Call.Args {
						if a == ssa.Value(val) {
							deref = name
						}
					}
				}
			}
			if deref == "" {
				return
			}
			n++
			nonNil := false
			for _, fct := range blockFacts(in.Block()) {
				if fct.X == ssa.Value(val) && fct.Op == token.NEQ {
					if c, ok := fct.Y.(*ssa.Const); ok && c.IsNil() {
						nonNil = true
					}
				}
			}
			r.Check(nonNil, "R-NIL", fmt.Sprintf("%s: %s of value at %s", fnKey(dec), deref, caseLabelAt(p, in)), p.instrPos(in),
				"dominated by value != nil", "the value slice is read although it may be nil on this path (template elements are created with a nil value): index out of range panic", true)
		})
		if n < 10 {
			r.Undecided("R-NIL", "anchor: fixed-width reads in the element decoder", p.pos(dec.Pos()), fmt.Sprintf("only %d reads of value found", n))
		}
	}

	// (5) explicit panics reachable from decodePacket
	np := 0
	// named exception: the fake clock/timer in clock.go are test doubles; they are exempt only as long as no
	// non-test code constructs them
	fakeLive := false
	if nf := p.Fn("pkg/collector.newFakeClock"); nf != nil && len(p.CallGraph().callers[nf]) > 0 {
		fakeLive = true
	}
	for f := range p.CallGraph().reach(dp) {
		if !fakeLive && (strings.Contains(fnKey(f), "pkg/collector.fakeClock") || strings.Contains(fnKey(f), "pkg/collector.fakeTimer")) {
			continue
		}
		eachInstr(f, func(in ssa.Instruction) {
			if _, ok := in.(*ssa.Panic); ok {
				np++
				r.Violation("R-PANIC", fnKey(f)+": explicit panic reachable from decodePacket", p.instrPos(in), "a panic on the decode path kills the reader goroutine and with it the process (no recover)")
			}
		})
	}
	if np == 0 {
		r.OK("R-PANIC", "decodePacket: explicit panic reachable", p.pos(dp.Pos()), fmt.Sprintf("no panic instruction in the %d repo functions reachable from decodePacket", len(p.CallGraph().reach(dp))), true)
	}

	// (6) bounded allocations on decode + reader path
	allocScope := map[*ssa.Function]bool{}
	for f := range scope {
		allocScope[f] = true
	}
	for _, f := range p.RepoFns {
		k := fnKey(f)
		if strings.Contains(k, "handleTCPClient") || strings.Contains(k, "startUDPServer") || strings.Contains(k, "handleUDPMessage") || strings.Contains(k, "createUDPClient") {
			allocScope[f] = true
		}
	}
	nMake := 0
	for f := range allocScope {
		if !inCollector(f) && !keyInPkg(fnKey(f), "pkg/entities") {
			continue
		}
		idx := 0
		eachInstr(f, func(in ssa.Instruction) {
			ms, ok := in.(*ssa.MakeSlice)
			if !ok {
				return
			}
			nMake++
			idx++
			why := ""
			for _, sz := range []ssa.Value{ms.Len, ms.Cap} {
				if w := unboundedSize(p, sz, 0); w != "" {
					why = w
				}
			}
			r.Check(why == "", "R-ALLOC", fmt.Sprintf("%s: make #%d", fnKey(f), idx), p.instrPos(in), "size built from constants, <=16-bit wire values, len() and configuration",
				"allocation size is not bounded by the message size: "+why, true)
		})
	}
	if nMake < 4 {
		r.Undecided("R-ALLOC", "anchor: make() on the decode path", "pkg/collector", fmt.Sprintf("only %d found", nMake))
	}

	checkInfoElementImmutable(p, r, "R-OWNER.info-element")
	checkTruncateBounds(p, r, "R-BOUNDS.truncate")
	checkNarrowSizeArithmetic(p, r, "R-ALLOC.narrow", "pkg/collector", "pkg/entities", "pkg/util")
	checkSpecifierFreshness(p, r, "R-EXACT.field-specifier")
	checkRecordLoopExits(p, r, "R-EXACT.record-loop")
	checkBufferReads(p, r, "R-BOUNDS.read")
	// "decoding terminates promptly" for a stream: the reader loop consumes something on every iteration and leaves on errors (C11's rules)
	checkFraming(p, r)
	// a field is "taken from its full encoded width" only if the reader interprets the variable-length prefix like the
	// writer does (C15's prefix rule: threshold 255, 1 / 3 prefix bytes, in all five sites)
	prefixSites(p, r, "R-EXACT.prefix")
	// (7) the decoded set length bounds the set body
	var hdrDecode *ssa.Call
	eachInstr(dp, func(in ssa.Instruction) {
		if c, ok := in.(*ssa.Call); ok && calleeName(&c.Call) == "pkg/util.Decode" && hdrDecode == nil {
			hdrDecode = c
		}
	})
	targets := decodeTargets(hdrDecode)
	if hdrDecode == nil || len(targets) != 7 {
		r.Undecided("R-BOUNDS.setlen", "anchor: header decode in decodePacket (7 variables)", p.pos(dp.Pos()), fmt.Sprintf("found %d decode targets", len(targets)))
	} else {
		setLen := targets[6]
		bound := false
		var at ssa.Instruction
		eachInstr(dp, func(in ssa.Instruction) {
			c, ok := in.(*ssa.Call)
			if !ok {
				return
			}
			n := calleeName(&c.Call)
			if n != "(*bytes.Buffer).Truncate" && n != "(*bytes.Buffer).Next" && n != "bytes.NewBuffer" && n != "io.LimitReader" {
				return
			}
			for _, a := range c.Call.Args[1:] {
				if derivesFromAlloc(a, setLen, 0) {
					bound = true
					at = in
				}
			}
		})
		// must happen before the set decoders are called
		if bound {
			eachInstr(dp, func(in ssa.Instruction) {
				if c, ok := in.(*ssa.Call); ok {
					n := calleeName(&c.Call)
					if strings.HasSuffix(n, ".decodeDataSet") || strings.HasSuffix(n, ".decodeTemplateSet") {
						if !reachable(at, in, nil) {
							bound = false
						}
					}
				}
			})
		}
		// the trim must not be skipped for small bodies: the only lower bound allowed on the body length is "not negative"
		if bound {
			if tc, ok := at.(*ssa.Call); ok {
				body := tc.Call.Args[1]
				for _, fct := range blockFacts(tc.Block()) {
					x, op, y := fct.X, fct.Op, fct.Y
					if y == body {
						x, y, op = y, x, flipOp(op)
					}
					if x != body {
						continue
					}
					c, isC := constInt(y)
					if !isC {
						continue
					}
					excludesZero := (op == token.GTR && c >= 0) || (op == token.GEQ && c >= 1) || (op == token.NEQ && c == 0)
					if excludesZero {
						bound = false
						r.Violation("R-BOUNDS.setlen", fnKey(dp)+": set body trimmed for every declared length", p.instrPos(tc),
							fmt.Sprintf("the trim is skipped when the declared body length is %d or less (guard %s %d): an empty set followed by other bytes has those bytes decoded as its records", c, op, c))
					}
				}
			}
		}
		r.Check(bound, "R-BOUNDS.setlen", fnKey(dp)+": decoded set length bounds the set body", p.instrPos(hdrDecode),
			"a value derived from the 7th header variable (set length) reaches Truncate/Next on the packet buffer before the set is decoded",
			"the set length field is decoded and bounds nothing: bytes after the declared end of the set (padding, further sets) are decoded as records of this set", true)
	}
}

// noConsumptionBefore: no call on buf other than Len precedes c in its block.
func noConsumptionBefore(c *ssa.Call, buf ssa.Value) bool {
	for _, in := range c.Block().Instrs {
		if in == ssa.Instruction(c) {
			return true
		}
		if cc, ok := in.(*ssa.Call); ok {
			for _, a := range cc.Call.Args {
				if a == buf && calleeName(&cc.Call) != "(*bytes.Buffer).Len" {
					return false
				}
			}
		}
	}
	return true
}

// errUsed: is the error value tested against nil, returned, or wrapped into something returned/tested?
func errUsed(v ssa.Value, depth int) bool {
	if depth > 4 {
		return false
	}
	for _, ref := range refs(v) {
		switch x := ref.(type) {
		case *ssa.BinOp:
			if _, ok := isNilCompare(x, v); ok {
				for _, r2 := range refs(x) {
					if _, ok := r2.(*ssa.If); ok {
						return true
					}
				}
			}
		case *ssa.Return:
			return true
		case *ssa.Store:
			// stored into a local (named result / err variable): follow loads of that cell
			if al, ok := x.Addr.(*ssa.Alloc); ok {
				for _, r2 := range refs(al) {
					if u, ok := r2.(*ssa.UnOp); ok && errUsed(u, depth+1) {
						return true
					}
				}
			}
			// stored into a varargs array for fmt.Errorf
			if ia, ok := x.Addr.(*ssa.IndexAddr); ok {
				if al, ok := ia.X.(*ssa.Alloc); ok {
					for _, r2 := range refs(al) {
						if sl, ok := r2.(*ssa.Slice); ok {
							for _, r3 := range refs(sl) {
								if c, ok := r3.(*ssa.Call); ok && strings.HasPrefix(calleeName(&c.Call), "fmt.Errorf") && errUsed(c, depth+1) {
									return true
								}
							}
						}
					}
				}
			}
		case *ssa.ChangeInterface:
			if errUsed(x, depth+1) {
				return true
			}
		case *ssa.MakeInterface:
			if errUsed(x, depth+1) {
				return true
			}
		case *ssa.Phi:
			if errUsed(x, depth+1) {
				return true
			}
		case *ssa.Extract:
			if errUsed(x, depth+1) {
				return true
			}
		}
	}
	return false
}

// caseLabelAt gives a stable name for the place of an instruction in the decoder: the source line's switch case is
// not available in SSA, so the enclosing block comment is used.
func caseLabelAt(p *Prog, in ssa.Instruction) string {
	return fmt.Sprintf("block %s/%d", in.Block().Comment, ordinalOfBlock(in))
}

func ordinalOfBlock(in ssa.Instruction) int {
	// ordinal among the derefs of the function, stable under line shifts
	f := in.Parent()
	n := 0
	for _, b := range f.Blocks {
		for _, x := range b.Instrs {
			if x == in {
				return n
			}
			switch y := x.(type) {
			case *ssa.IndexAddr:
				if len(f.Params) > 1 && y.X == ssa.Value(f.Params[1]) {
					n++
				}
			case *ssa.Call:
				if strings.Contains(calleeName(&y.Call), "ndian).Uint") {
					n++
				}
			}
		}
	}
	return n
}

// decodeTargets returns, in order, the local variables whose addresses are passed as the variadic outputs of util.Decode.
func decodeTargets(c *ssa.Call) []*ssa.Alloc {
	if c == nil || len(c.Call.Args) < 3 {
		return nil
	}
	sl, ok := c.Call.Args[2].(*ssa.Slice)
	if !ok {
		return nil
	}
	arr, ok := sl.X.(*ssa.Alloc)
	if !ok {
		return nil
	}
	out := map[int64]*ssa.Alloc{}
	max := int64(-1)
	for _, ref := range refs(arr) {
		ia, ok := ref.(*ssa.IndexAddr)
		if !ok {
			continue
		}
		i, ok := constInt(ia.Index)
		if !ok {
			continue
		}
		for _, r2 := range refs(ia) {
			if st, ok := r2.(*ssa.Store); ok {
				if al, ok := stripChange(st.Val).(*ssa.Alloc); ok {
					out[i] = al
					if i > max {
						max = i
					}
				}
			}
		}
	}
	var res []*ssa.Alloc
	for i := int64(0); i <= max; i++ {
		if out[i] == nil {
			return nil
		}
		res = append(res, out[i])
	}
	return res
}

func derivesFromAlloc(v ssa.Value, al *ssa.Alloc, depth int) bool {
	if depth > 8 {
		return false
	}
	switch x := v.(type) {
	case *ssa.UnOp:
		if x.Op == token.MUL && x.X == ssa.Value(al) {
			return true
		}
		return derivesFromAlloc(x.X, al, depth+1)
	case *ssa.Convert:
		return derivesFromAlloc(x.X, al, depth+1)
	case *ssa.BinOp:
		return derivesFromAlloc(x.X, al, depth+1) || derivesFromAlloc(x.Y, al, depth+1)
	case *ssa.Phi:
		for _, e := range x.Edges {
			if derivesFromAlloc(e, al, depth+1) {
				return true
			}
		}
	}
	return false
}

// unboundedSize returns "" when the size value is bounded by message size / configuration, else a reason.
func unboundedSize(p *Prog, v ssa.Value, depth int) string {
	if v == nil {
		return ""
	}
	if depth > 10 {
		return "size expression too deep to decide"
	}
	switch x := v.(type) {
	case *ssa.Const:
		return ""
	case *ssa.Convert:
		if b, ok := x.X.Type().Underlying().(*types.Basic); ok {
			switch b.Kind() {
			case types.Uint8, types.Uint16, types.Int8, types.Int16:
				return ""
			}
		}
		return unboundedSize(p, x.X, depth+1)
	case *ssa.BinOp:
		if w := unboundedSize(p, x.X, depth+1); w != "" {
			return w
		}
		return unboundedSize(p, x.Y, depth+1)
	case *ssa.Phi:
		for _, e := range x.Edges {
			if w := unboundedSize(p, e, depth+1); w != "" {
				return w
			}
		}
		return ""
	case *ssa.Call:
		if b, ok := x.Call.Value.(*ssa.Builtin); ok && (b.Name() == "len" || b.Name() == "cap") {
			return ""
		}
		return "size comes from call " + calleeName(&x.Call)
	case *ssa.Extract:
		if c, ok := x.Tuple.(*ssa.Call); ok {
			if callee := c.Call.StaticCallee(); callee != nil && p.CallGraph().isRepo[callee] {
				// every returned value at that index must be bounded
				bad := ""
				eachInstr(callee, func(in ssa.Instruction) {
					if rt, ok := in.(*ssa.Return); ok && x.Index < len(rt.Results) {
						if w := unboundedSize(p, rt.Results[x.Index], depth+1); w != "" {
							bad = w
						}
					}
				})
				return bad
			}
			n := calleeName(&c.Call)
			if x.Index == 0 && (n == "iface:net.Conn.Read" || n == "(*net.UDPConn).ReadFromUDP" || n == "io.ReadFull" || strings.HasSuffix(n, ".Read")) {
				return "" // a read count never exceeds the length of the buffer it filled
			}
			return "size comes from call " + n
		}
	case *ssa.UnOp:
		if x.Op == token.MUL {
			if tn, fn, _, ok := fieldOf(x.X); ok {
				if tn == "pkg/collector.CollectingProcess" && (fn == "numExtraElements" || fn == "maxBufferSize") {
					return ""
				}
				return "size read from field " + tn + "." + fn
			}
			if al, ok := x.X.(*ssa.Alloc); ok {
				if b, ok := al.Type().Underlying().(*types.Pointer).Elem().Underlying().(*types.Basic); ok {
					switch b.Kind() {
					case types.Uint8, types.Uint16:
						return ""
					}
				}
				// local variable: all stores must be bounded
				bad := ""
				for _, ref := range refs(al) {
					if st, ok := ref.(*ssa.Store); ok && st.Addr == ssa.Value(al) {
						if w := unboundedSize(p, st.Val, depth+1); w != "" {
							bad = w
						}
					}
				}
				return bad
			}
		}
	case *ssa.Parameter:
		// sizes passed by callers inside the repo: constructors take counts from len(); accept ints passed from repo callers
		// only if every static caller passes a bounded value
		fn := x.Parent()
		idx := -1
		for i, pa := range fn.Params {
			if pa == x {
				idx = i
			}
		}
		cs := p.CallGraph().callers[fn]
		if len(cs) == 0 || idx < 0 {
			return "size is an unconstrained parameter " + x.Name() + " of " + fnKey(fn)
		}
		for _, c := range cs {
			cc := callOf(c)
			args := cc.Args
			if cc.IsInvoke() {
				args = append([]ssa.Value{cc.Value}, args...)
			}
			if idx < len(args) {
				if w := unboundedSize(p, args[idx], depth+1); w != "" {
					return w
				}
			}
		}
		return ""
	}
	return fmt.Sprintf("size value %s (%T) not recognised as bounded", v.Name(), v)
}

// decodeTargetCells is decodeTargets without the restriction to local allocations: the cells (local Alloc or captured
// FreeVar) whose addresses are handed to util.Decode, in order.
func decodeTargetCells(c *ssa.Call) []ssa.Value {
	if c == nil || len(c.Call.Args) < 3 {
		return nil
	}
	sl, ok := c.Call.Args[2].(*ssa.Slice)
	if !ok {
		return nil
	}
	arr, ok := sl.X.(*ssa.Alloc)
	if !ok {
		return nil
	}
	out := map[int64]ssa.Value{}
	max := int64(-1)
	for _, ref := range refs(arr) {
		ia, ok := ref.(*ssa.IndexAddr)
		if !ok {
			continue
		}
		i, ok := constInt(ia.Index)
		if !ok {
			continue
		}
		for _, r2 := range refs(ia) {
			if st, ok := r2.(*ssa.Store); ok {
				v := stripChange(st.Val)
				if mi, ok := v.(*ssa.MakeInterface); ok {
					v = stripChange(mi.X)
				}
				out[i] = v
				if i > max {
					max = i
				}
			}
		}
	}
	var res []ssa.Value
	for i := int64(0); i <= max; i++ {
		res = append(res, out[i])
	}
	return res
}

// checkSpecifierFreshness: every value of one template field specifier that reaches the registry lookup or the
// placeholder element (element id, enterprise number, field length) is defined during the decoding of THIS specifier:
// it is a constant, or it is loaded from a variable that is local to the field reader (fresh, zero-initialised per
// call) or that is assigned / decoded into on every path to the use. A variable that outlives one call and is not
// re-assigned on some path carries the previous field's value into this one.
func checkSpecifierFreshness(p *Prog, r *Report, rule string) {
	var fr *ssa.Function
	for _, f := range p.RepoFns {
		if keyInPkg(fnKey(f), "pkg/collector") && len(callsTo(f, "pkg/registry.GetInfoElementFromID")) > 0 {
			fr = f
		}
	}
	if fr == nil {
		r.Undecided(rule, "anchor: template field reader", "pkg/collector/process.go", "not found")
		return
	}
	definedBefore := func(cell ssa.Value, at ssa.Instruction) bool {
		if al, ok := cell.(*ssa.Alloc); ok && al.Parent() == fr {
			return true
		}
		found := false
		eachInstr(fr, func(in ssa.Instruction) {
			if found || !dominates(in, at) {
				return
			}
			switch x := in.(type) {
			case *ssa.Store:
				if x.Addr == cell {
					found = true
				}
			case *ssa.Call:
				if calleeName(&x.Call) == "pkg/util.Decode" {
					for _, t := range decodeTargetCells(x) {
						if t == cell {
							found = true
						}
					}
				}
			}
		})
		return found
	}
	n := 0
	eachInstr(fr, func(in ssa.Instruction) {
		c, ok := in.(*ssa.Call)
		if !ok {
			return
		}
		name := calleeName(&c.Call)
		if name != "pkg/registry.GetInfoElementFromID" && name != "pkg/entities.NewInfoElement" {
			return
		}
		for i, a := range c.Call.Args {
			v := stripChange(a)
			if cv, ok := v.(*ssa.Convert); ok {
				v = stripChange(cv.X)
			}
			u, ok := v.(*ssa.UnOp)
			if !ok || u.Op != token.MUL {
				continue
			}
			n++
			cell := u.X
			r.Check(definedBefore(cell, in), rule, fmt.Sprintf("%s: argument %d of %s #%d comes from this field specifier", fnKey(fr), i, name, n), p.instrPos(in),
				"a variable local to the field reader, or assigned / decoded into on every path to the use",
				"the value is read from a variable that outlives one field and is not assigned on this path: the previous field's value (e.g. its enterprise number) is used for this field, so the delivered field does not match the wire", true)
		}
	})
	if n < 2 {
		r.Undecided(rule, "anchor: variable arguments of the registry lookup / placeholder constructor", p.pos(fr.Pos()), fmt.Sprintf("only %d found", n))
	}
}

// checkRecordLoopExits: the loop that decodes data records while bytes remain is left successfully only through its
// own condition (no bytes left): every other edge out of the loop leads to error returns only. A 'break' / early
// success return inside the body leaves received records undecoded (e.g. an over-eager padding heuristic).
func checkRecordLoopExits(p *Prog, r *Report, rule string) {
	f := p.Fn("(*pkg/collector.CollectingProcess).decodeDataSet")
	if f == nil {
		r.Undecided(rule, "anchor: decodeDataSet", "pkg/collector/process.go", "not found")
		return
	}
	n := 0
	for _, hb := range f.Blocks {
		i := ifOf(hb)
		if i == nil {
			continue
		}
		bodySucc := -1
		for _, cf := range cmpForms(i.Cond) {
			_, isLen := isBufLen(cf.X)
			z, isC := constInt(cf.Y)
			if isLen && isC && ((z == 0 && (cf.Op == token.GTR || cf.Op == token.NEQ)) || (z == 1 && cf.Op == token.GEQ)) {
				bodySucc = cf.Succ
			}
		}
		if bodySucc < 0 {
			continue
		}
		isLoop := false
		for _, pr := range hb.Preds {
			if hb.Dominates(pr) {
				isLoop = true
			}
		}
		if !isLoop {
			continue
		}
		n++
		inLoopBlk := func(b *ssa.BasicBlock) bool { return hb.Dominates(b) && reachableBlock(b, hb) }
		bad := ""
		for _, b := range f.Blocks {
			if !inLoopBlk(b) {
				continue
			}
			for si, s := range b.Succs {
				if inLoopBlk(s) || (b == hb && si == 1-bodySucc) {
					continue
				}
				if !onlyErrorReturnsFrom(s) {
					bad = p.instrPos(b.Instrs[len(b.Instrs)-1])
				}
			}
		}
		r.Check(bad == "", rule, fnKey(f)+": record loop left only when no bytes remain (or with an error)", p.instrPos(i), "the loop condition is the only successful exit",
			"the record loop has another successful exit at "+bad+": bytes that encode further records (for example trailing records that happen to be all zero) are left undecoded and the records are lost", true)
	}
	if n == 0 {
		r.Undecided(rule, fnKey(f)+": loop over the remaining bytes", p.pos(f.Pos()), "no loop conditioned on buffer.Len() > 0 found")
	}
}

// checkTruncateBounds: bytes.Buffer.Truncate(n) panics unless 0 <= n <= Len(). Every Truncate on the decode path is
// given an n that is known to be within those bounds where the call stands: the upper bound by a dominating comparison
// with Len() of the same buffer, the lower bound by construction (an unsigned wire value, a sum of such) or - when n is
// a difference - by a dominating n >= 0 (or minuend >= subtrahend) test.
func checkTruncateBounds(p *Prog, r *Report, rule string) {
	scope, _ := decodeScope(p)
	var nonNeg func(v ssa.Value, d int) bool
	nonNeg = func(v ssa.Value, d int) bool {
		if d > 6 {
			return false
		}
		v = stripChange(v)
		if c, ok := constInt(v); ok {
			return c >= 0
		}
		switch x := v.(type) {
		case *ssa.Convert:
			if _, uns, ok := intSize(x.X.Type()); ok && uns {
				if sz, _, _ := intSize(x.X.Type()); sz < 8 {
					return true // zero-extended
				}
			}
			return nonNeg(x.X, d+1)
		case *ssa.BinOp:
			if x.Op == token.ADD || x.Op == token.MUL {
				return nonNeg(x.X, d+1) && nonNeg(x.Y, d+1)
			}
		case *ssa.Call:
			if b, ok := x.Call.Value.(*ssa.Builtin); ok && (b.Name() == "len" || b.Name() == "cap") {
				return true
			}
			if calleeName(&x.Call) == "(*bytes.Buffer).Len" {
				return true
			}
		case *ssa.Phi:
			for _, e := range x.Edges {
				if e != v && !nonNeg(e, d+1) {
					return false
				}
			}
			return true
		}
		return false
	}
	n := 0
	for f := range scope {
		eachInstr(f, func(in ssa.Instruction) {
			c, ok := in.(*ssa.Call)
			if !ok || calleeName(&c.Call) != "(*bytes.Buffer).Truncate" || len(c.Call.Args) != 2 {
				return
			}
			n++
			buf, nv := c.Call.Args[0], c.Call.Args[1]
			lower := nonNeg(nv, 0)
			upper := false
			for _, fct := range blockFacts(in.Block()) {
				if fct.X != nv && !sameValue(fct.X, nv) {
					continue
				}
				if k, ok := constInt(fct.Y); ok && k >= 0 && (fct.Op == token.GEQ || (fct.Op == token.GTR && k >= -1)) {
					lower = true
				}
				if b, ok := isBufLen(fct.Y); ok && b == buf && (fct.Op == token.LSS || fct.Op == token.LEQ) {
					upper = true
				}
			}
			// a difference whose minuend is known to be at least the subtrahend
			if sub, ok := stripChange(nv).(*ssa.BinOp); ok && sub.Op == token.SUB && !lower {
				for _, fct := range blockFacts(in.Block()) {
					if sameValue(fct.X, sub.X) && sameValue(fct.Y, sub.Y) && (fct.Op == token.GEQ || fct.Op == token.GTR) {
						lower = true
					}
				}
			}
			why := ""
			switch {
			case !lower && !upper:
				why = "neither bound of n is established"
			case !lower:
				why = "n can be negative (a difference of a wire value and a constant) and is not tested against 0"
			case !upper:
				why = "n is not compared with Len() of the buffer"
			}
			r.Check(why == "", rule, fnKey(f)+": Truncate within [0, Len()]", p.instrPos(in), "0 <= n <= buffer.Len() where the call stands",
				why+": bytes.Buffer.Truncate panics for a message whose length field makes n fall outside the buffer, in the goroutine that serves the exporter", true)
		})
	}
	if n == 0 {
		r.Undecided(rule, "anchor: Truncate calls on the decode path", "pkg/collector/process.go", "none found")
	}
}

// checkNarrowSizeArithmetic: a buffer size computed in an 8- or 16-bit integer type wraps around at the top of the type
// (uint16(65535)+1 == 0): every make() in the given packages takes a length whose arithmetic (+, -, *) is done in int
// (or another type of at least 32 bits) - operands may be narrow, the operation may not.
func checkNarrowSizeArithmetic(p *Prog, r *Report, rule string, pkgs ...string) {
	n, bad := 0, 0
	for _, f := range p.RepoFns {
		in := false
		for _, pk := range pkgs {
			if keyInPkg(fnKey(f), pk) {
				in = true
			}
		}
		if !in {
			continue
		}
		eachInstr(f, func(x ssa.Instruction) {
			ms, ok := x.(*ssa.MakeSlice)
			if !ok {
				return
			}
			n++
			var walk func(v ssa.Value, d int) ssa.Value
			walk = func(v ssa.Value, d int) ssa.Value {
				if d > 6 || v == nil {
					return nil
				}
				switch y := stripChange(v).(type) {
				case *ssa.Convert:
					return walk(y.X, d+1)
				case *ssa.BinOp:
					if y.Op == token.ADD || y.Op == token.SUB || y.Op == token.MUL {
						if sz, _, ok := intSize(y.Type()); ok && sz < 4 {
							if _, isC := constInt(y); !isC {
								return y
							}
						}
						if w := walk(y.X, d+1); w != nil {
							return w
						}
						return walk(y.Y, d+1)
					}
				case *ssa.Phi:
					for _, e := range y.Edges {
						if e != v {
							if w := walk(e, d+1); w != nil {
								return w
							}
						}
					}
				}
				return nil
			}
			for _, sz := range []ssa.Value{ms.Len, ms.Cap} {
				if w := walk(sz, 0); w != nil {
					bad++
					r.Violation(rule, fnKey(f)+": buffer size computed in a narrow integer type", p.instrPos(x),
						fmt.Sprintf("the size of this buffer involves %s computed in %s: at the top of the type's range it wraps around (65535+1 == 0), the buffer is allocated too small (or empty) and everything read into it is lost", w.String(), w.Type().String()))
					return
				}
			}
		})
	}
	if bad == 0 {
		r.OK(rule, strings.Join(pkgs, ",")+": no buffer size is computed in an 8/16-bit type", strings.Join(pkgs, ","), fmt.Sprintf("%d make() sites", n), true)
	}
}
