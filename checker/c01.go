package main

import (
	"fmt"
	"go/token"
	"go/types"
	"strings"

	"golang.org/x/tools/go/ssa"
)

func init() {
	register(&propDef{
		ID:          "C01",
		Explanation: "Agreement of the writer's and the reader's tables and layouts - the structural reason an exporter->collector round trip can work at all - decided from the source: (1) R-CODEC: per supported data type the encoder case and the decoder case have inverse signatures (both compared with the RFC 7011 table: width, big endian, conversion chain, boolean 1/2, raw 6/4/16 bytes), the getter used by the encoder is declared by the type the decoder constructs, width = InfoElementLength = Len of every registry literal (524) and of every derived reverse element; (2) the variable-length prefix scheme is the same in its five sites and the data reader passes to Next() either int(ie.Len) or the prefix reader's result, chosen by ie.Len == VariableLength (the test the encoder side uses); (3) R-LAYOUT reader side: decodePacket reads version/length/exportTime/sequence/obsDomain/setId/setLength as sequential big-endian fields of widths 2/2/4/4/4/2/2 - the offsets 0/2/4/8/12/16/18 the writer uses (C02) - and hands each variable to the matching Message setter; version must be 10; template record header (id, fieldCount) u16,u16; field specifier: 2 raw id bytes + u16 length, enterprise test 'first byte >> 7 == 1', 4-byte enterprise number read exactly then, bit cleared with ^0x80 before the id is interpreted big-endian; (4) the reader resolves (elementID, enterpriseID) through registry.GetInfoElementFromID, whose id-map and name-map are filled with the same pointer by registerInfoElement; (5) R-OWNER transport independence: decodePacket is the only producer of decoded messages and is reached from the TCP/TLS reader and the UDP/DTLS client handlers; the exporter has one IPFIX writer whatever net.Conn was dialled; (6) observation domain: header value <- ExportingProcess.obsDomainID <- ExporterInput.ObservationDomainID; collector SetObsDomainID(decoded variable). (6) R-LAYOUT.datagram: over UDP/DTLS the bytes decoded are exactly b[0:n] of one read (or a copy of exactly those), wrapped unchanged by the dispatcher and decoded by the client goroutine that received them; the template header's first field is what the template is stored/reported under, the second sizes its field list. Not decided: equality of delivered values over live sockets, TLS/DTLS record-layer transparency, IPv4/IPv6 listener behaviour, kernel fragmentation, 'any record count that fits'. Added after the later seed rounds: every id/enterprise/length that reaches the registry lookup or a placeholder comes from the current field specifier (local variable or assigned on every path); the record loop is left successfully only through its own condition; the remaining-bytes guard accepts an exact fit; reverse-registry entries only under err == nil; template refresh is started for protocol udp (DTLS included) and the shared connection is only written / read with a read deadline / closed. Round-five additions: sizes of receive buffers are not computed in a narrower integer type than int (a uint16 sum wraps); the copying add path never adopts the caller's slice (C16's no-adopt rule). Round-six additions: the decoder makes one element slice per record (AddRecordV2 adopts it).",
		Assume:      []string{"the writer-side layout equals RFC 7011 (decided by C02's rules, re-run here for the message header offsets)", "encoding/binary.Read reads fixed-size values sequentially"},
		Run:         runC01,
	})
}

func widthOfPtr(t types.Type) (int64, string) {
	pt, ok := t.Underlying().(*types.Pointer)
	if !ok {
		return -1, t.String()
	}
	switch e := pt.Elem().Underlying().(type) {
	case *types.Basic:
		switch e.Kind() {
		case types.Uint8, types.Int8:
			return 1, e.Name()
		case types.Uint16, types.Int16:
			return 2, e.Name()
		case types.Uint32, types.Int32:
			return 4, e.Name()
		case types.Uint64, types.Int64:
			return 8, e.Name()
		}
	case *types.Slice:
		return 0, "[]byte" // width = runtime length of the slice
	}
	return -1, pt.Elem().String()
}

func isBigEndianArg(v ssa.Value) bool {
	if mi, ok := v.(*ssa.MakeInterface); ok {
		if u, ok := mi.X.(*ssa.UnOp); ok {
			if g, ok := u.X.(*ssa.Global); ok && g.Name() == "BigEndian" && g.Pkg.Pkg.Path() == "encoding/binary" {
				return true
			}
		}
	}
	return false
}

func runC01(p *Prog, r *Report, tier string) {
	// AddRecordV2 adopts the element slice it is given: the decoder makes one slice per record
	checkFreshPerIteration(p, r, "R-OWNER.elements-fresh", "(*pkg/collector.CollectingProcess).decodeDataSet", func(n string) bool { return strings.HasSuffix(n, ".AddRecordV2") }, 1, "element slice")
	tb := codecAgreement(p, r, "R-CODEC", "enc+dec")
	registryLengths(p, r, "R-CODEC.registry", tb)
	prefixSites(p, r, "R-CODEC.prefix")

	checkFieldBytes(p, r, "R-LAYOUT")

	// (3) reader side of the message header
	dp := p.Fn("(*pkg/collector.CollectingProcess).decodePacket")
	if dp == nil {
		r.Undecided("R-LAYOUT.header", "anchor: decodePacket", "pkg/collector/process.go", "not found")
		return
	}
	var hdr *ssa.Call
	eachInstr(dp, func(in ssa.Instruction) {
		if c, ok := in.(*ssa.Call); ok && calleeName(&c.Call) == "pkg/util.Decode" && hdr == nil {
			hdr = c
		}
	})
	targets := decodeTargets(hdr)
	wantW := []int64{2, 2, 4, 4, 4, 2, 2}
	setters := []string{"SetVersion", "SetMessageLen", "SetExportTime", "SetSequenceNum", "SetObsDomainID"}
	if hdr == nil || len(targets) != 7 {
		r.Undecided("R-LAYOUT.header", fnKey(dp)+": header decode", p.pos(dp.Pos()), fmt.Sprintf("expected 7 sequential header variables, found %d", len(targets)))
	} else {
		r.Check(isBigEndianArg(hdr.Call.Args[1]), "R-LAYOUT.header", fnKey(dp)+": header byte order", p.instrPos(hdr), "binary.BigEndian", "the message header is not read in network byte order", true)
		off := int64(0)
		for i, t := range targets {
			w, tn := widthOfPtr(t.Type())
			name := []string{"version", "length", "export time", "sequence number", "observation domain", "set id", "set length"}[i]
			r.Check(w == wantW[i], "R-LAYOUT.header", fmt.Sprintf("%s: header field #%d (%s) at offset %d", fnKey(dp), i+1, name, off), p.instrPos(hdr),
				fmt.Sprintf("%d bytes (%s), same offset/width as the writer", w, tn), fmt.Sprintf("read as %s (%d bytes) where the writer puts %d bytes: every later field is mis-aligned", tn, w, wantW[i]), true)
			off += wantW[i]
			if i < len(setters) {
				// the variable flows to the matching setter
				ok := false
				eachInstr(dp, func(in ssa.Instruction) {
					if c, okc := in.(*ssa.Call); okc && calleeName(&c.Call) == "(*pkg/entities.Message)."+setters[i] {
						if u, oku := c.Call.Args[1].(*ssa.UnOp); oku && u.X == ssa.Value(t) {
							ok = true
						}
					}
				})
				r.Check(ok, "R-LAYOUT.header", fmt.Sprintf("%s: header field #%d delivered through %s", fnKey(dp), i+1, setters[i]), p.instrPos(hdr), "the decoded variable is passed to the matching setter",
					"the decoded "+name+" is not what the delivered message reports (swapped or dropped field)", true)
			}
		}
		// version gate
		okV := false
		eachInstr(dp, func(in ssa.Instruction) {
			if i, ok := in.(*ssa.If); ok {
				for _, cf := range cmpForms(i.Cond) {
					if u, ok := cf.X.(*ssa.UnOp); ok && u.X == ssa.Value(targets[0]) && cf.Op == token.NEQ {
						if v, ok := constInt(cf.Y); ok && v == 10 {
							okV = onlyErrorReturnsFrom(i.Block().Succs[cf.Succ])
						}
					}
				}
			}
		})
		r.Check(okV, "R-LAYOUT.header", fnKey(dp)+": version must be 10", p.instrPos(hdr), "version != 10 => error", "messages of another version are not rejected", true)
	}
	// template record header and field specifier (reader)
	dts := p.Fn("(*pkg/collector.CollectingProcess).decodeTemplateSet")
	if dts != nil {
		var first *ssa.Call
		eachInstr(dts, func(in ssa.Instruction) {
			if c, ok := in.(*ssa.Call); ok && calleeName(&c.Call) == "pkg/util.Decode" && first == nil {
				first = c
			}
		})
		ts := decodeTargets(first)
		okT := len(ts) == 2 && isBigEndianArg(first.Call.Args[1])
		if okT {
			w1, _ := widthOfPtr(ts[0].Type())
			w2, _ := widthOfPtr(ts[1].Type())
			okT = w1 == 2 && w2 == 2
		}
		r.Check(okT, "R-LAYOUT.template", fnKey(dts)+": template record header (id u16, field count u16)", p.pos(dts.Pos()), "two big-endian uint16", "the template record header is not read as (template id, field count), 2 bytes each, big endian", true)
		if okT {
			// the first decoded variable is the template id (what the template is stored and reported under), the second the field count
			loadOf := func(v ssa.Value, cell ssa.Value) bool {
				u, ok := stripChange(v).(*ssa.UnOp)
				return ok && u.Op == token.MUL && p.origin(u.X) == cell
			}
			idUses, idOK := 0, true
			for _, g := range p.RepoFns {
				if g != dts && g.Parent() != dts {
					continue
				}
				eachInstr(g, func(in ssa.Instruction) {
					c := callOf(in)
					if c == nil {
						return
					}
					n := calleeName(c)
					idx := -1
					switch {
					case strings.HasSuffix(n, ").addTemplate"), strings.HasSuffix(n, ").deleteTemplate"):
						idx = 2
					case strings.HasSuffix(n, ".PrepareSet"):
						idx = len(c.Args) - 1
					case strings.HasSuffix(n, ".AddRecordV2"):
						idx = len(c.Args) - 1
					}
					if idx < 0 || idx >= len(c.Args) {
						return
					}
					idUses++
					if !loadOf(c.Args[idx], ts[0]) {
						idOK = false
					}
				})
			}
			cntOK := false
			for _, g := range p.RepoFns {
				if g != dts && g.Parent() != dts {
					continue
				}
				eachInstr(g, func(in ssa.Instruction) {
					if ms, ok := in.(*ssa.MakeSlice); ok {
						if cv, ok := stripChange(ms.Len).(*ssa.Convert); ok && loadOf(cv.X, ts[1]) {
							cntOK = true
						} else if loadOf(ms.Len, ts[1]) {
							cntOK = true
						}
					}
				})
			}
			r.Check(idUses >= 3 && idOK && cntOK, "R-LAYOUT.template", fnKey(dts)+": first header field is the template id, second the field count", p.instrPos(first),
				"the first decoded variable is what the template is stored/deleted/reported under; the second sizes the field list",
				"the two header fields are used the other way round (or not at all): the template is stored under the field count", true)
		}
	}
	var fr *ssa.Function
	for _, f := range p.RepoFns {
		if keyInPkg(fnKey(f), "pkg/collector") && len(callsTo(f, "pkg/registry.GetInfoElementFromID")) > 0 {
			fr = f
		}
	}
	if fr == nil {
		r.Undecided("R-LAYOUT.field-specifier", "anchor: template field reader", "pkg/collector/process.go", "not found")
	} else {
		// the reads of one field specifier, identified by what they read (the field reader may be a closure, a method or part
		// of the template decoder itself): (2 raw id bytes, u16 length), then a lone u32 (the enterprise number)
		allDecs := callsTo(fr, "pkg/util.Decode")
		var decs []ssa.Instruction
		okSpec, okEnt := false, false
		var idBytes *ssa.Alloc
		for _, d := range allDecs {
			c := d.(*ssa.Call)
			ts := decodeTargets(c)
			if !okSpec && len(ts) == 2 && isBigEndianArg(c.Call.Args[1]) {
				w1, _ := widthOfPtr(ts[0].Type())
				w2, _ := widthOfPtr(ts[1].Type())
				if w1 == 0 && w2 == 2 && sliceLenOfCell(ts[0]) == 2 {
					okSpec = true
					idBytes = ts[0]
					decs = append(decs, d)
				}
				continue
			}
			if okSpec && !okEnt && len(ts) == 1 && isBigEndianArg(c.Call.Args[1]) {
				if w, _ := widthOfPtr(ts[0].Type()); w == 4 {
					okEnt = true
					decs = append(decs, d)
				}
			}
		}
		r.Check(okSpec, "R-LAYOUT.field-specifier", fnKey(fr)+": element id (2 bytes) then field length (u16)", p.pos(fr.Pos()), "reads 2 id bytes and a big-endian uint16 length", "the field specifier is not read as 2 id bytes followed by a 2-byte length", true)
		// enterprise test and bit clearing
		okBit, okClear, okGuard := false, false, false
		eachInstr(fr, func(in ssa.Instruction) {
			switch x := in.(type) {
			case *ssa.BinOp:
				if x.Op == token.SHR {
					if s, ok := constInt(x.Y); ok && s == 7 && firstByteOf(x.X, idBytes) {
						for _, ref := range refs(x) {
							if eq, ok := ref.(*ssa.BinOp); ok && eq.Op == token.EQL {
								if one, ok := constInt(eq.Y); ok && one == 1 {
									okBit = true
									// the enterprise-number read happens on the true edge only
									if len(decs) > 1 {
										for _, g := range guardsOf(decs[1].Block()) {
											if g.If.Cond == ssa.Value(eq) && g.Succ == 0 {
												okGuard = true
											}
										}
										if u, ok := ifCondNot(decs[1].Block(), eq); ok && u {
											okGuard = true
										}
									}
								}
							}
						}
					}
				}
				if (x.Op == token.XOR || x.Op == token.AND_NOT) && firstByteOf(x.X, idBytes) {
					if m, ok := constInt(x.Y); ok && m == 0x80 {
						okClear = true
					}
				}
				// the same bit tested with a mask: b & 0x80 != 0 (or == 0x80, > 0), either polarity
				if x.Op == token.AND && firstByteOf(x.X, idBytes) {
					if m, ok := constInt(x.Y); ok && m == 0x80 {
						for _, ref := range refs(x) {
							cmp, ok := ref.(*ssa.BinOp)
							if !ok {
								continue
							}
							for _, r2 := range refs(cmp) {
								iff, ok := r2.(*ssa.If)
								if !ok {
									continue
								}
								for _, cf := range cmpForms(iff.Cond) {
									if cf.X != ssa.Value(x) {
										continue
									}
									k, ok := constInt(cf.Y)
									if !ok {
										continue
									}
									if (cf.Op == token.NEQ && k == 0) || (cf.Op == token.EQL && k == 0x80) || (cf.Op == token.GTR && k == 0) {
										okBit = true
										if len(decs) > 1 && edgeDominates(iff.Block(), cf.Succ, decs[1].Block()) {
											okGuard = true
										}
									}
								}
							}
						}
					}
				}
				if x.Op == token.AND && firstByteOf(x.X, idBytes) {
					if m, ok := constInt(x.Y); ok && m == 0x7f {
						okClear = true
					}
				}
			}
		})
		r.Check(okBit, "R-LAYOUT.field-specifier", fnKey(fr)+": enterprise bit = most significant bit of the first id byte", p.pos(fr.Pos()), "elementid[0] >> 7 == 1", "the reader does not test the bit the writer sets (0x80 of the first octet)", true)
		r.Check(okEnt && okGuard, "R-LAYOUT.field-specifier", fnKey(fr)+": 4-byte enterprise number read exactly when the bit is set", p.pos(fr.Pos()), "big-endian uint32 on the enterprise edge only", "the enterprise number is not read as 4 big-endian bytes exactly for enterprise-specific elements: the rest of the template is mis-aligned", true)
		r.Check(okClear, "R-LAYOUT.field-specifier", fnKey(fr)+": enterprise bit cleared before the id is used", p.pos(fr.Pos()), "elementid[0] ^ 0x80", "the element id of an enterprise element keeps the enterprise bit (id + 32768)", true)
		// id interpreted big endian from the same bytes, lookup with (id, enterprise)
		nLk := 0
		for _, l := range callsTo(fr, "pkg/registry.GetInfoElementFromID") {
			c := l.(*ssa.Call)
			// the id may be computed in each branch and merged (phi): every way in must be Uint16 of the id bytes
			all := true
			leaves := phiLeaves(c.Call.Args[0], 4)
			for _, lf := range leaves {
				okLeaf := false
				if u, ok := lf.(*ssa.Call); ok && calleeName(&u.Call) == "(encoding/binary.bigEndian).Uint16" {
					if ld, ok := u.Call.Args[1].(*ssa.UnOp); ok && ld.X == ssa.Value(idBytes) {
						okLeaf = true
					}
				}
				all = all && okLeaf
			}
			if all && len(leaves) > 0 {
				nLk++
			}
		}
		r.Check(nLk >= 1 && nLk == len(callsTo(fr, "pkg/registry.GetInfoElementFromID")), "R-LAYOUT.field-specifier", fnKey(fr)+": registry lookup by (big-endian id bytes, enterprise number)", p.pos(fr.Pos()), "every lookup", "the element id used for the registry lookup is not the big-endian value of the id bytes read from the wire", true)
	}
	checkSpecifierFreshness(p, r, "R-LAYOUT.field-specifier-fresh")
	checkReverseRegistration(p, r, "R-TABLE.reverse")
	checkRecordLoopExits(p, r, "R-LAYOUT.record-loop")
	// framing of the stream transports (C11's rules, imported) and unconditional template replacement (C04's rule)
	checkFraming(p, r)
	checkTemplateReplace(p, r)
	checkInfoElementImmutable(p, r, "R-OWNER.info-element")
	// (4) registry maps filled with the same pointer
	if rg := p.Fn("pkg/registry.registerInfoElement"); rg != nil {
		var ups []*ssa.MapUpdate
		eachInstr(rg, func(in ssa.Instruction) {
			if mu, ok := in.(*ssa.MapUpdate); ok {
				ups = append(ups, mu)
			}
		})
		same := len(ups) >= 2 && ups[0].Value == ups[1].Value
		keys := false
		if len(ups) >= 2 {
			_, k0, _, ok0 := loadedField(ups[0].Key)
			_, k1, _, ok1 := loadedField(ups[1].Key)
			keys = ok0 && ok1 && ((k0 == "ElementId" && k1 == "Name") || (k0 == "Name" && k1 == "ElementId"))
		}
		r.Check(same && keys, "R-TABLE.registry-maps", fnKey(rg)+": id map and name map receive the same element", p.pos(rg.Pos()), "byID[ent][ie.ElementId] = &ie; byName[ent][ie.Name] = &ie",
			"an element registered by name is not the element found by id: exporter (by name) and collector (by id) disagree on its definition", true)
	}
	// (5) transport independence
	g := p.CallGraph()
	var producers []string
	for _, f := range p.RepoFns {
		if !keyInPkg(fnKey(f), "pkg/collector") {
			continue
		}
		eachInstr(f, func(in ssa.Instruction) {
			if s, ok := in.(*ssa.Send); ok && p.chanIdent(s.Chan) == "field:pkg/collector.CollectingProcess.messageChan" {
				producers = append(producers, fnKey(f))
			}
		})
	}
	r.Check(len(producers) == 1 && producers[0] == fnKey(dp), "R-OWNER.producer", "pkg/collector: producers of decoded messages", p.pos(dp.Pos()), "only decodePacket sends on messageChan", fmt.Sprintf("messages are produced by %v", producers), true)
	// reachability, not caller names: a refactor may put a helper between the reader loop and the decoder
	tcp, udp := false, false
	if st := p.Fn("(*pkg/collector.CollectingProcess).startTCPServer"); st != nil {
		tcp = g.reach(st)[dp]
	}
	if su := p.Fn("(*pkg/collector.CollectingProcess).startUDPServer"); su != nil {
		udp = g.reach(su)[dp]
	}
	hu := p.Fn("(*pkg/collector.CollectingProcess).handleUDPMessage")
	nHU := 0
	if hu != nil {
		nHU = len(g.callers[hu])
	}
	r.Check(tcp && udp && nHU == 2, "R-OWNER.transports", "pkg/collector: all listeners decode through decodePacket", p.pos(dp.Pos()), "TCP/TLS reader and UDP + DTLS handlers (via handleUDPMessage) reach decodePacket",
		fmt.Sprintf("not every transport delivers through the same decoder (tcp=%v udp=%v handleUDPMessage callers=%d)", tcp, udp, nHU), true)
	checkDatagramPath(p, r, "R-LAYOUT.datagram")
	checkNoAdopt(p, r, "R-OWNER.no-adopt")
	checkNarrowSizeArithmetic(p, r, "R-LAYOUT.buffer-size", "pkg/collector", "pkg/exporter", "pkg/entities")
	// over UDP and DTLS alike the exporter keeps its templates alive at the collector (C14's start rule)
	checkBackgroundStart(p, r, "R-OWNER.refresh-started")
	checkConnMethods(p, r, "R-OWNER.conn-methods")
	// exporter: conn is whatever was dialled; one IPFIX writer (C09's owner rule), observation domain (C08's rule)
	sender, call, bi := ipfixSender(p)
	if sender == nil {
		r.Undecided("R-VALUE.obs-domain", "anchor: IPFIX sender", "pkg/exporter/process.go", "not found")
	} else {
		tn, fn, _, okF := loadedField(call.Call.Args[bi.obs])
		r.Check(okF && tn+"."+fn == "pkg/exporter.ExportingProcess.obsDomainID", "R-VALUE.obs-domain", fnKey(sender)+": observation domain in the header", p.instrPos(call), "ExportingProcess.obsDomainID", "the header does not carry the configured observation domain", true)
	}
	checkHeaderStamping(p, r, "R-VALUE.stamp")
	// writer-side header offsets (re-run of C02's header rule so that C01 stands on its own for the header)
	for setter, ow := range rfcMsgHeader {
		f := p.Fn("(*pkg/entities.Message)." + setter)
		if f == nil {
			continue
		}
		checkPut(p, r, "R-LAYOUT.header-writer", fnKey(f)+": header field position", f, putSites(f), "pkg/entities.Message.msgHeader", ow[0], ow[1], rfcMsgHeaderLen,
			func(v ssa.Value) bool { return len(f.Params) == 2 && v == ssa.Value(f.Params[1]) }, "the setter's parameter")
	}
}

// sliceLenOfCell: the local []byte variable is initialised with make([]byte, n): returns n (or -1).
func sliceLenOfCell(al *ssa.Alloc) int64 {
	for _, ref := range refs(al) {
		if st, ok := ref.(*ssa.Store); ok && st.Addr == ssa.Value(al) {
			switch v := st.Val.(type) {
			case *ssa.MakeSlice:
				if n, ok := constInt(v.Len); ok {
					return n
				}
			case *ssa.Slice:
				if h, ok := constInt(v.High); ok {
					return h
				}
				if a, ok := v.X.(*ssa.Alloc); ok {
					if at, ok := a.Type().Underlying().(*types.Pointer).Elem().Underlying().(*types.Array); ok {
						return at.Len()
					}
				}
			}
		}
	}
	return -1
}

// firstByteOf: v == (*cell)[0]
func firstByteOf(v ssa.Value, cell *ssa.Alloc) bool {
	u, ok := v.(*ssa.UnOp)
	if !ok || cell == nil {
		return false
	}
	ia, ok := u.X.(*ssa.IndexAddr)
	if !ok {
		return false
	}
	if z, ok := constInt(ia.Index); !ok || z != 0 {
		return false
	}
	ld, ok := ia.X.(*ssa.UnOp)
	return ok && ld.X == ssa.Value(cell)
}

// ifCondNot: block b is reached through the false edge of "!cond" style tests (isNonIANA := ...; if !isNonIANA {..} else {..}).
func ifCondNot(b *ssa.BasicBlock, cond ssa.Value) (bool, bool) {
	for _, g := range guardsOf(b) {
		if u, ok := g.If.Cond.(*ssa.UnOp); ok && u.Op == token.NOT && u.X == cond {
			return g.Succ == 1, true
		}
		if g.If.Cond == cond {
			return g.Succ == 0, true
		}
	}
	return false, false
}

// checkDatagramPath: over UDP/DTLS the bytes decoded are exactly the bytes of one received datagram:
// reader: handleUDPMessage(addr, b[0:n]) with n the count returned by the read into b (or a copy of exactly that);
// dispatcher: the buffer sent to the client goroutine wraps exactly that slice; client: decodePacket gets the received buffer.
func checkDatagramPath(p *Prog, r *Report, rule string) {
	g := p.CallGraph()
	hu := p.Fn("(*pkg/collector.CollectingProcess).handleUDPMessage")
	dp := p.Fn("(*pkg/collector.CollectingProcess).decodePacket")
	if hu == nil || dp == nil {
		r.Undecided(rule, "anchor: handleUDPMessage / decodePacket", "pkg/collector", "not found")
		return
	}
	// n is result #0 of a read call whose buffer argument is b
	readInto := func(n ssa.Value, b ssa.Value) bool {
		ex, ok := n.(*ssa.Extract)
		if !ok || ex.Index != 0 {
			return false
		}
		c, ok := ex.Tuple.(*ssa.Call)
		if !ok {
			return false
		}
		name := calleeName(&c.Call)
		if !(strings.HasSuffix(name, ".Read") || strings.HasSuffix(name, ").ReadFromUDP") || strings.HasSuffix(name, ").ReadFrom")) {
			return false
		}
		for _, a := range c.Call.Args {
			if a == b {
				return true
			}
		}
		return false
	}
	exactPrefix := func(v ssa.Value) bool { // v == b[0:n] with n read into b
		sl, ok := v.(*ssa.Slice)
		if !ok || sl.High == nil {
			return false
		}
		if sl.Low != nil {
			if z, ok := constInt(sl.Low); !ok || z != 0 {
				return false
			}
		}
		return readInto(sl.High, sl.X)
	}
	for _, cs := range g.callers[hu] {
		c := callOf(cs)
		f := cs.Parent()
		ok := false
		if c != nil && len(c.Args) >= 3 {
			a := c.Args[2]
			if exactPrefix(a) {
				ok = true
			} else if ms, isMS := a.(*ssa.MakeSlice); isMS {
				// a per-datagram copy: make([]byte, n); copy(dst, b[0:n])
				eachInstr(f, func(in ssa.Instruction) {
					if cc := callOf(in); cc != nil && calleeName(cc) == "builtin:copy" && cc.Args[0] == ssa.Value(ms) && exactPrefix(cc.Args[1]) {
						if sl := cc.Args[1].(*ssa.Slice); sl.High == ms.Len {
							ok = true
						}
					}
				})
			}
		}
		r.Check(ok, rule, fnKey(f)+": datagram handed to handleUDPMessage", p.instrPos(cs), "b[0:n] with n returned by the read into b (or a copy of exactly those bytes)",
			"the bytes handed on are not exactly the bytes of the datagram that was read (wrong bound, other buffer, or a partial copy)", true)
	}
	// dispatcher wraps its parameter
	okSend := false
	sendIdent := "" // the channel the dispatcher sends on: the client goroutine must receive from the same one
	eachInstr(hu, func(in ssa.Instruction) {
		sel, ok := in.(*ssa.Select)
		if !ok {
			return
		}
		for _, st := range sel.States {
			if st.Dir == types.SendOnly {
				if nb, ok := st.Send.(*ssa.Call); ok && calleeName(&nb.Call) == "bytes.NewBuffer" && len(hu.Params) >= 3 && nb.Call.Args[0] == ssa.Value(hu.Params[2]) {
					okSend = true
					sendIdent = p.chanIdent(st.Chan)
				}
			}
		}
	})
	r.Check(okSend, rule, fnKey(hu)+": buffer sent to the client goroutine", p.pos(hu.Pos()), "bytes.NewBuffer(buf) of the datagram parameter", "the dispatcher does not hand the received datagram (as is) to the client goroutine", true)
	// client decodes what it received
	n := 0
	for _, cs := range g.callers[dp] {
		f := cs.Parent()
		if !strings.Contains(fnKey(f), "createUDPClient") {
			continue
		}
		n++
		c := callOf(cs)
		ok := false
		if ex, isEx := c.Args[1].(*ssa.Extract); isEx {
			if sel, isSel := ex.Tuple.(*ssa.Select); isSel {
				// the extracted value belongs to a receive state on the channel field the dispatcher sends on (clientHandler.packetChan)
				idx := ex.Index - 2
				k := 0
				for _, st := range sel.States {
					if st.Dir == types.RecvOnly {
						if k == idx && strings.HasPrefix(sendIdent, "field:") && p.chanIdent(st.Chan) == sendIdent {
							ok = true
						}
						k++
					}
				}
			}
		}
		r.Check(ok, rule, fnKey(f)+": buffer decoded by the client goroutine", p.instrPos(cs), "the value received from the channel the dispatcher sends on", "the client goroutine decodes something other than the buffer it received", true)
	}
	if n == 0 {
		r.Undecided(rule, "anchor: UDP client call of decodePacket", "pkg/collector/udp.go", "not found")
	}
}

// checkFieldBytes: the data reader consumes, for every template field in order, exactly the bytes the writer produced for
// it: Next(prefix length | int(ie.Len)) chosen by ie.Len == VariableLength, guarded by a test that accepts an exact fit,
// handed with the same template element to the element decoder.
func checkFieldBytes(p *Prog, r *Report, rp string) {
	// (2) consumption choice: imported from C17's rule (phi of prefix reader / fixed length by ie.Len == VariableLength)
	dds := p.Fn("(*pkg/collector.CollectingProcess).decodeDataSet")
	if dds != nil {
		n := 0
		eachInstr(dds, func(in ssa.Instruction) {
			c, ok := in.(*ssa.Call)
			if !ok || calleeName(&c.Call) != "(*bytes.Buffer).Next" {
				return
			}
			n++
			okSel := false
			if ph, ok := c.Call.Args[1].(*ssa.Phi); ok && len(ph.Edges) == 2 {
				v, f := false, false
				for _, e := range ph.Edges {
					if ex, ok := e.(*ssa.Extract); ok {
						if cc, ok := ex.Tuple.(*ssa.Call); ok && cc.Call.StaticCallee() != nil && len(callsTo(cc.Call.StaticCallee(), "(*bytes.Buffer).ReadByte")) > 0 {
							v = true
						}
					}
					if cv, ok := e.(*ssa.Convert); ok && isFieldLoad(cv.X, "pkg/entities.InfoElement.Len") {
						f = true
					}
				}
				okSel = v && f
			}
			// the decoded element is built from exactly these bytes and this element
			okUse := false
			for _, ref := range refs(c) {
				if cc, ok := ref.(*ssa.Call); ok && calleeName(&cc.Call) == "pkg/entities.DecodeAndCreateInfoElementWithValue" && cc.Call.Args[1] == ssa.Value(c) {
					okUse = true
				}
				// handed back by a helper that was spliced in place: merged with the nil results of its error exits
				if ph, ok := ref.(*ssa.Phi); ok {
					only := true
					for _, lf := range phiLeaves(ph, 3) {
						if k, isC := lf.(*ssa.Const); isC && k.IsNil() {
							continue
						}
						if lf != ssa.Value(c) {
							only = false
						}
					}
					for _, r2 := range refs(ph) {
						if cc, ok := r2.(*ssa.Call); ok && only && calleeName(&cc.Call) == "pkg/entities.DecodeAndCreateInfoElementWithValue" && cc.Call.Args[1] == ssa.Value(ph) {
							okUse = true
						}
					}
				}
			}
			// the guard in front of it must accept a field that exactly fills the rest of the set
			buf, nn := c.Call.Args[0], c.Call.Args[1]
			geq, gtr := false, false
			for _, fct := range blockFacts(in.Block()) {
				x, op, y := fct.X, fct.Op, fct.Y
				if b, ok := isBufLen(y); ok && b == buf {
					x, y, op = y, x, flipOp(op)
				}
				if b, ok := isBufLen(x); ok && b == buf && y == nn {
					if op == token.GEQ {
						geq = true
					}
					if op == token.GTR {
						gtr = true
					}
				}
			}
			if geq || gtr {
				r.Check(geq, rp+".field-guard", fnKey(dds)+": remaining-bytes test in front of the field", p.instrPos(in), "rejects only when fewer bytes remain than the field needs (Len() >= n passes)",
					"the test also rejects a field that exactly fills the rest of the set body (Len() > n required): the last field of the last record of every valid data set is refused", true)
			}
			r.Check(okSel && okUse, rp+".field-bytes", fnKey(dds)+": bytes of one field", p.instrPos(in), "Next(prefix length | int(ie.Len)) handed with the same template element to the element decoder",
				"a data field is not sliced by the template's length (or the section-7 prefix for variable-length elements) and decoded with its own template element", true)
		})
		if n == 0 {
			r.Undecided(rp+".field-bytes", fnKey(dds)+": bytes of one field", p.pos(dds.Pos()), "no Next call")
		}
		// every template element, in order: range over the template slice returned by the lookup
		okOrder := false
		eachInstr(dds, func(in ssa.Instruction) {
			if c, ok := in.(*ssa.Call); ok && calleeName(&c.Call) == "pkg/entities.DecodeAndCreateInfoElementWithValue" {
				if s, ok := rangeElem(c.Call.Args[0]); ok {
					if ex, ok := s.(*ssa.Extract); ok && ex.Index == 0 {
						if lc, ok := ex.Tuple.(*ssa.Call); ok && lc.Call.StaticCallee() != nil && lc.Call.StaticCallee().Name() == "getTemplateIEs" {
							okOrder = true
						}
					}
				}
			}
		})
		r.Check(okOrder, rp+".field-order", fnKey(dds)+": fields decoded in template order", p.pos(dds.Pos()), "for _, ie := range <template fields of the lookup>", "the data record is not decoded by iterating the stored template's fields in order", true)
	}

}
