package main

import (
	"fmt"
	"go/token"
	"go/types"
	"strings"

	"golang.org/x/tools/go/ssa"
)

func init() {
	register(&propDef{
		ID:          "C19",
		Explanation: "Structural rules for Kafka publication, decided on SSA/AST: (1) PublishIPFIXMessages ranges over the channel and, per message, ranges in order over the convertor's slice, calling SendFlowMessage(element, true) synchronously for the loop's own element; (2) every convertor returns nil when the set type is Template (test dominating everything else) and otherwise allocates len(records) outputs and fills out[i] from records[i] for the range index i of set.GetRecords(); the four header fields are copied from GetExportTime/GetSequenceNum/GetObsDomainID/GetExportAddress of the same message; (3) SendFlowMessage: exactly one send on producer.Input() on the marshal-ok path, Topic = configured topic, Value = ByteEncoder(append(prefix, bytes...)) where bytes is the marshal result and prefix is a FRESH 4-byte slice holding BigEndian uint32(len(bytes)) (so a payload handed to the asynchronous producer is never overwritten by the next record); 4 == consumer msgDelimitLen and the consumer decodes value[msgDelimitLen:] with proto.Unmarshal (which resets the destination message); R-ERR: every path through SendFlowMessage must reach the send - the marshal-error edge does not (known finding); (4) R-GETTER: every case \"name\" of both convertors uses an accessor declared by the element type that name has in the registries (incl. derived reverse names). Not decided: protobuf wire content, sarama delivery. Later additions: constant indexing of slices on the publishing path needs a length test; sarama configuration fields outside the audited set are undecided. Round-five additions: the sarama Return.Successes / Return.Errors flags are assigned unconditionally from the configuration; the consumer refuses only frames shorter than the length prefix. Round-six additions: a message field filled from an element accessor receives that value on every path.",
		Assume:      []string{"proto.Marshal/Unmarshal and sarama.AsyncProducer semantics"},
		Run:         runC19,
	})
}

// checkConstIndexGuarded: on the publishing path a slice indexed with a constant needs a dominating length test; the
// publisher runs in one goroutine for the whole stream, so a panic there ends publication for every later message.
func checkConstIndexGuarded(p *Prog, r *Report, rule string, pkgs ...string) {
	n := 0
	for _, f := range p.RepoFns {
		in := false
		for _, k := range pkgs {
			if keyInPkg(fnKey(f), k) {
				in = true
			}
		}
		if !in {
			continue
		}
		eachInstr(f, func(x ssa.Instruction) {
			var base, idx ssa.Value
			switch v := x.(type) {
			case *ssa.IndexAddr:
				base, idx = v.X, v.Index
			case *ssa.Index:
				base, idx = v.X, v.Index
			default:
				return
			}
			if _, isSlice := base.Type().Underlying().(*types.Slice); !isSlice {
				return
			}
			k, isC := constInt(idx)
			if !isC {
				return
			}
			if ms, ok := base.(*ssa.MakeSlice); ok {
				if l, ok := constInt(ms.Len); ok && l > k {
					return
				}
			}
			if sl, ok := base.(*ssa.Slice); ok { // slice of a local array (varargs packing)
				if al, ok := sl.X.(*ssa.Alloc); ok {
					if _, isArr := al.Type().Underlying().(*types.Pointer).Elem().Underlying().(*types.Array); isArr {
						return
					}
				}
			}
			n++
			proved := false
			for _, fct := range blockFacts(x.Block()) {
				a, op, b := fct.X, fct.Op, fct.Y
				if v, isLen := lenOfValue(b); isLen && v == base {
					a, b, op = b, a, flipOp(op)
				}
				if v, isLen := lenOfValue(a); isLen && v == base {
					if c, ok := constInt(b); ok && ((op == token.GTR && c >= k) || (op == token.GEQ && c >= k+1) || (op == token.NEQ && c == 0 && k == 0)) {
						proved = true
					}
				}
			}
			r.Check(proved, rule, fmt.Sprintf("%s: constant index [%d] into a slice", fnKey(f), k), p.instrPos(x), "dominated by a length test",
				"a slice of unknown length is indexed with a constant without a length test: an empty slice (for example a data set without records) panics in the publishing goroutine and nothing further is published", true)
		})
	}
	r.Facts[rule+".sites"] = n
}

func runC19(p *Prog, r *Report, tier string) {
	checkConstIndexGuarded(p, r, "R-PANIC.index", "pkg/kafka/producer")
	checkSaramaConfig(p, r, "R-OWNER.producer-config")
	pub := p.Fn("(*pkg/kafka/producer.KafkaProducer).PublishIPFIXMessages")
	// the sender is found by role: the function of pkg/kafka/producer that sends on producer.Input()
	var snd *ssa.Function
	for _, f := range p.RepoFns {
		if !keyInPkg(fnKey(f), "pkg/kafka/producer") || strings.Contains(fnKey(f), "convertor") {
			continue
		}
		eachInstr(f, func(in ssa.Instruction) {
			if sd, ok := in.(*ssa.Send); ok {
				if c, ok := sd.Chan.(*ssa.Call); ok && c.Call.IsInvoke() && c.Call.Method.Name() == "Input" {
					snd = f
				}
			}
		})
	}
	if pub == nil || snd == nil {
		r.Undecided("R-ORDER.publish", "anchor: PublishIPFIXMessages / SendFlowMessage", "pkg/kafka/producer/kafka.go", "not found")
		return
	}
	g := p.CallGraph()
	// (1)
	var sends []*ssa.Call
	eachInstr(pub, func(in ssa.Instruction) {
		switch x := in.(type) {
		case *ssa.Call:
			if sc := x.Call.StaticCallee(); sc != nil && (sc == snd || reachesFn(g, sc, snd)) {
				sends = append(sends, x)
			}
		case *ssa.Go:
			if sc := x.Call.StaticCallee(); sc != nil && (sc == snd || reachesFn(g, sc, snd)) {
				r.Violation("R-ORDER.publish", fnKey(pub)+": publication is synchronous", p.instrPos(in), "flow messages are sent from a new goroutine: record order is lost")
			}
		}
	})
	why := ""
	if len(sends) != 1 {
		why = fmt.Sprintf("%d call sites publish flow messages (expected one, in the loop over the convertor's slice)", len(sends))
	} else {
		s := sends[0]
		{
			var sl ssa.Value
			isR := false
			for _, a := range s.Call.Args {
				if x, ok := rangeElem(a); ok {
					sl, isR = x, true
				}
			}
			if !isR {
				why = "the published message is not the element of a range loop over the convertor's result"
			} else if c, ok := sl.(*ssa.Call); !ok || !c.Call.IsInvoke() || c.Call.Method.Name() != "ConvertIPFIXMsgToFlowMsgs" {
				why = "the loop does not range over ConvertIPFIXMsgToFlowMsgs(msg)"
			} else {
				// msg is what was received from the channel
				okMsg := false
				if ex, ok := c.Call.Args[0].(*ssa.Extract); ok {
					if u, ok := ex.Tuple.(*ssa.UnOp); ok && u.Op == token.ARROW && u.X == ssa.Value(pub.Params[1]) {
						okMsg = true
					}
				}
				if !okMsg {
					why = "the converted message is not the one received from the input channel"
				}
			}
			delim := false
			for _, a := range s.Call.Args {
				if cst, ok := a.(*ssa.Const); ok && cst.Value != nil && cst.Value.String() == "true" {
					delim = true
				}
			}
			if !delim {
				why = "messages are published without the length delimiter (kafkaDelimitMsgWithLen is not the constant true)"
			}
		}
	}
	r.Check(why == "", "R-ORDER.publish", fnKey(pub)+": one SendFlowMessage(flowMsg, true) per converted record, in order", p.pos(pub.Pos()),
		"for msg := range ch { for _, m := range convertor(msg) { SendFlowMessage(m, true) } }", why, true)

	// (2) convertors
	nConv := 0
	for _, f := range p.RepoFns {
		if f.Name() != "ConvertIPFIXMsgToFlowMsgs" || f.Signature.Recv() == nil || strings.Contains(fnKey(f), "mock") {
			continue
		}
		nConv++
		k := fnKey(f)
		msg := ssa.Value(f.Params[1])
		// template => nil
		okT := false
		var recsCall *ssa.Call
		eachInstr(f, func(in ssa.Instruction) {
			if i, ok := in.(*ssa.If); ok {
				for _, cf := range cmpForms(i.Cond) {
					if c, ok := cf.X.(*ssa.Call); ok && cf.Op == token.EQL && calleeName(&c.Call) == "iface:pkg/entities.Set.GetSetType" {
						if v, ok := constInt(cf.Y); ok && v == 0 {
							blk := i.Block().Succs[cf.Succ]
							pred := i.Block()
							// an empty block that only jumps on is followed once
							if len(blk.Instrs) == 1 && len(blk.Succs) == 1 {
								if _, isJ := blk.Instrs[0].(*ssa.Jump); isJ {
									pred, blk = blk, blk.Succs[0]
								}
							}
							for _, x := range blk.Instrs {
								if rt, ok := x.(*ssa.Return); ok && len(rt.Results) == 1 {
									res := rt.Results[0]
									// the result variable joined at the return block: its value on the template edge
									if ph, ok := res.(*ssa.Phi); ok && ph.Block() == blk {
										if e := phiEdgeFrom(ph, pred); e != nil {
											res = e
										}
									}
									if cst, ok := res.(*ssa.Const); ok && cst.IsNil() {
										okT = true
									}
								}
							}
						}
					}
				}
			}
			if c, ok := in.(*ssa.Call); ok && calleeName(&c.Call) == "iface:pkg/entities.Set.GetRecords" {
				recsCall = c
			}
		})
		r.Check(okT, "R-GATE.no-template", k+": template messages yield no Kafka message", p.pos(f.Pos()), "set type == Template => return nil", "a template message is converted into Kafka messages", true)
		// out[i] = convert(msg, records[i])
		okFill := false
		whyF := "no 'out[i] = convert(msg, records[i])' over all records found"
		eachInstr(f, func(in ssa.Instruction) {
			st, ok := in.(*ssa.Store)
			if !ok {
				return
			}
			ia, ok := st.Addr.(*ssa.IndexAddr)
			if !ok {
				return
			}
			ms, ok := ia.X.(*ssa.MakeSlice)
			if !ok {
				return
			}
			// len(out) == len(records)
			ls, isL := lenOfValue(ms.Len)
			if !isL || recsCall == nil || ls != ssa.Value(recsCall) {
				whyF = "the output slice is not allocated with len(records)"
				return
			}
			// what the stored value is computed from (backward slice through call arguments and through the objects the
			// iteration fills: the conversion may be a closure, a method, or spliced in place)
			var recArgs []ssa.Value
			hasMsg := false
			for _, a := range backwardSlice(st.Val, 400) {
				if a == msg {
					hasMsg = true
				}
				if s, ok := rangeElem(a); ok && sameValue(s, recsCall) {
					recArgs = append(recArgs, a)
				}
			}
			if len(recArgs) == 0 || !hasMsg {
				whyF = "out[i] is not built from (msg, records[i])"
				return
			}
			// same index
			for _, recArg := range recArgs {
				if !sameValue(recArg.(*ssa.UnOp).X.(*ssa.IndexAddr).Index, ia.Index) {
					whyF = "out[i] is filled from records[j] with a different index: records are re-ordered"
					return
				}
			}
			if ms.Parent() == f && !inLoop(ms.Block()) {
				okFill = true
			}
		})
		if !okFill && recsCall != nil {
			// append form: out = append(out, convert(msg, rec)) once, unconditionally, per iteration of the range over the
			// records, starting from an empty slice made outside the loop
			eachInstr(f, func(in ssa.Instruction) {
				c, ok := in.(*ssa.Call)
				if !ok || calleeName(&c.Call) != "builtin:append" || len(c.Call.Args) != 2 {
					return
				}
				ph, ok := c.Call.Args[0].(*ssa.Phi)
				if !ok || !inLoop(ph.Block()) {
					return
				}
				back, startsEmpty := false, true
				for _, e := range ph.Edges {
					switch x := e.(type) {
					case *ssa.Call:
						if x == c {
							back = true
						} else {
							startsEmpty = false
						}
					case *ssa.Const:
						if !x.IsNil() {
							startsEmpty = false
						}
					case *ssa.MakeSlice:
						if l, ok := constInt(x.Len); !ok || l != 0 || inLoop(x.Block()) {
							startsEmpty = false
						}
					default:
						startsEmpty = false
					}
				}
				if !back || !startsEmpty {
					return
				}
				// unconditional within the iteration: only jumps between the loop head and the append
				for b := c.Block(); b != nil && b != ph.Block(); b = b.Idom() {
					if id := b.Idom(); id != nil && id != ph.Block() {
						if _, isIf := id.Instrs[len(id.Instrs)-1].(*ssa.If); isIf {
							whyF = "the converted record is appended only under a condition: some records yield no message"
							return
						}
					}
				}
				hasMsg, hasRec := false, false
				for _, a := range backwardSlice(c.Call.Args[1], 400) {
					if a == msg {
						hasMsg = true
					}
					if s, ok := rangeElem(a); ok && sameValue(s, recsCall) {
						hasRec = true
					}
				}
				if !hasMsg || !hasRec {
					whyF = "the appended message is not built from (msg, the record of this iteration)"
					return
				}
				okFill = true
			})
		}
		r.Check(okFill, "R-ORDER.convert", k+": out[i] built from records[i] for every record", p.pos(f.Pos()), "make(len(records)); for i, rec := range records { out[i] = convert(msg, rec) }", whyF, true)
		// header fields in the per-record closure(s)
		want := map[string]string{"TimeReceived": "GetExportTime", "SequenceNumber": "GetSequenceNum", "ObsDomainID": "GetObsDomainID", "ExportAddress": "GetExportAddress"}
		got := map[string]string{}
		for _, cf := range withClosures(f) {
			eachInstr(cf, func(in ssa.Instruction) {
				st, ok := in.(*ssa.Store)
				if !ok {
					return
				}
				_, fn, _, ok := fieldOf(st.Addr)
				if !ok {
					return
				}
				if _, w := want[fn]; !w {
					return
				}
				val := st.Val
				if _, isCall := val.(*ssa.Call); !isCall {
					// read once before the loop and captured by the per-record closure
					if o := p.origin(val); o != nil {
						val = o
					}
					if u, ok := val.(*ssa.UnOp); ok {
						if al, ok := u.X.(*ssa.Alloc); ok {
							if sv := singleStoreValue(al); sv != nil {
								val = sv
							}
						}
					}
					if al, ok := val.(*ssa.Alloc); ok {
						if sv := singleStoreValue(al); sv != nil {
							val = sv
						}
					}
				}
				if c, ok := val.(*ssa.Call); ok {
					n := calleeName(&c.Call)
					got[fn] = n[strings.LastIndex(n, ".")+1:]
				}
			})
		}
		for fld, getter := range want {
			r.Check(got[fld] == getter, "R-VALUE.kafka-header", k+": "+fld+" <- msg."+getter+"()", p.pos(f.Pos()), "copied from the message", "the Kafka message's "+fld+" is not the IPFIX message's "+getter+"() (got "+got[fld]+")", true)
		}
	}
	if nConv < 2 {
		r.Undecided("R-ORDER.convert", "anchor: ConvertIPFIXMsgToFlowMsgs implementations", "pkg/kafka/producer/convertor/test", fmt.Sprintf("found %d, expected both shipped schemas", nConv))
	}

	// (3) SendFlowMessage
	var marshal, inputCall *ssa.Call
	var sendIn *ssa.Send
	nSend := 0
	eachInstr(snd, func(in ssa.Instruction) {
		switch x := in.(type) {
		case *ssa.Call:
			n := calleeName(&x.Call)
			if n == "google.golang.org/protobuf/proto.Marshal" {
				marshal = x
			}
			if x.Call.IsInvoke() && x.Call.Method.Name() == "Input" {
				inputCall = x
			}
		case *ssa.Send:
			nSend++
			sendIn = x
		}
	})
	if marshal == nil || sendIn == nil || inputCall == nil {
		r.Undecided("R-VALUE.frame", fnKey(snd)+": marshal and send", p.pos(snd.Pos()), "the function that sends on producer.Input() does not obtain the payload from proto.Marshal (a fresh slice per record): an append-style marshal into a caller-supplied or reused buffer lets a later record overwrite a payload the asynchronous producer still owns")
	} else {
		// every path reaches the send (R-ERR)
		q := &pathQuery{discharge: func(in ssa.Instruction) bool { return in == ssa.Instruction(sendIn) }}
		if trail, bad := q.findFromBlock(snd.Blocks[0]); bad {
			r.Violation("R-ERR.publish", fnKey(snd)+": a path returns without publishing the record", p.instrPos(marshal),
				"SendFlowMessage can return without sending anything (marshal error edge): that data record produces no Kafka message; path "+p.describePath(snd, trail))
		} else {
			r.OK("R-ERR.publish", fnKey(snd)+": a path returns without publishing the record", p.instrPos(marshal), "every path reaches the send", true)
		}
		r.Check(nSend == 1 && !inLoop(sendIn.Block()), "R-VALUE.frame", fnKey(snd)+": exactly one producer message per call", p.instrPos(sendIn), "one send, outside loops", "a record is published more than once (or in a loop)", true)
		// message literal
		var topicOK, valOK bool
		whyV := "the Value is not sarama.ByteEncoder(append(prefix, marshalled...))"
		if al, ok := sendIn.X.(*ssa.Alloc); ok {
			for _, ref := range refs(al) {
				fa, ok := ref.(*ssa.FieldAddr)
				if !ok {
					continue
				}
				_, fn, _, _ := fieldOf(fa)
				for _, r2 := range refs(fa) {
					st, ok := r2.(*ssa.Store)
					if !ok {
						continue
					}
					switch fn {
					case "Topic":
						topicOK = isFieldLoad(st.Val, "pkg/kafka/producer.ProducerInput.KafkaTopic")
					case "Value":
						v := stripChange(st.Val)
						// phi(bytes, append(b, bytes...)) selected by the delimit flag
						var cands []ssa.Value
						if ph, ok := v.(*ssa.Phi); ok {
							cands = ph.Edges
						} else {
							cands = []ssa.Value{v}
						}
						mbytes := ssa.Value(nil)
						for _, e := range extractOf(marshal, 0) {
							mbytes = e
						}
						for _, cnd := range cands {
							// the frame allocated at its final size: make([]byte, 4+len(bytes)); PutUint32(frame[:4], uint32(len(bytes)));
							// copy(frame[4:], bytes) - selected under the delimit flag
							if ms, isMS := cnd.(*ssa.MakeSlice); isMS && ms.Parent() == snd {
								okSize := false
								if add, ok := ms.Len.(*ssa.BinOp); ok && add.Op == token.ADD {
									for _, pr := range [][2]ssa.Value{{add.X, add.Y}, {add.Y, add.X}} {
										k, isK := constInt(pr[0])
										lv, isL := lenOfValue(pr[1])
										if isK && k == 4 && isL && lv == mbytes {
											okSize = true
										}
									}
								}
								okPut, okCopy, okFlag := false, false, false
								for _, ps := range putSites(snd) {
									if ps.Width == 4 && ps.Order == "BigEndian" && sliceRoot(ps.In.Call.Args[1]) == ssa.Value(ms) && ps.Low <= 0 {
										if cv, ok := ps.Val.(*ssa.Convert); ok {
											if sv, isL := lenOfValue(cv.X); isL && sv == mbytes {
												okPut = true
											}
										}
									}
								}
								eachInstr(snd, func(x ssa.Instruction) {
									c, ok := x.(*ssa.Call)
									if !ok {
										return
									}
									if b, ok := c.Call.Value.(*ssa.Builtin); ok && b.Name() == "copy" && c.Call.Args[1] == mbytes {
										if sl, ok := c.Call.Args[0].(*ssa.Slice); ok && sl.X == ssa.Value(ms) {
											if lo, ok := constInt(sl.Low); ok && lo == 4 {
												okCopy = true
											}
										}
									}
								})
								for _, gd := range guardsOf(ms.Block()) {
									if pa, ok := gd.If.Cond.(*ssa.Parameter); ok && pa.Parent() == snd && gd.Succ == 0 {
										okFlag = true
									}
								}
								if okSize && okPut && okCopy && okFlag {
									valOK = true
								} else {
									whyV = fmt.Sprintf("the frame built at its final size is not 4-byte big-endian length + marshalled bytes under the delimit flag (size=%v prefix=%v payload=%v flag=%v)", okSize, okPut, okCopy, okFlag)
								}
								continue
							}
							ap, ok := cnd.(*ssa.Call)
							if !ok {
								continue
							}
							if b, ok := ap.Call.Value.(*ssa.Builtin); !ok || b.Name() != "append" {
								continue
							}
							if ap.Call.Args[1] != mbytes {
								whyV = "the payload appended after the prefix is not the marshal result"
								continue
							}
							pre := ap.Call.Args[0]
							n := int64(-1)
							fresh := false
							appendForm := false
							switch x := pre.(type) {
							case *ssa.Call:
								// binary.BigEndian.AppendUint32(make([]byte, 0, cap), uint32(len(bytes))): a fresh 4-byte big-endian prefix
								if calleeName(&x.Call) == "(encoding/binary.bigEndian).AppendUint32" && len(x.Call.Args) == 3 {
									if ms, ok := x.Call.Args[1].(*ssa.MakeSlice); ok && ms.Parent() == snd {
										if l0, ok := constInt(ms.Len); ok && l0 == 0 {
											if cv, ok := x.Call.Args[2].(*ssa.Convert); ok {
												if s, isL := lenOfValue(cv.X); isL && s == mbytes {
													n, fresh, appendForm = 4, true, true
												}
											}
										}
									}
								}
							case *ssa.MakeSlice:
								n, _ = constInt(x.Len)
								fresh = x.Parent() == snd
							case *ssa.Slice:
								if a2, ok := x.X.(*ssa.Alloc); ok && a2.Comment == "makeslice" {
									n = sliceArrayLen(a2)
									fresh = true
								}
							}
							if !fresh {
								whyV = "the frame is not built in a fresh buffer of this call: the slice handed to the asynchronous producer can be overwritten by the next record"
								continue
							}
							if n != 4 {
								whyV = fmt.Sprintf("the length prefix is %d bytes, the consumer strips 4", n)
								continue
							}
							// PutUint32(prefix, uint32(len(bytes))) big endian
							okPut := appendForm
							for _, ps := range putSites(snd) {
								if ps.Width == 4 && ps.Order == "BigEndian" && ps.In.Call.Args[1] == pre {
									if cv, ok := ps.Val.(*ssa.Convert); ok {
										if s, isL := lenOfValue(cv.X); isL && s == mbytes {
											okPut = true
										}
									}
								}
							}
							if !okPut {
								whyV = "the prefix is not BigEndian uint32(len(marshalled bytes))"
								continue
							}
							// selected under the delimit flag
							okFlag := false
							for _, fct := range blockFacts(ap.Block()) {
								_ = fct
							}
							for _, gd := range guardsOf(ap.Block()) {
								if pa, ok := gd.If.Cond.(*ssa.Parameter); ok && pa.Parent() == snd && gd.Succ == 0 {
									okFlag = true
								}
							}
							if !okFlag {
								whyV = "the prefix is not added exactly when kafkaDelimitMsgWithLen is set"
								continue
							}
							valOK = true
						}
					}
				}
			}
		}
		r.Check(topicOK, "R-VALUE.frame", fnKey(snd)+": topic", p.instrPos(sendIn), "kp.input.KafkaTopic", "the message is not published on the configured topic", true)
		r.Check(valOK, "R-VALUE.frame", fnKey(snd)+": payload = 4-byte big-endian length + protobuf bytes, in a fresh buffer", p.instrPos(sendIn), "append(make([]byte,4) with BigEndian.PutUint32(len(bytes)), bytes...)", whyV, true)
	}
	// acknowledgements: when success logging is on, the acknowledgement of a record is consumed in the same call that sent
	// it (sarama's Successes channel must be drained while sending, otherwise the producer stops accepting input)
	if sendIn != nil {
		q := &pathQuery{discharge: func(in ssa.Instruction) bool {
			u, ok := in.(*ssa.UnOp)
			if !ok || u.Op != token.ARROW {
				return false
			}
			c, ok := u.X.(*ssa.Call)
			return ok && c.Call.IsInvoke() && c.Call.Method.Name() == "Successes"
		}, prune: func(from *ssa.BasicBlock, si int) bool {
			i := ifOf(from)
			return i != nil && isFieldLoad(i.Cond, "pkg/kafka/producer.ProducerInput.KafkaLogSuccesses") && si == 1
		}}
		trail, bad := q.find(sendIn)
		r.Check(!bad, "R-ORDER.ack", fnKey(snd)+": success acknowledgement consumed right after the send", p.instrPos(sendIn), "with KafkaLogSuccesses every path after the send reads producer.Successes()",
			"with success logging enabled a record's acknowledgement is not consumed in the call that sent it: the bounded Successes channel fills up during a large message and the producer stops accepting input, so the remaining records are never published; path "+p.describePath(snd, trail), true)
	}
	// convertors are stateless: no package-level variable is touched while converting
	for _, f := range p.RepoFns {
		if !keyInPkg(fnKey(f), "pkg/kafka/producer/convertor/test") {
			continue
		}
		eachInstr(f, func(in ssa.Instruction) {
			for _, op := range in.Operands(nil) {
				if op == nil || *op == nil {
					continue
				}
				if gl, ok := (*op).(*ssa.Global); ok && gl.Pkg != nil && strings.HasSuffix(gl.Pkg.Pkg.Path(), "pkg/kafka/producer/convertor/test") {
					r.Violation("R-PURE.convertor", fnKey(f)+": uses package-level state "+gl.Name(), p.instrPos(in),
						"a convertor keeps state across records (package-level variable): what is published for a record depends on earlier records / other exporters using the same template id")
				}
			}
		})
	}
	r.OK("R-PURE.convertor", "pkg/kafka/producer/convertor/test: convertors reference no package-level variables", "pkg/kafka/producer/convertor/test", "conversion of a record depends on that record and its message only", true)
	// consumer side
	dc := p.Fn("(*pkg/kafka/consumer.KafkaConsumer).DecodeAndPrintMsg")
	delim, okC := pkgConst(p, modPath+"/pkg/kafka/consumer", "msgDelimitLen")
	if dc == nil || !okC {
		r.Undecided("R-TABLE.consumer", "anchor: consumer DecodeAndPrintMsg / msgDelimitLen", "pkg/kafka/consumer/consumer.go", "not found")
	} else {
		okStrip, okUnm := false, false
		eachInstr(dc, func(in ssa.Instruction) {
			switch x := in.(type) {
			case *ssa.Slice:
				if x.Low == nil || x.High != nil {
					break
				}
				if lo, ok := constInt(x.Low); ok && lo == delim {
					okStrip = true
				}
				// an offset chosen first (0, or the delimiter length when messages are delimited) and applied in one slice expression
				if _, isPhi := x.Low.(*ssa.Phi); isPhi {
					has, other := false, false
					for _, lf := range valueLeaves(x.Low, x.Block(), 3) {
						c, ok := constInt(lf.V)
						delimited := false
						for _, f := range lf.Facts {
							_ = f
						}
						switch {
						case ok && c == delim:
							has = true
						case ok && c == 0:
						default:
							other = true
						}
						_ = delimited
					}
					if has && !other {
						okStrip = true
					}
				}
			case *ssa.Call:
				if calleeName(&x.Call) == "google.golang.org/protobuf/proto.Unmarshal" {
					okUnm = true
				}
			}
		})
		// a frame may be refused for being too short only when it is shorter than the prefix: a payload of exactly 4 bytes is
		// a valid frame (an empty protobuf message: every field at its default)
		refused := ""
		wc := &absWalker{MaxPaths: 2048}
		wc.OnEnd = func(st *absState, last ssa.Instruction) {
			rt, ok := last.(*ssa.Return)
			if !ok || len(rt.Results) == 0 {
				return
			}
			isNil, known := st.nilness(rt.Results[len(rt.Results)-1])
			if !known || isNil {
				return
			}
			for sym, hi := range st.hi {
				if strings.HasPrefix(sym, "len(") && hi >= delim && hi < absInf {
					refused = fmt.Sprintf("values of up to %d bytes are refused", hi)
				}
			}
		}
		if len(dc.Blocks) > 0 {
			wc.walk(newAbsState(), dc.Blocks[0], 0)
		}
		r.Check(refused == "", "R-TABLE.consumer", fnKey(dc)+": only frames shorter than the prefix are refused for their length", p.pos(dc.Pos()), "no error exit for a value of msgDelimitLen bytes or more",
			refused+": the producer publishes an empty protobuf message (all fields default) as exactly the 4 prefix bytes, and the consumer must decode it", true)
		r.Check(delim == 4 && okStrip, "R-TABLE.consumer", fnKey(dc)+": strips the 4-byte delimiter", p.pos(dc.Pos()), "value[msgDelimitLen:], msgDelimitLen == 4 == producer prefix", "the consumer does not strip exactly the 4 prefix bytes the producer adds", true)
		r.Check(okUnm, "R-TABLE.consumer", fnKey(dc)+": decodes with proto.Unmarshal", p.pos(dc.Pos()), "proto.Unmarshal resets the destination before decoding",
			"the consumer does not decode with proto.Unmarshal (e.g. merge semantics on a reused message keep field values of earlier records)", true)
	}

	checkConvertorValuesUnconditional(p, r, "R-VALUE.field-value")
	// (4) getters by element name
	tb := p.liftIETables()
	names, problems := p.nameTypes(tb)
	for _, pr := range problems {
		r.Undecided("R-GETTER.name", "anchor: registry tables", "pkg/registry", pr)
	}
	pk := p.pkg("pkg/kafka/producer/convertor/test")
	total := 0
	if pk != nil {
		total = nameSwitchesInPkg(p, r, pk.PkgPath, tb, names)
	}
	if total < 40 {
		r.Undecided("R-GETTER.name", "anchor: case \"name\" clauses of the convertors", "pkg/kafka/producer/convertor/test", fmt.Sprintf("only %d accessor uses found", total))
	}
}

func reachesFn(g *callGraph, from, to *ssa.Function) bool {
	return g.reach(from)[to]
}

func sliceArrayLen(al *ssa.Alloc) int64 {
	s := al.Type().String()
	var n int64
	fmt.Sscanf(s, "*[%d]", &n)
	return n
}

// checkSaramaConfig: the producer's sarama configuration is the library default plus an audited set of fields (version,
// success/error reporting, TLS). Any other field the producer sets is not vouched for: limits such as
// Producer.MaxMessageBytes, Producer.RequiredAcks, Flush.*, Retry.* decide whether a record that was handed to the
// producer is published at all (a lowered size limit makes sarama reject large flow messages locally).
func checkSaramaConfig(p *Prog, r *Report, rule string) {
	f := p.Fn("(*pkg/kafka/producer.KafkaProducer).InitSaramaProducer")
	if f == nil {
		r.Undecided(rule, "anchor: InitSaramaProducer", "pkg/kafka/producer/kafka.go", "not found")
		return
	}
	allowed := map[string]bool{"Version": true, "Producer.Return.Successes": true, "Producer.Return.Errors": true, "Net.TLS.Config": true, "Net.TLS.Enable": true}
	n := 0
	eachInstr(f, func(in ssa.Instruction) {
		st, ok := in.(*ssa.Store)
		if !ok {
			return
		}
		// path of field selections down from the *sarama.Config
		var path []string
		v := st.Addr
		for {
			fa, ok := v.(*ssa.FieldAddr)
			if !ok {
				break
			}
			_, fn, _, ok2 := fieldOf(fa)
			if !ok2 {
				break
			}
			path = append([]string{fn}, path...)
			v = fa.X
		}
		if len(path) == 0 || !strings.Contains(typeName(v.Type()), "sarama.Config") {
			return
		}
		n++
		name := strings.Join(path, ".")
		// the two reporting switches follow the caller's flags exactly: sarama's own defaults differ (Return.Errors is true),
		// and an error / success channel that is enabled but never drained stops the producer after its buffer fills up
		if flag, isRet := map[string]string{"Producer.Return.Successes": "KafkaLogSuccesses", "Producer.Return.Errors": "KafkaLogErrors"}[name]; isRet {
			_, vf, _, okF := loadedField(st.Val)
			q := &pathQuery{discharge: func(x ssa.Instruction) bool { return x == in }, terminal: func(x ssa.Instruction) bool {
				rt, ok := x.(*ssa.Return)
				return ok && !isErrorReturn(rt)
			}, noExit: true}
			_, skipped := q.findFromBlock(f.Blocks[0])
			r.Check(okF && vf == flag && !skipped, rule+".return-flags", fnKey(f)+": sarama Config."+name+" = input."+flag, p.instrPos(in), "assigned from the caller's flag on every path",
				"the switch is not set to the caller's "+flag+" on every path (set only when true, or to a constant): sarama's default stays in force when the flag is off, the unread channel fills up after a few hundred reports and the producer stops accepting records", true)
		}
		if allowed[name] {
			r.OK(rule, fnKey(f)+": sets sarama Config."+name, p.instrPos(in), "audited field", true)
		} else {
			r.Undecided(rule, fnKey(f)+": sets sarama Config."+name, p.instrPos(in), "this configuration field is not in the audited set: the check cannot vouch that every record handed to the producer is still published (size limits, acknowledgement and retry settings change that)")
		}
	})
	if n < 3 {
		r.Undecided(rule, fnKey(f)+": stores into the sarama configuration", p.pos(f.Pos()), fmt.Sprintf("found %d, expected at least Version and the two Return flags", n))
	}
}

// checkConvertorValuesUnconditional: in the schema convertors a message field that is filled from an element's accessor
// is filled with that value on EVERY path - a constant substituted on some paths (a "malformed value" guard, a default)
// makes the published payload lose a value the record holds. Helpers are followed one level (all their returns).
func checkConvertorValuesUnconditional(p *Prog, r *Report, rule string) {
	n := 0
	var leaves func(v ssa.Value, d int) (acc, con int)
	leaves = func(v ssa.Value, d int) (acc, con int) {
		if d > 6 {
			return 0, 0
		}
		switch x := v.(type) {
		case *ssa.Const:
			return 0, 1
		case *ssa.Convert:
			return leaves(x.X, d+1)
		case *ssa.ChangeType:
			return leaves(x.X, d+1)
		case *ssa.Phi:
			for _, e := range x.Edges {
				a, c := leaves(e, d+1)
				acc += a
				con += c
			}
			return
		case *ssa.Call:
			if x.Call.IsInvoke() {
				if isValueAccessor(x.Call.Method.Name()) && strings.HasPrefix(x.Call.Method.Name(), "Get") {
					return 1, 0
				}
				return 0, 0
			}
			cal := x.Call.StaticCallee()
			if cal == nil {
				return 0, 0
			}
			if cal.Name() == "String" && len(x.Call.Args) == 1 {
				return leaves(x.Call.Args[0], d+1)
			}
			if strings.Contains(fnKey(cal), "pkg/kafka/") && cal.Blocks != nil {
				eachInstr(cal, func(in ssa.Instruction) {
					if rt, ok := in.(*ssa.Return); ok && len(rt.Results) == 1 {
						a, c := leaves(rt.Results[0], d+2)
						acc += a
						con += c
					}
				})
				return
			}
		}
		return 0, 0
	}
	for _, f := range p.RepoFns {
		if !keyInPkg(fnKey(f), "pkg/kafka/producer/convertor/test") {
			continue
		}
		eachInstr(f, func(in ssa.Instruction) {
			st, ok := in.(*ssa.Store)
			if !ok {
				return
			}
			tn, fn, _, ok := fieldOf(st.Addr)
			if !ok || !strings.Contains(tn, "protobuf.FlowType") {
				return
			}
			a, c := leaves(st.Val, 0)
			if a == 0 {
				return
			}
			n++
			r.Check(c == 0, rule, fmt.Sprintf("%s: %s.%s is the element's value on every path", fnKey(f), tn[strings.LastIndex(tn, ".")+1:], fn), p.instrPos(in), "accessor value (converted), unconditionally",
				"on some path the field receives a constant instead of the element's value: a value the record holds is missing from the published message", true)
		})
	}
	if n < 20 {
		r.Undecided(rule, "anchor: message fields filled from element accessors", "pkg/kafka/producer/convertor/test", fmt.Sprintf("only %d found", n))
	}
}
