// ipfixlint decides structural necessary conditions of the go-ipfix properties C01..C20 from /repo's source
// (type-checked syntax, SSA, CFG, call graph). It never executes repository code.
package main

import (
	"encoding/json"
	"flag"
	"fmt"
	"os"
	"path/filepath"
	"runtime/debug"
	"sort"
	"strconv"
	"strings"
	"time"
)

type propDef struct {
	ID          string
	Explanation string
	Run         func(p *Prog, r *Report, tier string)
	Assume      []string
}

var props = map[string]*propDef{}

func register(d *propDef) { props[d.ID] = d }

// Mutant is a seeded fault (or a behaviour-preserving edit when Neutral) applied as an in-memory overlay.
type Mutant struct {
	Name    string `json:"name"`
	File    string `json:"file"`
	Find    string `json:"find"`
	Replace string `json:"replace"`
	Expect  string `json:"expect"`  // substring of rule|construct that must be reported (faults)
	Neutral bool   `json:"neutral"` // must stay silent
	Canary  bool   `json:"canary"`  // also run in the quick tier
	Note    string `json:"note,omitempty"`
	// Patch names a unified diff (relative to the verif root) whose hunks are applied as further edits; used to keep
	// the independently seeded changes under seeded/ as a permanent part of the self-test.
	Patch string `json:"patch,omitempty"`
	// More holds further edits (other files or places) that belong to the same change ("two cooperating sites").
	More []struct {
		File    string `json:"file"`
		Find    string `json:"find"`
		Replace string `json:"replace"`
	} `json:"more,omitempty"`
}

var verifRoot = "/verif"

func loadMutants(dir, prop string) ([]Mutant, error) {
	var out []Mutant
	for _, name := range []string{prop + ".json", "neutral.json"} {
		b, err := os.ReadFile(filepath.Join(dir, name))
		if err != nil {
			if os.IsNotExist(err) {
				continue
			}
			return nil, err
		}
		var ms []Mutant
		if err := json.Unmarshal(b, &ms); err != nil {
			return nil, fmt.Errorf("%s: %v", name, err)
		}
		out = append(out, ms...)
	}
	return out, nil
}

func runProp(d *propDef, repo string, overlay map[string][]byte, tier string) (rep *Report, p *Prog, err error) {
	defer func() {
		if x := recover(); x != nil {
			err = fmt.Errorf("analyser panic: %v\n%s", x, debug.Stack())
		}
	}()
	norm, notes := Normalize(repo, overlay)
	p, err = Load(repo, norm, false, "")
	if err != nil && len(notes) > 0 {
		// the normalised program must never be the reason for a failure: fall back to the tree as it is
		var err2 error
		SplicedHelpers = map[string]bool{}
		p, err2 = Load(repo, overlay, false, "")
		if err2 == nil {
			notes = append(notes, "normalised source did not load ("+firstLine(err.Error())+"); analysed the tree as it is")
			err = nil
		}
	}
	if err != nil {
		return nil, nil, err
	}
	rep = NewReport(d.ID)
	for _, n := range notes {
		rep.Infof("normalisation: %s", n)
	}
	rep.Assume = append(rep.Assume, d.Assume...)
	d.Run(p, rep, tier)
	return rep, p, nil
}

func main() {
	prop := flag.String("prop", "", "property id (C01..C20)")
	tier := flag.String("tier", "quick", "quick|thorough")
	repo := flag.String("repo", "/repo", "repository root")
	verif := flag.String("verif", "/verif", "verif root (known_findings.json, evidence/, checker/mutants)")
	list := flag.Bool("list", false, "list obligations")
	mutOnly := flag.String("mutant", "", "run only on this mutant (debug)")
	dumpFuncs := flag.Bool("dump-funcs", false, "print the function keys of the tree (to regenerate known_funcs.txt)")
	showNorm := flag.Bool("show-normalized", false, "print the normalised source of files changed by the de-extraction step (debug)")
	scanAll := flag.Bool("scan-all", false, "load the tree once and print the violations of every property's quick rules (corpus scans; writes no evidence)")
	flag.Parse()
	if *scanAll {
		known, err := loadKnown(filepath.Join(*verif, "known_findings.json"))
		if err != nil {
			fmt.Fprintf(os.Stderr, "known_findings.json: %v\n", err)
			os.Exit(2)
		}
		ids := []string{}
		for k := range props {
			ids = append(ids, k)
		}
		sort.Strings(ids)
		norm, notes := Normalize(*repo, nil)
		p, err := Load(*repo, norm, false, "")
		if err != nil && len(notes) > 0 {
			SplicedHelpers = map[string]bool{}
			p, err = Load(*repo, nil, false, "")
		}
		if err != nil {
			fmt.Printf("ALL cannot analyse: %s\n", firstLine(err.Error()))
			os.Exit(2)
		}
		for _, id := range ids {
			func() {
				defer func() {
					if x := recover(); x != nil {
						fmt.Printf("%s VIOLATION property=%s kind=broken-check :: analyser panic: %v\n", id, id, x)
					}
				}()
				rep := NewReport(id)
				props[id].Run(p, rep, "quick")
				res := rep.classify(known)
				for _, o := range res.Violations {
					fmt.Printf("%s VIOLATION property=%s kind=violation rule=%s at=%s construct=%q :: %s\n", id, id, o.Rule, o.Pos, o.Construct, firstLine(o.Detail))
				}
				for _, o := range res.Undecided {
					fmt.Printf("%s VIOLATION property=%s kind=undecided rule=%s at=%s construct=%q :: %s\n", id, id, o.Rule, o.Pos, o.Construct, firstLine(o.Detail))
				}
			}()
		}
		os.Exit(0)
	}
	if *dumpFuncs {
		if err := DumpFuncs(*repo); err != nil {
			fmt.Fprintln(os.Stderr, err)
			os.Exit(2)
		}
		os.Exit(0)
	}
	if *showNorm {
		ov, notes := Normalize(*repo, nil)
		for _, n := range notes {
			fmt.Println("//", n)
		}
		for f, b := range ov {
			fmt.Printf("==== %s\n%s\n", f, b)
		}
		os.Exit(0)
	}
	start := time.Now()
	d := props[*prop]
	if d == nil {
		ids := []string{}
		for k := range props {
			ids = append(ids, k)
		}
		sort.Strings(ids)
		fmt.Fprintf(os.Stderr, "unknown property %q; have %v\n", *prop, ids)
		os.Exit(2)
	}
	seed := 0
	if s := os.Getenv("VERIF_SEED"); s != "" {
		seed, _ = strconv.Atoi(s)
	}
	evDir := filepath.Join(*verif, "evidence")
	known, err := loadKnown(filepath.Join(*verif, "known_findings.json"))
	if err != nil {
		fmt.Fprintf(os.Stderr, "known_findings.json: %v\n", err)
		os.Exit(2)
	}
	verifRoot = *verif
	if _, err := os.Stat(filepath.Join(verifRoot, "seeded")); err != nil {
		verifRoot = "/verif" // alternative -verif roots (try scripts) carry only known_findings.json
	}
	mutants, err := loadMutants(filepath.Join(*verif, "checker", "mutants"), d.ID)
	if err != nil {
		fmt.Fprintf(os.Stderr, "mutants: %v\n", err)
		os.Exit(2)
	}

	if *mutOnly != "" {
		for _, m := range mutants {
			if m.Name != *mutOnly {
				continue
			}
			ov, st := overlayFor(*repo, m)
			if st != "" {
				fmt.Println("mutant", m.Name, st)
				os.Exit(2)
			}
			rep, _, err := runProp(d, *repo, ov, *tier)
			if err != nil {
				fmt.Println("ERROR", err)
				os.Exit(2)
			}
			res := rep.classify(known)
			for _, o := range append(res.Violations, res.Undecided...) {
				fmt.Printf("%s %s %s %s :: %s\n", o.Status, o.Rule, o.Construct, o.Pos, o.Detail)
			}
			os.Exit(0)
		}
		fmt.Println("no such mutant")
		os.Exit(2)
	}

	rep, p, err := runProp(d, *repo, nil, *tier)
	if err != nil {
		fmt.Printf("VIOLATION property=%s replay=%s kind=broken-check :: %v\n", d.ID, "-", err)
		fmt.Fprintf(os.Stderr, "ipfixlint: cannot analyse: %v\n", err)
		os.Exit(2)
	}
	res := rep.classify(known)
	if *list {
		for _, o := range rep.Obs {
			fmt.Printf("%-10s %-22s %-28s %s :: %s\n", o.Status, o.Rule, o.Pos, o.Construct, o.Detail)
		}
	}

	// self-test: seeded faults must be reported, neutral edits must stay silent. It measures the checker and is
	// recorded in the evidence; a canary that is not detected means the rule went blind => broken check (exit 2).
	type mres struct {
		Name     string `json:"name"`
		Kind     string `json:"kind"`
		Status   string `json:"status"`
		Reported string `json:"reported,omitempty"`
	}
	var selftest []mres
	blind := false
	detected, faults := 0, 0
	for _, m := range mutants {
		if *tier == "quick" && !m.Canary {
			continue
		}
		kind := "fault"
		if m.Neutral {
			kind = "neutral"
		}
		ov, st := overlayFor(*repo, m)
		if st != "" {
			selftest = append(selftest, mres{m.Name, kind, st, ""})
			continue
		}
		mrep, _, merr := runProp(d, *repo, ov, *tier)
		if merr != nil {
			selftest = append(selftest, mres{m.Name, kind, "does-not-build: " + firstLine(merr.Error()), ""})
			continue
		}
		mr := mrep.classify(known)
		bad := append(append([]Obligation{}, mr.Violations...), mr.Undecided...)
		if m.Neutral {
			if len(bad) == 0 {
				selftest = append(selftest, mres{m.Name, kind, "silent (ok)", ""})
			} else {
				selftest = append(selftest, mres{m.Name, kind, "FALSE-ALARM", bad[0].Key()})
				fmt.Fprintf(os.Stderr, "self-test: neutral edit %s raised %s\n", m.Name, bad[0].Key())
			}
			continue
		}
		faults++
		hit := ""
		for _, o := range bad {
			if m.Expect == "" || strings.Contains(o.Key(), m.Expect) {
				hit = o.Key()
				break
			}
		}
		switch {
		case hit != "":
			detected++
			selftest = append(selftest, mres{m.Name, kind, "detected", hit})
		case len(bad) > 0:
			detected++
			selftest = append(selftest, mres{m.Name, kind, "detected-elsewhere", bad[0].Key()})
		default:
			selftest = append(selftest, mres{m.Name, kind, "MISSED", ""})
			if m.Canary {
				blind = true
			}
			fmt.Fprintf(os.Stderr, "self-test: seeded fault %s not detected\n", m.Name)
		}
	}
	extra := map[string]interface{}{
		"selftest":             selftest,
		"selftest_sensitivity": fmt.Sprintf("%d/%d seeded faults detected", detected, faults),
		"packages":             len(p.Pkgs),
		"source_files":         p.NumFiles,
		"repo_functions":       len(p.RepoFns),
		"loader":               "go/packages LoadAllSyntax ./... (default build configuration, GOFLAGS=-mod=mod GOPROXY=off) + go/ssa InstantiateGenerics",
	}
	if err := rep.writeEvidence(evDir, *tier, seed, res, d.Explanation, extra, start); err != nil {
		fmt.Fprintf(os.Stderr, "evidence: %v\n", err)
		os.Exit(2)
	}
	code := rep.emit(res, known, evDir)
	nd := 0
	for _, o := range rep.Obs {
		if o.Status == "discharged" {
			nd++
		}
	}
	fmt.Printf("ipfixlint %s tier=%s: %d obligations, %d discharged, %d violated (%d known), %d undecided; self-test %d/%d; %.1fs\n",
		d.ID, *tier, len(rep.Obs), nd, len(res.Violations)+len(res.Known), len(res.Known), len(res.Undecided), detected, faults, time.Since(start).Seconds())
	if code == 0 && blind {
		fmt.Fprintf(os.Stderr, "ipfixlint: a canary fault was not detected: the check is broken\n")
		os.Exit(2)
	}
	os.Exit(code)
}

func firstLine(s string) string {
	if i := strings.IndexByte(s, '\n'); i >= 0 {
		s = s[:i]
	}
	if len(s) > 200 {
		s = s[:200]
	}
	return s
}

// overlayFor builds the overlay of a mutant; status is non-empty when it cannot be applied.
func overlayFor(repo string, m Mutant) (map[string][]byte, string) {
	type edit struct {
		file, find, replace string
		line                int // hint for hunks of a patch (0: the text must be unique)
	}
	var edits []edit
	if m.File != "" {
		edits = append(edits, edit{m.File, m.Find, m.Replace, 0})
	}
	for _, x := range m.More {
		edits = append(edits, edit{x.File, x.Find, x.Replace, 0})
	}
	out := map[string][]byte{}
	if m.Patch != "" {
		b, err := os.ReadFile(filepath.Join(verifRoot, m.Patch))
		if err != nil {
			return nil, "stale (patch file missing)"
		}
		hunks, newFiles, perr := parseUnifiedDiff(string(b))
		if perr != nil {
			return nil, "unreadable patch: " + perr.Error()
		}
		for f, content := range newFiles {
			out[filepath.Join(repo, f)] = []byte(content)
		}
		for _, h := range hunks {
			edits = append(edits, edit{h.file, h.old, h.new, h.line})
		}
	}
	for _, e := range edits {
		path := filepath.Join(repo, e.file)
		var s string
		if b, ok := out[path]; ok {
			s = string(b)
		} else {
			b, err := os.ReadFile(path)
			if err != nil {
				return nil, "stale (file missing)"
			}
			s = string(b)
		}
		n := strings.Count(s, e.find)
		if n == 0 {
			return nil, "stale (text not found: the tree was edited)"
		}
		if n > 1 && e.line == 0 {
			return nil, fmt.Sprintf("ambiguous (%d matches)", n)
		}
		if n > 1 {
			// several matches of a patch hunk: take the one nearest to the line the hunk header names
			best, bestDist := -1, 1<<30
			for off := 0; ; {
				i := strings.Index(s[off:], e.find)
				if i < 0 {
					break
				}
				ln := 1 + strings.Count(s[:off+i], "\n")
				d := ln - e.line
				if d < 0 {
					d = -d
				}
				if d < bestDist {
					best, bestDist = off+i, d
				}
				off += i + 1
			}
			out[path] = []byte(s[:best] + e.replace + s[best+len(e.find):])
			continue
		}
		out[path] = []byte(strings.Replace(s, e.find, e.replace, 1))
	}
	return out, ""
}

type diffHunk struct {
	file, old, new string
	line           int
}

// parseUnifiedDiff turns the hunks of a git diff into find/replace edits (context+removed lines => context+added
// lines) and returns whole new files separately. Test files are skipped: the loader does not read them.
func parseUnifiedDiff(s string) ([]diffHunk, map[string]string, error) {
	var hunks []diffHunk
	newFiles := map[string]string{}
	lines := strings.Split(s, "\n")
	file, isNew := "", false
	var cur *diffHunk
	flush := func() {
		if cur != nil && !strings.HasSuffix(cur.file, "_test.go") && strings.HasSuffix(cur.file, ".go") {
			if isNew {
				newFiles[cur.file] = cur.new
			} else {
				hunks = append(hunks, *cur)
			}
		}
		cur = nil
	}
	for i := 0; i < len(lines); i++ {
		l := lines[i]
		switch {
		case strings.HasPrefix(l, "diff --git "):
			flush()
			file, isNew = "", false
		case strings.HasPrefix(l, "--- "):
			if cur == nil {
				isNew = strings.HasPrefix(l, "--- /dev/null")
			} else {
				cur.old += l[1:] + "\n"
			}
		case strings.HasPrefix(l, "+++ ") && cur == nil:
			file = strings.TrimPrefix(strings.TrimPrefix(l, "+++ "), "b/")
		case strings.HasPrefix(l, "@@"):
			flush()
			if file == "" {
				return nil, nil, fmt.Errorf("hunk before file header at line %d", i+1)
			}
			cur = &diffHunk{file: file}
			fmt.Sscanf(l, "@@ -%d", &cur.line)
		case cur != nil && strings.HasPrefix(l, " "):
			cur.old += l[1:] + "\n"
			cur.new += l[1:] + "\n"
		case cur != nil && strings.HasPrefix(l, "-"):
			cur.old += l[1:] + "\n"
		case cur != nil && strings.HasPrefix(l, "+"):
			cur.new += l[1:] + "\n"
		case cur != nil && l == "":
			// blank context line whose leading space was trimmed, or the end of the file
			if i != len(lines)-1 {
				cur.old += "\n"
				cur.new += "\n"
			}
		}
	}
	flush()
	return hunks, newFiles, nil
}
