package main

import (
	"golang.org/x/tools/go/ssa"
)

const aggMutex = "pkg/intermediate.AggregationProcess.mutex"

func aggGuardSpec() *guardSpec {
	gs := &guardSpec{
		Guarded: map[string]string{
			"pkg/intermediate.AggregationProcess.flowKeyRecordMap":    aggMutex,
			"pkg/intermediate.AggregationProcess.expirePriorityQueue": aggMutex,
			"pkg/intermediate.AggregationProcess.workerList":          aggMutex,
		},
		Exempt:       map[string]string{},
		PointerElems: map[string]bool{"pkg/intermediate.AggregationProcess.flowKeyRecordMap": true},
	}
	gs.Extra = func(in ssa.Instruction) []guardedAccess {
		c := callOf(in)
		if c == nil {
			return nil
		}
		// the clock that deadlines are computed from / compared with is read inside the critical section: an operation
		// that waited for the lock must not apply a time from before operations that were serialised ahead of it
		if cc, ok := in.(*ssa.Call); ok && calleeName(c) == "time.Now" && keyInPkg(fnKey(in.Parent()), "pkg/intermediate") {
			for _, ref := range refs(cc) {
				if rc := callOf(ref); rc != nil {
					switch calleeName(rc) {
					case "(time.Time).Add", "(time.Time).After", "(time.Time).Before", "(time.Time).Sub":
						return []guardedAccess{{In: in, Field: "clock read used for flow deadlines", Need: 1, Kind: "time.Now()", Lock: aggMutex}}
					}
				}
			}
			return nil
		}
		if c.IsInvoke() || c.StaticCallee() != nil {
			return nil
		}
		if typeName(c.Value.Type()) == "pkg/intermediate.FlowKeyRecordMapCallBack" {
			return []guardedAccess{{In: in, Field: "record handed to user callback (FlowKeyRecordMapCallBack)", Need: 2, Kind: "callback invocation", Lock: aggMutex}}
		}
		return nil
	}
	return gs
}

func init() {
	register(&propDef{
		ID:          "C13",
		Explanation: "Structural necessary conditions of thread-safety of the aggregation process, decided on SSA with an interprocedural, context-sensitive must-hold lockset: (1) guarded-by: every access to AggregationProcess.flowKeyRecordMap / expirePriorityQueue / workerList (loads, map lookups/updates/deletes, ranges, element stores, the address handed to container/heap or to pointer-receiver queue methods) and every invocation of a user FlowKeyRecordMapCallBack happens with AggregationProcess.mutex held in the mode the access needs (W for mutation, heap operations and callbacks; R suffices for pure reads), in every calling context; (2) balanced: every exit of every function in pkg/intermediate leaves the lockset as at entry; (3) single critical section: no operation releases the mutex and acquires it again (check-then-act / unlock around a callback), back edges excluded; (4) no reference to guarded state is returned. Not decided: sequential correctness of each operation (C05-C07), races on caller-held objects, fairness. Later additions: the clock read that deadlines are computed from needs the lock; no TryLock on the process mutex; setters of slice-valued elements replace the slice (query results are handed out by reference); a worker hands every received message to its job. Round-five additions: methods of lock-bearing structs have pointer receivers (a value receiver locks a copy). Round-six additions: GetElementMap returns a map made by that call (GetRecords hands it out after the lock is released).",
		Assume: []string{"sync.RWMutex / Go memory model semantics", "lock identity is (struct type, field): a function manipulates one AggregationProcess at a time (its receiver)",
			"dynamic calls are resolved to address-taken repo functions of identical signature; functions whose value escapes to non-repo code are analysed with the empty lockset"},
		Run: runC13,
	})
}

func runC13(p *Prog, r *Report, tier string) {
	checkElementMapFresh(p, r, "R-OWNER.snapshot-fresh")
	gs := aggGuardSpec()
	_, accs := checkGuardedBy(p, r, gs, "R-LOCK", "pkg/intermediate")
	if len(accs) < 10 {
		r.Undecided("R-LOCK.guarded", "anchor: guarded accesses of AggregationProcess", "pkg/intermediate/aggregate.go", "fewer than 10 guarded accesses found: the guarded-field table no longer matches the code")
	}
	checkSingleSection(p, r, "R-LOCK.whole-op", aggMutex, "pkg/intermediate")
	checkLockBearingReceivers(p, r, "R-LOCK.receiver", "pkg/intermediate")
	checkNoEscape(p, r, gs, "R-LOCK.escape", "pkg/intermediate", nil)
	// query results (GetRecords -> GetElementMap) hand out the elements' byte slices: later ingestion must not write into them
	checkValueSettersFresh(p, r, "R-LOCK.escape-values")
	checkWorkerAppliesEveryMessage(p, r, "R-OWNER.worker-applies")

	// workers: the job handed to every worker is a method of AggregationProcess (so it is covered by the rules above)
	start := p.Fn("(*pkg/intermediate.AggregationProcess).Start")
	if start == nil {
		r.Undecided("R-OWNER.worker-job", "anchor: (*AggregationProcess).Start", "pkg/intermediate/aggregate.go", "function not found")
		return
	}
	var calls []ssa.Instruction
	for f := range p.CallGraph().syncReach(start) { // Start itself or a helper it calls (e.g. a function literal / startWorkers)
		calls = append(calls, callsTo(f, "pkg/intermediate.createWorker")...)
	}
	if len(calls) == 0 {
		r.Undecided("R-OWNER.worker-job", "anchor: createWorker call in Start", "pkg/intermediate/aggregate.go", "Start no longer calls createWorker: the job run by the workers is unknown")
	}
	for _, c := range calls {
		cc := callOf(c)
		ok := false
		var name string
		if len(cc.Args) >= 3 {
			if mc, isMC := cc.Args[2].(*ssa.MakeClosure); isMC {
				if fn, isF := mc.Fn.(*ssa.Function); isF {
					t := p.CallGraph().resolveBound(fn)
					name = fnKey(t)
					ok = p.CallGraph().isRepo[t]
				}
			}
		}
		r.Check(ok, "R-OWNER.worker-job", "(*pkg/intermediate.AggregationProcess).Start: job passed to createWorker", p.instrPos(c),
			"job is "+name+", a repo method analysed by the lock rules", "the job handed to the workers cannot be resolved to a repository function", true)
	}
}

// checkWorkerAppliesEveryMessage: a message taken off the input channel is handed to the job on every path: between the
// receive (ok == true) and the job call there is no return and no way back to the select. A "stop is pending, bail out"
// check placed after the receive throws away a message that was already consumed - a lost update.
func checkWorkerAppliesEveryMessage(p *Prog, r *Report, rule string) {
	n := 0
	for _, f := range p.RepoFns {
		if !keyInPkg(fnKey(f), "pkg/intermediate") {
			continue
		}
		var job *ssa.Call
		eachInstr(f, func(in ssa.Instruction) {
			if c, ok := in.(*ssa.Call); ok && !c.Call.IsInvoke() && c.Call.StaticCallee() == nil {
				if _, fn, _, ok := loadedField(c.Call.Value); ok && fn == "job" {
					job = c
				}
			}
		})
		if job == nil {
			continue
		}
		n++
		// the message handed to the job is the one received by the select; find the ok test
		var okBlock *ssa.BasicBlock
		var sel *ssa.Select
		if ex, isEx := job.Call.Args[0].(*ssa.Extract); isEx {
			sel, _ = ex.Tuple.(*ssa.Select)
		}
		if sel != nil {
			eachInstr(f, func(in ssa.Instruction) {
				i, ok := in.(*ssa.If)
				if !ok {
					return
				}
				if ex, ok := i.Cond.(*ssa.Extract); ok && ex.Tuple == ssa.Value(sel) && ex.Index == 1 {
					okBlock = i.Block().Succs[0]
				}
			})
		}
		if okBlock == nil {
			r.Undecided(rule, fnKey(f)+": receive of a message followed by the job", p.pos(f.Pos()), "the job is not called with the message received by a select whose ok flag is tested")
			continue
		}
		lh := loopHeadOf(job.Block())
		q := &pathQuery{loopHead: lh, discharge: func(in ssa.Instruction) bool { return in == ssa.Instruction(job) }}
		if trail, bad := q.findFromBlock(okBlock); bad {
			r.Violation(rule, fnKey(f)+": every received message reaches the job", p.instrPos(job), "a message that was received can be dropped without being processed (return / next iteration before the job call): its records never reach the aggregation - a lost update; path "+p.describePath(f, trail))
		} else {
			r.OK(rule, fnKey(f)+": every received message reaches the job", p.instrPos(job), "no exit and no way back to the select between the receive and the job", true)
		}
	}
	if n == 0 {
		r.Undecided(rule, "anchor: worker goroutine calling its job", "pkg/intermediate/worker.go", "not found")
	}
}

// checkElementMapFresh: GetRecords hands the result of GetElementMap to its caller, who reads it after the process mutex
// is released; it is a snapshot only if every call builds a new map (a map cached in the record is rewritten by the
// next query while earlier callers still read it).
func checkElementMapFresh(p *Prog, r *Report, rule string) {
	f := p.Fn("(*pkg/entities.baseRecord).GetElementMap")
	if f == nil {
		r.Undecided(rule, "anchor: (*baseRecord).GetElementMap", "pkg/entities/record.go", "not found")
		return
	}
	n := 0
	eachInstr(f, func(in ssa.Instruction) {
		rt, ok := in.(*ssa.Return)
		if !ok || len(rt.Results) == 0 {
			return
		}
		n++
		bad := ""
		for _, lf := range phiLeaves(rt.Results[0], 6) {
			o := p.origin(lf)
			mm, isMake := o.(*ssa.MakeMap)
			if !isMake || mm.Parent() != f {
				bad = "the returned map is not a map made by this call (" + o.Name() + ")"
			}
		}
		r.Check(bad == "", rule, fnKey(f)+": returns a new map", p.instrPos(in), "make(map[string]interface{}) of this call",
			bad+": query results handed out by GetRecords are rewritten by later queries and read without the lock", true)
	})
	if n == 0 {
		r.Undecided(rule, fnKey(f)+": returns", p.pos(f.Pos()), "no return found")
	}
}
