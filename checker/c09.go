package main

import (
	"fmt"
	"go/token"
	"strings"

	"golang.org/x/tools/go/ssa"
)

func init() {
	register(&propDef{
		ID:          "C09",
		Explanation: "Gate, ownership and error-propagation rules for the exporter's send path, decided on SSA: (1) R-GATE.sanity: in SendSet every send is dominated by a range loop over set.GetRecords() in which, guarded only by the set type being Data, dataRecSanityCheck is called on the loop's own element (every record, not a sample) and its error edge leads only to error returns; (2) the sanity function contains the three tests (template known, field count equal, minimum length), each failing edge returning an error; (3) R-GATE.size: CreateIPFIXMsg compares MsgHeaderLength + set.GetSetLength() with MaxSocketMsgSize so that exactly lengths > 65535 take the error edge, and the buffer allocation of that same length is dominated by the other edge; (4) the sender writes only the slice returned by CreateIPFIXMsg on its err == nil edge; R-OWNER: connToCollector.Write has exactly the IPFIX and the JSON send site; (5) ordering: a template is inserted into the exporter's template map only on the err == nil edge of the send; (6) R-ERR fidelity: an error of the per-element encoder must propagate to the caller (its non-nil edge returns an error), and inside the encoder every raw copy of a caller-supplied byte value is preceded by a test of the source (nil test for To4/To16, length test for fixed-length values, or a length prefix). Not decided: that a failing Write transmitted nothing (kernel), well-formedness of later sends beyond C02/C08's per-call rules. Later additions: a nil return after the Write only where the Write's own error is nil; the prefix scheme and length accounting of C15 (value fidelity at the 255 boundary). Round-five additions: the encoder/decoder agreement per data type (C15's codec table) is imported: an address value must not be normalised across families.",
		Assume:      []string{"net.Conn.Write semantics", "entities.Set/Record accessors are the library's own implementations"},
		Run:         runC09,
	})
}

func runC09(p *Prog, r *Report, tier string) {
	ss := p.Fn("(*pkg/exporter.ExportingProcess).SendSet")
	if ss == nil {
		r.Undecided("R-GATE.sanity", "anchor: (*ExportingProcess).SendSet", "pkg/exporter/process.go", "function not found")
		return
	}
	// "carries each value faithfully": the reported length, the prefix written and the bytes copied agree at the 255 boundary
	// and every element is encoded at the offset its predecessors' lengths add up to (C15's rules, imported)
	prefixSites(p, r, "R-ERR.prefix")
	lengthAccounting(p, r, "R-ERR.length")
	g := p.CallGraph()
	writers, writeCalls := checkConnWriters(p, r, "R-OWNER.write", "an additional writer can emit bytes that bypass the checks")

	// a failed Write is never reported as success: in a writer, a return with a nil error is reached only where the error
	// result of the Write itself is known to be nil (not a variable that some path reset to nil). "The template was sent"
	// (and may be registered) must mean that the socket accepted it.
	for _, wc := range writeCalls {
		w, ok := wc.(*ssa.Call)
		if !ok {
			continue
		}
		f := w.Parent()
		var werr ssa.Value
		for _, e := range extractOf(w, 1) {
			werr = e
		}
		if werr == nil {
			r.Violation("R-ERR.write-error", fnKey(f)+": error of connToCollector.Write", p.instrPos(w), "the error result of Write is dropped: a failed send is reported as success")
			continue
		}
		n := 0
		eachInstr(f, func(in ssa.Instruction) {
			rt, ok := in.(*ssa.Return)
			if !ok || !reachable(w, in, nil) {
				return
			}
			isNil, has := retErrNil(rt)
			if !has || !isNil {
				return
			}
			n++
			okNil := false
			for _, fct := range blockFacts(in.Block()) {
				if fct.X == werr && fct.Op == token.EQL {
					if c, ok := fct.Y.(*ssa.Const); ok && c.IsNil() {
						okNil = true
					}
				}
			}
			// a writer that loops over records (JSON) returns success after the loop: then every Write's error edge must return an error
			if !okNil && inLoop(w.Block()) {
				okNil = errEdgeReturns(werr)
			}
			r.Check(okNil, "R-ERR.write-error", fmt.Sprintf("%s: success return #%d after the Write", fnKey(f), n), p.instrPos(in), "reached only where Write's own error is nil",
				"success is returned on a path where the Write's error is not known to be nil (the error was overwritten or tolerated): a message that never left the host counts as sent - its template gets registered and data for it is transmitted later", true)
		})
	}
	// send calls inside SendSet: calls to functions that (transitively) write
	isSender := func(f *ssa.Function) bool {
		for w := range g.reach(f) {
			for _, x := range writers {
				if w == x {
					return true
				}
			}
		}
		return false
	}
	var sends []*ssa.Call
	eachInstr(ss, func(in ssa.Instruction) {
		if c, ok := in.(*ssa.Call); ok {
			if sc := c.Call.StaticCallee(); sc != nil && g.isRepo[sc] && isSender(sc) {
				sends = append(sends, c)
			}
		}
	})
	if len(sends) == 0 {
		r.Undecided("R-GATE.sanity", "anchor: send calls in SendSet", p.pos(ss.Pos()), "SendSet calls no function that writes to the connection")
		return
	}
	// (1) sanity loop
	var sanity *ssa.Call
	var sanityFn *ssa.Function
	eachInstr(ss, func(in ssa.Instruction) {
		if c, ok := in.(*ssa.Call); ok {
			if sc := c.Call.StaticCallee(); sc != nil && strings.HasSuffix(fnKey(sc), ".dataRecSanityCheck") {
				sanity, sanityFn = c, sc
			}
		}
	})
	cons := fnKey(ss) + ": data records checked before any send"
	if sanity == nil {
		r.Violation("R-GATE.sanity", cons, p.pos(ss.Pos()), "SendSet does not call the data-record sanity check")
	} else {
		why := ""
		slice, isRange := rangeElem(sanity.Call.Args[1])
		if !isRange {
			why = "the sanity check is not applied to the element of a range loop (only some records are checked)"
		} else if c, ok := slice.(*ssa.Call); !ok || calleeName(&c.Call) != "iface:pkg/entities.Set.GetRecords" || c.Call.Value != ssa.Value(ss.Params[1]) {
			why = "the checked records are not set.GetRecords() of the set being sent"
		}
		// guards of the call inside the loop: only comparisons of the set type
		if why == "" {
			loopHead := sanity.Call.Args[1].(*ssa.UnOp).X.(*ssa.IndexAddr).Index.(*ssa.BinOp).Block()
			for _, gd := range guardsOf(sanity.Block()) {
				if gd.If.Block() == loopHead || !loopHead.Dominates(gd.If.Block()) {
					continue
				}
				okGuard := false
				for _, cf := range cmpForms(gd.If.Cond) {
					if c, ok := cf.X.(*ssa.Call); ok && calleeName(&c.Call) == "iface:pkg/entities.Set.GetSetType" {
						if v, ok := constInt(cf.Y); ok && ((cf.Op == token.EQL && v == 1 && gd.Succ == cf.Succ) || (v != 1)) {
							okGuard = true
						}
					}
				}
				if !okGuard {
					why = "inside the loop the sanity check is skipped under a condition other than 'the set is not a data set'"
				}
			}
			// every send is dominated by the loop
			// (the loop may itself stand under 'the set is a data set': then the only ways round it are the other set types)
			for _, s := range sends {
				if loopHead.Dominates(s.Block()) || dominates(loopHead.Instrs[0], s) {
					continue
				}
				sendGuards := map[guard]bool{}
				for _, g := range guardsOf(s.Block()) {
					sendGuards[g] = true
				}
				nData := 0
				for _, gd := range guardsOf(loopHead) {
					if sendGuards[gd] {
						continue
					}
					okGuard := false
					for _, cf := range cmpForms(gd.If.Cond) {
						if c, ok := cf.X.(*ssa.Call); ok && calleeName(&c.Call) == "iface:pkg/entities.Set.GetSetType" && c.Call.Value == ssa.Value(ss.Params[1]) {
							if v, ok := constInt(cf.Y); ok && cf.Op == token.EQL && v == 1 && gd.Succ == cf.Succ {
								okGuard = true
							}
						}
					}
					if okGuard {
						nData++
					} else {
						why = "a send is reachable without passing the record loop"
					}
				}
				if nData == 0 {
					why = "a send is reachable without passing the record loop"
				}
			}
			// the loop must not be left early towards a send: the error edge returns
			if !errEdgeReturns(sanity) {
				why = "the error of the sanity check does not lead to an error return (the send still happens)"
			}
			// no other exit from the loop body to after the loop except the range condition
			for _, b := range ss.Blocks {
				if loopHead.Dominates(b) && b != loopHead && reachableBlock(b, loopHead) {
					for _, s := range b.Succs {
						for _, snd := range sends {
							if s == snd.Block() || (s.Dominates(snd.Block()) && !loopHead.Dominates(s)) {
								why = "the record loop can be left early (break) towards the send"
							}
						}
					}
				}
			}
		}
		r.Check(why == "", "R-GATE.sanity", cons, p.instrPos(sanity), "every record of set.GetRecords() is checked when the set is a data set; the error edge only returns; every send is dominated by the loop", why, true)
	}
	// (2) the three tests
	if sanityFn != nil {
		tests := map[string]bool{}
		eachInstr(sanityFn, func(in ssa.Instruction) {
			i, ok := in.(*ssa.If)
			if !ok {
				return
			}
			kind, badSucc := "", 0
			cond := i.Cond
			neg := false
			for {
				u, ok := cond.(*ssa.UnOp)
				if !ok || u.Op != token.NOT {
					break
				}
				cond, neg = u.X, !neg
			}
			if c, ok := cond.(*ssa.Extract); ok {
				if lk, ok := c.Tuple.(*ssa.Lookup); ok && c.Index == 1 {
					if tn, fn, _, ok := loadedField(lk.X); ok && tn+"."+fn == "pkg/exporter.ExportingProcess.templatesMap" {
						kind, badSucc = "template known", 1
						if neg {
							badSucc = 0
						}
					}
				}
			}
			for _, cf := range cmpForms(i.Cond) {
				l, isL := stripChange(cf.X).(*ssa.Call)
				if !isL {
					if cv, ok := stripChange(cf.X).(*ssa.Convert); ok {
						l, isL = cv.X.(*ssa.Call)
					}
				}
				if !isL {
					continue
				}
				// "fieldCount != expected" holds on the failing edge
				if calleeName(&l.Call) == "iface:pkg/entities.Record.GetFieldCount" && cf.Op == token.NEQ {
					kind, badSucc = "field count equal", cf.Succ
				}
				// "len(rec.GetBuffer()) < min" holds on the failing edge
				if b, ok := l.Call.Value.(*ssa.Builtin); ok && b.Name() == "len" && cf.Op == token.LSS {
					if gb, ok := l.Call.Args[0].(*ssa.Call); ok && calleeName(&gb.Call) == "iface:pkg/entities.Record.GetBuffer" {
						kind, badSucc = "minimum length", cf.Succ
					}
				}
			}
			if kind == "" {
				return
			}
			okT := onlyErrorReturnsFrom(i.Block().Succs[badSucc])
			// every success return is reached through the passing edge of this test
			eachInstr(sanityFn, func(x ssa.Instruction) {
				if rt, ok := x.(*ssa.Return); ok {
					if n, has := retErrNil(rt); has && n && !edgeDominates(i.Block(), 1-badSucc, x.Block()) {
						okT = false
					}
				}
			})
			tests[kind] = okT
		})
		for _, k := range []string{"template known", "field count equal", "minimum length"} {
			ok, present := tests[k]
			r.Check(present && ok, "R-GATE.sanity-tests", fnKey(sanityFn)+": test '"+k+"'", p.pos(sanityFn.Pos()), "present, failing edge returns an error",
				"the test is missing, its failing edge does not return an error, or the check can return success without passing it (e.g. an early return in one configuration): data sets for unknown templates / wrong field counts are transmitted", true)
		}
	}
	// undefined set type: SendSet refuses it first, and a reset set always has it
	okUndef := false
	if i := ifOf(ss.Blocks[0]); i != nil {
		for _, cf := range cmpForms(i.Cond) {
			if c, ok := cf.X.(*ssa.Call); ok && cf.Op == token.EQL && calleeName(&c.Call) == "iface:pkg/entities.Set.GetSetType" {
				if v, ok := constInt(cf.Y); ok && v == 255 && onlyErrorReturnsFrom(ss.Blocks[0].Succs[cf.Succ]) {
					okUndef = true
				}
			}
		}
	}
	r.Check(okUndef, "R-GATE.undefined-type", fnKey(ss)+": undefined set type refused first", p.pos(ss.Pos()), "GetSetType() == Undefined => error before anything else", "SendSet does not refuse a set of undefined type before doing anything else", true)
	checkResetOnAllPaths(p, r, "R-RESET", []string{"setType"})
	// (3) size gate
	var cm *ssa.Function
	if bi := msgBuilder(p); bi != nil {
		cm = bi.fn
	}
	if cm == nil {
		r.Undecided("R-GATE.size", "anchor: the IPFIX message builder", "pkg/exporter/msg.go", "function not found")
	} else {
		maxSz, _ := pkgConst(p, modPath+"/pkg/entities", "MaxSocketMsgSize")
		hdr, _ := pkgConst(p, modPath+"/pkg/entities", "MsgHeaderLength")
		var ms *ssa.MakeSlice
		eachInstr(cm, func(in ssa.Instruction) {
			if m, ok := in.(*ssa.MakeSlice); ok {
				ms = m
			}
		})
		isMsgLen := func(v ssa.Value) bool {
			b, ok := v.(*ssa.BinOp)
			if !ok || b.Op != token.ADD {
				return false
			}
			x, y := b.X, b.Y
			if _, ok := constInt(x); !ok {
				x, y = y, x
			}
			c, ok1 := constInt(x)
			call, ok2 := y.(*ssa.Call)
			return ok1 && ok2 && c == hdr && calleeName(&call.Call) == "iface:pkg/entities.Set.GetSetLength"
		}
		okGate := false
		why := "no comparison of MsgHeaderLength + set.GetSetLength() with MaxSocketMsgSize found"
		eachInstr(cm, func(in ssa.Instruction) {
			i, ok := in.(*ssa.If)
			if !ok {
				return
			}
			f, ok := factOf(i.Cond, true)
			if !ok {
				return
			}
			x, op, y := f.X, f.Op, f.Y
			if isMsgLen(y) {
				x, y, op = y, x, flipOp(op)
			}
			if !isMsgLen(x) {
				return
			}
			c, ok := constInt(y)
			if !ok {
				return
			}
			// error edge taken exactly when len > max
			errSucc := -1
			switch {
			case op == token.GTR && c == maxSz, op == token.GEQ && c == maxSz+1:
				errSucc = 0
			case op == token.LEQ && c == maxSz, op == token.LSS && c == maxSz+1:
				errSucc = 1
			default:
				why = fmt.Sprintf("the message length is compared with %s %d: the accepted set is not exactly 'length <= %d'", op, c, maxSz)
				return
			}
			if !onlyErrorReturnsFrom(i.Block().Succs[errSucc]) {
				why = "the oversize edge does not return an error"
				return
			}
			if ms == nil || !edgeDominates(i.Block(), 1-errSucc, ms.Block()) || ms.Len != x {
				why = "the message buffer is not allocated with the checked length on the accepted edge"
				return
			}
			okGate = true
		})
		r.Check(okGate, "R-GATE.size", fnKey(cm)+": size gate", p.pos(cm.Pos()), fmt.Sprintf("error <=> %d + set.GetSetLength() > %d; the buffer of that length is allocated only on the accepted edge", hdr, maxSz), why, true)
	}
	// (4) write only what CreateIPFIXMsg returned without error
	for _, wc := range writeCalls {
		f := wc.Parent()
		c := callOf(wc)
		if len(c.Args) != 1 {
			continue
		}
		ex, ok := c.Args[0].(*ssa.Extract)
		if !ok {
			continue // the JSON writer sends an encoder buffer; covered by R-OWNER only
		}
		call, ok := ex.Tuple.(*ssa.Call)
		if !ok || cm == nil || call.Call.StaticCallee() != cm {
			continue
		}
		okW := false
		for _, e := range extractOf(call, 1) {
			for _, fct := range blockFacts(wc.Block()) {
				if fct.X == ssa.Value(e) && fct.Op == token.EQL {
					if cst, ok := fct.Y.(*ssa.Const); ok && cst.IsNil() {
						okW = true
					}
				}
			}
		}
		r.Check(okW && ex.Index == 0, "R-GATE.write", fnKey(f)+": Write of the built message", p.instrPos(wc), "only on the err == nil edge of CreateIPFIXMsg, given exactly its result",
			"the connection is written although CreateIPFIXMsg may have failed (or something other than its result is written)", true)
	}
	// (5) template registered only after a successful send
	nUpd := 0
	eachInstr(ss, func(in ssa.Instruction) {
		c, ok := in.(*ssa.Call)
		if !ok {
			return
		}
		sc := c.Call.StaticCallee()
		if sc == nil || !writesTemplatesMap(sc) {
			return
		}
		nUpd++
		okAfter := false
		for _, fct := range blockFacts(in.Block()) {
			if fct.Op != token.EQL {
				continue
			}
			cst, ok := fct.Y.(*ssa.Const)
			if !ok || !cst.IsNil() {
				continue
			}
			// fct.X is (a phi over) the error results of the sends
			var leaves []ssa.Value
			if ph, ok := fct.X.(*ssa.Phi); ok {
				leaves = ph.Edges
			} else {
				leaves = []ssa.Value{fct.X}
			}
			covers := 0
			for _, s := range sends {
				for _, e := range extractOf(s, 1) {
					for _, l := range leaves {
						if l == ssa.Value(e) {
							covers++
						}
					}
				}
			}
			if covers == len(sends) {
				okAfter = true
			}
		}
		r.Check(okAfter, "R-GATE.register-after-send", fnKey(ss)+": updateTemplate before the send succeeded", p.instrPos(in),
			"the template map is updated only on the err == nil edge of the send",
			"a template is registered before (or regardless of) the outcome of the send: if the template message fails (e.g. too large) data sets for it still pass the sanity check and are transmitted without any template on the wire", true)
	})
	if nUpd == 0 {
		r.Undecided("R-GATE.register-after-send", "anchor: template registration in SendSet", p.pos(ss.Pos()), "SendSet does not call a function that inserts into templatesMap")
	}
	// (6) fidelity
	enc := p.Fn("pkg/entities.encodeInfoElementValueToBuff")
	if enc == nil {
		r.Undecided("R-ERR.fidelity", "anchor: encodeInfoElementValueToBuff", "pkg/entities/ie.go", "function not found")
		return
	}
	for _, cs := range g.callers[enc] {
		c, ok := cs.(*ssa.Call)
		if !ok {
			continue
		}
		prop := errEdgeReturns(c)
		if !prop {
			for _, ref := range refs(c) {
				if _, ok := ref.(*ssa.Return); ok {
					prop = true
				}
			}
		}
		r.Check(prop, "R-ERR.fidelity", fnKey(cs.Parent())+": error of encodeInfoElementValueToBuff", p.instrPos(cs), "propagated to the caller",
			"the encoder's error (value cannot be encoded for its element: wrong address family, wrong fixed length, too long) is not propagated: the record is sent with a silently altered (zero) field and SendSet reports success", true)
	}
	checkEncoderCopies(p, r, enc)
	// what the encoder writes per data type (C15's table agreement, encoder side): a value that the element type allows
	// must not be refused or written in another form
	codecAgreement(p, r, "R-ERR.codec", "enc")
}

func writesTemplatesMap(f *ssa.Function) bool {
	found := false
	eachInstr(f, func(in ssa.Instruction) {
		if mu, ok := in.(*ssa.MapUpdate); ok {
			if tn, fn, _, ok := loadedField(mu.Map); ok && tn+"."+fn == "pkg/exporter.ExportingProcess.templatesMap" {
				found = true
			}
		}
	})
	return found
}

// checkEncoderCopies: every copy() of a caller-supplied byte value into the record buffer is preceded by a test of
// the source.
func checkEncoderCopies(p *Prog, r *Report, enc *ssa.Function) {
	// on every path from the entry to the copy, a branch has tested the source (nil test or a test of its length) -
	// the test may sit in a helper spliced back by the normaliser, and then it does not dominate the copy: paths decide
	type site struct {
		construct, tested string
		untested          bool
	}
	sites := map[ssa.Instruction]*site{}
	var order []ssa.Instruction
	w := &absWalker{MaxPaths: 20000}
	w.OnInstr = func(st *absState, in ssa.Instruction) {
		c, ok := in.(*ssa.Call)
		if !ok {
			return
		}
		b, ok := c.Call.Value.(*ssa.Builtin)
		if !ok || b.Name() != "copy" {
			return
		}
		origin := ""
		var srcVal ssa.Value = st.resolve(c.Call.Args[1])
		for i := 0; i < 4; i++ {
			switch x := srcVal.(type) {
			case *ssa.Call:
				origin = calleeName(&x.Call)
			case *ssa.Convert:
				srcVal = st.resolve(x.X)
				continue
			case *ssa.Slice:
				if _, ok := x.X.(*ssa.Alloc); ok {
					origin = "literal"
				}
			}
			break
		}
		if origin == "" || origin == "literal" {
			return
		}
		sx := sites[in]
		if sx == nil {
			short := origin[strings.LastIndex(origin, ".")+1:]
			sx = &site{construct: fmt.Sprintf("%s: copy of %s into the record buffer", fnKey(enc), short)}
			sites[in] = sx
			order = append(order, in)
		}
		k := st.key(srcVal)
		tested := ""
		if isNil, ok := st.bools["nil:"+k]; ok && !isNil {
			tested = "source tested for nil (To4/To16 return exactly 4/16 bytes or nil)"
		}
		lk := "len(" + k + ")"
		_, okLo := st.lo[lk]
		_, okHi := st.hi[lk]
		if okLo || okHi {
			tested = "source length tested"
		}
		for _, rel := range st.rels {
			if strings.Contains(rel, lk) {
				tested = "source length tested"
			}
		}
		if tested == "" {
			sx.untested = true
		} else {
			sx.tested = tested
		}
	}
	if len(enc.Blocks) > 0 {
		w.walk(newAbsState(), enc.Blocks[0], 0)
	}
	if w.Overflow || w.Looped {
		r.Undecided("R-ERR.encoder-copy", "anchor: paths of the encoder", p.pos(enc.Pos()), "the encoder is not a loop-free decision any more")
		return
	}
	n := len(order)
	for _, in := range order {
		sx := sites[in]
		r.Check(!sx.untested && sx.tested != "", "R-ERR.encoder-copy", sx.construct, p.instrPos(in), sx.tested,
			"a caller-supplied byte value is copied into its fixed-width slot without any test of its length: a value of the wrong length is silently truncated / zero-padded instead of yielding an error", true)
	}
	if n < 4 {
		r.Undecided("R-ERR.encoder-copy", "anchor: raw copies in the encoder", p.pos(enc.Pos()), fmt.Sprintf("only %d found", n))
	}
}

// checkConnWriters: exactly the IPFIX and the JSON send sites call Write on ExportingProcess.connToCollector.
func checkConnWriters(p *Prog, r *Report, rule, consequence string) ([]*ssa.Function, []ssa.Instruction) {
	// writers: functions that invoke Write on connToCollector
	var writers []*ssa.Function
	var writeCalls []ssa.Instruction
	for _, f := range p.RepoFns {
		if !keyInPkg(fnKey(f), "pkg/exporter") {
			continue
		}
		eachInstr(f, func(in ssa.Instruction) {
			c := callOf(in)
			if c == nil || !c.IsInvoke() || c.Method.Name() != "Write" {
				return
			}
			if tn, fn, _, ok := loadedField(c.Value); ok && tn+"."+fn == "pkg/exporter.ExportingProcess.connToCollector" {
				writeCalls = append(writeCalls, in)
				found := false
				for _, w := range writers {
					if w == f {
						found = true
					}
				}
				if !found {
					writers = append(writers, f)
				}
			}
		})
	}
	r.Check(len(writers) == 2 && len(writeCalls) == 2, rule, "pkg/exporter: writers of connToCollector", "pkg/exporter/process.go",
		fmt.Sprintf("%d write call sites in %d functions (the IPFIX and the JSON send)", len(writeCalls), len(writers)),
		fmt.Sprintf("expected exactly the IPFIX and JSON send sites, found %d write calls in %d functions: %s", len(writeCalls), len(writers), consequence), true)

	return writers, writeCalls
}
