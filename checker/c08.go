package main

import (
	"fmt"
	"go/token"
	"go/types"
	"strings"

	"golang.org/x/tools/go/ssa"
)

func init() {
	register(&propDef{
		ID:          "C08",
		Explanation: "Ownership and value-identity rules for the exporter's sequence number and header bookkeeping, decided on SSA: (1) seqNumber has type uint32 (wrap-around is the type's) and is written only by the constructor (0) and by the one function that builds and writes IPFIX messages; (2) in that function the sequence number handed to CreateIPFIXMsg is F0 (the field at entry, plain or atomic load) on the non-data edge and F0 + set.GetNumberOfRecords() on the edge guarded by set.GetSetType() == Data, and the field is updated to exactly that value (atomic.AddUint32 or a plain store of the same sum) - templates never advance it, the header is built from the post-increment value; (3) CreateIPFIXMsg forwards its parameters unmodified: SetSequenceNum(seqNumber), SetObsDomainID(obsDomainID), SetExportTime(uint32(exportTime.Unix())), SetVersion(10); the export time is time.Now() evaluated in the send function at the call; the observation domain is ExportingProcess.obsDomainID, written only by the constructor from the caller's ObservationDomainID; (4) exactly one Write per call, outside any loop, given the whole built slice; the success return is Write's count on the edge where err == nil and count == len(slice); (5) imported from C14: no ExportingProcess field (e.g. a cached message buffer) is shared unsynchronised between the refresher goroutine and the API, which would let a refresh overwrite a message between build and Write. Not decided: the running equality over a whole session (follows by induction from the decided step), failed sends. Later additions: sender and stamping helper are separate roles (a helper may build the message, called exactly once, returning the builder's result); the header length equals the buffer written (C02's assembly rule). Round-six additions: every modification of the sequence number in the send function is under the data-set guard. Round-seven addition (imported from C09): only the IPFIX and JSON send sites write to the connection, so no cached, already stamped message is sent again with a stale sequence number.",
		Assume:      []string{"sync/atomic.AddUint32 returns the new value", "net.Conn.Write semantics", "time.Now is wall-clock"},
		Run:         runC08,
	})
}

// msgBuilder finds, by role, the function of pkg/exporter that stamps the IPFIX header (calls Message.SetSequenceNum) and the
// positions of its sequence-number, observation-domain and export-time parameters.
type builderInfo struct {
	fn                *ssa.Function
	seq, obs, tm, set int
}

func msgBuilder(p *Prog) *builderInfo {
	for _, f := range p.RepoFns {
		if !keyInPkg(fnKey(f), "pkg/exporter") {
			continue
		}
		bi := &builderInfo{fn: f, seq: -1, obs: -1, tm: -1, set: -1}
		paramIdx := func(v ssa.Value) int {
			for i, pa := range f.Params {
				if ssa.Value(pa) == v {
					return i
				}
			}
			return -1
		}
		eachInstr(f, func(in ssa.Instruction) {
			c, ok := in.(*ssa.Call)
			if !ok {
				return
			}
			switch calleeName(&c.Call) {
			case "(*pkg/entities.Message).SetSequenceNum":
				bi.seq = paramIdx(c.Call.Args[1])
			case "(*pkg/entities.Message).SetObsDomainID":
				bi.obs = paramIdx(c.Call.Args[1])
			case "(*pkg/entities.Message).SetExportTime":
				if cv, ok := c.Call.Args[1].(*ssa.Convert); ok {
					if u, ok := cv.X.(*ssa.Call); ok && calleeName(&u.Call) == "(time.Time).Unix" {
						bi.tm = paramIdx(u.Call.Args[0])
					}
				}
			case "iface:pkg/entities.Set.GetSetLength":
				bi.set = paramIdx(c.Call.Value)
			}
		})
		if bi.tm < 0 {
			for i, pa := range f.Params {
				if typeName(pa.Type()) == "time.Time" {
					bi.tm = i
				}
			}
		}
		if bi.seq >= 0 && bi.obs >= 0 && bi.tm >= 0 && bi.set >= 0 {
			return bi
		}
	}
	return nil
}

// ipfixSender returns the function of pkg/exporter that calls the message builder and writes the result to the
// connection, the call, and the builder.
func ipfixSender(p *Prog) (*ssa.Function, *ssa.Call, *builderInfo) {
	s, _, c, bi := ipfixSenderEx(p)
	return s, c, bi
}

// ipfixSenderEx finds, by role, the function that writes the IPFIX message to the connection (sender) and the function
// that calls the message builder with the sequence number (stamper): the same function, or a helper the sender calls.
func ipfixSenderEx(p *Prog) (sender, stamper *ssa.Function, call *ssa.Call, bi *builderInfo) {
	bi = msgBuilder(p)
	if bi == nil {
		return nil, nil, nil, nil
	}
	hasWrite := func(f *ssa.Function) bool {
		w := false
		eachInstr(f, func(in ssa.Instruction) {
			if c, ok := in.(*ssa.Call); ok && c.Call.IsInvoke() && c.Call.Method.Name() == "Write" {
				w = true
			}
		})
		return w
	}
	g := p.CallGraph()
	for _, cs := range g.callers[bi.fn] {
		c, ok := cs.(*ssa.Call)
		if !ok || !keyInPkg(fnKey(cs.Parent()), "pkg/exporter") {
			continue
		}
		if hasWrite(cs.Parent()) {
			return cs.Parent(), cs.Parent(), c, bi
		}
	}
	for _, cs := range g.callers[bi.fn] {
		c, ok := cs.(*ssa.Call)
		if !ok || !keyInPkg(fnKey(cs.Parent()), "pkg/exporter") {
			continue
		}
		for _, cs2 := range g.callers[cs.Parent()] {
			if keyInPkg(fnKey(cs2.Parent()), "pkg/exporter") && hasWrite(cs2.Parent()) {
				return cs2.Parent(), cs.Parent(), c, bi
			}
		}
	}
	return nil, nil, nil, bi
}

func isSeqField(v ssa.Value) bool {
	tn, fn, _, ok := fieldOf(v)
	return ok && tn+"."+fn == "pkg/exporter.ExportingProcess.seqNumber"
}

// seqLoad: v is a read of the field (plain load or atomic.LoadUint32)
func isSeqLoad(v ssa.Value) bool {
	switch x := v.(type) {
	case *ssa.UnOp:
		return x.Op == token.MUL && isSeqField(x.X)
	case *ssa.Call:
		return calleeName(&x.Call) == "sync/atomic.LoadUint32" && isSeqField(x.Call.Args[0])
	}
	return false
}

func runC08(p *Prog, r *Report, tier string) {
	st := p.structType("pkg/exporter", "ExportingProcess")
	if st == nil {
		r.Undecided("R-OWNER.seq", "anchor: ExportingProcess", "pkg/exporter/process.go", "struct not found")
		return
	}
	for i := 0; i < st.NumFields(); i++ {
		if st.Field(i).Name() == "seqNumber" {
			b, ok := st.Field(i).Type().Underlying().(*types.Basic)
			r.Check(ok && b.Kind() == types.Uint32, "R-VALUE.seq-type", "pkg/exporter.ExportingProcess.seqNumber: type", p.pos(st.Field(i).Pos()), "uint32: arithmetic wraps modulo 2^32",
				"the sequence number is not a uint32: it does not wrap modulo 2^32 as RFC 7011 requires", false)
		}
	}
	sender, stamper, cmCall, bi := ipfixSenderEx(p)
	if sender == nil {
		r.Undecided("R-VALUE.seq", "anchor: the function that builds the IPFIX message and writes it", "pkg/exporter/process.go", "not found (no function stamps the header from parameters and no caller of it writes to the connection)")
		checkSharing(p, r, "R-SHARE", "pkg/exporter", "ExportingProcess", map[string]string{
			"pkg/exporter.ExportingProcess.jsonBufferLen": "written once by the constructor, read only on the Data/JSON path which no background goroutine takes",
		}, heldLocks(p))
		return
	}
	// (1) writers
	for _, f := range p.RepoFns {
		if !keyInPkg(fnKey(f), "pkg/exporter") {
			continue
		}
		for _, a := range p.fieldAccesses(f, "pkg/exporter.ExportingProcess") {
			if a.Field != "seqNumber" || !a.Write {
				continue
			}
			ok := f == sender || f == stamper || a.Constr
			r.Check(ok, "R-OWNER.seq", fnKey(f)+": writes seqNumber", p.instrPos(a.In), "constructor or the IPFIX send function", "a function other than the constructor and the IPFIX send function modifies the sequence number", true)
		}
	}
	// (2) value handed to CreateIPFIXMsg
	seqArg := cmCall.Call.Args[bi.seq]
	var set ssa.Value
	for _, prm := range stamper.Params {
		if typeName(prm.Type()) == "pkg/entities.Set" {
			set = prm
		}
	}
	construct := fnKey(stamper) + ": sequence number in the header"
	why := ""
	isNRec := func(v ssa.Value) bool {
		c, ok := v.(*ssa.Call)
		return ok && calleeName(&c.Call) == "iface:pkg/entities.Set.GetNumberOfRecords" && c.Call.Value == ssa.Value(set)
	}
	dataEdge := func(b *ssa.BasicBlock) (bool, bool) { // (isData, decided)
		for _, fct := range blockFacts(b) {
			if c, ok := fct.X.(*ssa.Call); ok && calleeName(&c.Call) == "iface:pkg/entities.Set.GetSetType" && c.Call.Value == ssa.Value(set) {
				if v, ok := constInt(fct.Y); ok && v == 1 {
					if fct.Op == token.EQL {
						return true, true
					}
					if fct.Op == token.NEQ {
						return false, true
					}
				}
			}
		}
		return false, false
	}
	ph, isPhi := seqArg.(*ssa.Phi)
	switch {
	case isPhi && len(ph.Edges) == 2:
		var plain, inc ssa.Value
		for _, e := range ph.Edges {
			if isSeqLoad(e) {
				plain = e
			} else {
				inc = e
			}
		}
		if plain == nil || inc == nil {
			why = "the header value is not 'field unchanged' on one edge and 'field + records' on the other"
			break
		}
		// inc: atomic.AddUint32(&seq, n) or plain sum stored back
		switch x := inc.(type) {
		case *ssa.Call:
			if calleeName(&x.Call) != "sync/atomic.AddUint32" || !isSeqField(x.Call.Args[0]) || !isNRec(x.Call.Args[1]) {
				why = "the increment is not atomic.AddUint32(&seqNumber, set.GetNumberOfRecords())"
			}
			if d, ok := dataEdge(x.Block()); !ok || !d {
				why = "the increment is not guarded by set.GetSetType() == Data: template messages would advance the sequence number"
			}
		case *ssa.BinOp:
			okSum := x.Op == token.ADD && ((isSeqLoad(x.X) && isNRec(x.Y)) || (isSeqLoad(x.Y) && isNRec(x.X)))
			stored := false
			for _, ref := range refs(x) {
				if s, ok := ref.(*ssa.Store); ok && isSeqField(s.Addr) {
					stored = true
				}
			}
			if !okSum || !stored {
				why = "the incremented value is not field + set.GetNumberOfRecords() stored back into the field"
			}
			if d, ok := dataEdge(x.Block()); !ok || !d {
				why = "the increment is not guarded by set.GetSetType() == Data"
			}
		default:
			why = "unrecognised increment expression"
		}
	case isSeqLoad(seqArg):
		// plain form: "if data { f = f + n }; CreateIPFIXMsg(..., f, ...)": the load must come after the guarded store
		var store *ssa.Store
		eachInstr(stamper, func(in ssa.Instruction) {
			if s, ok := in.(*ssa.Store); ok && isSeqField(s.Addr) {
				store = s
			}
		})
		if store == nil {
			why = "the sequence number field is never advanced"
			break
		}
		b, ok := store.Val.(*ssa.BinOp)
		if !ok || b.Op != token.ADD || !((isSeqLoad(b.X) && isNRec(b.Y)) || (isSeqLoad(b.Y) && isNRec(b.X))) {
			why = "the field is not advanced by exactly set.GetNumberOfRecords()"
		}
		if d, ok := dataEdge(store.Block()); !ok || !d {
			why = "the increment is not guarded by set.GetSetType() == Data"
		}
		if ld, ok := seqArg.(ssa.Instruction); ok && !reachable(store, ld, nil) {
			why = "the header is built from the pre-increment value"
		}
	default:
		why = "the sequence number passed to CreateIPFIXMsg has an unrecognised shape"
	}
	// every modification of the field in the send function happens for data sets only (a second adjustment - a roll-back on
	// failure, say - that is not under the same guard changes the number for template messages)
	eachInstr(stamper, func(in ssa.Instruction) {
		mod := false
		switch x := in.(type) {
		case *ssa.Store:
			mod = isSeqField(x.Addr)
		case *ssa.Call:
			n := calleeName(&x.Call)
			if strings.HasPrefix(n, "sync/atomic.") && !strings.HasPrefix(n, "sync/atomic.Load") && len(x.Call.Args) > 0 && isSeqField(x.Call.Args[0]) {
				mod = true
			}
		}
		if !mod {
			return
		}
		d, ok := dataEdge(in.Block())
		r.Check(ok && d, "R-VALUE.seq", fnKey(stamper)+": modification of the sequence number", p.instrPos(in), "under set.GetSetType() == Data",
			"the sequence number is modified on a path that template sets take too: template messages (or their failures) change the number of data records accounted for", true)
	})
	r.Check(why == "", "R-VALUE.seq", construct, p.instrPos(cmCall), "F0 on the template edge, F0 + set.GetNumberOfRecords() (and the field updated to it) on the Data edge", why, true)

	// (3) stamping
	checkHeaderStamping(p, r, "R-VALUE.stamp")
	okNow := false
	if c, ok := cmCall.Call.Args[bi.tm].(*ssa.Call); ok && calleeName(&c.Call) == "time.Now" && c.Block() == cmCall.Block() {
		okNow = true
	}
	r.Check(okNow, "R-VALUE.export-time", fnKey(sender)+": export time argument", p.instrPos(cmCall), "time.Now() evaluated at the call", "the export time is not time.Now() taken when the message is built (cached or foreign time)", true)
	tn, fn, _, okF := loadedField(cmCall.Call.Args[bi.obs])
	r.Check(okF && tn+"."+fn == "pkg/exporter.ExportingProcess.obsDomainID", "R-VALUE.obs-domain", fnKey(sender)+": observation domain argument", p.instrPos(cmCall), "ExportingProcess.obsDomainID",
		"the observation domain in the header is not the configured ExportingProcess.obsDomainID", true)
	for _, f := range p.RepoFns {
		for _, a := range p.fieldAccesses(f, "pkg/exporter.ExportingProcess") {
			if a.Field == "obsDomainID" && a.Write {
				okC := a.Constr
				if st, ok := a.In.(*ssa.Store); ok && okC {
					t2, f2, _, isF := loadedField(st.Val)
					okC = isF && t2+"."+f2 == "pkg/exporter.ExporterInput.ObservationDomainID"
				}
				r.Check(okC, "R-OWNER.obs-domain", fnKey(f)+": writes obsDomainID", p.instrPos(a.In), "constructor, from input.ObservationDomainID", "the observation domain is set from something other than the caller's ObservationDomainID, or after construction", true)
			}
		}
	}
	// (4) one write, not in a loop, whole slice, count returned
	var writes []*ssa.Call
	eachInstr(sender, func(in ssa.Instruction) {
		if c, ok := in.(*ssa.Call); ok && c.Call.IsInvoke() && c.Call.Method.Name() == "Write" {
			writes = append(writes, c)
		}
	})
	okOne := len(writes) == 1
	whyW := fmt.Sprintf("%d Write calls in the send function (exactly one message per SendSet is required)", len(writes))
	if okOne {
		w := writes[0]
		if inLoop(w.Block()) {
			okOne, whyW = false, "the Write is inside a loop: more than one write per message"
		}
		var msgTuple ssa.Value = cmCall
		if stamper != sender {
			// helper form: the sender calls the stamping helper exactly once (each call advances the sequence number) and the
			// helper hands back the builder's result
			hcalls := callsToFn(sender, stamper)
			switch {
			case len(hcalls) != 1:
				okOne, whyW = false, fmt.Sprintf("the send function calls %s %d times: every call advances the sequence number again although one message is written", stamper.Name(), len(hcalls))
			case inLoop(hcalls[0].Block()):
				okOne, whyW = false, "the stamping helper is called in a loop"
			default:
				msgTuple = hcalls[0].(ssa.Value)
				eachInstr(stamper, func(in ssa.Instruction) {
					rt, ok := in.(*ssa.Return)
					if !ok || len(rt.Results) == 0 {
						return
					}
					if cst, ok := rt.Results[0].(*ssa.Const); ok && cst.IsNil() {
						return
					}
					ex, ok := rt.Results[0].(*ssa.Extract)
					if !ok || ex.Tuple != ssa.Value(cmCall) || ex.Index != 0 {
						okOne, whyW = false, "the stamping helper does not return the message built by CreateIPFIXMsg"
					}
				})
			}
		}
		if okOne {
			ex, ok := w.Call.Args[0].(*ssa.Extract)
			if !ok || ex.Tuple != msgTuple || ex.Index != 0 {
				okOne, whyW = false, "the Write is not given the whole slice returned by CreateIPFIXMsg"
			}
		}
	}
	r.Check(okOne, "R-VALUE.one-write", fnKey(sender)+": exactly one Write of the whole message", p.pos(sender.Pos()), "one Write, outside any loop, of CreateIPFIXMsg's result", whyW, true)
	if okOne {
		w := writes[0]
		// on every path that returns a nil error the count returned is Write's own first result, the path knows Write's
		// error to be nil and the count to equal len(message) - decided on enumerated paths, so that the Write and its
		// two tests may sit in a helper that was spliced back (its results then arrive merged at the return)
		okRet := true
		nSucc := 0
		var ex0, ex1 *ssa.Extract
		for _, e := range extractOf(w, 0) {
			ex0 = e
		}
		for _, e := range extractOf(w, 1) {
			ex1 = e
		}
		wk := &absWalker{MaxPaths: 8192}
		wk.OnEnd = func(st *absState, last ssa.Instruction) {
			rt, ok := last.(*ssa.Return)
			if !ok || len(rt.Results) < 2 {
				return
			}
			isNil, known := st.nilness(rt.Results[len(rt.Results)-1])
			if known && !isNil {
				return
			}
			if !known || ex0 == nil || ex1 == nil {
				okRet = false
				return
			}
			nSucc++
			if st.resolve(rt.Results[0]) != ssa.Value(ex0) {
				okRet = false
				return
			}
			errNil := false
			if v, ok := st.bools["nil:"+st.key(ex1)]; ok && v {
				errNil = true
			}
			eqLen := false
			lk := "len(" + st.key(w.Call.Args[0]) + ")"
			ck := st.key(ex0)
			for _, rel := range st.rels {
				if rel == ck+"+0 == "+lk+"+0" || rel == lk+"+0 == "+ck+"+0" {
					eqLen = true
				}
			}
			if !errNil || !eqLen {
				okRet = false
			}
		}
		if len(sender.Blocks) > 0 {
			wk.walk(newAbsState(), sender.Blocks[0], 0)
		}
		okRet = okRet && nSucc > 0 && !wk.Overflow && !wk.Looped
		r.Check(okRet, "R-VALUE.byte-count", fnKey(sender)+": success return value", p.pos(sender.Pos()), "Write's count, on the edge err == nil && count == len(message)",
			"a success return does not report Write's own byte count under 'no error and complete write'", true)
	}
	checkSetAccessors(p, r, "R-VALUE.set-accessors")
	// header bookkeeping: the length field of the header is the size of the one buffer that is written (C02's rule)
	checkMsgAssembly(p, r)
	// imported from C09: every byte that reaches the connection is written by the one function that stamps the header
	// (a refresher re-sending cached message bytes carries the sequence number of the moment the cache was filled)
	checkConnWriters(p, r, "R-OWNER.write", "bytes written elsewhere (e.g. a cached, already stamped message that is sent again) carry a sequence number and export time that were not computed for this send")
	// (5) imported sharing rule
	checkSharing(p, r, "R-SHARE", "pkg/exporter", "ExportingProcess", map[string]string{
		"pkg/exporter.ExportingProcess.jsonBufferLen": "written once by the constructor, read only on the Data/JSON path which no background goroutine takes",
	}, heldLocks(p))
}

// checkHeaderStamping: CreateIPFIXMsg passes its parameters unmodified to the header setters.
func checkHeaderStamping(p *Prog, r *Report, rule string) {
	bi := msgBuilder(p)
	if bi == nil {
		r.Undecided(rule, "anchor: the function that stamps the IPFIX header from its parameters", "pkg/exporter/msg.go", "no function of pkg/exporter passes parameters to SetSequenceNum / SetObsDomainID / SetExportTime")
		return
	}
	cm := bi.fn
	want := map[string]func(v ssa.Value) bool{
		"SetVersion":     func(v ssa.Value) bool { c, ok := constInt(v); return ok && c == 10 },
		"SetObsDomainID": func(v ssa.Value) bool { return v == ssa.Value(cm.Params[bi.obs]) },
		"SetSequenceNum": func(v ssa.Value) bool { return v == ssa.Value(cm.Params[bi.seq]) },
		"SetExportTime": func(v ssa.Value) bool {
			cv, ok := v.(*ssa.Convert)
			if !ok {
				return false
			}
			c, ok := cv.X.(*ssa.Call)
			return ok && calleeName(&c.Call) == "(time.Time).Unix" && c.Call.Args[0] == ssa.Value(cm.Params[bi.tm])
		},
	}
	seen := map[string]bool{}
	var msg ssa.Value
	eachInstr(cm, func(in ssa.Instruction) {
		c, ok := in.(*ssa.Call)
		if !ok {
			return
		}
		n := calleeName(&c.Call)
		if !strings.HasPrefix(n, "(*pkg/entities.Message).Set") {
			return
		}
		m := strings.TrimPrefix(n, "(*pkg/entities.Message).")
		if msg == nil {
			msg = c.Call.Args[0]
		}
		if chk, ok := want[m]; ok {
			seen[m] = true
			r.Check(chk(c.Call.Args[1]) && c.Call.Args[0] == msg, rule, fnKey(cm)+": "+m+" argument", p.instrPos(in), "the corresponding parameter, unmodified",
				m+" is not given CreateIPFIXMsg's own parameter (or the constant 10 / uint32(exportTime.Unix()))", true)
		}
	})
	for m := range want {
		if !seen[m] {
			r.Violation(rule, fnKey(cm)+": "+m+" argument", p.pos(cm.Pos()), "the header field is never set")
		}
	}
}

// callsToFn lists the call instructions in f whose static callee is g.
func callsToFn(f, g *ssa.Function) []ssa.Instruction {
	var out []ssa.Instruction
	eachInstr(f, func(in ssa.Instruction) {
		if c := callOf(in); c != nil && c.StaticCallee() == g {
			out = append(out, in)
		}
	})
	return out
}
