package main

import (
	"fmt"
	"go/constant"
	"go/token"
	"go/types"
	"sort"
	"strings"

	"golang.org/x/tools/go/ssa"
)

func init() {
	register(&propDef{
		ID:          "C05",
		Explanation: "The aggregation arithmetic is decided as an inductive invariant whose base (first record) and step (each later record) are recognised as dataflow shapes - every value handed to a SetUnsigned64Value/SetUnsigned32Value in the aggregation functions is rendered as a normal-form expression over (incoming element, existing element, list index) together with the branch conditions that guard it, and compared with the expected form: step: under isDelta (= strings.Contains(name, \"Delta\")) the per-node field := IN + EX, otherwise := IN and the octet-total diff := IN - EX of that node's field; throughput := (diff * 8) / uint64(incomingEnd - prevEnd) with the early return 'incomingEnd <= prevEnd' dominating the division (no division by zero); the flow's end time := IN only when IN >= EX (isLatest); every update of a COMMON field (stats and throughput) is guarded by isLatest, totals only grow, common deltas copy the reporting node's sum; prevEnd is that node's own previous end, or the INCOMING record's start on the node's first record; base: per-node stat fields seeded with the incoming value iff that node reports (else 0), throughput seeded (octetTotal * 8) / uint64(end - start) only when end > start; reset: ResetValue reaches stats fields only under isDelta and the three throughput lists; R-KEY: every field of FlowKey is assigned from the element of the matching name, the map is keyed by the FlowKey value (comparable struct of basic fields), insertions happen only in addOrUpdateRecordInMap; R-GETTER on every constant element name used in pkg/intermediate. Typed getters on constant element names are also checked through the getUnsignedNNValueByIeName helpers (name passed as a parameter). Not decided: numeric results for concrete histories, the runtime-configured element lists (names are data; only the Delta predicate and the list pairing by index are visible), overflow. If the arithmetic is rewritten in a form the normaliser does not recognise the obligation is reported as unrecognised. Later additions: every update happens under exactly the conditions named (R-VALUE.exact), tcpState follows the latest record, the (fillSrc, fillDst) pair of each call matches its branch, an accepted record is always applied (nil only after the map insertion), error returns of the step only for a missing element, the quotient is computed on uint64. Round-five additions: exactness also covers tests that decide whether an update is reached without dominating it (a continue on one arm of a compound condition). Round-six additions: every element the step updates is looked up in the aggregated record by name; the previous-end helper is found by its role (the function whose result is subtracted from the incoming end time). Round-seven addition: every element the aggregation process attaches to a record is made by an element constructor on every path (never taken from a map, field or parameter), because stored records are updated in place.",
		Assume:      []string{"unsigned 64-bit arithmetic does not overflow for real counters", "the element lists passed by the user pair up by index (checked by InitAggregationProcess)"},
		Run:         runC05,
	})
}

type setSite struct {
	in    *ssa.Call
	recv  string
	arg   string
	facts []string
}

func setSites(p *Prog, f *ssa.Function, method string) []setSite {
	var out []setSite
	eachInstr(f, func(in ssa.Instruction) {
		c, ok := in.(*ssa.Call)
		if !ok || !c.Call.IsInvoke() || c.Call.Method.Name() != method {
			return
		}
		out = append(out, setSite{c, p.nf(c.Call.Value), p.nf(c.Call.Args[0]), p.boolFacts(in.Block())})
	})
	return out
}

func runC05(p *Prog, r *Report, tier string) {
	agg := p.Fn("(*pkg/intermediate.AggregationProcess).aggregateRecords")
	if agg == nil {
		r.Undecided("R-VALUE.step", "anchor: aggregateRecords", "pkg/intermediate/aggregate.go", "not found")
		return
	}
	checkAddedElementsFresh(p, r, "R-OWNER.element-fresh")
	const IN = "GetUnsigned64Value(elem($incomingRecord, AggregationProcess.aggregateElements.StatsElements[i]))"
	const isDelta = `Contains(AggregationProcess.aggregateElements.StatsElements[i], "Delta")`
	perNode := func(side string) string {
		return "elem($existingRecord, AggregationProcess.aggregateElements.Aggregated" + side + "StatsElements[i])"
	}
	common := "elem($existingRecord, AggregationProcess.aggregateElements.StatsElements[i])"
	sites := setSites(p, agg, "SetUnsigned64Value")
	// the helper that yields the node's previous end time: the repository function whose result is subtracted from the
	// incoming record's flowEndSeconds in aggregateRecords (found by its role, not by its name)
	var prevEndFn *ssa.Function
	eachInstr(agg, func(in ssa.Instruction) {
		sub, ok := in.(*ssa.BinOp)
		if !ok || sub.Op != token.SUB || p.nf(sub.X) != `GetUnsigned32Value(elem($incomingRecord, "flowEndSeconds"))` {
			return
		}
		for _, lf := range phiLeaves(sub.Y, 6) {
			if cl, ok := lf.(*ssa.Call); ok && cl.Call.StaticCallee() != nil && keyInPkg(fnKey(cl.Call.StaticCallee()), "pkg/intermediate") {
				prevEndFn = cl.Call.StaticCallee()
			}
		}
	})
	prevEndName := "updateFlowEndSecondsFromNodes"
	if prevEndFn != nil {
		prevEndName = prevEndFn.Name()
	}
	r.Facts["aggregateRecords.SetUnsigned64Value"] = func() []string {
		var s []string
		for _, x := range sites {
			s = append(s, x.recv+" := "+x.arg+"  if "+strings.Join(x.facts, " && "))
		}
		return s
	}()
	// every element of the aggregated record that the step updates was looked up in THAT record by name: the position of a
	// field in the incoming record says nothing about the aggregated record (templates may order fields differently)
	for _, grp := range [][]setSite{sites, setSites(p, agg, "SetUnsigned32Value"), setSites(p, agg, "SetStringValue")} {
		for i := range grp {
			st := &grp[i]
			r.Check(strings.HasPrefix(st.recv, "elem($existingRecord, "), "R-VALUE.by-name", "aggregateRecords: updated element "+st.recv, p.instrPos(st.in),
				"existingRecord.GetInfoElementWithValue(<name>)", "the element that is updated is not obtained from the aggregated record by name (positional access, or an element of another record): with differently ordered templates another field is overwritten", true)
		}
	}
	// ---- per-node stats
	for _, side := range []string{"Source", "Destination"} {
		fill := map[string]string{"Source": "$fillSrcStats", "Destination": "$fillDstStats"}[side]
		rc := perNode(side)
		EX := "GetUnsigned64Value(" + rc + ")"
		var tot, dlt *setSite
		n := 0
		for i := range sites {
			s := &sites[i]
			if s.recv != rc {
				continue
			}
			n++
			switch {
			case hasFact(s.facts, "!"+isDelta):
				tot = s
			case hasFact(s.facts, isDelta):
				dlt = s
			}
		}
		cons := "aggregateRecords: per-node " + side + " stats field"
		pos := p.pos(agg.Pos())
		switch {
		case n != 2 || tot == nil || dlt == nil:
			r.Undecided("R-VALUE.step", cons, pos, fmt.Sprintf("expected one update under isDelta and one under !isDelta, found %d updates", n))
		default:
			r.Check(tot.arg == IN && hasFact(tot.facts, fill), "R-VALUE.step", cons+": total := incoming", p.instrPos(tot.in), "total counter := IN under "+fill,
				"a total counter of the reporting node is not set to the incoming value (got "+tot.arg+"): 'each total counter's latest value' is lost", true)
			want := "(" + minStr(IN, EX) + " + " + maxStr(IN, EX) + ")"
			r.Check(dlt.arg == want && hasFact(dlt.facts, fill), "R-VALUE.step", cons+": delta := incoming + existing", p.instrPos(dlt.in), "delta counter := IN + EX under "+fill,
				"a delta counter of the reporting node is not accumulated as incoming + existing (got "+dlt.arg+"): deltas are lost or double counted", true)
		}
		// diff = IN - EX for the octet totals of this node
		nd := 0
		eachInstr(agg, func(in ssa.Instruction) {
			b, ok := in.(*ssa.BinOp)
			if !ok || b.Op.String() != "-" || p.nf(b.X) != IN {
				return
			}
			if p.nf(b.Y) != EX {
				if strings.Contains(p.nf(b.Y), "Aggregated"+side) {
					r.Violation("R-VALUE.step", "aggregateRecords: octet-total growth of the "+side+" node", p.instrPos(in), "the growth is not IN - EX of the same per-node field (got IN - "+p.nf(b.Y)+")")
				}
				return
			}
			nd++
			okG := hasFact(p.boolFacts(in.Block()), "!"+isDelta)
			r.Check(okG, "R-VALUE.step", fmt.Sprintf("aggregateRecords: octet-total growth of the %s node #%d", side, nd), p.instrPos(in), "diff := IN - EX under !isDelta", "the growth of the octet total is taken for a delta counter", true)
		})
		if nd != 2 {
			r.Undecided("R-VALUE.step", "aggregateRecords: octet-total growth of the "+side+" node", pos, fmt.Sprintf("expected the forward and the reverse diff (IN - EX), found %d", nd))
		}
	}
	// ---- common stats field: all updates under isLatest
	isLatestVar := ""
	for i := range sites {
		s := &sites[i]
		if s.recv != common {
			continue
		}
		lat := ""
		for _, f := range s.facts {
			if strings.HasPrefix(f, "phi{") && strings.Contains(f, "true") && strings.Contains(f, "false") {
				lat = f
			}
		}
		if lat != "" {
			isLatestVar = lat
		}
		cons := "aggregateRecords: common stats field := " + s.arg
		r.Check(lat != "", "R-VALUE.step", cons, p.instrPos(s.in), "only when the incoming record carries the latest end time (isLatest)",
			"a common (flow-level) counter is updated by a record that is not the latest: the common fields no longer follow the node that reported the latest end time", true)
		switch {
		case hasFact(s.facts, "!"+isDelta):
			okT := s.arg == IN && hasFact(s.facts, "(GetUnsigned64Value("+common+") < "+IN+")")
			r.Check(okT, "R-VALUE.step", cons+" (total)", p.instrPos(s.in), "common total := IN only if it grows", "a common total counter is not 'max(existing, incoming)'", true)
		case hasFact(s.facts, isDelta):
			okD := (s.arg == "GetUnsigned64Value("+perNode("Source")+")" && hasFact(s.facts, "$fillSrcStats")) || (s.arg == "GetUnsigned64Value("+perNode("Destination")+")" && hasFact(s.facts, "$fillDstStats"))
			r.Check(okD, "R-VALUE.step", cons+" (delta)", p.instrPos(s.in), "common delta := the reporting node's accumulated delta", "a common delta counter is not copied from the reporting node's accumulated field", true)
		}
	}
	// ---- end times
	s32 := setSites(p, agg, "SetUnsigned32Value")
	okEnd := false
	for _, s := range s32 {
		if s.recv == `elem($existingRecord, "flowEndSeconds")` {
			inV := `GetUnsigned32Value(elem($incomingRecord, "flowEndSeconds"))`
			okEnd = s.arg == inV && hasFact(s.facts, "("+inV+" >= GetUnsigned32Value("+s.recv+"))")
		}
	}
	r.Check(okEnd, "R-VALUE.step", "aggregateRecords: flow end time := incoming only when incoming >= existing", p.pos(agg.Pos()), "latest end time kept", "the flow's end time is not 'the latest end time' (updated without the >= test, or from another value)", true)
	// ---- throughput
	nQ := 0
	eachInstr(agg, func(in ssa.Instruction) {
		b, ok := in.(*ssa.BinOp)
		if !ok || b.Op.String() != "/" {
			return
		}
		nQ++
		num, den := p.nf(b.X), p.nf(b.Y)
		inEnd := `GetUnsigned32Value(elem($incomingRecord, "flowEndSeconds"))`
		okNum := strings.HasPrefix(num, "(8 * ") && strings.Contains(num, "("+IN+" - GetUnsigned64Value(elem($existingRecord, AggregationProcess.aggregateElements.Aggregated")
		// exact integer arithmetic: the quotient is computed on uint64 operands (a float64 detour loses the low bits of
		// large counters, so the result is no longer 8 x growth / interval)
		if bt, ok := b.X.Type().Underlying().(*types.Basic); !ok || bt.Kind() != types.Uint64 {
			okNum = false
			num += " [computed in " + b.X.Type().String() + ", not uint64]"
		}
		okDen := strings.HasPrefix(den, "conv(") && strings.Contains(den, "("+inEnd+" - ") && strings.Contains(den, prevEndName+"(")
		// division guarded: the diff is computed on the edge incomingEnd > prevEnd
		guarded := false
		eachInstr(agg, func(x ssa.Instruction) {
			if sub, ok := x.(*ssa.BinOp); ok && sub.Op.String() == "-" && p.nf(sub.X) == inEnd {
				for _, f := range blockFacts(x.Block()) {
					if f.X == sub.X && f.Y == sub.Y && f.Op.String() == ">" {
						guarded = true
					}
				}
			}
		})
		r.Check(okNum && okDen && guarded, "R-VALUE.throughput", fmt.Sprintf("aggregateRecords: throughput #%d = diff*8 / uint64(incomingEnd - prevEnd)", nQ), p.instrPos(in),
			"(IN - EX) * 8 / conv(incomingEnd - prevEnd), the difference taken only on the edge incomingEnd > prevEnd",
			fmt.Sprintf("throughput is not 8 x the growth of the octet total divided by the growth of the end time, guarded against a zero interval (numerator %s, denominator %s, guarded=%v)", num, den, guarded), true)
	})
	if nQ != 2 {
		r.Undecided("R-VALUE.throughput", "aggregateRecords: throughput divisions", p.pos(agg.Pos()), fmt.Sprintf("expected forward and reverse throughput, found %d divisions", nQ))
	}
	// common throughput only when latest; per-node under fill flags
	for i := range sites {
		s := &sites[i]
		if !strings.Contains(s.recv, "ThroughputElements[i])") {
			continue
		}
		switch {
		case strings.Contains(s.recv, ".SourceThroughputElements"):
			r.Check(hasFact(s.facts, "$fillSrcStats"), "R-VALUE.throughput", "aggregateRecords: source-node throughput updated only for source records", p.instrPos(s.in), "under fillSrcStats", "per-node throughput written for the wrong node", true)
		case strings.Contains(s.recv, ".DestinationThroughputElements"):
			r.Check(hasFact(s.facts, "$fillDstStats"), "R-VALUE.throughput", "aggregateRecords: destination-node throughput updated only for destination records", p.instrPos(s.in), "under fillDstStats", "per-node throughput written for the wrong node", true)
		default:
			okL := isLatestVar != "" && hasFact(s.facts, isLatestVar)
			if isLatestVar == "" {
				for _, f := range s.facts {
					if strings.HasPrefix(f, "phi{") && strings.Contains(f, "true") {
						okL = true
					}
				}
			}
			r.Check(okL, "R-VALUE.throughput", "aggregateRecords: common throughput follows the latest reporter", p.instrPos(s.in), "under isLatest", "the common throughput is overwritten by a record that is not the latest", true)
		}
	}
	// ---- exactness: an update that is additionally conditioned on something else is skipped for some records, which
	// breaks conservation just like a missing update. Structural facts (loop bounds, presence / nil tests) are ignored.
	structural := func(f string) bool {
		return strings.Contains(f, "builtin:len(") || strings.Contains(f, "== nil") || strings.HasPrefix(f, "exists(") || strings.HasPrefix(f, "!exists(")
	}
	isLatestFact := func(f string) bool {
		return strings.HasPrefix(f, "phi{") && strings.Contains(f, "true") && strings.Contains(f, "false")
	}
	checkExact := func(what string, st *setSite, allowed func(f string) bool) {
		var extra []string
		for _, f := range st.facts {
			if structural(f) || allowed(f) {
				continue
			}
			extra = append(extra, f)
		}
		// tests that decide whether the update is reached without dominating it (a 'continue' / early exit on one arm
		// of a compound condition): one arm reaches the update within the iteration, the other does not
		for _, f := range controllingConds(p, st.in.Block()) {
			if structural(f) || structural(strings.TrimPrefix(f, "!")) || allowed(f) || allowed(strings.TrimPrefix(f, "!")) {
				continue
			}
			extra = append(extra, f)
		}
		r.Check(len(extra) == 0, "R-VALUE.exact", "aggregateRecords: "+what+" := "+st.arg, p.instrPos(st.in), "updated under exactly the conditions the invariant names",
			fmt.Sprintf("the update is additionally conditioned on %v: for records where that does not hold the field is not brought up to date", extra), true)
	}
	for i := range sites {
		st := &sites[i]
		switch {
		case strings.Contains(st.recv, ".AggregatedSourceStatsElements[i])") || strings.Contains(st.recv, ".SourceThroughputElements[i])"):
			checkExact("source-node field "+st.recv, st, func(f string) bool { return f == isDelta || f == "!"+isDelta || f == "$fillSrcStats" })
		case strings.Contains(st.recv, ".AggregatedDestinationStatsElements[i])") || strings.Contains(st.recv, ".DestinationThroughputElements[i])"):
			checkExact("destination-node field "+st.recv, st, func(f string) bool { return f == isDelta || f == "!"+isDelta || f == "$fillDstStats" })
		case st.recv == common:
			checkExact("common stats field", st, func(f string) bool {
				return f == isDelta || f == "!"+isDelta || f == "$fillSrcStats" || f == "$fillDstStats" || isLatestFact(f) || f == "(GetUnsigned64Value("+common+") < "+IN+")"
			})
		case strings.Contains(st.recv, ".ThroughputElements[i])"):
			checkExact("common throughput field", st, isLatestFact)
		}
	}
	for i := range s32 {
		st := &s32[i]
		if st.recv == `elem($existingRecord, "flowEndSeconds")` {
			inV := `GetUnsigned32Value(elem($incomingRecord, "flowEndSeconds"))`
			checkExact("flow end time", st, func(f string) bool { return f == "("+inV+" >= GetUnsigned32Value("+st.recv+"))" })
		}
	}
	// the TCP state is a common field: it follows the record with the latest end time
	nTS := 0
	for _, st := range setSites(p, agg, "SetStringValue") {
		st := st
		isTS := false
		for _, f := range st.facts {
			if strings.HasPrefix(f, `("tcpState" == `) {
				isTS = true
			}
		}
		if !isTS {
			continue
		}
		nTS++
		lat := false
		for _, f := range st.facts {
			if isLatestFact(f) {
				lat = true
			}
		}
		r.Check(lat && strings.HasPrefix(st.arg, "GetStringValue(elem($incomingRecord"), "R-VALUE.step", "aggregateRecords: tcpState := incoming only when the incoming record is the latest", p.instrPos(st.in),
			"under isLatest", "the TCP state is overwritten by a record that does not carry the latest end time: the common fields no longer follow the latest reporter", true)
	}
	if nTS == 0 {
		r.Infof("aggregateRecords has no tcpState case; nothing to check for it")
	}
	// ---- a record is applied completely or rejected for its shape: once the existing record has been touched, an error
	// return is only taken for a MISSING element (the !exists edge of a lookup). An error return that depends on the
	// record's content (a malformed string, ...) abandons the record half-applied - end times advanced, deltas not added -
	// and, since the caller stops at the first error, drops the records of other flows that follow in the same message.
	var firstMut ssa.Instruction
	eachInstr(agg, func(in ssa.Instruction) {
		if firstMut != nil {
			return
		}
		if c := callOf(in); c != nil {
			if c.IsInvoke() && strings.HasPrefix(c.Method.Name(), "Set") && isValueAccessor(c.Method.Name()) {
				firstMut = in
			}
			if c.StaticCallee() != nil && c.StaticCallee().Name() == prevEndName {
				firstMut = in
			}
		}
	})
	nErr := 0
	eachInstr(agg, func(in ssa.Instruction) {
		rt, ok := in.(*ssa.Return)
		if !ok || !isErrorReturn(rt) {
			return
		}
		nErr++
		miss := false
		for _, f := range p.boolFacts(in.Block()) {
			if strings.HasPrefix(f, "!exists(") {
				miss = true
			}
		}
		// innermost guard must be the miss itself: the last If on the way is a test of an `exist` flag
		r.Check(miss && innermostGuardIsExists(in.Block()), "R-VALUE.atomic-step", fmt.Sprintf("aggregateRecords: error return #%d", nErr), p.instrPos(in), "taken only because an element is missing from the record",
			"an error return in the middle of the aggregation step depends on something other than a missing element: the record is left half-applied (end time advanced, counters not) and later records of the same message are dropped by the caller", true)
	})
	_ = firstMut
	// ---- success returns: only "nothing configured", "not the latest record from its node" and the end of the function
	nRet := 0
	eachInstr(agg, func(in ssa.Instruction) {
		rt, ok := in.(*ssa.Return)
		if !ok {
			return
		}
		if n, has := retErrNil(rt); !has || !n {
			return
		}
		nRet++
		facts := p.boolFacts(in.Block())
		kind := ""
		for _, f := range facts {
			if strings.HasPrefix(f, "(AggregationProcess.aggregateElements == nil)") {
				kind = "no aggregation configured"
			}
			if strings.HasPrefix(f, `(GetUnsigned32Value(elem($incomingRecord, "flowEndSeconds")) <= `) {
				kind = "not the latest record from its node"
			}
		}
		if kind == "" {
			// must be the exit of the final (throughput) loop: no Set call is reachable from here, and the throughput sets dominate it
			dom := false
			for i := range sites {
				if strings.Contains(sites[i].recv, "ThroughputElements[i])") && sites[i].in.Block().Dominates(in.Block()) == false {
					// the return must come after the throughput loop: the loop head dominates it
					if lh := loopHeadOf(sites[i].in.Block()); lh != nil && lh.Dominates(in.Block()) {
						dom = true
					}
				}
			}
			if dom {
				kind = "end of the function, after the throughput fields were written"
			}
		}
		r.Check(kind != "", "R-VALUE.step", fmt.Sprintf("aggregateRecords: success return #%d", nRet), p.instrPos(in), kind,
			"an additional early 'return nil' skips part of the aggregation (e.g. the throughput update when the octet totals did not move, which must become 0): facts "+strings.Join(facts, " && "), true)
	})
	// ---- prevEnd helper
	if u := prevEndFn; u == nil {
		r.Undecided("R-VALUE.prev-end", "anchor: updateFlowEndSecondsFromNodes", "pkg/intermediate/aggregate.go", "not found")
	} else {
		okStart, okSet, okRet := false, false, false
		// parameter roles from a call site: the incoming record and the incoming end value
		var parIn, parVal ssa.Value
		eachInstr(agg, func(in ssa.Instruction) {
			cl := callOf(in)
			if cl == nil || cl.StaticCallee() != u || len(cl.Args) != len(u.Params) {
				return
			}
			for i, a := range cl.Args {
				if pa, ok := a.(*ssa.Parameter); ok && pa.Name() == "incomingRecord" {
					parIn = u.Params[i]
				}
				if p.nf(a) == `GetUnsigned32Value(elem($incomingRecord, "flowEndSeconds"))` {
					parVal = u.Params[i]
				}
			}
		})
		eachInstr(u, func(in ssa.Instruction) {
			switch x := in.(type) {
			case *ssa.Call:
				if x.Call.IsInvoke() && x.Call.Method.Name() == "GetInfoElementWithValue" {
					if n, ok := constString(x.Call.Args[0]); ok && n == "flowStartSeconds" {
						okStart = parIn != nil && x.Call.Value == parIn
						zero := false
						for _, f := range blockFacts(in.Block()) {
							if z, ok := constInt(f.Y); ok && z == 0 && f.Op.String() == "==" && strings.HasPrefix(p.nf(f.X), "GetUnsigned32Value(elem($existingRecord") {
								zero = true
							}
						}
						okStart = okStart && zero
					}
				}
				if x.Call.IsInvoke() && x.Call.Method.Name() == "SetUnsigned32Value" {
					okSet = parVal != nil && x.Call.Args[0] == parVal && strings.HasPrefix(p.nf(x.Call.Value), "elem($existingRecord, ")
				}
			case *ssa.Return:
				s := p.nf(x.Results[0])
				okRet = strings.Contains(s, "GetUnsigned32Value(elem($existingRecord") && strings.Contains(s, `GetUnsigned32Value(elem($incomingRecord, "flowStartSeconds"))`)
			}
		})
		r.Check(okStart && okSet && okRet, "R-VALUE.prev-end", fnKey(u)+": previous end = the node's own last end, or the INCOMING record's start on its first record", p.pos(u.Pos()),
			"existing per-node end (0 => incomingRecord.flowStartSeconds); per-node end := incoming end",
			fmt.Sprintf("the time base of a node's throughput is wrong (start taken from incoming record under 'existing == 0': %v; per-node end := incoming: %v; returns previous value: %v)", okStart, okSet, okRet), true)
	}
	// ---- base: seeds
	checkSeeds(p, r)
	checkNodeFlags(p, r)
	// no delta is lost: every accepted record is applied (C07's single-success-exit rule, imported)
	checkSingleSuccessExit(p, r, "R-VALUE.every-record-applied")
	// ---- reset
	checkReset(p, r)
	// ---- key
	checkFlowKey(p, r)
	// ---- getters by constant names in pkg/intermediate
	tb := p.liftIETables()
	names, problems := p.nameTypes(tb)
	for _, pr := range problems {
		r.Undecided("R-GETTER.name", "anchor: registry tables", "pkg/registry", pr)
	}
	n := 0
	for _, f := range p.RepoFns {
		if !keyInPkg(fnKey(f), "pkg/intermediate") {
			continue
		}
		eachInstr(f, func(in ssa.Instruction) {
			c, ok := in.(*ssa.Call)
			if !ok || !c.Call.IsInvoke() || !isValueAccessor(c.Call.Method.Name()) {
				return
			}
			ex, ok := c.Call.Value.(*ssa.Extract)
			if !ok {
				return
			}
			lk, ok := ex.Tuple.(*ssa.Call)
			if !ok || !lk.Call.IsInvoke() || lk.Call.Method.Name() != "GetInfoElementWithValue" {
				return
			}
			// the name is a constant here, or a parameter that the callers fill with constants (getXValueByIeName helpers)
			type cand struct {
				name string
				at   ssa.Instruction
				via  string
			}
			var cands []cand
			if name, ok := constString(lk.Call.Args[0]); ok {
				cands = append(cands, cand{name, in, ""})
			} else if prm, ok := lk.Call.Args[0].(*ssa.Parameter); ok {
				for idx, fp := range f.Params {
					if fp != prm {
						continue
					}
					for _, cs := range p.CallGraph().callers[f] {
						if cc := callOf(cs); cc != nil && idx < len(cc.Args) {
							if name, ok := constString(cc.Args[idx]); ok {
								cands = append(cands, cand{name, cs, " (through " + f.Name() + ", called from " + fnKey(cs.Parent()) + ")"})
							}
						}
					}
				}
			}
			for _, cd := range cands {
				name := cd.name
				ts, known := names[name]
				if !known {
					r.Undecided("R-GETTER.name", fmt.Sprintf("%s: %s on element %q%s", fnKey(f), c.Call.Method.Name(), name, cd.via), p.instrPos(cd.at), "element name not found in the registry tables")
					continue
				}
				n++
				ok2 := true
				var tl []string
				for t := range ts {
					tl = append(tl, t)
					if !tb.getterOK(t, c.Call.Method.Name()) {
						ok2 = false
					}
				}
				sort.Strings(tl)
				r.Check(ok2, "R-GETTER.name", fmt.Sprintf("%s: %s on element %q%s", fnKey(f), c.Call.Method.Name(), name, cd.via), p.instrPos(cd.at), "declared by the element type of "+strings.Join(tl, "/"),
					fmt.Sprintf("%q has data type %s whose element type does not declare %s: the call panics", name, strings.Join(tl, "/"), c.Call.Method.Name()), true)
			}
		})
	}
	if n < 10 {
		r.Undecided("R-GETTER.name", "anchor: typed accessors on constant-named elements", "pkg/intermediate", fmt.Sprintf("only %d found", n))
	}
}

func minStr(a, b string) string {
	if a < b {
		return a
	}
	return b
}
func maxStr(a, b string) string {
	if a < b {
		return b
	}
	return a
}

func checkSeeds(p *Prog, r *Report) {
	st := p.Fn("(*pkg/intermediate.AggregationProcess).addFieldsForStatsAggregation")
	th := p.Fn("(*pkg/intermediate.AggregationProcess).addFieldsForThroughputCalculation")
	if st == nil || th == nil {
		r.Undecided("R-VALUE.base", "anchor: addFieldsForStatsAggregation / addFieldsForThroughputCalculation", "pkg/intermediate/aggregate.go", "not found")
		return
	}
	// stats seeds: NewUnsigned64InfoElement(ie, value) with value = phi{0 | IN} controlled by the fill flag
	n := 0
	eachInstr(st, func(in ssa.Instruction) {
		c, ok := in.(*ssa.Call)
		if !ok || calleeName(&c.Call) != "pkg/entities.NewUnsigned64InfoElement" {
			return
		}
		n++
		ie := p.nf(c.Call.Args[0])
		side := ""
		if strings.Contains(ie, "AggregatedSourceStatsElements[i]") {
			side = "Source"
		}
		if strings.Contains(ie, "AggregatedDestinationStatsElements[i]") {
			side = "Destination"
		}
		val := p.nf(c.Call.Args[1])
		wantIN := "GetUnsigned64Value(elem($record, AggregationProcess.aggregateElements.StatsElements[i]))"
		okV := val == "phi{0 | "+wantIN+"}"
		// the non-zero edge is taken under the matching fill flag
		okFlag := false
		if ph, ok := c.Call.Args[1].(*ssa.Phi); ok {
			for i, e := range ph.Edges {
				if _, isC := e.(*ssa.Const); !isC {
					for _, f := range p.boolFacts(ph.Block().Preds[i]) {
						if f == map[string]string{"Source": "$fillSrcStats", "Destination": "$fillDstStats"}[side] {
							okFlag = true
						}
					}
				}
			}
		}
		r.Check(side != "" && okV && okFlag, "R-VALUE.base", fmt.Sprintf("addFieldsForStatsAggregation: %s per-node field seeded with the incoming value iff that node reports", side), p.instrPos(in),
			"value = IN under the node's fill flag, else 0", "on the first record a per-node counter is not seeded 'incoming if this node reports, else 0' (value "+val+")", true)
	})
	if n != 2 {
		r.Undecided("R-VALUE.base", "addFieldsForStatsAggregation: per-node seeds", p.pos(st.Pos()), fmt.Sprintf("expected the source and destination seeds, found %d", n))
	}
	// throughput seed
	nq := 0
	eachInstr(th, func(in ssa.Instruction) {
		b, ok := in.(*ssa.BinOp)
		if !ok || b.Op.String() != "/" {
			return
		}
		nq++
		num, den := p.nf(b.X), p.nf(b.Y)
		okN := strings.HasPrefix(num, "(8 * getUnsigned64ValueByIeName($record, ") && (strings.Contains(num, `"octetTotalCount"`) || strings.Contains(num, `"reverseOctetTotalCount"`))
		okD := den == `conv((getUnsigned32ValueByIeName($record, "flowEndSeconds")#0 - getUnsigned32ValueByIeName($record, "flowStartSeconds")#0))`
		guarded := false
		for _, f := range p.boolFacts(in.Block()) {
			if f == `(getUnsigned32ValueByIeName($record, "flowEndSeconds")#0 > getUnsigned32ValueByIeName($record, "flowStartSeconds")#0)` {
				guarded = true
			}
		}
		r.Check(okN && okD && guarded, "R-VALUE.base", fmt.Sprintf("addFieldsForThroughputCalculation: initial throughput #%d", nq), p.instrPos(in), "octetTotal * 8 / uint64(end - start), only when end > start",
			fmt.Sprintf("the first record's throughput is not 8 x octet total / (end - start) guarded by end > start (numerator %s, denominator %s, guarded=%v)", num, den, guarded), true)
	})
	if nq != 2 {
		r.Undecided("R-VALUE.base", "addFieldsForThroughputCalculation: initial throughput", p.pos(th.Pos()), fmt.Sprintf("expected 2 divisions, found %d", nq))
	}
}

func checkReset(p *Prog, r *Report) {
	rs := p.Fn("(*pkg/intermediate.AggregationProcess).ResetStatAndThroughputElementsInRecord")
	if rs == nil {
		r.Undecided("R-VALUE.reset", "anchor: ResetStatAndThroughputElementsInRecord", "pkg/intermediate/aggregate.go", "not found")
		return
	}
	n := 0
	eachInstr(rs, func(in ssa.Instruction) {
		c, ok := in.(*ssa.Call)
		if !ok || !c.Call.IsInvoke() || c.Call.Method.Name() != "ResetValue" {
			return
		}
		n++
		recv := p.nf(c.Call.Value)
		facts := p.boolFacts(in.Block())
		lists := literalLists(p, c.Call.Value)
		isStats, isThr := len(lists) > 0, len(lists) > 0
		for _, l := range lists {
			if !strings.Contains(l, "StatsElements") {
				isStats = false
			}
			if !strings.Contains(l, "ThroughputElements") {
				isThr = false
			}
		}
		recv = "elem($record, {" + strings.Join(lists, ", ") + "}[k][i])"
		okR := false
		if isStats && !isThr {
			for _, f := range facts {
				if strings.HasPrefix(f, "Contains(") && strings.HasSuffix(f, `"Delta")`) {
					okR = true
				}
			}
		}
		if isThr && !isStats {
			okR = true
		}
		// the only conditions that may decide whether a field is reset are: isDelta, the loop bounds and "the element exists"
		// conditions controlling the reset: every branch that lies on a path from the enclosing outer loop's head to this call
		ctl := map[string]bool{}
		for _, f := range facts {
			ctl[f] = true
		}
		if outer := outermostLoopHead(in.Block()); outer != nil {
			for _, b := range rs.Blocks {
				i := ifOf(b)
				if i == nil || b == in.Block() {
					continue
				}
				if (b == outer || reachableAvoiding(outer, b, nil)) && reachableAvoiding(b, in.Block(), outer) {
					ctl[p.nf(i.Cond)] = true
				}
			}
		}
		var ctlList []string
		for f := range ctl {
			ctlList = append(ctlList, f)
		}
		sort.Strings(ctlList)
		for _, f := range ctlList {
			g := strings.TrimPrefix(f, "!")
			allowed := strings.HasPrefix(g, "Contains(") || strings.HasPrefix(g, "exists(") || strings.Contains(g, " < len(") || strings.Contains(g, "< builtin:len(") || strings.HasPrefix(g, "((1 + ")
			if !allowed {
				okR = false
				r.Violation("R-VALUE.reset", fmt.Sprintf("ResetStatAndThroughputElementsInRecord: ResetValue #%d is skipped under an extra condition", n), p.instrPos(in),
					"whether a delta/throughput field is reset depends on "+f+": a reset no longer clears every delta and throughput field (a node's sum can survive the reset and be counted twice)")
			}
		}
		r.Check(okR, "R-VALUE.reset", fmt.Sprintf("ResetStatAndThroughputElementsInRecord: ResetValue #%d on %s", n, recv), p.instrPos(in), "a delta counter (under isDelta) or a throughput field",
			"a reset can clear a field that is neither a delta counter nor a throughput field (totals must survive: they are the base of the next throughput)", true)
	})
	if n != 2 {
		r.Undecided("R-VALUE.reset", "ResetStatAndThroughputElementsInRecord: ResetValue sites", p.pos(rs.Pos()), fmt.Sprintf("expected the stats loop and the throughput loop, found %d", n))
	}
}

func checkFlowKey(p *Prog, r *Report) {
	gk := p.Fn("pkg/intermediate.getFlowKeyFromRecord")
	st := p.structType("pkg/intermediate", "FlowKey")
	if gk == nil || st == nil {
		r.Undecided("R-KEY.flow-key", "anchor: getFlowKeyFromRecord / FlowKey", "pkg/intermediate/aggregate.go", "not found")
		return
	}
	// comparable struct of basic fields
	basic := true
	for i := 0; i < st.NumFields(); i++ {
		if _, ok := st.Field(i).Type().Underlying().(*types.Basic); !ok {
			basic = false
		}
	}
	r.Check(basic, "R-KEY.flow-key", "pkg/intermediate.FlowKey: all fields are basic comparable values", "pkg/intermediate/types.go", "map key compares all five fields by value", "the flow key contains a non-basic field: equal 5-tuples may not compare equal", false)
	// map keyed by FlowKey value
	if ap := p.structType("pkg/intermediate", "AggregationProcess"); ap != nil {
		okMap := false
		for i := 0; i < ap.NumFields(); i++ {
			if ap.Field(i).Name() == "flowKeyRecordMap" {
				if m, ok := ap.Field(i).Type().Underlying().(*types.Map); ok && typeName(m.Key()) == "pkg/intermediate.FlowKey" {
					if _, isPtr := m.Key().(*types.Pointer); !isPtr {
						okMap = true
					}
				}
			}
		}
		r.Check(okMap, "R-KEY.flow-key", "pkg/intermediate.AggregationProcess.flowKeyRecordMap: keyed by the FlowKey value", "pkg/intermediate/aggregate.go", "map[FlowKey]...", "the record map is not keyed by the 5-tuple value", false)
	}
	want := map[string]struct{ getter, fact string }{
		"SourcePort":         {"GetUnsigned16Value", `("sourceTransportPort" == $name)`},
		"DestinationPort":    {"GetUnsigned16Value", `!("sourceTransportPort" == $name)`},
		"Protocol":           {"GetUnsigned8Value", ""},
		"SourceAddress":      {"GetIPAddressValue", `Contains($name, "source")`},
		"DestinationAddress": {"GetIPAddressValue", `!Contains($name, "source")`},
	}
	seen := map[string]int{}
	eachInstr(gk, func(in ssa.Instruction) {
		s, ok := in.(*ssa.Store)
		if !ok {
			return
		}
		tn, fn, _, ok := fieldOf(s.Addr)
		if !ok || tn != "pkg/intermediate.FlowKey" {
			return
		}
		seen[fn]++
		w := want[fn]
		val := p.nf(s.Val)
		facts := p.boolFacts(in.Block())
		okV := strings.Contains(val, w.getter+"(elem($record, ")
		okF := w.fact == ""
		for _, f := range facts {
			if w.fact != "" && normName(f) == w.fact {
				okF = true
			}
		}
		r.Check(okV && okF, "R-KEY.flow-key", fmt.Sprintf("getFlowKeyFromRecord: FlowKey.%s assignment #%d", fn, seen[fn]), p.instrPos(in), "from "+w.getter+" of the element selected by the matching name test",
			fmt.Sprintf("FlowKey.%s is not taken from the element of the matching name (value %s under %v)", fn, val, facts), true)
	})
	for f := range want {
		if seen[f] == 0 {
			r.Violation("R-KEY.flow-key", "getFlowKeyFromRecord: FlowKey."+f+" is never assigned", p.pos(gk.Pos()), "a field of the 5-tuple is left at its zero value: distinct flows share one record")
		}
	}
	// insertions only in addOrUpdateRecordInMap
	for _, f := range p.RepoFns {
		if !keyInPkg(fnKey(f), "pkg/intermediate") {
			continue
		}
		eachInstr(f, func(in ssa.Instruction) {
			if mu, ok := in.(*ssa.MapUpdate); ok {
				if tn, fn, _, ok := loadedField(mu.Map); ok && tn+"."+fn == aggMap {
					r.Check(f.Name() == "addOrUpdateRecordInMap", "R-OWNER.map-insert", fnKey(f)+": inserts into flowKeyRecordMap", p.instrPos(in), "the single insertion site", "a second function inserts flow records (its key/aggregation discipline is not audited)", false)
				}
			}
		})
	}
}

// normName rewrites the range variable of the name loop to "$name".
func normName(s string) string {
	i := strings.Index(s, "local:")
	for i >= 0 {
		j := i
		for j < len(s) && s[j] != '[' {
			j++
		}
		k := j
		for k < len(s) && s[k] != ']' {
			k++
		}
		if k < len(s) {
			s = s[:i] + "$name" + s[k+1:]
		} else {
			break
		}
		i = strings.Index(s, "local:")
	}
	return s
}

// literalLists: the element name of recv comes from lists[k][i] where lists is a [][]string literal: returns the
// normal forms of the literal's entries.
func literalLists(p *Prog, recv ssa.Value) []string {
	var out []string
	seen := map[ssa.Value]bool{}
	var walk func(v ssa.Value, d int)
	walk = func(v ssa.Value, d int) {
		if v == nil || d > 12 || seen[v] {
			return
		}
		seen[v] = true
		switch x := v.(type) {
		case *ssa.Extract:
			walk(x.Tuple, d+1)
		case *ssa.Call:
			for _, a := range x.Call.Args {
				walk(a, d+1)
			}
		case *ssa.UnOp:
			walk(x.X, d+1)
		case *ssa.IndexAddr:
			walk(x.X, d+1)
		case *ssa.Slice:
			walk(x.X, d+1)
		case *ssa.Phi:
			for _, e := range x.Edges {
				walk(e, d+1)
			}
		case *ssa.Alloc:
			if x.Comment == "slicelit" {
				for _, ref := range refs(x) {
					if ia, ok := ref.(*ssa.IndexAddr); ok {
						for _, r2 := range refs(ia) {
							if st, ok := r2.(*ssa.Store); ok {
								out = append(out, p.nf(st.Val))
							}
						}
					}
				}
			}
		}
	}
	walk(recv, 0)
	sort.Strings(out)
	return out
}

// loopHeadOf returns the innermost loop header dominating b from which b can be reached again (nil if b is not in a loop).
func loopHeadOf(b *ssa.BasicBlock) *ssa.BasicBlock {
	var best *ssa.BasicBlock
	for _, h := range b.Parent().Blocks {
		if !h.Dominates(b) {
			continue
		}
		for _, pr := range h.Preds {
			if h.Dominates(pr) && reachableBlock(b, pr) {
				if best == nil || best.Dominates(h) {
					best = h
				}
			}
		}
	}
	return best
}

// everyIteration: the instruction runs on every iteration of its innermost loop, i.e. its block dominates every
// back edge of that loop (a conditional `continue` in front of it breaks this).
func everyIteration(in ssa.Instruction) bool {
	b := in.Block()
	h := loopHeadOf(b)
	if h == nil {
		return false
	}
	n := 0
	for _, pr := range h.Preds {
		if !h.Dominates(pr) {
			continue
		}
		n++
		if !b.Dominates(pr) {
			return false
		}
	}
	return n > 0
}

func outermostLoopHead(b *ssa.BasicBlock) *ssa.BasicBlock {
	var best *ssa.BasicBlock
	for _, h := range b.Parent().Blocks {
		if !h.Dominates(b) {
			continue
		}
		for _, pr := range h.Preds {
			if h.Dominates(pr) && reachableBlock(b, pr) {
				if best == nil || h.Dominates(best) {
					best = h
				}
			}
		}
	}
	return best
}

// reachableAvoiding: is `to` reachable from `from` without passing through `avoid` (avoid may be nil)?
func reachableAvoiding(from, to, avoid *ssa.BasicBlock) bool {
	seen := map[*ssa.BasicBlock]bool{}
	var w func(b *ssa.BasicBlock) bool
	w = func(b *ssa.BasicBlock) bool {
		for _, s := range b.Succs {
			if s == to {
				return true
			}
			if s == avoid || seen[s] {
				continue
			}
			seen[s] = true
			if w(s) {
				return true
			}
		}
		return false
	}
	return w(from)
}

// checkNodeFlags: in addOrUpdateRecordInMap every call that takes the (fillSrcStats, fillDstStats) pair - the two seed
// functions for a new flow and aggregateRecords for an existing one - is given the pair its branch stands for:
// correlation required and record from the source node => (true,false); from the destination node => (false,true);
// no correlation => (true,true). A pair that does not match its branch credits one node's counters to the other.
func checkNodeFlags(p *Prog, r *Report) {
	f := p.Fn("(*pkg/intermediate.AggregationProcess).addOrUpdateRecordInMap")
	if f == nil {
		r.Undecided("R-VALUE.node-flags", "anchor: addOrUpdateRecordInMap", "pkg/intermediate/aggregate.go", "not found")
		return
	}
	isBool := func(t types.Type) bool {
		bt, ok := t.Underlying().(*types.Basic)
		return ok && bt.Kind() == types.Bool
	}
	calleeIs := func(v ssa.Value, name string) bool {
		c, ok := v.(*ssa.Call)
		return ok && c.Call.StaticCallee() != nil && c.Call.StaticCallee().Name() == name
	}
	// the pair as handed over on one way into the call: constants, isRecordFromSrc(record) itself, or its negation
	sym := func(v ssa.Value) string {
		if k, ok := v.(*ssa.Const); ok && k.Value != nil && k.Value.Kind() == constant.Bool {
			return fmt.Sprint(constant.BoolVal(k.Value))
		}
		if calleeIs(v, "isRecordFromSrc") {
			return "src"
		}
		if u, ok := v.(*ssa.UnOp); ok && u.Op == token.NOT && calleeIs(u.X, "isRecordFromSrc") {
			return "!src"
		}
		return "?"
	}
	type flagLeaf struct {
		s, d   ssa.Value
		guards []guard
	}
	var expand func(s, d ssa.Value, gs []guard, depth int) []flagLeaf
	expand = func(s, d ssa.Value, gs []guard, depth int) []flagLeaf {
		var blk *ssa.BasicBlock
		if ph, ok := s.(*ssa.Phi); ok {
			blk = ph.Block()
		} else if ph, ok := d.(*ssa.Phi); ok {
			blk = ph.Block()
		}
		if blk == nil || depth > 4 {
			return []flagLeaf{{s, d, gs}}
		}
		var out []flagLeaf
		for i, pred := range blk.Preds {
			s2, d2 := s, d
			if ph, ok := s.(*ssa.Phi); ok && ph.Block() == blk {
				s2 = ph.Edges[i]
			}
			if ph, ok := d.(*ssa.Phi); ok && ph.Block() == blk {
				d2 = ph.Edges[i]
			}
			g2 := append(append([]guard{}, gs...), guardsOf(pred)...)
			if iff := ifOf(pred); iff != nil && pred.Succs[0] != pred.Succs[1] {
				if pred.Succs[0] == blk {
					g2 = append(g2, guard{iff, 0})
				} else if pred.Succs[1] == blk {
					g2 = append(g2, guard{iff, 1})
				}
			}
			out = append(out, expand(s2, d2, g2, depth+1)...)
		}
		return out
	}
	n, nCorr, nPlain := 0, 0, 0
	eachInstr(f, func(in ssa.Instruction) {
		c, ok := in.(*ssa.Call)
		if !ok || c.Call.StaticCallee() == nil {
			return
		}
		cal := c.Call.StaticCallee()
		ps := cal.Params
		// the callees that take the pair: functions of the package whose last two parameters are booleans
		if len(ps) < 3 || !isBool(ps[len(ps)-1].Type()) || !isBool(ps[len(ps)-2].Type()) || cal.Pkg == nil || cal.Pkg != f.Pkg {
			return
		}
		n++
		args := c.Call.Args
		cons := fmt.Sprintf("addOrUpdateRecordInMap: %s call #%d (fillSrcStats, fillDstStats)", cal.Name(), n)
		bad, undec := "", ""
		want := ""
		for _, lf := range expand(args[len(args)-2], args[len(args)-1], guardsOf(in.Block()), 0) {
			corr, src := 0, 0 // 0 unknown, 1 true, -1 false
			for _, gd := range lf.guards {
				pol := 1
				if gd.Succ == 1 {
					pol = -1
				}
				cv := gd.If.Cond
				for {
					u, ok := cv.(*ssa.UnOp)
					if !ok || u.Op != token.NOT {
						break
					}
					cv, pol = u.X, -pol
				}
				if calleeIs(cv, "isRecordFromSrc") {
					src = pol
				}
				if calleeIs(cv, "isCorrelationRequired") {
					corr = pol
				}
			}
			sv, dv := sym(lf.s), sym(lf.d)
			got := "(" + sv + "," + dv + ")"
			switch {
			case corr == 1:
				nCorr++
				want = "(src, !src)"
				okS := sv == "src" || (src == 1 && sv == "true") || (src == -1 && sv == "false")
				okD := dv == "!src" || (src == 1 && dv == "false") || (src == -1 && dv == "true")
				if !okS || !okD {
					bad = got + " under 'correlation required'" + map[int]string{1: ", record from the source node", -1: ", record from the destination node", 0: ""}[src]
				}
			case corr == -1:
				nPlain++
				want = "(true, true)"
				if sv != "true" || dv != "true" {
					bad = got + " under 'no correlation'"
				}
			default:
				undec = "the call is not under a recognisable (correlation required, record from source) branch"
			}
		}
		if bad == "" && undec != "" {
			r.Undecided("R-VALUE.node-flags", cons, p.instrPos(in), undec)
			return
		}
		r.Check(bad == "", "R-VALUE.node-flags", cons, p.instrPos(in), want+" as its branch requires",
			"the pair is "+bad+": one node's counters / time base / throughput are credited to the other node", true)
	})
	if n < 3 || nCorr == 0 || nPlain == 0 {
		r.Undecided("R-VALUE.node-flags", "anchor: calls taking (fillSrcStats, fillDstStats)", p.pos(f.Pos()), fmt.Sprintf("expected the aggregate call(s) and the two seed calls under both kinds of branch, found %d calls (%d correlated ways, %d plain ways)", n, nCorr, nPlain))
	}
}

// innermostGuardIsExists: the branch that leads directly into block b tests the boolean result of a
// GetInfoElementWithValue lookup (the `exist` flag).
func innermostGuardIsExists(b *ssa.BasicBlock) bool {
	for len(b.Preds) == 1 {
		pr := b.Preds[0]
		if i := ifOf(pr); i != nil {
			cond := i.Cond
			if u, ok := cond.(*ssa.UnOp); ok && u.Op == token.NOT {
				cond = u.X
			}
			if ex, ok := cond.(*ssa.Extract); ok {
				if c, ok := ex.Tuple.(*ssa.Call); ok && c.Call.IsInvoke() && c.Call.Method.Name() == "GetInfoElementWithValue" {
					return true
				}
			}
			return false
		}
		b = pr
	}
	return false
}

// controllingConds: the conditions of the If blocks that decide whether block s runs in the current loop iteration without
// one of their edges dominating s (so guardsOf does not list them): exactly one successor reaches s without passing the
// head of s's innermost loop. Loop-head tests are skipped (loop bounds).
func controllingConds(p *Prog, s *ssa.BasicBlock) []string {
	head := loopHeadOf(s)
	reach := func(from *ssa.BasicBlock) bool {
		seen := map[*ssa.BasicBlock]bool{}
		work := []*ssa.BasicBlock{from}
		for len(work) > 0 {
			b := work[len(work)-1]
			work = work[:len(work)-1]
			if b == s {
				return true
			}
			if seen[b] || (head != nil && b == head) {
				continue
			}
			seen[b] = true
			work = append(work, b.Succs...)
		}
		return false
	}
	dom := map[*ssa.If]bool{}
	for _, g := range guardsOf(s) {
		dom[g.If] = true
	}
	var out []string
	for _, b := range s.Parent().Blocks {
		if len(b.Instrs) == 0 || b == s {
			continue
		}
		iff, ok := b.Instrs[len(b.Instrs)-1].(*ssa.If)
		if !ok || dom[iff] || loopHeadOf(b) == b {
			continue
		}
		if head != nil && !head.Dominates(b) {
			continue
		}
		r0, r1 := reach(b.Succs[0]), reach(b.Succs[1])
		if r0 == r1 {
			continue
		}
		t := p.nf(iff.Cond)
		if r1 {
			t = "!" + t
		}
		out = append(out, t)
	}
	sort.Strings(out)
	return out
}

// checkAddedElementsFresh: the aggregation step updates the per-node and common elements of a stored record IN PLACE
// (SetUnsigned64Value on the element object). Every element the aggregation process attaches to a record must therefore
// be an object made for that record: the operand of every Record.AddInfoElement call in pkg/intermediate is, on every
// path, the result of an element constructor of pkg/entities called there (helpers of the package followed two levels).
// An element taken from a map, a field or a parameter (a cached zero-valued throughput element shared by all flows)
// makes one flow's update visible in another flow's record.
func checkAddedElementsFresh(p *Prog, r *Report, rule string) {
	n := 0
	for _, f := range p.RepoFns {
		if !keyInPkg(fnKey(f), "pkg/intermediate") {
			continue
		}
		eachInstr(f, func(in ssa.Instruction) {
			c := callOf(in)
			if c == nil || !c.IsInvoke() || c.Method.Name() != "AddInfoElement" || !strings.HasSuffix(typeName(c.Value.Type()), "entities.Record") || len(c.Args) != 1 {
				return
			}
			n++
			bad := staleElementOrigin(c.Args[0], 0, map[ssa.Value]bool{})
			r.Check(bad == "", rule, fmt.Sprintf("%s: element attached to a record #%d", fnKey(f), n), p.instrPos(in),
				"made by an element constructor on every path", "the element attached to the record is not made for it ("+bad+"): stored records are updated in place, so flows that share the element object see each other's updates and resets", true)
		})
	}
	r.Facts[rule+".sites"] = n
	if n == 0 {
		r.Undecided(rule, "anchor: Record.AddInfoElement calls in pkg/intermediate", "pkg/intermediate/aggregate.go", "none found")
	}
}

// staleElementOrigin returns "" when v is a fresh element on every path, else a description of the offending origin.
func staleElementOrigin(v ssa.Value, d int, seen map[ssa.Value]bool) string {
	v = stripChange(v)
	if seen[v] {
		return ""
	}
	seen[v] = true
	if d > 12 {
		return "origin too deep to follow"
	}
	switch x := v.(type) {
	case *ssa.Phi:
		for _, e := range x.Edges {
			if s := staleElementOrigin(e, d+1, seen); s != "" {
				return s
			}
		}
		return ""
	case *ssa.Const:
		return "" // nil on an error path
	case *ssa.Extract:
		return staleElementOrigin(x.Tuple, d+1, seen)
	case *ssa.TypeAssert:
		return staleElementOrigin(x.X, d+1, seen)
	case *ssa.Call:
		name := calleeName(&x.Call)
		if i := strings.LastIndex(name, "."); i >= 0 && strings.HasPrefix(name, "pkg/entities.") {
			fn := name[i+1:]
			if (strings.HasPrefix(fn, "New") && strings.Contains(fn, "InfoElement")) || fn == "DecodeAndCreateInfoElementWithValue" {
				return ""
			}
		}
		if callee := x.Call.StaticCallee(); callee != nil && keyInPkg(fnKey(callee), "pkg/intermediate") && len(callee.Blocks) > 0 && d < 6 {
			for _, b := range callee.Blocks {
				ret, ok := b.Instrs[len(b.Instrs)-1].(*ssa.Return)
				if !ok {
					continue
				}
				for i := range ret.Results {
					rv := retResult(ret, i)
					if rv == nil || !types.Identical(rv.Type(), v.Type()) && !strings.Contains(typeName(rv.Type()), "InfoElement") {
						continue
					}
					if s := staleElementOrigin(rv, d+3, seen); s != "" {
						return s
					}
				}
			}
			return ""
		}
		return "result of " + name
	case *ssa.Lookup:
		return "read from a map"
	case *ssa.UnOp:
		if x.Op == token.MUL {
			if tn, fn, _, ok := fieldOf(x.X); ok {
				return "read from " + tn + "." + fn
			}
			if _, ok := x.X.(*ssa.IndexAddr); ok {
				return "read from a slice element"
			}
			if al, ok := x.X.(*ssa.Alloc); ok {
				if sv := singleStoreValue(al); sv != nil {
					return staleElementOrigin(sv, d+1, seen)
				}
			}
			return "loaded from memory"
		}
	case *ssa.Parameter:
		return "a parameter"
	}
	return fmt.Sprintf("origin %T", v)
}
