package main

import (
	"fmt"
	"go/token"
	"strings"

	"golang.org/x/tools/go/ssa"
)

func init() {
	register(&propDef{
		ID:          "C02",
		Explanation: "R-RFC: the ENCODER's wire layout alone is extracted from the source and compared with a reference transcribed from RFC 7011 (sections 3.1, 3.3.2, 3.4.1, 3.2 fig. G/H, 6.1, 7) - an oracle that shares no code with the library, so symmetric encode/decode mistakes that every round-trip test misses are visible: message header: version constant 10, setters write version/length/exportTime/sequence/obsDomain big-endian at offsets 0/2/4/8/12 with widths 2/2/4/4/4 into a MsgHeaderLength(=16)-byte header; set header: id at [0:2] = TemplateSetID(=2) for template sets and the templateID parameter for data sets, length at [2:4] = uint16(set.length), SetHeaderLen = 4; template record: (templateID, fieldCount) big-endian u16 at [0:2],[2:4]; field specifier: (ElementId, Len) u16 + bit 0x80 of the first id byte and a 4-byte big-endian enterprise number exactly when EnterpriseId != 0; every data type's value encoding (the encoder half of C15's table) and the section 7 length prefix in the encoder and both GetLength methods; R-VALUE: in the message builder the value given to SetMessageLen (modulo the uint16 conversion, lossless under the dominating <= 65535 gate) is the same SSA value as the size of the returned buffer = MsgHeaderLength + set.GetSetLength(); the header is copied to [:16], the set header to [16:20], and every record of set.GetRecords() to [index:index+len] with index starting at 20 and advancing by that record's own GetRecordLength(); exactly one set; SendSet calls UpdateLenInHeader on every path before the send; the set's length bookkeeping (4 + sum of record lengths) is C16's rule and is imported; no exporter field (message buffer) is shared unsynchronised with the refresher. Not decided: bytes observed at the peer, user-registered elements whose Len contradicts their type. Later additions: only SendSet (which writes the set length) reaches the IPFIX send function; template elements are built empty (nil stays nil) so that templates can be rebuilt for the UDP refresh. Round-seven addition: PrepareRecord keeps the bytes appended before it (the stored buffer is always a window or an extension of the buffer so far; imported from C16), so a template built through the slice-adopting add path keeps its field specifiers.",
		Assume:      []string{"the reference tables in checker/layout.go and c02.go are a faithful transcription of RFC 7011", "encoding/binary"},
		Run:         runC02,
	})
}

// RFC 7011 section 3.1 message header
var rfcMsgHeader = map[string][2]int64{ // setter -> {offset, width}
	"SetVersion":     {0, 2},
	"SetMessageLen":  {2, 2},
	"SetExportTime":  {4, 4},
	"SetSequenceNum": {8, 4},
	"SetObsDomainID": {12, 4},
}

const rfcMsgHeaderLen, rfcSetHeaderLen, rfcTemplateSetID, rfcVersion = 16, 4, 2, 10

func checkPut(p *Prog, r *Report, rule, construct string, f *ssa.Function, ps []putSite, base string, off, width int64, total int64, valOK func(ssa.Value) bool, valWhat string) {
	var hit *putSite
	for i := range ps {
		if ps[i].Base == base && ps[i].Low == off {
			hit = &ps[i]
		}
	}
	if hit == nil {
		r.Violation(rule, construct, p.pos(f.Pos()), fmt.Sprintf("no big-endian write into %s at offset %d found", base, off))
		return
	}
	why := ""
	switch {
	case hit.Order != "BigEndian":
		why = "written in " + hit.Order + " (RFC 7011: network byte order)"
	case int64(hit.Width) != width:
		why = fmt.Sprintf("%d bytes written, the RFC field is %d bytes wide", hit.Width, width)
	case hit.High != -1 && hit.High != off+width:
		why = fmt.Sprintf("destination slice ends at %d, the field ends at %d", hit.High, off+width)
	case hit.High == -1 && total >= 0 && off+width != total:
		why = "open-ended destination slice that is not the last field"
	case !valOK(hit.Val):
		why = "the value written is " + valueDesc(hit.Val) + ", expected " + valWhat
	}
	r.Check(why == "", rule, construct, p.instrPos(hit.In), fmt.Sprintf("big-endian, %d bytes at offset %d, value = %s", width, off, valWhat), why, true)
}

func runC02(p *Prog, r *Report, tier string) {
	ent := modPath + "/pkg/entities"
	// imported from C16: a template record's specifiers appended before PrepareRecord survive it (a template message that
	// declares N fields and carries none is not parseable)
	checkPrepareKeepsBody(p, r, "R-RFC.prepare-keeps-body")
	// constants
	for name, want := range map[string]int64{"MsgHeaderLength": rfcMsgHeaderLen, "SetHeaderLen": rfcSetHeaderLen, "TemplateSetID": rfcTemplateSetID, "MaxSocketMsgSize": 65535, "VariableLength": 65535} {
		v, ok := pkgConst(p, ent, name)
		r.Check(ok && v == want, "R-RFC.const", "pkg/entities."+name, "pkg/entities", fmt.Sprintf("= %d", want), fmt.Sprintf("constant is %d, RFC 7011 requires %d", v, want), false)
	}
	// message header setters
	for setter, ow := range rfcMsgHeader {
		f := p.Fn("(*pkg/entities.Message)." + setter)
		if f == nil {
			r.Undecided("R-RFC.msg-header", "(*pkg/entities.Message)."+setter, "pkg/entities/message.go", "setter not found")
			continue
		}
		checkPut(p, r, "R-RFC.msg-header", fnKey(f)+": header field position", f, putSites(f), "pkg/entities.Message.msgHeader", ow[0], ow[1], rfcMsgHeaderLen,
			func(v ssa.Value) bool { return len(f.Params) == 2 && v == ssa.Value(f.Params[1]) }, "the setter's parameter")
		// written when encoding
		for _, ps := range putSites(f) {
			okG := false
			for _, g := range guardsOf(ps.In.Block()) {
				if isFieldLoad(g.If.Cond, "pkg/entities.Message.isDecoding") && g.Succ == 1 {
					okG = true
				}
				if u, ok := g.If.Cond.(*ssa.UnOp); ok && u.Op == token.NOT && isFieldLoad(u.X, "pkg/entities.Message.isDecoding") && g.Succ == 0 {
					okG = true
				}
			}
			r.Check(okG, "R-RFC.msg-header", fnKey(f)+": written when encoding", p.instrPos(ps.In), "guarded by !isDecoding only", "the header bytes are not written exactly for encoding messages", false)
		}
	}
	if nm := p.Fn("pkg/entities.NewMessage"); nm != nil {
		ok := false
		eachInstr(nm, func(in ssa.Instruction) {
			if ms, isM := in.(*ssa.MakeSlice); isM {
				if v, isC := constInt(ms.Len); isC && v == rfcMsgHeaderLen {
					ok = true
				}
			}
			if al, isA := in.(*ssa.Alloc); isA && al.Comment == "makeslice" && strings.Contains(al.Type().String(), "[16]byte") {
				ok = true
			}
		})
		r.Check(ok, "R-RFC.msg-header", "pkg/entities.NewMessage: header buffer of 16 bytes", p.pos(nm.Pos()), "make([]byte, MsgHeaderLength)", "the message header buffer is not 16 bytes", false)
	}
	// version constant in the builder: C08's stamping rule (imported)
	checkHeaderStamping(p, r, "R-RFC.stamp")

	// set header: the function of pkg/entities that writes the set id (bytes 0..2 of set.headerBuffer) - a helper of
	// PrepareSet or PrepareSet itself - writes the constant 2 on every way in that stands for setType == Template and
	// its template-id parameter on every way in that stands for setType == Data (a value merged from two branches is
	// followed back through the phi, each edge with the facts of that edge)
	var ch *ssa.Function
	var idPuts []putSite
	for _, f := range p.RepoFns {
		if !keyInPkg(fnKey(f), "pkg/entities") {
			continue
		}
		for _, s := range putSites(f) {
			if s.Base == "pkg/entities.set.headerBuffer" && s.Low == 0 && s.Width == 2 {
				if ch != nil && ch != f {
					r.Violation("R-RFC.set-header", "pkg/entities: the set id is written by "+fnKey(ch)+" and by "+fnKey(f), p.pos(f.Pos()), "two writers of the set id")
				}
				ch = f
				idPuts = append(idPuts, s)
			}
		}
	}
	if ch == nil {
		r.Undecided("R-RFC.set-header", "anchor: writer of the set id", "pkg/entities/set.go", "no function writes bytes 0..2 of set.headerBuffer")
	} else {
		isSetType := func(v ssa.Value) bool {
			if prm, ok := v.(*ssa.Parameter); ok {
				return typeName(prm.Type()) == "pkg/entities.ContentType"
			}
			return isFieldLoad(v, "pkg/entities.set.setType")
		}
		nT, nD := 0, 0
		var dataParam *ssa.Parameter
		for _, s := range idPuts {
			one := []putSite{s}
			for _, lf := range valueLeaves(s.Val, s.In.Block(), 3) {
				kind := ""
				for _, fct := range lf.Facts {
					if isSetType(fct.X) && fct.Op == token.EQL {
						if v, ok := constInt(fct.Y); ok {
							kind = map[int64]string{0: "Template", 1: "Data"}[v]
						}
					}
				}
				leaf := lf.V
				switch kind {
				case "Template":
					nT++
					checkPut(p, r, "R-RFC.set-header", fnKey(ch)+": set id of a template set", ch, one, "pkg/entities.set.headerBuffer", 0, 2, -1,
						func(ssa.Value) bool { c, ok := constInt(leaf); return ok && c == rfcTemplateSetID }, "the constant 2")
				case "Data":
					nD++
					checkPut(p, r, "R-RFC.set-header", fnKey(ch)+": set id of a data set", ch, one, "pkg/entities.set.headerBuffer", 0, 2, -1,
						func(ssa.Value) bool {
							prm, ok := leaf.(*ssa.Parameter)
							if ok && prm.Parent() == ch {
								dataParam = prm
							}
							return ok && prm.Parent() == ch
						}, "the template id parameter")
				default:
					r.Violation("R-RFC.set-header", fnKey(ch)+": set id written outside the Template/Data cases", p.instrPos(s.In), "unrecognised set-id write")
				}
			}
		}
		if nT != 1 || nD != 1 {
			r.Violation("R-RFC.set-header", fnKey(ch)+": one set-id write per set type", p.pos(ch.Pos()), fmt.Sprintf("found %d for Template, %d for Data", nT, nD))
		}
		// PrepareSet creates the header from its own set type and template id
		if ps := p.Fn("(*pkg/entities.set).PrepareSet"); ps != nil {
			ok := false
			if ch == ps {
				ok = dataParam != nil && len(ps.Params) > 2 && dataParam == ps.Params[2]
			} else {
				eachInstr(ps, func(in ssa.Instruction) {
					if c, isC := in.(*ssa.Call); isC && c.Call.StaticCallee() == ch && dataParam != nil {
						okT, okD := false, false
						for i, a := range c.Call.Args {
							if i < len(ch.Params) && ch.Params[i] == dataParam && len(ps.Params) > 2 && a == ssa.Value(ps.Params[2]) {
								okD = true
							}
							if i < len(ch.Params) && typeName(ch.Params[i].Type()) == "pkg/entities.ContentType" && (isFieldLoad(a, "pkg/entities.set.setType") || (len(ps.Params) > 1 && a == ssa.Value(ps.Params[1]))) {
								okT = true
							}
						}
						ok = okT && okD
					}
				})
			}
			r.Check(ok, "R-RFC.set-header", fnKey(ps)+": header created from (setType, templateID)", p.pos(ps.Pos()), "createHeader(s.setType, templateID)", "PrepareSet does not create the set header from its own set type and template id", true)
		}
	}
	if ul := p.Fn("(*pkg/entities.set).UpdateLenInHeader"); ul == nil {
		r.Undecided("R-RFC.set-header", "(*pkg/entities.set).UpdateLenInHeader", "pkg/entities/set.go", "not found")
	} else {
		checkPut(p, r, "R-RFC.set-header", fnKey(ul)+": set length field", ul, putSites(ul), "pkg/entities.set.headerBuffer", 2, 2, rfcSetHeaderLen,
			func(v ssa.Value) bool {
				cv, ok := v.(*ssa.Convert)
				return ok && isFieldLoad(cv.X, "pkg/entities.set.length")
			}, "uint16(set.length)")
	}
	// template record header and field specifier
	if pr := p.Fn("(*pkg/entities.templateRecord).PrepareRecord"); pr == nil {
		r.Undecided("R-RFC.template", "(*pkg/entities.templateRecord).PrepareRecord", "pkg/entities/record.go", "not found")
	} else {
		ps := putSites(pr)
		checkPut(p, r, "R-RFC.template", fnKey(pr)+": template id", pr, ps, "pkg/entities.baseRecord.buffer", 0, 2, -1, func(v ssa.Value) bool { return isFieldLoad(v, "pkg/entities.baseRecord.templateID") }, "the record's template id")
		checkPut(p, r, "R-RFC.template", fnKey(pr)+": field count", pr, ps, "pkg/entities.baseRecord.buffer", 2, 2, 4, func(v ssa.Value) bool { return isFieldLoad(v, "pkg/entities.baseRecord.fieldCount") }, "the record's field count")
	}
	if ai := p.Fn("(*pkg/entities.templateRecord).addInfoElement"); ai == nil {
		r.Undecided("R-RFC.field-specifier", "(*pkg/entities.templateRecord).addInfoElement", "pkg/entities/record.go", "not found")
	} else {
		ps := putSites(ai)
		var spec, entp []putSite
		for _, s := range ps {
			if s.Width == 2 {
				spec = append(spec, s)
			} else {
				entp = append(entp, s)
			}
		}
		checkPut(p, r, "R-RFC.field-specifier", fnKey(ai)+": information element id", ai, spec, "local", 0, 2, -1, func(v ssa.Value) bool { return isFieldLoad(v, "pkg/entities.InfoElement.ElementId") }, "infoElement.ElementId")
		checkPut(p, r, "R-RFC.field-specifier", fnKey(ai)+": field length", ai, spec, "local", 2, 2, 4, func(v ssa.Value) bool { return isFieldLoad(v, "pkg/entities.InfoElement.Len") }, "infoElement.Len")
		// enterprise bit and number exactly when EnterpriseId != 0
		entGuard := func(b *ssa.BasicBlock) bool {
			for _, fct := range blockFacts(b) {
				if isFieldLoad(fct.X, "pkg/entities.InfoElement.EnterpriseId") && fct.Op == token.NEQ {
					if v, ok := constInt(fct.Y); ok && v == 0 {
						return true
					}
				}
			}
			return false
		}
		okNum := len(entp) == 1 && entp[0].Width == 4 && entp[0].Order == "BigEndian" && isFieldLoad(entp[0].Val, "pkg/entities.InfoElement.EnterpriseId") && entGuard(entp[0].In.Block())
		r.Check(okNum, "R-RFC.field-specifier", fnKey(ai)+": enterprise number", p.pos(ai.Pos()), "4 bytes big-endian = EnterpriseId, only when EnterpriseId != 0",
			"the 4-byte enterprise number is not written exactly for enterprise-specific elements", true)
		// the bit: buffer[lenBefore] |= 0x80
		okBit := false
		whyBit := "no 'buffer[initialLength] |= 0x80' found"
		eachInstr(ai, func(in ssa.Instruction) {
			st, ok := in.(*ssa.Store)
			if !ok {
				return
			}
			bo, ok := st.Val.(*ssa.BinOp)
			if !ok || (bo.Op != token.OR && bo.Op != token.ADD) {
				return
			}
			m, ok := constInt(bo.Y)
			if !ok {
				return
			}
			ia, ok := st.Addr.(*ssa.IndexAddr)
			if !ok {
				return
			}
			_, isLen := lenOfValue(ia.Index)
			first := false
			// (c) len(buffer) - 4 (or - len(the 4 specifier bytes)) taken right after those bytes were appended, before anything else is
			if sub, isSub := ia.Index.(*ssa.BinOp); isSub && sub.Op == token.SUB {
				var specRoot ssa.Value
				for _, s := range spec {
					if s.Low == 0 && len(s.In.Call.Args) > 1 {
						specRoot = sliceRoot(s.In.Call.Args[1])
					}
				}
				okY := false
				if k, isK := constInt(sub.Y); isK && k == 4 {
					okY = true
				}
				if lv, isL := lenOfValue(sub.Y); isL && specRoot != nil && sliceRoot(lv) == specRoot {
					okY = true
				}
				lenCall, _ := sub.X.(*ssa.Call)
				lb, isLB := lenOfValue(sub.X)
				if okY && isLB && lenCall != nil && isFieldLoad(lb, "pkg/entities.baseRecord.buffer") && specRoot != nil {
					var appends []*ssa.Call
					var firstAppend *ssa.Call
					eachInstr(ai, func(x ssa.Instruction) {
						if c, ok := x.(*ssa.Call); ok {
							if b, ok := c.Call.Value.(*ssa.Builtin); ok && b.Name() == "append" && len(c.Call.Args) == 2 && isFieldLoad(c.Call.Args[0], "pkg/entities.baseRecord.buffer") {
								appends = append(appends, c)
								if sliceRoot(c.Call.Args[1]) == specRoot {
									firstAppend = c
								}
							}
						}
					})
					if firstAppend != nil && dominates(firstAppend, lenCall) {
						first = true
						for _, a2 := range appends {
							if a2 != firstAppend && dominates(firstAppend, a2) && dominates(a2, lenCall) {
								first = false
							}
						}
					}
				}
			}
			// (b) the first octet of the local specifier bytes (the slice the element id was put into at [0:2]), set before those
			// bytes are appended to the record buffer
			if z, isZ := constInt(ia.Index); isZ && z == 0 {
				root := sliceRoot(ia.X)
				_, isMake := root.(*ssa.MakeSlice)
				if _, isAlloc := root.(*ssa.Alloc); isMake || isAlloc { // make with a constant length is compiled as new [n]T + slice
					sameAsID := false
					for _, s := range spec {
						if s.Low == 0 && len(s.In.Call.Args) > 1 && sliceRoot(s.In.Call.Args[1]) == root {
							sameAsID = true
						}
					}
					beforeAppend := false
					eachInstr(ai, func(x ssa.Instruction) {
						if c, ok := x.(*ssa.Call); ok {
							if b, ok := c.Call.Value.(*ssa.Builtin); ok && b.Name() == "append" && len(c.Call.Args) == 2 && sliceRoot(c.Call.Args[1]) == root {
								if tn, fn, _, ok := loadedField(c.Call.Args[0]); ok && tn+"."+fn == "pkg/entities.baseRecord.buffer" {
									beforeAppend = reachableBlockEdgeFree(in.Block(), c.Block()) && !reachable(c, in, nil)
								}
							}
						}
					})
					first = sameAsID && beforeAppend
				}
			}
			if isLen {
				if lc := ia.Index.(*ssa.Call); lc.Block() == ai.Blocks[0] {
					// len(buffer) taken before the specifier was appended
					first = true
					for _, x := range ai.Blocks[0].Instrs {
						if x == ssa.Instruction(lc) {
							break
						}
						if c, ok := x.(*ssa.Call); ok {
							if b, ok := c.Call.Value.(*ssa.Builtin); ok && b.Name() == "append" {
								first = false
							}
						}
					}
				}
			}
			switch {
			case m != 0x80:
				whyBit = fmt.Sprintf("the enterprise bit is 0x%x, RFC 7011 fig. G: the most significant bit (0x80) of the first octet", m)
			case !first:
				whyBit = "the bit is not set on the first octet of this field specifier"
			case !entGuard(in.Block()):
				whyBit = "the enterprise bit is set regardless of EnterpriseId"
			default:
				okBit = true
			}
		})
		r.Check(okBit, "R-RFC.field-specifier", fnKey(ai)+": enterprise bit", p.pos(ai.Pos()), "bit 0x80 of the specifier's first octet, only when EnterpriseId != 0", whyBit, true)
	}
	// value encodings: encoder half of the codec table + prefix scheme
	codecAgreement(p, r, "R-RFC.value", "enc")
	prefixSites(p, r, "R-RFC.prefix")

	// data records: each field at its reported width (buffer sizing / index advance / accumulation: C15's rules, imported)
	lengthAccounting(p, r, "R-RFC.record-layout")
	// message assembly
	checkMsgAssembly(p, r)
	checkTemplateElementsEmpty(p, r, "R-RFC.template-empty")
	// UpdateLenInHeader on every path before the send
	if ss := p.Fn("(*pkg/exporter.ExportingProcess).SendSet"); ss != nil {
		var upd ssa.Instruction
		eachInstr(ss, func(in ssa.Instruction) {
			if c := callOf(in); c != nil && c.IsInvoke() && c.Method.Name() == "UpdateLenInHeader" && c.Value == ssa.Value(ss.Params[1]) {
				upd = in
			}
		})
		sender, _, _ := ipfixSender(p)
		bad := upd == nil
		if !bad && sender != nil {
			q := &pathQuery{noExit: true, discharge: func(in ssa.Instruction) bool { return in == upd }, terminal: func(in ssa.Instruction) bool {
				c, ok := in.(*ssa.Call)
				return ok && c.Call.StaticCallee() == sender
			}}
			_, bad = q.findFromBlock(ss.Blocks[0])
		}
		r.Check(!bad, "R-GATE.update-len", fnKey(ss)+": set length field updated before the send", p.pos(ss.Pos()), "set.UpdateLenInHeader() on every path to the IPFIX send",
			"a set can be sent without its length field having been written (stale or zero set length on the wire)", true)
		// ... and nobody else reaches the IPFIX send: a caller that bypasses SendSet (e.g. the UDP template refresher) sends
		// sets whose length field was never written
		if sender != nil {
			for _, cs := range p.CallGraph().callers[sender] {
				r.Check(cs.Parent() == ss, "R-GATE.update-len", fmt.Sprintf("%s: called from %s", fnKey(sender), fnKey(cs.Parent())), p.instrPos(cs), "only SendSet (which updates the set length first) calls the IPFIX send function",
					"the IPFIX send function is called without going through SendSet: set.UpdateLenInHeader() is skipped and the set goes out with a stale or zero length field", true)
			}
		}
	}
	// imported: set length bookkeeping and sharing
	checkSetLengthBookkeeping(p, r, "R-VALUE.set-length")
	checkSharing(p, r, "R-SHARE", "pkg/exporter", "ExportingProcess", map[string]string{
		"pkg/exporter.ExportingProcess.jsonBufferLen": "written once by the constructor, read only on the Data/JSON path which no background goroutine takes",
	}, heldLocks(p))
}

func checkMsgAssembly(p *Prog, r *Report) {
	bi := msgBuilder(p)
	if bi == nil {
		r.Undecided("R-VALUE.assembly", "anchor: IPFIX message builder", "pkg/exporter/msg.go", "not found")
		return
	}
	f := bi.fn
	set := ssa.Value(f.Params[bi.set])
	var ms *ssa.MakeSlice
	eachInstr(f, func(in ssa.Instruction) {
		if m, ok := in.(*ssa.MakeSlice); ok {
			ms = m
		}
	})
	if ms == nil {
		r.Undecided("R-VALUE.assembly", fnKey(f)+": message buffer", p.pos(f.Pos()), "no make([]byte, msgLen)")
		return
	}
	msgLen := ms.Len
	// msgLen == 16 + set.GetSetLength()
	okLen := false
	if b, ok := msgLen.(*ssa.BinOp); ok && b.Op == token.ADD {
		for _, pair := range [][2]ssa.Value{{b.X, b.Y}, {b.Y, b.X}} {
			if c, ok := constInt(pair[0]); ok && c == rfcMsgHeaderLen {
				if call, ok := pair[1].(*ssa.Call); ok && calleeName(&call.Call) == "iface:pkg/entities.Set.GetSetLength" && call.Call.Value == set {
					okLen = true
				}
			}
		}
	}
	r.Check(okLen, "R-VALUE.assembly", fnKey(f)+": buffer size = MsgHeaderLength + set.GetSetLength()", p.instrPos(ms), "16 + GetSetLength()", "the message buffer is not sized header + set length", true)
	// SetMessageLen(uint16(msgLen)) same value
	okML := false
	eachInstr(f, func(in ssa.Instruction) {
		if c, ok := in.(*ssa.Call); ok && calleeName(&c.Call) == "(*pkg/entities.Message).SetMessageLen" {
			if cv, ok := c.Call.Args[1].(*ssa.Convert); ok && cv.X == msgLen {
				for _, fct := range blockFacts(in.Block()) {
					if fct.X == msgLen && (fct.Op == token.LEQ || fct.Op == token.LSS) {
						if v, ok := constInt(fct.Y); ok && v <= 65536 {
							okML = true
						}
					}
				}
			}
		}
	})
	r.Check(okML, "R-VALUE.assembly", fnKey(f)+": header length field = size of the returned buffer", p.instrPos(ms), "SetMessageLen(uint16(msgLen)) with the same msgLen that sizes the buffer, under msgLen <= 65535",
		"the length written into the message header is not the size of the buffer that is sent (or the uint16 conversion can truncate)", true)
	// copies
	type cp struct {
		lo, hi ssa.Value
		src    ssa.Value
		in     ssa.Instruction
	}
	var cps []cp
	eachInstr(f, func(in ssa.Instruction) {
		c, ok := in.(*ssa.Call)
		if !ok {
			return
		}
		if b, ok := c.Call.Value.(*ssa.Builtin); !ok || b.Name() != "copy" {
			return
		}
		sl, ok := c.Call.Args[0].(*ssa.Slice)
		if !ok || sl.X != ssa.Value(ms) {
			return
		}
		cps = append(cps, cp{sl.Low, sl.High, c.Call.Args[1], in})
	})
	cI := func(v ssa.Value, want int64) bool {
		if v == nil {
			return want == 0
		}
		c, ok := constInt(v)
		return ok && c == want
	}
	hdr, sh, rec := false, false, false
	for _, c := range cps {
		sc, _ := c.src.(*ssa.Call)
		if sc == nil {
			continue
		}
		n := calleeName(&sc.Call)
		switch {
		case n == "(*pkg/entities.Message).GetMsgHeader":
			hdr = cI(c.lo, 0) && cI(c.hi, rfcMsgHeaderLen)
		case n == "iface:pkg/entities.Set.GetHeaderBuffer":
			sh = cI(c.lo, rfcMsgHeaderLen) && cI(c.hi, rfcMsgHeaderLen+rfcSetHeaderLen) && sc.Call.Value == set && !inLoop(c.in.Block())
		case n == "iface:pkg/entities.Record.GetBuffer":
			// record = range element of set.GetRecords(); [idx : idx+len], len = same record's GetRecordLength(); idx: 20, += len
			recs, isR := rangeElem(sc.Call.Value)
			okRec := isR
			if isR {
				if rc, ok := recs.(*ssa.Call); !ok || calleeName(&rc.Call) != "iface:pkg/entities.Set.GetRecords" || rc.Call.Value != set {
					okRec = false
				}
			}
			idx, isPhi := c.lo.(*ssa.Phi)
			hi, isAdd := c.hi.(*ssa.BinOp)
			if okRec && isPhi && isAdd && hi.Op == token.ADD && hi.X == ssa.Value(idx) {
				lc, ok := hi.Y.(*ssa.Call)
				if !ok || calleeName(&lc.Call) != "iface:pkg/entities.Record.GetRecordLength" || !sameValue(lc.Call.Value, sc.Call.Value) {
					okRec = false
				}
				start, step := false, false
				for _, e := range idx.Edges {
					if v, ok := constInt(e); ok && v == rfcMsgHeaderLen+rfcSetHeaderLen {
						start = true
					}
					if b, ok := e.(*ssa.BinOp); ok && b.Op == token.ADD && b.X == ssa.Value(idx) && b.Y == hi.Y {
						step = true
					}
				}
				okRec = okRec && start && step
			} else {
				okRec = false
			}
			rec = okRec
		}
	}
	r.Check(hdr, "R-VALUE.assembly", fnKey(f)+": message header copied to [0:16]", p.pos(f.Pos()), "copy(buf[:16], msg.GetMsgHeader())", "the message header is not placed at the start of the message", true)
	r.Check(sh, "R-VALUE.assembly", fnKey(f)+": set header copied to [16:20] (exactly one set)", p.pos(f.Pos()), "copy(buf[16:20], set.GetHeaderBuffer()) once", "the set header is not placed right after the message header, or more than one set is written", true)
	r.Check(rec, "R-VALUE.assembly", fnKey(f)+": records copied back to back from offset 20", p.pos(f.Pos()), "for each record of set.GetRecords(): copy(buf[i:i+len], record.GetBuffer()); i += len, len = record.GetRecordLength()",
		"the records are not laid out contiguously after the set header, each at its own reported length", true)
	// returns the buffer
	okRet := false
	eachInstr(f, func(in ssa.Instruction) {
		if rt, ok := in.(*ssa.Return); ok {
			if n, has := retErrNil(rt); has && n && retResult(rt, 0) == ssa.Value(ms) {
				okRet = true
			}
		}
	})
	r.Check(okRet, "R-VALUE.assembly", fnKey(f)+": returns the assembled buffer", p.pos(f.Pos()), "return buf, nil", "the function does not return the buffer it assembled", true)
}

var _ = strings.Contains
