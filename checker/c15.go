package main

import (
	"fmt"
	"go/token"
	"go/types"
	"sort"
	"strings"

	"golang.org/x/tools/go/ssa"
)

func init() {
	register(&propDef{
		ID:          "C15",
		Explanation: "Table agreement writer <-> reader <-> spec for the value codec, decided from the source on every run: for every data type the element decoder supports, what the encoder writes on the paths on which the element has that data type (extracted by path enumeration over the SSA form: primitive, width, byte order, conversion chain, getter) and what the decoder hands to the constructor on those paths (primitive, width, byte order, conversion chain, constructor) are each compared with a reference table transcribed from RFC 7011 section 6.1 (unsigned/signed big-endian of 1/2/4/8 bytes, IEEE-754 bits big-endian, boolean 1=true/2=false, raw 6/4/16 bytes, length-prefixed strings/octets) - comparing each side with the spec, not with each other, also catches symmetric mistakes; width = InfoElementLength[type] = Len of EVERY registry literal of that type; the getter used by the encoder is declared by the concrete element type the decoder constructs; unsupported labels return an error on both sides and the label sets agree; the variable-length prefix scheme (threshold 255, +1 / 0xFF + 2 bytes = +3, max 65535) is read off the (length interval -> bytes written / overhead / outcome) table of its five sites (two GetLength methods, two encoder branches, the collector's prefix reader), whichever way the decision is spelled and each must equal RFC 7011 section 7; length accounting: baseInfoElement.GetLength returns element.Len, the fixed-length octet-array branch returns Len, the encoder's entry guard, the record buffer sizing and the index advance all use the same GetLength(), and both data-record constructors accumulate exactly GetLength() per element. Not decided: per-value equality (exhaustive enumeration is a dynamic notion); NaN payloads are preserved because Float*bits/Float*frombits are used, not observed. Later additions: the record loop of the data decoder has no early successful exit; setters of slice-valued elements replace the slice; the reader consumes per field what the writer produced (C01's field-bytes rule); InfoElements are immutable after construction; the whole element list is serialized into a buffer of d.len bytes. Round-five additions: the cached record buffer is reused only when its length equals the accounted length. Round-six additions: the decoder makes one element slice per record.",
		Assume:      []string{"encoding/binary and math.Float*bits semantics", "the reference table is a faithful transcription of RFC 7011 sections 6.1 and 7"},
		Run:         runC15,
	})
}

func expectEncoder(t string, ref refCodec) (codecSig, bool) {
	w := ref.Width
	switch ref.Kind {
	case "unsigned":
		if w == 1 {
			return codecSig{Form: "byte", Width: 1}, true
		}
		return codecSig{Form: "fixed", Width: w, Order: "BigEndian"}, true
	case "signed":
		if w == 1 {
			return codecSig{Form: "byte", Width: 1, Conv: "uint8"}, true
		}
		return codecSig{Form: "fixed", Width: w, Order: "BigEndian", Conv: fmt.Sprintf("uint%d", 8*w)}, true
	case "float":
		return codecSig{Form: "fixed", Width: w, Order: "BigEndian", Conv: fmt.Sprintf("math.Float%dbits", 8*w)}, true
	case "boolean":
		return codecSig{Form: "boolean", Width: 1, Extra: "true=1,false=2"}, true
	case "raw":
		s := codecSig{Form: "raw"}
		if t == "Ipv4Address" {
			s.Extra, s.Width = "To4", 4
		}
		if t == "Ipv6Address" {
			s.Extra, s.Width = "To16", 16
		}
		return s, true
	case "string":
		return codecSig{Form: "string"}, true
	case "octets":
		return codecSig{Form: "octets"}, true
	}
	return codecSig{}, false
}

func expectDecoder(t string, ref refCodec) (codecSig, bool) {
	w := ref.Width
	switch ref.Kind {
	case "unsigned":
		if w == 1 {
			return codecSig{Form: "byte", Width: 1}, true
		}
		return codecSig{Form: "fixed", Width: w, Order: "BigEndian"}, true
	case "signed":
		if w == 1 {
			return codecSig{Form: "byte", Width: 1, Conv: "int8"}, true
		}
		return codecSig{Form: "fixed", Width: w, Order: "BigEndian", Conv: fmt.Sprintf("int%d", 8*w)}, true
	case "float":
		return codecSig{Form: "fixed", Width: w, Order: "BigEndian", Conv: fmt.Sprintf("math.Float%dfrombits", 8*w)}, true
	case "boolean":
		return codecSig{Form: "boolean", Width: 1, Extra: "true=1,eq=>true,else=>false"}, true
	case "raw":
		return codecSig{Form: "raw"}, true
	case "string":
		return codecSig{Form: "string"}, true
	case "octets":
		return codecSig{Form: "octets"}, true
	}
	return codecSig{}, false
}

func sameSig(got, want codecSig, decoder bool) (bool, string) {
	if got.Form != want.Form {
		return false, fmt.Sprintf("encoding form is %q, the RFC requires %q", got.Form, want.Form)
	}
	if want.Width != 0 && got.Width != want.Width {
		return false, fmt.Sprintf("%d byte(s) on the wire, the RFC requires %d", got.Width, want.Width)
	}
	if want.Order != "" && got.Order != want.Order {
		return false, "byte order is " + got.Order + ", the RFC requires network byte order (big endian)"
	}
	if got.Conv != want.Conv {
		if !(decoder && want.Form == "boolean" && (got.Conv == "int8" || got.Conv == "")) {
			return false, fmt.Sprintf("conversion chain is %q, expected %q", got.Conv, want.Conv)
		}
	}
	if want.Extra != "" && got.Extra != want.Extra {
		return false, fmt.Sprintf("detail is %q, expected %q", got.Extra, want.Extra)
	}
	return true, ""
}

// codecAgreement runs rule A/B for all types; used by C15, C01 and (encoder side) C02.
func codecAgreement(p *Prog, r *Report, rule string, sides string) *ieTables {
	tb := p.liftIETables()
	for _, pr := range tb.Problems {
		r.Undecided(rule, "anchor: entities tables", "pkg/entities/ie.go", pr)
	}
	enc, prE := p.encoderSigs(tb)
	dec, prD := p.decoderSigs(tb)
	for _, pr := range append(prE, prD...) {
		r.Undecided(rule, "anchor: codec switches", "pkg/entities/ie.go", pr)
	}
	if len(tb.Supported) < 17 {
		r.Undecided(rule, "anchor: supported data types", "pkg/entities/ie.go", fmt.Sprintf("the decoder supports only %d types (expected the 17 of the property plus octetArray)", len(tb.Supported)))
	}
	for _, t := range tb.Supported {
		ref, ok := rfc7011Types[t]
		if !ok {
			r.Undecided(rule, "pkg/entities: data type "+t+" has no entry in the RFC 7011 reference table", "pkg/entities/ie.go", "a new supported type needs a reference entry")
			continue
		}
		if strings.Contains(sides, "enc") {
			want, _ := expectEncoder(t, ref)
			got, have := enc[t]
			if !have {
				r.Violation(rule+".encoder", "encodeInfoElementValueToBuff: case "+t, "pkg/entities/ie.go", "the encoder has no case for a type the decoder supports")
			} else {
				ok, why := sameSig(got, want, false)
				r.Check(ok, rule+".encoder", "encodeInfoElementValueToBuff: case "+t, p.pos(got.Pos), "matches RFC 7011: "+got.String(), "encoder "+got.String()+": "+why, true)
				if got.Access != "" {
					r.Check(tb.getterOK(t, got.Access), "R-GETTER", "encodeInfoElementValueToBuff: case "+t+" uses "+got.Access, p.pos(got.Pos), "declared by "+tb.Concrete[t],
						got.Access+" is not declared by "+tb.Concrete[t]+": encoding this type panics", true)
				}
			}
		}
		if strings.Contains(sides, "dec") {
			want, _ := expectDecoder(t, ref)
			got := dec[t]
			ok, why := sameSig(got, want, true)
			r.Check(ok, rule+".decoder", "DecodeAndCreateInfoElementWithValue: case "+t, p.pos(got.Pos), "matches RFC 7011: "+got.String(), "decoder "+got.String()+": "+why, true)
		}
		// width tables
		wantLen := int64(ref.Width)
		if ref.Width == 0 {
			wantLen = 65535
		}
		r.Check(tb.Length[t] == wantLen, rule+".length-table", "InfoElementLength["+t+"]", "pkg/entities/ie.go", fmt.Sprintf("%d", wantLen),
			fmt.Sprintf("InfoElementLength[%s] = %d, the codec width is %d", t, tb.Length[t], wantLen), true)
	}
	// label sets / unsupported on both sides
	if sides == "enc+dec" {
		var labels []string
		for l := range enc {
			labels = append(labels, l)
		}
		sort.Strings(labels)
		for _, l := range labels {
			_, sup := tb.Concrete[l]
			if sup {
				continue
			}
			d, have := dec[l]
			r.Check(enc[l].Form == "error" && have && d.Form == "error", rule+".unsupported", "codec: label "+l+" rejected on both sides", p.pos(enc[l].Pos), "error on both sides",
				"a data type is encodable but not decodable (or vice versa)", true)
		}
		for l := range dec {
			if _, have := enc[l]; !have {
				r.Violation(rule+".unsupported", "codec: label "+l+" missing in the encoder", p.pos(dec[l].Pos), "decoder and encoder switches cover different label sets")
			}
		}
	}
	return tb
}

func registryLengths(p *Prog, r *Report, rule string, tb *ieTables) {
	reg, problems := p.liftRegistry()
	for _, pr := range problems {
		r.Undecided(rule, "anchor: registry literals", "pkg/registry", pr)
	}
	if len(reg) < 400 {
		r.Undecided(rule, "anchor: registry literals", "pkg/registry", fmt.Sprintf("only %d lifted", len(reg)))
		return
	}
	bad := 0
	perType := map[string]int{}
	for _, e := range reg {
		tn := tb.TypeNames[e.Type]
		perType[tn]++
		want, ok := tb.Length[tn]
		if !ok {
			continue
		}
		if _, sup := tb.Concrete[tn]; !sup {
			continue
		}
		if e.Len != want {
			bad++
			r.Violation(rule, fmt.Sprintf("registry %q (id %d, enterprise %d): Len %d for type %s", e.Name, e.ID, e.Ent, e.Len, tn), p.pos(e.Pos),
				fmt.Sprintf("the codec reads/writes %d bytes for %s: template length and encoded width disagree", want, tn))
		}
		if e.Ent != e.RegEnt {
			bad++
			r.Violation(rule, fmt.Sprintf("registry %q (id %d): enterprise %d registered under %d", e.Name, e.ID, e.Ent, e.RegEnt), p.pos(e.Pos), "the element's own enterprise id and the registry it is put into differ")
		}
	}
	if bad == 0 {
		r.OK(rule, "registry: Len of every literal equals the codec width of its type", "pkg/registry", fmt.Sprintf("%d literals checked (%v)", len(reg), perType), true)
	}
	r.Facts["registry_literals"] = len(reg)
	// the reverse registry copies id, type and length of the forward element
	rv := p.Fn("pkg/registry.getIANAReverseInfoElement")
	if rv == nil {
		r.Undecided(rule+".reverse", "anchor: getIANAReverseInfoElement", "pkg/registry/registry.go", "not found")
		return
	}
	okRev := false
	eachInstr(rv, func(in ssa.Instruction) {
		c, ok := in.(*ssa.Call)
		if !ok || calleeName(&c.Call) != "pkg/entities.NewInfoElement" {
			return
		}
		f := func(v ssa.Value) string { _, fn, _, _ := loadedField(v); return fn }
		ent, _ := constInt(c.Call.Args[3])
		okRev = f(c.Call.Args[1]) == "ElementId" && f(c.Call.Args[2]) == "DataType" && f(c.Call.Args[4]) == "Len" && ent == 29305
	})
	r.Check(okRev, rule+".reverse", "pkg/registry.getIANAReverseInfoElement: reverse element copies id, type, length", p.pos(rv.Pos()), "NewInfoElement(name, ie.ElementId, ie.DataType, 29305, ie.Len)",
		"the derived reverse element does not copy the forward element's id, data type and length", true)
}

func prefixSites(p *Prog, r *Report, rule string) {
	cmp := func(site string, pos string, got prefixScheme, why string, fields string) {
		if why != "" {
			r.Violation(rule, site+": variable-length prefix scheme", pos, why)
			return
		}
		var diffs []string
		if strings.Contains(fields, "T") && got.Threshold != rfcPrefix.Threshold {
			diffs = append(diffs, fmt.Sprintf("short form used for lengths < %d (RFC: < 255)", got.Threshold))
		}
		if strings.Contains(fields, "S") && got.ShortOver != rfcPrefix.ShortOver {
			diffs = append(diffs, fmt.Sprintf("short overhead %d (RFC: 1)", got.ShortOver))
		}
		if strings.Contains(fields, "L") && got.LongOver != rfcPrefix.LongOver {
			diffs = append(diffs, fmt.Sprintf("long overhead %d (RFC: 3)", got.LongOver))
		}
		if strings.Contains(fields, "M") && got.Marker != rfcPrefix.Marker {
			diffs = append(diffs, fmt.Sprintf("long-form marker %d (RFC: 255)", got.Marker))
		}
		if strings.Contains(fields, "X") && got.Max != rfcPrefix.Max {
			diffs = append(diffs, fmt.Sprintf("maximum length %d (RFC: 65535)", got.Max))
		}
		r.Check(len(diffs) == 0, rule, site+": variable-length prefix scheme", pos, "1 octet below 255, else 0xFF + 2 octets (+3), max 65535",
			strings.Join(diffs, "; ")+": reported length, bytes written and bytes consumed disagree at the boundary", true)
	}
	for _, k := range []string{"(*pkg/entities.OctetArrayInfoElement).GetLength", "(*pkg/entities.StringInfoElement).GetLength"} {
		f := p.Fn(k)
		if f == nil {
			r.Undecided(rule, k+": variable-length prefix scheme", "pkg/entities/ie_value.go", "method not found")
			continue
		}
		s, why := getLengthScheme(f)
		cmp(k, p.pos(f.Pos()), s, why, "TSL")
	}
	enc := p.Fn("pkg/entities.encodeInfoElementValueToBuff")
	if enc == nil {
		r.Undecided(rule, "encoder: variable-length prefix scheme", "pkg/entities/ie.go", "encoder not found")
	} else {
		schemes, whys := encoderPrefixSchemesWhy(enc)
		for _, g := range []string{"GetOctetArrayValue", "GetStringValue"} {
			s, ok := schemes[g]
			why := whys[g]
			if !ok {
				why = "no length-prefix selection found for " + g
			}
			cmp("encodeInfoElementValueToBuff["+g+"]", p.pos(enc.Pos()), s, why, "TSLMX")
		}
	}
	var rd *ssa.Function
	for _, f := range p.RepoFns {
		if keyInPkg(fnKey(f), "pkg/collector") && len(callsTo(f, "(*bytes.Buffer).ReadByte")) > 0 {
			rd = f
		}
	}
	if rd == nil {
		r.Undecided(rule, "collector prefix reader: variable-length prefix scheme", "pkg/collector/process.go", "no function reads the first length octet with ReadByte")
	} else {
		s, why := readerPrefixScheme(p, rd)
		cmp(fnKey(rd), p.pos(rd.Pos()), s, why, "TSLM")
	}
}

func lengthAccounting(p *Prog, r *Report, rule string) {
	// baseInfoElement.GetLength returns int(element.Len)
	if f := p.Fn("(*pkg/entities.baseInfoElement).GetLength"); f == nil {
		r.Undecided(rule, "baseInfoElement.GetLength", "pkg/entities/ie_value.go", "not found")
	} else {
		ok := false
		eachInstr(f, func(in ssa.Instruction) {
			if rt, ok2 := in.(*ssa.Return); ok2 && len(rt.Results) == 1 {
				if cv, ok3 := rt.Results[0].(*ssa.Convert); ok3 {
					if tn, fn, _, ok4 := loadedField(cv.X); ok4 && tn == "pkg/entities.InfoElement" && fn == "Len" {
						ok = true
					}
				}
			}
		})
		r.Check(ok, rule, fnKey(f)+": returns int(element.Len)", p.pos(f.Pos()), "the reported length of a fixed-width element is the template length", "fixed-width elements do not report element.Len as their length", true)
	}
	// which concrete types override GetLength: only the two variable-length ones
	tb := p.liftIETables()
	for ct, ms := range tb.Declared {
		if ms["GetLength"] && ct != "OctetArrayInfoElement" && ct != "StringInfoElement" {
			r.Violation(rule, ct+": overrides GetLength", "pkg/entities/ie_value.go", "a fixed-width element type reports its own length: it can disagree with the bytes the encoder writes")
		}
	}
	// OctetArray fixed branch
	if f := p.Fn("(*pkg/entities.OctetArrayInfoElement).GetLength"); f != nil {
		// every exit on which Len is known to be a fixed length (Len < 65535 or Len != 65535) returns int(Len), and there
		// is such an exit - whichever way the test is spelled (operand order, early return, switch, spliced helper)
		ok := false
		bad := false
		lenSym := ""
		w := &absWalker{MaxPaths: 512}
		w.OnInstr = func(st *absState, in ssa.Instruction) {
			if u, ok2 := in.(*ssa.UnOp); ok2 && u.Op == token.MUL {
				if _, fn, _, ok3 := loadedField(u); ok3 && fn == "Len" {
					lenSym = st.key(u)
				}
			}
		}
		w.OnEnd = func(st *absState, last ssa.Instruction) {
			rt, ok2 := last.(*ssa.Return)
			if !ok2 || len(rt.Results) != 1 || lenSym == "" {
				return
			}
			_, hi := st.bounds(lenSym)
			fixed := hi <= 65534
			for _, rel := range st.rels {
				if rel == lenSym+"!=65535" {
					fixed = true
				}
			}
			l := st.linear(rt.Results[0])
			returnsLen := l.Sym == lenSym && l.K == 0
			if fixed && returnsLen {
				ok = true
			}
			if fixed && !returnsLen {
				bad = true
			}
		}
		w.walk(newAbsState(), f.Blocks[0], 0)
		ok = ok && !bad && !w.Overflow && !w.Looped
		r.Check(ok, rule, fnKey(f)+": fixed-length branch returns element.Len", p.pos(f.Pos()), "Len < VariableLength => int(Len)", "a fixed-length octet array does not report its template length", true)
	}
	// encoder entry guard: index + GetLength() > len(buffer) => error
	if enc := p.Fn("pkg/entities.encodeInfoElementValueToBuff"); enc != nil {
		ok := false
		if i := ifOf(enc.Blocks[0]); i != nil {
			for _, cf := range cmpForms(i.Cond) {
				if add, ok3 := cf.X.(*ssa.BinOp); ok3 && add.Op == token.ADD && cf.Op == token.GTR {
					_, isLen := lenOfValue(cf.Y)
					gl := false
					for _, v := range []ssa.Value{add.X, add.Y} {
						if c, ok4 := v.(*ssa.Call); ok4 && calleeName(&c.Call) == "iface:pkg/entities.InfoElementWithValue.GetLength" {
							gl = true
						}
					}
					if isLen && gl && onlyErrorReturnsFrom(enc.Blocks[0].Succs[cf.Succ]) {
						ok = true
					}
				}
			}
		}
		r.Check(ok, rule, fnKey(enc)+": entry guard index + GetLength() > len(buffer)", p.pos(enc.Pos()), "error before any write", "the encoder does not refuse to write past the record buffer using the element's reported length", true)
	}
	// GetBuffer hands out a buffer it built earlier only when that buffer still has the record's length (or the record is a
	// decoding one): elements can be added after a first serialization (spare slots, AddInfoElement), and a stale buffer
	// would be shorter than the length the record reports
	if f := p.Fn("(*pkg/entities.dataRecord).GetBuffer"); f != nil && len(f.Blocks) > 0 {
		okCache, nCached := true, 0
		wc := &absWalker{MaxPaths: 4096}
		wc.OnInstr = func(st *absState, in ssa.Instruction) {
			if _, ok := in.(*ssa.MakeSlice); ok {
				st.Events = append(st.Events, absEvent{Kind: "make", In: in})
			}
		}
		wc.OnEnd = func(st *absState, last ssa.Instruction) {
			if _, ok := last.(*ssa.Return); !ok {
				return
			}
			for _, e := range st.Events {
				if e.Kind == "make" {
					return
				}
			}
			nCached++
			justified := false
			for _, cd := range st.Conds {
				c := cd.If.Cond
				pol := 0
				for {
					u, ok := c.(*ssa.UnOp)
					if !ok || u.Op != token.NOT {
						break
					}
					c, pol = u.X, 1-pol
				}
				if isFieldLoad(c, "pkg/entities.baseRecord.isDecoding") && cd.Succ == pol {
					justified = true
				}
				for _, cf := range cmpForms(cd.If.Cond) {
					if cf.Op != token.EQL || cf.Succ != cd.Succ {
						continue
					}
					lv, isL := lenOfValue(cf.X)
					if isL && isFieldLoad(lv, "pkg/entities.baseRecord.buffer") && isFieldLoad(cf.Y, "pkg/entities.baseRecord.len") {
						justified = true
					}
				}
			}
			if !justified {
				okCache = false
			}
		}
		wc.walk(newAbsState(), f.Blocks[0], 0)
		r.Check(okCache && nCached > 0 && !wc.Overflow, rule, fnKey(f)+": a buffer built earlier is reused only while it has the record's length", p.pos(f.Pos()),
			"the early return is taken under len(d.buffer) == d.len (or for a decoding record)",
			"the serialized buffer is cached under another condition (e.g. 'already built'): after elements are added to spare slots the record reports a length its buffer does not have, and the set / message lengths no longer equal the bytes sent", true)
	}
	// GetBuffer: make(len) ; index += GetLength
	if f := p.Fn("(*pkg/entities.dataRecord).GetBuffer"); f != nil {
		okMake, okAdv := false, false
		eachInstr(f, func(in ssa.Instruction) {
			switch x := in.(type) {
			case *ssa.MakeSlice:
				if _, fn, _, ok := loadedField(x.Len); ok && fn == "len" {
					okMake = true
				}
			case *ssa.BinOp:
				if x.Op == token.ADD {
					if c, ok := x.Y.(*ssa.Call); ok && calleeName(&c.Call) == "iface:pkg/entities.InfoElementWithValue.GetLength" {
						if _, isPhi := x.X.(*ssa.Phi); isPhi {
							// same element as the one encoded
							okAdv = true
						}
					}
				}
			}
		})
		// the index phi of the loop: every back edge carries index + GetLength() of the loop's element (also after an encode error)
		var encIdx ssa.Value
		eachInstr(f, func(in ssa.Instruction) {
			if c, ok := in.(*ssa.Call); ok && c.Call.StaticCallee() != nil && c.Call.StaticCallee().Name() == "encodeInfoElementValueToBuff" && len(c.Call.Args) == 3 {
				encIdx = c.Call.Args[2]
			}
		})
		okEvery := false
		eachInstr(f, func(in ssa.Instruction) {
			ph, ok := in.(*ssa.Phi)
			// the write offset: the phi that is handed to the encoder as its index argument (whatever the variable is called)
			if !ok || encIdx == nil || ssa.Value(ph) != encIdx {
				return
			}
			okEvery = true
			for i, e := range ph.Edges {
				pred := ph.Block().Preds[i]
				if !ph.Block().Dominates(pred) {
					continue // loop entry
				}
				b, ok := e.(*ssa.BinOp)
				if !ok || b.Op != token.ADD || b.X != ssa.Value(ph) {
					okEvery = false
					continue
				}
				c, ok := b.Y.(*ssa.Call)
				if !ok || calleeName(&c.Call) != "iface:pkg/entities.InfoElementWithValue.GetLength" {
					okEvery = false
				}
			}
		})
		// every element of the list is handed to the encoder (no element is skipped as "empty": false is 2, -0.0 has a sign bit)
		var encCall *ssa.Call
		eachInstr(f, func(in ssa.Instruction) {
			if c, ok := in.(*ssa.Call); ok && c.Call.StaticCallee() != nil && c.Call.StaticCallee().Name() == "encodeInfoElementValueToBuff" {
				encCall = c
			}
		})
		okEnc := false
		if encCall != nil {
			if _, isR := rangeElem(encCall.Call.Args[0]); isR {
				if lh := loopHeadOf(encCall.Block()); lh != nil {
					body := lh.Succs[0]
					q := &pathQuery{loopHead: lh, noExit: true, discharge: func(in ssa.Instruction) bool { return in == ssa.Instruction(encCall) }}
					_, bad := q.findFromBlock(body)
					okEnc = !bad
				}
			}
		}
		r.Check(okEnc, rule, fnKey(f)+": every element is encoded", p.pos(f.Pos()), "each iteration passes encodeInfoElementValueToBuff(element, ...) for the loop's element",
			"an element can be skipped without being encoded (its bytes stay zero): values whose encoding is not all-zero (boolean false = 2, -0.0) are altered", true)
		// the loop runs to the end of the element list and the buffer keeps its d.len bytes: no break / return inside the
		// loop, no re-slicing of the buffer field (a record whose buffer is shorter than its reported length makes the set
		// length and the message length lie)
		okWhole := true
		whyWhole := ""
		if encCall != nil {
			if lh := loopHeadOf(encCall.Block()); lh != nil {
				inL := func(b *ssa.BasicBlock) bool { return lh.Dominates(b) && reachableBlock(b, lh) }
				for _, b := range f.Blocks {
					if !inL(b) {
						continue
					}
					for si, sc := range b.Succs {
						if !inL(sc) && !(b == lh && si == 1) {
							okWhole, whyWhole = false, "the element loop can be left before the last element (break / return at "+p.instrPos(b.Instrs[len(b.Instrs)-1])+")"
						}
					}
				}
			}
		}
		eachInstr(f, func(in ssa.Instruction) {
			if st, ok := in.(*ssa.Store); ok {
				if _, fn, _, ok := fieldOf(st.Addr); ok && fn == "buffer" {
					if _, isMake := stripChange(st.Val).(*ssa.MakeSlice); !isMake {
						okWhole, whyWhole = false, "the record buffer is re-assigned to something other than make([]byte, d.len) at "+p.instrPos(in)
					}
				}
			}
		})
		r.Check(okWhole, rule, fnKey(f)+": the whole element list is serialized into a buffer of d.len bytes", p.pos(f.Pos()), "no early exit from the element loop, buffer only ever make([]byte, d.len)",
			whyWhole+": GetBuffer() is then shorter than GetRecordLength(), so the set / message length fields no longer equal the bytes serialized", true)
		r.Check(okMake && okAdv && okEvery, rule, fnKey(f)+": buffer of d.len bytes, index advanced by GetLength()", p.pos(f.Pos()), "sizing uses the accumulated length; every iteration (also after an encode error) advances the index by the element's GetLength()",
			"the record buffer is not sized by the accumulated length, or an iteration can continue without advancing the write index by the element's GetLength(): the following fields are written at the wrong offsets", true)
	}
	// accumulation sites
	for _, k := range []string{"pkg/entities.NewDataRecordFromElements", "(*pkg/entities.dataRecord).AddInfoElement"} {
		f := p.Fn(k)
		if f == nil {
			r.Undecided(rule, k+": accumulates GetLength()", "pkg/entities/record.go", "not found")
			continue
		}
		n, other := 0, 0
		eachInstr(f, func(in ssa.Instruction) {
			b, ok := in.(*ssa.BinOp)
			if !ok || b.Op != token.ADD {
				return
			}
			// the accumulator: a loop-carried integer (phi that is fed by this very addition) or the record's len field
			isAcc := false
			if ph, isPhi := b.X.(*ssa.Phi); isPhi {
				for _, e := range ph.Edges {
					if e == ssa.Value(b) {
						isAcc = true
					}
				}
				if _, isIdx := rangeLoopCounter(ph); isIdx {
					isAcc = false // the loop counter itself (i + 1)
				}
			}
			if _, fn, _, ok := loadedField(b.X); ok && fn == "len" {
				isAcc = true
			}
			if !isAcc {
				return
			}
			if c, ok := b.Y.(*ssa.Call); ok && calleeName(&c.Call) == "iface:pkg/entities.InfoElementWithValue.GetLength" {
				n++
			} else {
				other++
			}
		})
		r.Check(n == 1 && other == 0, rule, k+": accumulates GetLength()", p.pos(f.Pos()), "record length += element.GetLength() and nothing else",
			"the record length is accumulated from something other than each element's GetLength(): reported length and bytes written differ", true)
	}
}

func runC15(p *Prog, r *Report, tier string) {
	// AddRecordV2 adopts the element slice it is given: the decoder makes one slice per record
	checkFreshPerIteration(p, r, "R-OWNER.elements-fresh", "(*pkg/collector.CollectingProcess).decodeDataSet", func(n string) bool { return strings.HasSuffix(n, ".AddRecordV2") }, 1, "element slice")
	tb := codecAgreement(p, r, "R-CODEC", "enc+dec")
	registryLengths(p, r, "R-CODEC.registry", tb)
	prefixSites(p, r, "R-CODEC.prefix")
	// the decoder consumes what the encoder wrote: no record of the set body is skipped
	checkRecordLoopExits(p, r, "R-CODEC.record-loop")
	// the decoder's consumption agrees with what the encoder wrote, field by field (C01's reader rule)
	checkFieldBytes(p, r, "R-CODEC")
	checkValueSettersFresh(p, r, "R-CODEC.setter-fresh")
	// the length an element reports comes from its InfoElement: nobody rewrites a (shared, registry-owned) InfoElement
	checkInfoElementImmutable(p, r, "R-OWNER.info-element")
	lengthAccounting(p, r, "R-CODEC.length")
}

// checkValueSettersFresh: the byte-slice values of elements (IP, MAC, octet array) are handed out by reference
// (GetIPAddressValue, GetElementMap, query results). A setter therefore REPLACES the slice; writing the new bytes into
// the old backing array (append(old[:0], ...), copy(old, ...)) changes values other holders are still reading.
func checkValueSettersFresh(p *Prog, r *Report, rule string) {
	n := 0
	for _, f := range p.RepoFns {
		if !keyInPkg(fnKey(f), "pkg/entities") || !strings.HasPrefix(f.Name(), "Set") || !isValueAccessor(f.Name()) {
			continue
		}
		eachInstr(f, func(in ssa.Instruction) {
			switch x := in.(type) {
			case *ssa.Store:
				_, fn, _, ok := fieldOf(x.Addr)
				if !ok || fn != "value" {
					return
				}
				if _, isSlice := x.Val.Type().Underlying().(*types.Slice); !isSlice {
					return
				}
				n++
				reuse := false
				seen := map[ssa.Value]bool{}
				var walk func(v ssa.Value)
				walk = func(v ssa.Value) {
					v = stripChange(v)
					if v == nil || seen[v] {
						return
					}
					seen[v] = true
					switch y := v.(type) {
					case *ssa.Phi:
						for _, e := range y.Edges {
							walk(e)
						}
					case *ssa.Slice:
						walk(y.X)
					case *ssa.Call:
						if b, ok := y.Call.Value.(*ssa.Builtin); ok && b.Name() == "append" {
							walk(y.Call.Args[0])
						}
					case *ssa.UnOp:
						if _, fn2, _, ok := loadedField(y); ok && fn2 == "value" {
							reuse = true
						}
					}
				}
				walk(x.Val)
				r.Check(!reuse, rule, fnKey(f)+": the stored slice is not built on the previous value's array", p.instrPos(in), "value replaced, not overwritten in place",
					"the setter writes the new bytes into the backing array of the previous value, which GetXxxValue / GetElementMap handed out by reference: a result obtained earlier (e.g. by a query) changes under its reader", true)
			case *ssa.Call:
				if b, ok := x.Call.Value.(*ssa.Builtin); ok && b.Name() == "copy" {
					if _, fn2, _, ok := loadedField(stripChange(x.Call.Args[0])); ok && fn2 == "value" {
						n++
						r.Violation(rule, fnKey(f)+": copy into the previous value", p.instrPos(in), "the setter copies into the slice that earlier getters handed out by reference")
					}
				}
			}
		})
	}
	if n < 3 {
		r.Undecided(rule, "anchor: setters of slice-valued elements", "pkg/entities/ie_value.go", fmt.Sprintf("found %d stores, expected the IP, MAC and octet-array setters", n))
	}
}

// checkTemplateElementsEmpty: a template is built by decoding every element with a nil value
// (MakeTemplateSet -> DecodeAndCreateInfoElementWithValue(ie, nil)) and a template record refuses elements whose
// IsValueEmpty() is false. For the slice-valued element types IsValueEmpty is `value == nil`, so on the decoder's
// nil-input path their constructors must be given nil itself (an empty non-nil slice is "non-empty"): otherwise every
// template containing such an element can be sent once but never rebuilt - the UDP refresh fails and closes the exporter.
func checkTemplateElementsEmpty(p *Prog, r *Report, rule string) {
	dec := p.Fn("pkg/entities.DecodeAndCreateInfoElementWithValue")
	if dec == nil || len(dec.Params) < 2 {
		r.Undecided(rule, "anchor: element decoder", "pkg/entities/ie.go", "not found")
		return
	}
	val := ssa.Value(dec.Params[1])
	// element types whose emptiness test is a nil comparison
	nilTested := map[string]bool{}
	for _, f := range p.RepoFns {
		if f.Name() != "IsValueEmpty" || !keyInPkg(fnKey(f), "pkg/entities") {
			continue
		}
		eachInstr(f, func(in ssa.Instruction) {
			if b, ok := in.(*ssa.BinOp); ok && b.Op == token.EQL {
				if c, ok := b.Y.(*ssa.Const); ok && c.IsNil() {
					if tn, fn, _, ok := loadedField(b.X); ok && fn == "value" {
						nilTested[tn] = true
					}
				}
			}
		})
	}
	knownNil := func(b *ssa.BasicBlock) (isNil, known bool) {
		for _, fct := range blockFacts(b) {
			if fct.X == val {
				if c, ok := fct.Y.(*ssa.Const); ok && c.IsNil() {
					if fct.Op == token.EQL {
						return true, true
					}
					if fct.Op == token.NEQ {
						return false, true
					}
				}
			}
		}
		return false, false
	}
	n := 0
	eachInstr(dec, func(in ssa.Instruction) {
		c, ok := in.(*ssa.Call)
		if !ok || c.Call.StaticCallee() == nil || len(c.Call.Args) != 2 {
			return
		}
		ctor := c.Call.StaticCallee()
		if !strings.HasPrefix(ctor.Name(), "New") || !strings.HasSuffix(ctor.Name(), "InfoElement") {
			return
		}
		if _, isSlice := c.Call.Args[1].Type().Underlying().(*types.Slice); !isSlice {
			return
		}
		// result type's element struct
		tn := ""
		if ptr, ok := ctor.Signature.Results().At(0).Type().(*types.Pointer); ok {
			tn = typeName(ptr)
		}
		if !nilTested[tn] {
			return
		}
		n++
		bad := ""
		check := func(v ssa.Value, blk *ssa.BasicBlock) {
			isNil, known := knownNil(blk)
			if known && !isNil {
				return // value present: a copy of it is what we want
			}
			if cst, ok := stripChange(v).(*ssa.Const); ok && cst.IsNil() {
				return
			}
			if stripChange(v) == val {
				return // the input itself: nil in, nil out
			}
			bad = "on the path where the input is nil (or not known to be non-nil) the constructor gets a non-nil slice"
		}
		var walk func(v ssa.Value, blk *ssa.BasicBlock, d int)
		walk = func(v ssa.Value, blk *ssa.BasicBlock, d int) {
			v = stripChange(v)
			if ph, ok := v.(*ssa.Phi); ok && d > 0 {
				for i, e := range ph.Edges {
					walk(e, ph.Block().Preds[i], d-1)
				}
				return
			}
			check(v, blk)
		}
		walk(c.Call.Args[1], in.Block(), 3)
		r.Check(bad == "", rule, fmt.Sprintf("%s: %s receives nil when the input value is nil", fnKey(dec), ctor.Name()), p.instrPos(in), "nil stays nil, so IsValueEmpty() holds for template elements",
			bad+": IsValueEmpty() (value == nil) is false for the element of a template, AddInfoElement refuses it, and MakeTemplateSet - hence the UDP template refresh - fails for every template containing such an element", true)
	})
	if n < 3 {
		r.Undecided(rule, "anchor: slice-valued constructors in the element decoder", p.pos(dec.Pos()), fmt.Sprintf("found %d, expected octet array, MAC and IP", n))
	}
}
