package main

import (
	"go/token"
	"go/types"

	"golang.org/x/tools/go/ssa"
)

// callGraph is a light call graph restricted to repository functions:
//   - static calls (incl. immediately invoked / deferred closures)
//   - interface invokes: every repo method of that name whose receiver type implements the interface
//   - dynamic calls of function values: every address-taken repo function with an identical signature
//
// A repo function is an *external root* (it may be entered from code outside the repository, in an unknown
// context) when it is exported, a method reachable through an exported interface or type, or a function value
// that escapes to anything but a direct call / an argument of a static repo callee.
type callGraph struct {
	p         *Prog
	callees   map[ssa.Instruction][]*ssa.Function // repo callees per call instruction
	callers   map[*ssa.Function][]ssa.Instruction
	addrTaken map[*ssa.Function]bool
	escapes   map[*ssa.Function]bool // value flows somewhere we do not follow
	isRepo    map[*ssa.Function]bool
}

func (p *Prog) CallGraph() *callGraph {
	if p.cg != nil {
		return p.cg
	}
	g := &callGraph{p: p, callees: map[ssa.Instruction][]*ssa.Function{}, callers: map[*ssa.Function][]ssa.Instruction{},
		addrTaken: map[*ssa.Function]bool{}, escapes: map[*ssa.Function]bool{}, isRepo: map[*ssa.Function]bool{}}
	for _, f := range p.RepoFns {
		g.isRepo[f] = true
	}
	// address-taken functions and escape
	for _, f := range p.RepoFns {
		eachInstr(f, func(in ssa.Instruction) {
			for _, op := range in.Operands(nil) {
				if op == nil || *op == nil {
					continue
				}
				var target *ssa.Function
				switch v := (*op).(type) {
				case *ssa.Function:
					target = v
				case *ssa.MakeClosure:
					// the MakeClosure instruction itself is handled below through its referrers
					continue
				}
				if target == nil {
					continue
				}
				if _, isMC := in.(*ssa.MakeClosure); isMC {
					continue
				}
				if c := callOf(in); c != nil && c.Value == *op {
					continue // direct call
				}
				t := g.resolveBound(target)
				g.addrTaken[t] = true
				g.noteValueUse(t, *op, in)
			}
			if mc, ok := in.(*ssa.MakeClosure); ok {
				fn, _ := mc.Fn.(*ssa.Function)
				if fn == nil {
					return
				}
				t := g.resolveBound(fn)
				for _, r := range refs(mc) {
					if c := callOf(r); c != nil && c.Value == mc {
						continue
					}
					g.addrTaken[t] = true
					g.noteValueUse(t, mc, r)
				}
			}
		})
	}
	// edges
	for _, f := range p.RepoFns {
		eachInstr(f, func(in ssa.Instruction) {
			c := callOf(in)
			if c == nil {
				return
			}
			var cs []*ssa.Function
			if c.IsInvoke() {
				cs = g.implementers(c)
			} else if sc := c.StaticCallee(); sc != nil {
				sc = g.resolveBound(sc)
				if g.isRepo[sc] {
					cs = []*ssa.Function{sc}
				}
			} else if _, isB := c.Value.(*ssa.Builtin); !isB {
				sig, _ := c.Value.Type().Underlying().(*types.Signature)
				for t := range g.addrTaken {
					if g.isRepo[t] && sig != nil && types.Identical(stripRecv(t.Signature), sig) {
						cs = append(cs, t)
					}
				}
				sortFns(cs)
			}
			if len(cs) > 0 {
				g.callees[in] = cs
				for _, t := range cs {
					g.callers[t] = append(g.callers[t], in)
				}
			}
		})
	}
	p.cg = g
	return g
}

func stripRecv(s *types.Signature) *types.Signature {
	if s.Recv() == nil {
		return s
	}
	return types.NewSignatureType(nil, nil, nil, s.Params(), s.Results(), s.Variadic())
}

func sortFns(fs []*ssa.Function) {
	for i := 1; i < len(fs); i++ {
		for j := i; j > 0 && fs[j].Pos() < fs[j-1].Pos(); j-- {
			fs[j], fs[j-1] = fs[j-1], fs[j]
		}
	}
}

// resolveBound maps a "$bound" method-value wrapper or "$thunk" to the underlying method.
func (g *callGraph) resolveBound(f *ssa.Function) *ssa.Function {
	if f.Synthetic == "" || f.Blocks == nil {
		return f
	}
	// wrappers contain exactly one call to the real function
	var target *ssa.Function
	n := 0
	eachInstr(f, func(in ssa.Instruction) {
		if c := callOf(in); c != nil {
			if sc := c.StaticCallee(); sc != nil {
				target = sc
				n++
			}
		}
	})
	if n == 1 && target != nil {
		return target
	}
	return f
}

// noteValueUse decides whether the use `in` of function value v (denoting t) is one we follow.
func (g *callGraph) noteValueUse(t *ssa.Function, v ssa.Value, in ssa.Instruction) {
	switch x := in.(type) {
	case *ssa.Call, *ssa.Go, *ssa.Defer:
		c := callOf(in)
		if sc := c.StaticCallee(); sc != nil && g.isRepo[g.resolveBound(sc)] {
			return // argument of a static repo callee: invoked (if at all) at a dynamic call site we resolve by signature
		}
		g.escapes[t] = true
	case *ssa.Store:
		// variadic packing: store into an element of a fresh local array that is then sliced and passed on
		if ia, ok := x.Addr.(*ssa.IndexAddr); ok {
			if al, ok := ia.X.(*ssa.Alloc); ok {
				ok2 := true
				for _, r := range refs(al) {
					switch y := r.(type) {
					case *ssa.IndexAddr:
					case *ssa.Slice:
						for _, rr := range refs(y) {
							if c := callOf(rr); c != nil {
								if sc := c.StaticCallee(); sc != nil && g.isRepo[g.resolveBound(sc)] {
									continue
								}
							}
							ok2 = false
						}
					default:
						ok2 = false
					}
				}
				if ok2 {
					return
				}
			}
		}
		g.escapes[t] = true
	case *ssa.MakeClosure:
		// captured by another closure: follow conservatively as escape
		g.escapes[t] = true
	case *ssa.DebugRef:
	default:
		g.escapes[t] = true
	}
}

func (g *callGraph) implementers(c *ssa.CallCommon) []*ssa.Function {
	it, ok := c.Value.Type().Underlying().(*types.Interface)
	if !ok {
		return nil
	}
	var out []*ssa.Function
	seen := map[*ssa.Function]bool{}
	for _, f := range g.p.RepoFns {
		if f.Signature.Recv() == nil || f.Name() != c.Method.Name() {
			continue
		}
		rt := f.Signature.Recv().Type()
		if types.Implements(rt, it) || types.Implements(types.NewPointer(rt), it) {
			if !seen[f] {
				seen[f] = true
				out = append(out, f)
			}
		}
	}
	return out
}

// externalRoot: may f be entered from outside the repository (unknown context)?
func (g *callGraph) externalRoot(f *ssa.Function) bool {
	if g.escapes[f] {
		return true
	}
	if f.Parent() != nil { // closure
		return false
	}
	if f.Object() != nil && f.Object().Exported() {
		return true
	}
	if f.Name() == "main" || f.Name() == "init" {
		return true
	}
	// unexported method implementing an interface method could be invoked from anywhere the interface value
	// goes; unexported names can only satisfy interfaces of the same package, which implementers() resolves.
	return false
}

// reach returns the set of repo functions reachable from the given roots (following every kind of call
// including go and defer).
func (g *callGraph) reach(roots ...*ssa.Function) map[*ssa.Function]bool {
	seen := map[*ssa.Function]bool{}
	var visit func(f *ssa.Function)
	visit = func(f *ssa.Function) {
		if f == nil || seen[f] {
			return
		}
		seen[f] = true
		eachInstr(f, func(in ssa.Instruction) {
			for _, c := range g.callees[in] {
				visit(c)
			}
		})
	}
	for _, r := range roots {
		visit(r)
	}
	return seen
}

var _ = token.NoPos
