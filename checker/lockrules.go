package main

import (
	"fmt"
	"go/types"
	"sort"
	"strings"

	"golang.org/x/tools/go/ssa"
)

var modeName = map[int]string{0: "none", 1: "R", 2: "W"}

// checkGuardedBy reports one obligation per (function, field, kind of access).
// scope limits reporting to functions whose key has one of the given prefixes ("" = all).
func checkGuardedBy(p *Prog, r *Report, gs *guardSpec, rulePrefix string, scope ...string) (*lockAnalysis, []guardedAccess) {
	accs, la, imb := runGuardedBy(p, gs)
	inScope := func(k string) bool {
		if len(scope) == 0 {
			return true
		}
		for _, s := range scope {
			if keyInPkg(k, s) {
				return true
			}
		}
		return false
	}
	n := 0
	for _, a := range accs {
		k := fnKey(a.Fn)
		construct := fmt.Sprintf("%s: %s of %s", k, a.Kind, a.Field)
		pos := p.instrPos(a.In)
		n++
		if a.Exempt != "" {
			r.OK(rulePrefix+".guarded", construct, pos, "exempt: "+a.Exempt, false)
			continue
		}
		if a.Need == 3 {
			r.Violation(rulePrefix+".reentrant", fmt.Sprintf("%s: %s", k, a.Field), pos,
				fmt.Sprintf("the lock is acquired while this goroutine already holds it (mode %s, calling context: entered with {%s}): sync.RWMutex is not reentrant - a second Lock deadlocks at once, a nested RLock deadlocks as soon as a writer queues up in between", modeName[a.Held], a.Entry))
			continue
		}
		if a.Held >= a.Need {
			r.OK(rulePrefix+".guarded", construct, pos,
				fmt.Sprintf("needs %s on %s, holds %s (context: entered with {%s})", modeName[a.Need], a.Lock, modeName[a.Held], a.Entry), true)
		} else {
			r.Violation(rulePrefix+".guarded", construct, pos,
				fmt.Sprintf("access needs %s on %s but only %s is held on some path (calling context: entered with {%s})", modeName[a.Need], a.Lock, modeName[a.Held], a.Entry))
		}
	}
	// no try-lock on a guarded lock: an operation that gives up (or takes another path) when the lock is busy does not
	// behave like one of the sequential executions
	for _, f := range p.RepoFns {
		k := fnKey(f)
		if !inScope(k) {
			continue
		}
		eachInstr(f, func(in ssa.Instruction) {
			c := callOf(in)
			if c == nil {
				return
			}
			n := calleeName(c)
			if strings.HasSuffix(n, ").TryLock") || strings.HasSuffix(n, ").TryRLock") {
				if len(c.Args) > 0 {
					if tn, fn, _, ok := fieldOf(c.Args[0]); ok {
						for _, l := range gs.Guarded {
							if l == tn+"."+fn {
								r.Violation(rulePrefix+".trylock", k+": "+n+" on "+l, p.instrPos(in), "the operation does not wait for the lock: when another operation holds it, this one is skipped or takes a different path, which no sequential order of the operations produces")
							}
						}
					}
				}
			}
		})
	}
	// balanced: every exit of a function leaves the lockset as it found it
	imbFns := map[string]bool{}
	for _, m := range imb {
		parts := strings.SplitN(m, "|", 3)
		if !inScope(parts[0]) {
			continue
		}
		relevant := false
		for _, l := range gs.Guarded {
			if strings.Contains(parts[2], l+"=") {
				relevant = true
			}
		}
		if !relevant {
			continue
		}
		imbFns[parts[0]] = true
		r.Violation(rulePrefix+".balanced", parts[0]+": exit with a different lockset than at entry", parts[1],
			"a lock acquired in this function is not released on this exit (or a lock it did not acquire is released): "+parts[2])
	}
	// one balanced obligation per function that operates a guarded lock
	locks := map[string]bool{}
	for _, l := range gs.Guarded {
		locks[l] = true
	}
	for _, f := range p.RepoFns {
		k := fnKey(f)
		if !inScope(k) || imbFns[k] {
			continue
		}
		ops := 0
		eachInstr(f, func(in ssa.Instruction) {
			if c := callOf(in); c != nil {
				if id, _, ok := lockOp(c); ok && locks[id] {
					ops++
				}
			}
		})
		if ops > 0 {
			r.OK(rulePrefix+".balanced", k+": exit with a different lockset than at entry", p.pos(f.Pos()),
				fmt.Sprintf("%d lock operations; every return reached with the entry lockset in all %d analysed contexts", ops, la.Contexts), true)
		}
	}
	r.Facts[rulePrefix+".contexts"] = la.Contexts
	r.Facts[rulePrefix+".functions"] = len(la.Funcs)
	r.Facts[rulePrefix+".guarded_accesses"] = n
	return la, accs
}

// acquiresLock: does f (or a static/dynamic repo callee, transitively) acquire lock l?
func acquiresLock(g *callGraph, f *ssa.Function, l string, seen map[*ssa.Function]bool) bool {
	if seen[f] {
		return false
	}
	seen[f] = true
	found := false
	eachInstr(f, func(in ssa.Instruction) {
		if found {
			return
		}
		if _, isGo := in.(*ssa.Go); isGo {
			return
		}
		c := callOf(in)
		if c == nil {
			return
		}
		if id, mode, ok := lockOp(c); ok && id == l && mode > 0 {
			found = true
			return
		}
		for _, cal := range g.callees[in] {
			if acquiresLock(g, cal, l, seen) {
				found = true
				return
			}
		}
	})
	return found
}

// checkSingleSection: within each in-scope function, no path (ignoring loop back edges) leads from one
// critical-section start on lock l to another: an operation that releases and re-acquires the lock is not
// atomic with respect to the guarded state.
func checkSingleSection(p *Prog, r *Report, rule, l string, scope string, only ...string) {
	g := p.CallGraph()
	for _, f := range p.RepoFns {
		k := fnKey(f)
		if !keyInPkg(k, scope) {
			continue
		}
		if len(only) > 0 {
			hit := false
			for _, o := range only {
				if f.Name() == o {
					hit = true
				}
			}
			if !hit {
				continue
			}
		}
		var starts []ssa.Instruction
		eachInstr(f, func(in ssa.Instruction) {
			if _, isGo := in.(*ssa.Go); isGo {
				return
			}
			c := callOf(in)
			if c == nil {
				return
			}
			if id, mode, ok := lockOp(c); ok {
				if id == l && mode > 0 {
					if _, isDefer := in.(*ssa.Defer); !isDefer {
						starts = append(starts, in)
					}
				}
				return
			}
			for _, cal := range g.callees[in] {
				if acquiresLock(g, cal, l, map[*ssa.Function]bool{}) {
					starts = append(starts, in)
					return
				}
			}
		})
		if len(starts) == 0 {
			continue
		}
		bad := false
		for _, s := range starts {
			q := &pathQuery{
				terminal: func(in ssa.Instruction) bool {
					for _, t := range starts {
						if t == in {
							return true
						}
					}
					return false
				},
				noExit: true,
				prune: func(from *ssa.BasicBlock, si int) bool {
					to := from.Succs[si]
					return to.Dominates(from) // back edge
				},
			}
			if trail, ok := q.find(s); ok {
				bad = true
				r.Violation(rule, k+": second critical section on "+l, p.instrPos(s),
					"the lock is released and acquired again within one operation (not atomic w.r.t. the guarded state); path "+p.describePath(f, trail))
				break
			}
		}
		if !bad {
			r.OK(rule, k+": second critical section on "+l, p.pos(f.Pos()), fmt.Sprintf("%d section start(s), none reachable from another without a loop back edge", len(starts)), true)
		}
	}
}

// checkNoEscape: no function in scope returns the address or the (uncopied) contents of a guarded field.
func checkNoEscape(p *Prog, r *Report, gs *guardSpec, rule, scope string, allowed map[string]string) {
	nRet, nBad := 0, 0
	defer func() {
		if nRet == 0 {
			r.Undecided(rule, "anchor: return statements in "+scope, scope, "no function of the package was examined (scope mismatch)")
		} else if nBad == 0 {
			r.OK(rule, scope+": no function returns a reference to guarded state", scope, fmt.Sprintf("%d return statements examined", nRet), true)
		}
	}()
	for _, f := range p.RepoFns {
		k := fnKey(f)
		if !keyInPkg(k, scope) {
			continue
		}
		eachInstr(f, func(in ssa.Instruction) {
			ret, ok := in.(*ssa.Return)
			if !ok {
				return
			}
			nRet++
			for _, v := range ret.Results {
				v = stripChange(retResult(ret, indexOfResult(ret, v)))
				fld, hit := gs.guardedAddr(v)
				if !hit {
					fld, hit = gs.derives(v, 0)
				}
				if !hit {
					continue
				}
				c := k + ": returns guarded " + fld
				nBad++
				if why, ok := allowed[k]; ok {
					nBad--
					r.OK(rule, c, p.instrPos(in), "allowed: "+why, false)
				} else {
					r.Violation(rule, c, p.instrPos(in), "a reference to lock-protected state leaves the critical section")
				}
			}
		})
	}
}

func sortedKeys(m map[string]string) []string {
	out := make([]string, 0, len(m))
	for k := range m {
		out = append(out, k)
	}
	sort.Strings(out)
	return out
}

// keyInPkg: does the function key (see fnKey) denote a function, method or closure of package pkgRel?
func keyInPkg(k, pkgRel string) bool {
	k = strings.TrimPrefix(k, "(")
	k = strings.TrimPrefix(k, "*")
	return strings.HasPrefix(k, pkgRel+".")
}

func indexOfResult(r *ssa.Return, v ssa.Value) int {
	for i, x := range r.Results {
		if x == v {
			return i
		}
	}
	return 0
}

// checkLockBearingReceivers: a struct that contains a sync.Mutex / RWMutex / WaitGroup / Once / atomic value (directly or
// in an embedded or by-value field) must only have pointer receivers: a method with a value receiver works on a COPY of
// the struct - its Lock() locks a lock nobody else holds (and copies a possibly locked mutex), so the method is no longer
// serialised with the other operations.
func checkLockBearingReceivers(p *Prog, r *Report, rule, pkgSuffix string) {
	var hasLock func(t types.Type, d int) bool
	hasLock = func(t types.Type, d int) bool {
		if d > 4 {
			return false
		}
		if n, ok := t.(*types.Named); ok && n.Obj().Pkg() != nil {
			pp := n.Obj().Pkg().Path()
			if pp == "sync" || pp == "sync/atomic" {
				return true
			}
		}
		st, ok := t.Underlying().(*types.Struct)
		if !ok {
			return false
		}
		for i := 0; i < st.NumFields(); i++ {
			if hasLock(st.Field(i).Type(), d+1) {
				return true
			}
		}
		return false
	}
	n, bad := 0, 0
	for _, f := range p.RepoFns {
		if !keyInPkg(fnKey(f), pkgSuffix) || f.Signature.Recv() == nil || f.Parent() != nil {
			continue
		}
		rt := f.Signature.Recv().Type()
		if _, isPtr := rt.(*types.Pointer); isPtr {
			if hasLock(rt.(*types.Pointer).Elem(), 0) {
				n++
			}
			continue
		}
		if hasLock(rt, 0) {
			n++
			bad++
			r.Violation(rule, fnKey(f)+": value receiver on a struct that holds a lock", p.pos(f.Pos()),
				"the method runs on a copy of the struct: the lock it takes is a copy nobody else holds (and copying a locked mutex deadlocks the copy), so the operation is not serialised with ingestion, scans and the other queries")
		}
	}
	if bad == 0 {
		r.OK(rule, pkgSuffix+": methods of lock-bearing structs have pointer receivers", pkgSuffix, fmt.Sprintf("%d methods", n), true)
	}
}
