package main

import (
	"fmt"
	"go/constant"
	"go/token"
	"go/types"
	"sort"
	"strings"

	"golang.org/x/tools/go/ssa"
)

const epTplMutex = "pkg/exporter.ExportingProcess.templateMutex"
const epWG = "pkg/exporter.ExportingProcess.wg"

func exporterGuardSpec() *guardSpec {
	return &guardSpec{
		Guarded: map[string]string{"pkg/exporter.ExportingProcess.templatesMap": epTplMutex},
		Exempt:  map[string]string{},
	}
}

func init() {
	register(&propDef{
		ID:          "C14",
		Explanation: "Structural necessary conditions for the exporter's background work and lifecycle, decided on SSA: (1) R-SHARE: every field of ExportingProcess that is touched after construction both by a background goroutine (connection check, template refresh; reachability through the repo call graph) and by the API, with at least one write, is accessed only through sync/atomic, under a common lock, or has a synchronising type; (2) R-LOCK: templatesMap (and every alias of the loaded map) is accessed only under templateMutex, and every exit of every exporter function is lock-balanced (an error exit that keeps the mutex deadlocks later sends); (3) R-WG: both goroutines are added to the wait group before the go statement and defer Done; (4) close protocol: close(stopCh) and conn.Close() are dominated by the false edge of isClosed.Swap(true) (idempotent, safe from any goroutine); CloseConnToCollector = internal close then wg.Wait(); nothing reachable from a background goroutine reaches wg.Wait() (self-deadlock); every blocking select of the goroutines has a receive case on stopCh; on a failed check / refresh the goroutine calls the internal close; (5) periodicity: the tick channel of each goroutine loop is a time.Ticker's, or a time.Timer that is Reset on every path back to the select. (6) R-PERIOD.value: the refresher's ticker period is TempRefTimeout * time.Second and the checker's is CheckConnInterval or a positive default (followed through captured variables); (7) background code calls only Read/SetReadDeadline/Close on the shared connection and only SendSet calls the functions that write. Not decided: the check/refresh periods themselves, bytes after close, message-granular interleaving beyond 'one Write per message' (C08). Later additions: CloseConnToCollector waits on every path; from the 'not closed yet' edge every path reaches close(stopCh) and conn.Close(); each background goroutine is started under exactly CollectorProtocol == udp / tcp; template elements stay empty so that the refresher can rebuild templates. Round-five additions: methods of lock-bearing structs have pointer receivers.",
		Assume:      []string{"net.Conn.Write is atomic per call", "time.Ticker / atomic.Bool semantics", "the application calls SendSet from one goroutine (property's own proviso)"},
		Run:         runC14,
	})
}

func runC14(p *Prog, r *Report, tier string) {
	gs := exporterGuardSpec()
	_, accs := checkGuardedBy(p, r, gs, "R-LOCK", "pkg/exporter")
	checkLockBearingReceivers(p, r, "R-LOCK.receiver", "pkg/exporter")
	if len(accs) < 8 {
		r.Undecided("R-LOCK.guarded", "anchor: accesses of ExportingProcess.templatesMap", "pkg/exporter/process.go", fmt.Sprintf("only %d guarded accesses found", len(accs)))
	}
	held := heldLocks(p)
	checkSharing(p, r, "R-SHARE", "pkg/exporter", "ExportingProcess", map[string]string{
		"pkg/exporter.ExportingProcess.jsonBufferLen": "written once by the constructor (after the go statements) and read only on the Data/JSON path, which the refresher (template sets only) and the connection checker never take",
	}, held)
	bodies := checkGoTracked(p, r, "R-WG.tracked", "pkg/exporter", epWG, 2)
	g := p.CallGraph()

	// close protocol
	cl := p.Fn("(*pkg/exporter.ExportingProcess).closeConnToCollector")
	if cl == nil {
		r.Undecided("R-CLOSE.guard", "anchor: closeConnToCollector", "pkg/exporter/process.go", "function not found")
	} else {
		var swap *ssa.Call
		eachInstr(cl, func(in ssa.Instruction) {
			if c, ok := in.(*ssa.Call); ok && calleeName(&c.Call) == "(*sync/atomic.Bool).Swap" {
				if tn, fn, _, ok := fieldOf(c.Call.Args[0]); ok && tn+"."+fn == "pkg/exporter.ExportingProcess.isClosed" {
					if cv, ok := c.Call.Args[1].(*ssa.Const); ok && cv.Value != nil && cv.Value.String() == "true" {
						swap = c
					}
				}
			}
		})
		n := 0
		eachInstr(cl, func(in ssa.Instruction) {
			c := callOf(in)
			if c == nil {
				return
			}
			what := ""
			if b, ok := c.Value.(*ssa.Builtin); ok && b.Name() == "close" && p.chanIdent(c.Args[0]) == "field:pkg/exporter.ExportingProcess.stopCh" {
				what = "close(stopCh)"
			}
			if c.IsInvoke() && c.Method.Name() == "Close" {
				if tn, fn, _, ok := loadedField(c.Value); ok && tn+"."+fn == "pkg/exporter.ExportingProcess.connToCollector" {
					what = "connToCollector.Close()"
				}
			}
			if what == "" {
				return
			}
			n++
			guarded := false
			if swap != nil {
				for _, gd := range guardsOf(in.Block()) {
					// the swap's result, possibly negated (any number of times) or compared with a boolean constant
					cond, falseSucc := gd.If.Cond, 1
					for {
						u, ok := cond.(*ssa.UnOp)
						if !ok || u.Op != token.NOT {
							break
						}
						cond, falseSucc = u.X, 1-falseSucc
					}
					if bo, ok := cond.(*ssa.BinOp); ok && (bo.Op == token.EQL || bo.Op == token.NEQ) {
						for _, pr := range [][2]ssa.Value{{bo.X, bo.Y}, {bo.Y, bo.X}} {
							if k, ok := pr[1].(*ssa.Const); ok && k.Value != nil && k.Value.Kind() == constant.Bool {
								cond = pr[0]
								if constant.BoolVal(k.Value) != (bo.Op == token.EQL) {
									falseSucc = 1 - falseSucc
								}
							}
						}
					}
					if cond == ssa.Value(swap) && gd.Succ == falseSucc {
						guarded = true
					}
				}
			}
			r.Check(guarded, "R-CLOSE.guard", fnKey(cl)+": "+what, p.instrPos(in), "only on the false edge of isClosed.Swap(true): executed at most once",
				what+" is not dominated by the 'was not closed yet' edge of isClosed.Swap(true): a second or concurrent close panics / double-closes", true)
		})
		// ... and the first closer does both, whatever happens in between: after the false edge of the Swap no return is
		// reachable before close(stopCh) and conn.Close() (an early return after a failing conn.Close() leaves the background
		// goroutines running with isClosed already true: every later Close blocks in wg.Wait())
		var swapFalse *ssa.BasicBlock
		eachInstr(cl, func(in ssa.Instruction) {
			if i, ok := in.(*ssa.If); ok {
				if c, ok := i.Cond.(*ssa.Call); ok && strings.HasSuffix(calleeName(&c.Call), ".Swap") {
					swapFalse = i.Block().Succs[1]
				}
			}
		})
		if swapFalse != nil {
			for _, what := range []string{"close(stopCh)", "connToCollector.Close()"} {
				what := what
				q := &pathQuery{discharge: func(in ssa.Instruction) bool {
					c := callOf(in)
					if c == nil {
						return false
					}
					if what == "close(stopCh)" {
						b, ok := c.Value.(*ssa.Builtin)
						return ok && b.Name() == "close" && p.chanIdent(c.Args[0]) == "field:pkg/exporter.ExportingProcess.stopCh"
					}
					return c.IsInvoke() && c.Method.Name() == "Close" && isFieldLoad(c.Value, "pkg/exporter.ExportingProcess.connToCollector")
				}}
				trail, bad := q.findFromBlock(swapFalse)
				if bad {
					r.Violation("R-CLOSE.complete", fnKey(cl)+": the first closer always reaches "+what, p.pos(cl.Pos()), "a return is reachable after isClosed was set but before "+what+": the close is left half done (background goroutines keep running / the socket stays open) and no later call can finish it; path "+p.describePath(cl, trail))
				} else {
					r.OK("R-CLOSE.complete", fnKey(cl)+": the first closer always reaches "+what, p.pos(cl.Pos()), "every path from the 'not closed yet' edge passes it", true)
				}
			}
		}
		if n < 2 {
			r.Undecided("R-CLOSE.guard", "anchor: close(stopCh) and conn.Close() in closeConnToCollector", p.pos(cl.Pos()), "expected both calls in the internal close")
		}
	}
	// who closes stopCh / the connection: only the internal close
	for _, f := range p.RepoFns {
		if !keyInPkg(fnKey(f), "pkg/exporter") || f == cl {
			continue
		}
		eachInstr(f, func(in ssa.Instruction) {
			c := callOf(in)
			if c == nil {
				return
			}
			if b, ok := c.Value.(*ssa.Builtin); ok && b.Name() == "close" && p.chanIdent(c.Args[0]) == "field:pkg/exporter.ExportingProcess.stopCh" {
				r.Violation("R-CLOSE.owner", fnKey(f)+": close(stopCh) outside the guarded internal close", p.instrPos(in), "a second closer of stopCh can panic on double close")
			}
		})
	}
	// CloseConnToCollector = internal close then wg.Wait
	pub := p.Fn("(*pkg/exporter.ExportingProcess).CloseConnToCollector")
	if pub == nil || cl == nil {
		r.Undecided("R-CLOSE.wait", "anchor: CloseConnToCollector", "pkg/exporter/process.go", "function not found")
	} else {
		var a, b ssa.Instruction
		eachInstr(pub, func(in ssa.Instruction) {
			if c, ok := in.(*ssa.Call); ok {
				if c.Call.StaticCallee() == cl {
					a = in
				}
				if id, ok := isWGCall(&c.Call, "Wait"); ok && id == epWG {
					b = in
				}
			}
		})
		// ... on EVERY path: a caller that returns early because "it is closed already" returns while a background
		// goroutine may still be writing
		allPaths := false
		if b != nil {
			q := &pathQuery{discharge: func(x ssa.Instruction) bool { return x == b }}
			_, bad := q.findFromBlock(pub.Blocks[0])
			allPaths = !bad
		}
		r.Check(a != nil && b != nil && allPaths, "R-CLOSE.wait-all-paths", fnKey(pub)+": every return waits for the background goroutines", p.pos(pub.Pos()),
			"no return of CloseConnToCollector is reachable without wg.Wait()",
			"CloseConnToCollector can return without wg.Wait() (for example when it finds the process closed already): a second or concurrent Close returns while the refresher / connection checker is still running and may still write", true)
		r.Check(a != nil && b != nil && dominates(a, b), "R-CLOSE.wait", fnKey(pub)+": internal close then wg.Wait()", p.pos(pub.Pos()),
			"the internal close dominates wg.Wait()", "CloseConnToCollector does not close and then wait for the background goroutines on every path", true)
	}
	// no self-deadlock: nothing reachable from a background goroutine waits on the wait group
	for i, b := range bodies {
		bad := ""
		for f := range g.reach(b) {
			eachInstr(f, func(in ssa.Instruction) {
				if c := callOf(in); c != nil {
					if id, ok := isWGCall(c, "Wait"); ok && id == epWG {
						bad = fnKey(f) + " at " + p.instrPos(in)
					}
				}
			})
		}
		r.Check(bad == "", "R-CLOSE.no-self-wait", fmt.Sprintf("%s (background goroutine %d): reaches wg.Wait()", fnKey(b), i+1), p.pos(b.Pos()),
			"no function reachable from the goroutine waits on the wait group it belongs to", "the goroutine can reach wg.Wait() ("+bad+") while it is itself counted in the wait group: self-deadlock", true)
	}
	// methods invoked on the shared connection: Write only in the two senders (C09), Read/SetReadDeadline only in the
	// liveness probe, Close only in the guarded internal close; nothing may arm a write deadline
	checkConnMethods(p, r, "R-OWNER.conn-methods")
	// the functions that write to the connection are called only by SendSet (mode dispatch, sanity checks, length update)
	ss := p.Fn("(*pkg/exporter.ExportingProcess).SendSet")
	for _, f := range p.RepoFns {
		if !keyInPkg(fnKey(f), "pkg/exporter") {
			continue
		}
		writes := false
		eachInstr(f, func(in ssa.Instruction) {
			if c := callOf(in); c != nil && c.IsInvoke() && c.Method.Name() == "Write" && isFieldLoad(c.Value, "pkg/exporter.ExportingProcess.connToCollector") {
				writes = true
			}
		})
		if !writes {
			continue
		}
		for _, cs := range g.callers[f] {
			r.Check(cs.Parent() == ss, "R-OWNER.sender-callers", fmt.Sprintf("%s: called from %s", fnKey(f), fnKey(cs.Parent())), p.instrPos(cs), "only SendSet calls the functions that write to the connection",
				"a function that writes to the connection is called without going through SendSet: the refresher (or another caller) bypasses the JSON/IPFIX mode dispatch, the sanity checks and the set-length update", true)
		}
	}
	checkBackgroundStart(p, r, "R-WG.started")
	checkTemplateElementsEmpty(p, r, "R-CLOSE.refresh-rebuild")
	// stop observability + periodicity + close on failure
	S := p.stopClosedSet([]string{"field:pkg/exporter.ExportingProcess.stopCh"}, bodies)
	for i, b := range bodies {
		sels, _, _ := p.blockingOps(b)
		if len(sels) == 0 {
			r.Undecided("R-STOP.select", fmt.Sprintf("%s (background goroutine %d): blocking select", fnKey(b), i+1), p.pos(b.Pos()), "goroutine has no blocking select: cannot see how it observes stopCh")
		}
		for j, si := range sels {
			has := false
			tick := ""
			for k, c := range si.chans {
				if si.dirs[k] == types.RecvOnly && S[c] {
					has = true
				} else {
					tick = c
				}
			}
			cs := fmt.Sprintf("%s: blocking select #%d", fnKey(b), j+1)
			r.Check(has, "R-STOP.select", cs, p.instrPos(si.sel), "has a receive case on stopCh", "blocking select without a case on stopCh: Close cannot stop this goroutine", true)
			switch tick {
			case "field:time.Ticker.C":
				r.OK("R-PERIOD", cs+": tick source", p.instrPos(si.sel), "time.Ticker channel: fires periodically without re-arming", true)
			case "field:time.Timer.C":
				q := &pathQuery{loopHead: si.sel.Block(), noExit: true, discharge: func(in ssa.Instruction) bool {
					c := callOf(in)
					return c != nil && calleeName(c) == "(*time.Timer).Reset"
				}}
				if trail, bad := q.find(si.sel); bad {
					r.Violation("R-PERIOD", cs+": tick source", p.instrPos(si.sel), "one-shot time.Timer that is not Reset on a path back to the select: the periodic work silently stops; path "+p.describePath(b, trail))
				} else {
					r.OK("R-PERIOD", cs+": tick source", p.instrPos(si.sel), "time.Timer re-armed on every path back to the select", true)
				}
			default:
				r.Undecided("R-PERIOD", cs+": tick source", p.instrPos(si.sel), "tick channel "+tick+" is neither a Ticker nor a Timer channel")
			}
		}
		// the period itself: the ticker of the refresher is built from the configured refresh timeout in seconds, the one of
		// the connection checker from the configured (or default) check interval
		role, want := "", []string{}
		eachInstr(b, func(in ssa.Instruction) {
			if c := callOf(in); c != nil && c.StaticCallee() != nil {
				switch c.StaticCallee().Name() {
				case "sendRefreshedTemplates":
					role, want = "template refresh", []string{"field:pkg/exporter.ExporterInput.TempRefTimeout*1000000000"}
				case "checkConnToCollector":
					role, want = "connection check", []string{"const:positive default", "field:pkg/exporter.ExporterInput.CheckConnInterval*1"}
				}
			}
		})
		eachInstr(b, func(in ssa.Instruction) {
			c, ok := in.(*ssa.Call)
			if !ok || calleeName(&c.Call) != "time.NewTicker" {
				return
			}
			if role == "" {
				r.Undecided("R-PERIOD.value", fnKey(b)+": ticker period", p.instrPos(in), "a background goroutine that is neither the refresher nor the connection checker")
				return
			}
			leaves := map[string]bool{}
			okL := p.periodLeaves(c.Call.Args[0], 1, leaves, 0)
			var got []string
			for k := range leaves {
				got = append(got, k)
			}
			sort.Strings(got)
			// a positive constant default (used when the caller leaves the interval at zero) may be folded into the same expression
			if fmt.Sprint(got) != fmt.Sprint(want) {
				var g2 []string
				for _, g := range got {
					if g != "const:positive default" {
						g2 = append(g2, g)
					}
				}
				var w2 []string
				for _, w := range want {
					if w != "const:positive default" {
						w2 = append(w2, w)
					}
				}
				if fmt.Sprint(g2) == fmt.Sprint(w2) {
					got = want
				}
			}
			r.Check(okL && fmt.Sprint(got) == fmt.Sprint(want), "R-PERIOD.value", fnKey(b)+": ticker period ("+role+")", p.instrPos(in), fmt.Sprint(got),
				fmt.Sprintf("the %s ticker is built from %v, expected %v: the interval the caller configured is not the interval that is used", role, got, want), true)
		})
		// failure => internal close
		callsClose := false
		eachInstr(b, func(in ssa.Instruction) {
			if c, ok := in.(*ssa.Call); ok && cl != nil && c.Call.StaticCallee() == cl {
				q := &pathQuery{noExit: true, terminal: func(x ssa.Instruction) bool { _, isSel := x.(*ssa.Select); return isSel }}
				if _, again := q.find(in); !again {
					callsClose = true
				}
			}
		})
		r.Check(callsClose, "R-CLOSE.on-failure", fmt.Sprintf("%s (background goroutine %d): failure path", fnKey(b), i+1), p.pos(b.Pos()),
			"calls the internal close and leaves the loop", "the goroutine never calls the internal close (or keeps looping after it): a failed check/refresh goes unnoticed by later sends", true)
	}
}

// periodLeaves collects what a duration expression is built from: "const:<ns>" and "field:<T.f>*<multiplier>" leaves,
// through conversions, multiplication by constants, phis and captured variables. false if something else is met.
func (p *Prog) periodLeaves(v ssa.Value, mul int64, out map[string]bool, depth int) bool {
	if depth > 12 {
		return false
	}
	v = stripChange(v)
	switch x := v.(type) {
	case *ssa.Const:
		if c, ok := constInt(x); ok {
			if c*mul > 0 {
				out["const:positive default"] = true
			} else {
				out[fmt.Sprintf("const:%d", c*mul)] = true
			}
			return true
		}
		return false
	case *ssa.Convert:
		return p.periodLeaves(x.X, mul, out, depth+1)
	case *ssa.BinOp:
		if x.Op == token.MUL {
			if c, ok := constInt(x.Y); ok {
				return p.periodLeaves(x.X, mul*c, out, depth+1)
			}
			if c, ok := constInt(x.X); ok {
				return p.periodLeaves(x.Y, mul*c, out, depth+1)
			}
		}
		return false
	case *ssa.Phi:
		for _, e := range x.Edges {
			if !p.periodLeaves(e, mul, out, depth+1) {
				return false
			}
		}
		return true
	case *ssa.FreeVar:
		o := p.origin(x)
		if o == ssa.Value(x) {
			return false
		}
		return p.periodLeaves(o, mul, out, depth+1)
	case *ssa.Parameter:
		o := p.origin(x)
		if o == ssa.Value(x) {
			return false
		}
		return p.periodLeaves(o, mul, out, depth+1)
	case *ssa.UnOp:
		if x.Op != token.MUL {
			return false
		}
		if tn, fn, _, ok := loadedField(x); ok {
			out[fmt.Sprintf("field:%s.%s*%d", tn, fn, mul)] = true
			return true
		}
		// a local / captured variable cell: every value stored into it
		cell := p.origin(x.X)
		al, ok := cell.(*ssa.Alloc)
		if !ok {
			return false
		}
		stores, okAll := cellStores(al, 0)
		if !okAll || len(stores) == 0 {
			return false
		}
		for _, st := range stores {
			if !p.periodLeaves(st.Val, mul, out, depth+1) {
				return false
			}
		}
		return true
	}
	return false
}

// checkBackgroundStart: the template refresher runs for every exporting process whose protocol is "udp" (plain UDP and
// DTLS alike) and the connection checker for every one whose protocol is "tcp" (TCP and TLS): each go statement is
// guarded by exactly that test of the caller's CollectorProtocol. A guard on the dynamic type of the connection, or an
// additional condition, silently leaves one transport without its background work (templates expire at the collector).
func checkBackgroundStart(p *Prog, r *Report, rule string) {
	init := p.Fn("pkg/exporter.InitExportingProcess")
	if init == nil {
		r.Undecided(rule, "anchor: InitExportingProcess", "pkg/exporter/process.go", "not found")
		return
	}
	n := 0
	eachInstr(init, func(in ssa.Instruction) {
		g, ok := in.(*ssa.Go)
		if !ok || g.Call.StaticCallee() == nil {
			return
		}
		role, want := "", ""
		eachInstr(g.Call.StaticCallee(), func(x ssa.Instruction) {
			if c := callOf(x); c != nil && c.StaticCallee() != nil {
				switch c.StaticCallee().Name() {
				case "sendRefreshedTemplates":
					role, want = "template refresher", "udp"
				case "checkConnToCollector":
					role, want = "connection checker", "tcp"
				}
			}
		})
		if role == "" {
			return
		}
		n++
		matched, extra := false, ""
		for _, gd := range guardsOf(in.Block()) {
			okG := false
			for _, cf := range cmpForms(gd.If.Cond) {
				if _, fn, _, isF := loadedField(cf.X); isF && fn == "CollectorProtocol" && cf.Op == token.EQL {
					if sv, isS := constString(cf.Y); isS && sv == want && gd.Succ == cf.Succ {
						okG = true
					}
				}
			}
			impliedByMatch := false
			for _, cf := range cmpForms(gd.If.Cond) {
				// "the protocol is not <another constant>" (an earlier case of a switch on the protocol) says nothing more
				if _, fn, _, isF := loadedField(cf.X); isF && fn == "CollectorProtocol" && cf.Op == token.NEQ {
					if sv, isS := constString(cf.Y); isS && sv != want && gd.Succ == cf.Succ {
						impliedByMatch = true
					}
				}
			}
			if okG {
				matched = true
			} else if impliedByMatch {
			} else if onlyErrorReturnsFrom(gd.If.Block().Succs[1-gd.Succ]) {
				// the other edge makes the constructor fail (no exporting process exists): not a condition on starting the task
			} else if ex, isEx := gd.If.Cond.(*ssa.Extract); isEx {
				extra = "a test of " + ex.Tuple.String()
			} else {
				extra = "an additional condition"
			}
		}
		// guards that only decide HOW the connection was dialled (TLS or not) dominate the whole rest of the constructor only
		// through returns; anything left here is a real extra condition
		r.Check(matched && extra == "", rule, fmt.Sprintf("%s: the %s is started exactly when CollectorProtocol == %q", fnKey(init), role, want), p.instrPos(in),
			"go statement guarded by input.CollectorProtocol == \""+want+"\" only",
			fmt.Sprintf("the %s is not started under exactly input.CollectorProtocol == %q (%s): one of the transports of that protocol (e.g. DTLS, whose connection is not a *net.UDPConn) runs without it", role, want, extra), true)
	})
	if n < 2 {
		r.Undecided(rule, "anchor: go statements of the refresher and the connection checker", p.pos(init.Pos()), fmt.Sprintf("found %d", n))
	}
}

// checkConnMethods: the connection shared by the application's sends and the background probe is only written, read
// with a read deadline, and closed; nothing arms a WRITE deadline (SetDeadline does), which would abort a send that is
// blocked on back-pressure after part of the message went out.
func checkConnMethods(p *Prog, r *Report, rule string) {
	allowedConn := map[string]bool{"Write": true, "Read": true, "SetReadDeadline": true, "Close": true}
	for _, f := range p.RepoFns {
		if !keyInPkg(fnKey(f), "pkg/exporter") {
			continue
		}
		eachInstr(f, func(in ssa.Instruction) {
			c := callOf(in)
			if c == nil || !c.IsInvoke() || !isFieldLoad(c.Value, "pkg/exporter.ExportingProcess.connToCollector") {
				return
			}
			m := c.Method.Name()
			r.Check(allowedConn[m], rule, fmt.Sprintf("%s: connToCollector.%s", fnKey(f), m), p.instrPos(in), "one of Write / Read / SetReadDeadline / Close",
				"the background code calls "+m+" on the connection shared with the application's sends (e.g. SetDeadline also arms the WRITE deadline, so a concurrent SendSet fails with a timeout after a partial write)", true)
		})
	}
}
