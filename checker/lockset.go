package main

import (
	"fmt"
	"go/token"
	"go/types"
	"sort"
	"strings"

	"golang.org/x/tools/go/ssa"
)

// ---------- lock states ----------

// lstate is a canonical encoding of a must-hold lockset: "lockA=2;lockB=1" (1 = read, 2 = write/exclusive).
type lstate string

func (s lstate) get(l string) int {
	for _, kv := range strings.Split(string(s), ";") {
		if kv == "" {
			continue
		}
		i := strings.LastIndexByte(kv, '=')
		if kv[:i] == l {
			return int(kv[i+1] - '0')
		}
	}
	return 0
}

func (s lstate) set(l string, m int) lstate {
	mm := map[string]int{}
	for _, kv := range strings.Split(string(s), ";") {
		if kv == "" {
			continue
		}
		i := strings.LastIndexByte(kv, '=')
		mm[kv[:i]] = int(kv[i+1] - '0')
	}
	if m == 0 {
		delete(mm, l)
	} else {
		mm[l] = m
	}
	keys := make([]string, 0, len(mm))
	for k := range mm {
		keys = append(keys, k)
	}
	sort.Strings(keys)
	var sb strings.Builder
	for i, k := range keys {
		if i > 0 {
			sb.WriteByte(';')
		}
		fmt.Fprintf(&sb, "%s=%d", k, mm[k])
	}
	return lstate(sb.String())
}

func (s lstate) locks() []string {
	var out []string
	for _, kv := range strings.Split(string(s), ";") {
		if kv == "" {
			continue
		}
		out = append(out, kv[:strings.LastIndexByte(kv, '=')])
	}
	return out
}

func meet(a, b lstate) lstate {
	if a == b {
		return a
	}
	out := lstate("")
	for _, l := range a.locks() {
		m := a.get(l)
		if n := b.get(l); n < m {
			m = n
		}
		out = out.set(l, m)
	}
	return out
}

// ---------- lock operations ----------

// lockOp recognises sync.(RW)Mutex operations; returns lock id and the new mode (-1 for release).
func lockOp(c *ssa.CallCommon) (id string, mode int, ok bool) {
	if c.IsInvoke() {
		return "", 0, false
	}
	sc := c.StaticCallee()
	if sc == nil || len(c.Args) == 0 {
		return "", 0, false
	}
	n := funcName(sc)
	switch n {
	case "(*sync.RWMutex).Lock", "(*sync.Mutex).Lock":
		mode = 2
	case "(*sync.RWMutex).RLock":
		mode = 1
	case "(*sync.RWMutex).Unlock", "(*sync.Mutex).Unlock", "(*sync.RWMutex).RUnlock":
		mode = -1
	default:
		return "", 0, false
	}
	id = lockIdent(c.Args[0])
	return id, mode, id != ""
}

func lockIdent(v ssa.Value) string {
	switch x := v.(type) {
	case *ssa.FieldAddr:
		tn, fn, _, ok := fieldOf(x)
		if ok {
			return tn + "." + fn
		}
	case *ssa.Global:
		return "global:" + strings.TrimPrefix(x.Pkg.Pkg.Path(), modPath+"/") + "." + x.Name()
	}
	return ""
}

// ---------- interprocedural must-hold analysis ----------

type lockAnalysis struct {
	p      *Prog
	g      *callGraph
	memo   map[string]lstate
	inprog map[string]bool
	// visit is called once per (function, entry-state) context for every instruction, with the lockset held
	// immediately before it.
	visit func(fn *ssa.Function, entry lstate, in ssa.Instruction, st lstate)
	// onExit is called at every Return with the state after deferred calls ran.
	onExit func(fn *ssa.Function, entry lstate, ret *ssa.Return, st lstate)
	// onJoinDiff is called when two paths reach block b holding different locksets (must-hold keeps the
	// intersection, so a lock held on one path only would otherwise vanish silently: a leaked lock).
	onJoinDiff func(fn *ssa.Function, entry lstate, b *ssa.BasicBlock, s1, s2 lstate)
	Contexts   int
	Funcs      map[*ssa.Function]bool
}

func newLockAnalysis(p *Prog) *lockAnalysis {
	return &lockAnalysis{p: p, g: p.CallGraph(), memo: map[string]lstate{}, inprog: map[string]bool{}, Funcs: map[*ssa.Function]bool{}}
}

// RunAll analyses every repo function that can be entered from an unknown context with the empty lockset,
// and, transitively, every callee in the contexts in which it is called. Functions never reached that way
// (unexported, never called in non-test code) are analysed with the empty lockset too.
func (a *lockAnalysis) RunAll() {
	for _, f := range a.p.RepoFns {
		if a.g.externalRoot(f) {
			a.analyse(f, "")
		}
	}
	for _, f := range a.p.RepoFns {
		if !a.Funcs[f] && len(a.g.callers[f]) == 0 && f.Parent() == nil {
			a.analyse(f, "")
		}
	}
	// closures never reached (e.g. stored in a struct and called from outside)
	for _, f := range a.p.RepoFns {
		if !a.Funcs[f] {
			a.analyse(f, "")
		}
	}
}

func (a *lockAnalysis) analyse(fn *ssa.Function, entry lstate) lstate {
	key := fnKey(fn) + "|" + string(entry)
	if ex, ok := a.memo[key]; ok {
		return ex
	}
	if a.inprog[key] {
		return entry
	}
	if fn.Blocks == nil {
		return entry
	}
	a.inprog[key] = true
	defer delete(a.inprog, key)
	a.Funcs[fn] = true
	a.Contexts++

	// definitely-registered defers per RunDefers are decided by dominance
	var defers []*ssa.Defer
	eachInstr(fn, func(in ssa.Instruction) {
		if d, ok := in.(*ssa.Defer); ok {
			defers = append(defers, d)
		}
	})

	transfer := func(in ssa.Instruction, st lstate) lstate {
		switch x := in.(type) {
		case *ssa.Call:
			if id, mode, ok := lockOp(&x.Call); ok {
				if mode == -1 {
					return st.set(id, 0)
				}
				return st.set(id, mode)
			}
			cs := a.g.callees[in]
			if len(cs) == 0 {
				return st
			}
			var out lstate
			for i, c := range cs {
				ex := a.analyse(c, st)
				if i == 0 {
					out = ex
				} else {
					out = meet(out, ex)
				}
			}
			if x.Call.StaticCallee() == nil {
				// dynamic / interface dispatch: the callee set is an over-approximation, keep what all agree on
				out = meet(out, st)
			}
			return out
		case *ssa.Go:
			for _, c := range a.g.callees[in] {
				a.analyse(c, "")
			}
			return st
		case *ssa.RunDefers:
			for i := len(defers) - 1; i >= 0; i-- {
				d := defers[i]
				definite := d.Block() == in.Block() || d.Block().Dominates(in.Block())
				if id, mode, ok := lockOp(&d.Call); ok {
					if mode == -1 {
						st = st.set(id, 0)
					} else if definite {
						st = st.set(id, mode)
					}
					continue
				}
				for _, c := range a.g.callees[d] {
					ex := a.analyse(c, st)
					if definite {
						st = ex
					} else {
						st = meet(st, ex)
					}
				}
			}
			return st
		}
		return st
	}

	in := map[*ssa.BasicBlock]lstate{}
	have := map[*ssa.BasicBlock]bool{}
	out := map[*ssa.BasicBlock]lstate{}
	haveOut := map[*ssa.BasicBlock]bool{}
	work := []*ssa.BasicBlock{fn.Blocks[0]}
	in[fn.Blocks[0]] = entry
	have[fn.Blocks[0]] = true
	for iter := 0; len(work) > 0 && iter < 10000; iter++ {
		b := work[0]
		work = work[1:]
		st := in[b]
		for _, ins := range b.Instrs {
			st = transfer(ins, st)
		}
		if haveOut[b] && out[b] == st {
			continue
		}
		out[b] = st
		haveOut[b] = true
		for _, s := range b.Succs {
			ns := st
			if have[s] {
				ns = meet(in[s], st)
				if in[s] != st && a.onJoinDiff != nil && !deferCovers(fn, in[s], st) {
					a.onJoinDiff(fn, entry, s, in[s], st)
				}
			}
			if !have[s] || ns != in[s] {
				in[s] = ns
				have[s] = true
				work = append(work, s)
			} else if !haveOut[s] {
				work = append(work, s)
			}
		}
	}

	// final pass
	exit := lstate("")
	first := true
	for _, b := range fn.Blocks {
		if !have[b] {
			continue
		}
		st := in[b]
		for _, ins := range b.Instrs {
			if a.visit != nil {
				a.visit(fn, entry, ins, st)
			}
			st = transfer(ins, st)
			if r, ok := ins.(*ssa.Return); ok {
				if a.onExit != nil {
					a.onExit(fn, entry, r, st)
				}
				if first {
					exit = st
					first = false
				} else {
					exit = meet(exit, st)
				}
			}
		}
	}
	if first {
		exit = entry // no return (infinite loop / panic only)
	}
	a.memo[key] = exit
	return exit
}

// ---------- guarded-by ----------

type guardSpec struct {
	// "pkg/x.Struct.field" or "global:pkg/x.name" -> lock id
	Guarded map[string]string
	// functions (fnKey) exempt for one named reason each
	Exempt map[string]string
	// Extra lets a property add accesses that are not field accesses (e.g. "invoking a user callback that may
	// mutate guarded records needs the exclusive lock").
	Extra func(in ssa.Instruction) []guardedAccess
	// PointerElems: guarded maps whose pointer elements denote guarded objects too: "T.field" of the map -> true.
	// A field access through such a pointer needs the lock like an access to the map itself.
	PointerElems map[string]bool
}

type guardedAccess struct {
	Fn     *ssa.Function
	In     ssa.Instruction
	Field  string
	Need   int
	Held   int
	Lock   string
	Kind   string
	Entry  lstate
	Exempt string
}

// derivesFromGuarded: does value v denote (part of) the contents of a guarded field?
func (gs *guardSpec) derives(v ssa.Value, depth int) (string, bool) {
	if depth > 8 || v == nil {
		return "", false
	}
	v = stripChange(v)
	switch x := v.(type) {
	case *ssa.UnOp:
		if x.Op == token.MUL {
			if f, ok := gs.guardedAddr(x.X); ok {
				return f, true
			}
			if ia, ok := x.X.(*ssa.IndexAddr); ok {
				return gs.derives(ia.X, depth+1)
			}
		}
	case *ssa.Lookup:
		if _, isMap := x.X.Type().Underlying().(*types.Map); isMap {
			// an inner map stored in a guarded map is part of the guarded state; a pointer element is not
			// (the pointee's own fields are guarded through their own table entries)
			if f, ok := gs.derives(x.X, depth+1); ok {
				if elemIsMapOrSlice(x.Type()) {
					return f, true
				}
			}
		}
	case *ssa.Extract:
		if lk, ok := x.Tuple.(*ssa.Lookup); ok && x.Index == 0 {
			if f, ok := gs.derives(lk.X, depth+1); ok && elemIsMapOrSlice(x.Type()) {
				return f, true
			}
		}
	case *ssa.Slice:
		return gs.derives(x.X, depth+1)
	case *ssa.Phi:
		for _, e := range x.Edges {
			if f, ok := gs.derives(e, depth+1); ok {
				return f, true
			}
		}
	}
	return "", false
}

// pointerElem: v is a pointer obtained by looking up a guarded map listed in PointerElems.
func (gs *guardSpec) pointerElem(v ssa.Value) (string, bool) {
	if len(gs.PointerElems) == 0 {
		return "", false
	}
	v = stripChange(v)
	var m ssa.Value
	switch x := v.(type) {
	case *ssa.Lookup:
		m = x.X
	case *ssa.Extract:
		if lk, ok := x.Tuple.(*ssa.Lookup); ok && x.Index == 0 {
			m = lk.X
		}
		if nx, ok := x.Tuple.(*ssa.Next); ok && x.Index == 2 {
			if rg, ok := nx.Iter.(*ssa.Range); ok {
				m = rg.X
			}
		}
	case *ssa.Phi:
		for _, e := range x.Edges {
			if f, ok := gs.pointerElem(e); ok {
				return f, true
			}
		}
	}
	if m == nil {
		return "", false
	}
	if f, ok := gs.derives(m, 0); ok && gs.PointerElems[f] {
		return f, true
	}
	return "", false
}

func elemIsMapOrSlice(t types.Type) bool {
	if tt, ok := t.(*types.Tuple); ok && tt.Len() > 0 {
		t = tt.At(0).Type()
	}
	switch t.Underlying().(type) {
	case *types.Map, *types.Slice:
		return true
	}
	return false
}

func (gs *guardSpec) guardedAddr(v ssa.Value) (string, bool) {
	switch x := v.(type) {
	case *ssa.FieldAddr:
		tn, fn, _, ok := fieldOf(x)
		if ok {
			k := tn + "." + fn
			if _, g := gs.Guarded[k]; g {
				return k, true
			}
		}
	case *ssa.Global:
		k := "global:" + strings.TrimPrefix(x.Pkg.Pkg.Path(), modPath+"/") + "." + x.Name()
		if _, g := gs.Guarded[k]; g {
			return k, true
		}
	}
	return "", false
}

// freshBase: is the struct whose field is addressed a fresh allocation of this function (object under
// construction, not yet published)?
func freshBase(v ssa.Value) bool {
	fa, ok := v.(*ssa.FieldAddr)
	if !ok {
		return false
	}
	_, isAlloc := fa.X.(*ssa.Alloc)
	return isAlloc
}

// classify returns the guarded accesses performed by instruction in: (field, needed mode, kind).
func (gs *guardSpec) classify(in ssa.Instruction) []guardedAccess {
	var out []guardedAccess
	add := func(f string, need int, kind string) {
		out = append(out, guardedAccess{In: in, Field: f, Need: need, Kind: kind, Lock: gs.Guarded[f]})
	}
	switch x := in.(type) {
	case *ssa.Store:
		if f, ok := gs.guardedAddr(x.Addr); ok && !freshBase(x.Addr) {
			add(f, 2, "store")
		}
		if fa, ok := x.Addr.(*ssa.FieldAddr); ok {
			if f, ok := gs.pointerElem(fa.X); ok {
				add(f, 2, "store through a pointer element")
			}
		}
		if ia, ok := x.Addr.(*ssa.IndexAddr); ok {
			if f, ok := gs.derives(ia.X, 0); ok {
				add(f, 2, "element store")
			}
		}
		// storing the address or contents elsewhere is not an access by itself
	case *ssa.UnOp:
		if x.Op == token.MUL {
			if f, ok := gs.guardedAddr(x.X); ok && !freshBase(x.X) {
				add(f, 1, "load")
			}
			if fa, ok := x.X.(*ssa.FieldAddr); ok {
				if f, ok := gs.pointerElem(fa.X); ok {
					add(f, 1, "load through a pointer element")
				}
			}
		}
	case *ssa.MapUpdate:
		if f, ok := gs.derives(x.Map, 0); ok {
			add(f, 2, "map update")
		}
	case *ssa.Lookup:
		if f, ok := gs.derives(x.X, 0); ok {
			add(f, 1, "lookup")
		}
	case *ssa.Range:
		if f, ok := gs.derives(x.X, 0); ok {
			add(f, 1, "range")
		}
	case *ssa.Next:
		if r, ok := x.Iter.(*ssa.Range); ok {
			if f, ok := gs.derives(r.X, 0); ok {
				add(f, 1, "range next")
			}
		}
	case *ssa.IndexAddr:
		if f, ok := gs.derives(x.X, 0); ok {
			add(f, 1, "index")
		}
	case *ssa.Index:
		if f, ok := gs.derives(x.X, 0); ok {
			add(f, 1, "index")
		}
	case *ssa.Call, *ssa.Defer, *ssa.Go:
		c := callOf(in)
		name := calleeName(c)
		args := c.Args
		if c.IsInvoke() {
			args = append([]ssa.Value{c.Value}, args...)
		}
		for i, a := range args {
			av := stripChange(a)
			if f, ok := gs.guardedAddr(av); ok && !freshBase(av) {
				if strings.HasPrefix(name, "(*sync.") || strings.HasPrefix(name, "sync/atomic.") {
					continue
				}
				add(f, 2, "address passed to "+name)
				continue
			}
			if f, ok := gs.derives(av, 0); ok {
				need, kind := 1, "passed to "+name
				if name == "builtin:delete" && i == 0 {
					need, kind = 2, "delete"
				}
				add(f, need, kind)
			}
		}
	}
	if gs.Extra != nil {
		out = append(out, gs.Extra(in)...)
	}
	return out
}

// runGuardedBy runs the interprocedural analysis and reports every guarded access with the lock mode held.
func runGuardedBy(p *Prog, gs *guardSpec) ([]guardedAccess, *lockAnalysis, []string) {
	la := newLockAnalysis(p)
	var accs []guardedAccess
	var imbalance []string
	seenImb := map[string]bool{}
	la.visit = func(fn *ssa.Function, entry lstate, in ssa.Instruction, st lstate) {
		if c, ok := in.(*ssa.Call); ok {
			if id, mode, ok := lockOp(&c.Call); ok && mode > 0 && st.get(id) > 0 {
				for _, l := range gs.Guarded {
					if l == id {
						accs = append(accs, guardedAccess{Fn: fn, In: in, Field: "re-acquisition of " + id, Need: 3, Held: st.get(id), Lock: id, Kind: "lock acquired while already held", Entry: entry})
						break
					}
				}
			}
		}
		for _, ga := range gs.classify(in) {
			ga.Fn = fn
			ga.Held = st.get(ga.Lock)
			ga.Entry = entry
			// an exemption of a function covers the function literals written inside it only when they are applied in place
			// (the form a helper with deferred calls takes after it was spliced back: still the same goroutine, the same moment)
			exKey := fnKey(fn)
			for pf := fn; pf.Parent() != nil && appliedInPlace(pf); pf = pf.Parent() {
				exKey = fnKey(pf.Parent())
			}
			if why, ok := gs.Exempt[exKey]; ok {
				ga.Exempt = why
			}
			accs = append(accs, ga)
		}
	}
	la.onExit = func(fn *ssa.Function, entry lstate, ret *ssa.Return, st lstate) {
		if st != entry {
			msg := fmt.Sprintf("%s|%s|entry{%s} exit{%s}", fnKey(fn), p.instrPos(ret), entry, st)
			if !seenImb[msg] {
				seenImb[msg] = true
				imbalance = append(imbalance, msg)
			}
		}
	}
	la.onJoinDiff = func(fn *ssa.Function, entry lstate, b *ssa.BasicBlock, s1, s2 lstate) {
		pos := ""
		for _, in := range b.Instrs {
			if in.Pos().IsValid() {
				pos = p.instrPos(in)
				break
			}
		}
		if pos == "" {
			pos = p.pos(fn.Pos())
		}
		msg := fmt.Sprintf("%s|%s|paths join holding {%s} and {%s}", fnKey(fn), pos, s1, s2)
		key := fnKey(fn) + "|" + b.String()
		if !seenImb[key] {
			seenImb[key] = true
			imbalance = append(imbalance, msg)
		}
	}
	la.RunAll()
	return accs, la, imbalance
}

// deferCovers: every lock on which the two states differ is released by a deferred unlock that sits in the block of an
// acquisition of it ("mu.Lock(); defer mu.Unlock()" inside a branch): the paths differ only until the deferred calls run.
func deferCovers(fn *ssa.Function, s1, s2 lstate) bool {
	ids := map[string]bool{}
	for _, l := range append(s1.locks(), s2.locks()...) {
		if s1.get(l) != s2.get(l) {
			ids[l] = true
		}
	}
	for id := range ids {
		covered := false
		for _, b := range fn.Blocks {
			locked := false
			for _, in := range b.Instrs {
				switch x := in.(type) {
				case *ssa.Call:
					if l, mode, ok := lockOp(&x.Call); ok && l == id && mode > 0 {
						locked = true
					}
				case *ssa.Defer:
					if l, mode, ok := lockOp(&x.Call); ok && l == id && mode == -1 && locked {
						covered = true
					}
				}
			}
		}
		if !covered {
			return false
		}
	}
	return true
}
