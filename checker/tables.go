package main

import (
	"fmt"
	"go/ast"
	"go/constant"
	"go/token"
	"go/types"
	"sort"
	"strings"

	"golang.org/x/tools/go/packages"
)

// ieTables are the constant tables lifted from pkg/entities on every run.
type ieTables struct {
	TypeNames   map[int64]string           // IEDataType value -> constant name
	TypeVals    map[string]int64           // constant name -> value
	Length      map[string]int64           // InfoElementLength literal: type name -> length (65535 = variable)
	Constructor map[string]string          // decoder switch: type name -> NewXInfoElement constructor
	Concrete    map[string]string          // type name -> concrete element struct name (XInfoElement)
	Declared    map[string]map[string]bool // concrete struct -> methods it declares itself (not promoted)
	Supported   []string                   // type names the decoder builds an element for
	Unsupported []string                   // type names for which the decoder returns an error
	Problems    []string
}

func (p *Prog) entities() *packages.Package { return p.pkg("pkg/entities") }

// caseClauseInfo describes one clause of a switch over IEDataType (or over a string name).
type caseClause struct {
	Labels  []string // constant names (IEDataType) or string values; nil = default
	Default bool
	Body    []ast.Stmt
	Pos     token.Pos
	Clause  *ast.CaseClause
}

// typeSwitches returns the switch statements in node whose tag has type pkg/entities.IEDataType.
func ieSwitches(pk *packages.Package, node ast.Node) []*ast.SwitchStmt {
	var out []*ast.SwitchStmt
	ast.Inspect(node, func(n ast.Node) bool {
		sw, ok := n.(*ast.SwitchStmt)
		if !ok || sw.Tag == nil {
			return true
		}
		if t := pk.TypesInfo.TypeOf(sw.Tag); t != nil && typeName(t) == "pkg/entities.IEDataType" {
			out = append(out, sw)
		}
		return true
	})
	return out
}

func stringSwitches(pk *packages.Package, node ast.Node) []*ast.SwitchStmt {
	var out []*ast.SwitchStmt
	ast.Inspect(node, func(n ast.Node) bool {
		sw, ok := n.(*ast.SwitchStmt)
		if !ok || sw.Tag == nil {
			return true
		}
		if t := pk.TypesInfo.TypeOf(sw.Tag); t != nil {
			if b, ok := t.Underlying().(*types.Basic); ok && b.Kind() == types.String {
				out = append(out, sw)
			}
		}
		return true
	})
	return out
}

func clausesOf(pk *packages.Package, sw *ast.SwitchStmt, tb *ieTables) []caseClause {
	var out []caseClause
	for _, s := range sw.Body.List {
		cc, ok := s.(*ast.CaseClause)
		if !ok {
			continue
		}
		c := caseClause{Body: cc.Body, Pos: cc.Pos(), Clause: cc}
		if cc.List == nil {
			c.Default = true
		}
		for _, e := range cc.List {
			tv := pk.TypesInfo.Types[e]
			if tv.Value == nil {
				c.Labels = append(c.Labels, "?"+types.ExprString(e))
				continue
			}
			switch tv.Value.Kind() {
			case constant.Int:
				v, _ := constant.Int64Val(tv.Value)
				if tb != nil {
					if n, ok := tb.TypeNames[v]; ok {
						c.Labels = append(c.Labels, n)
						continue
					}
				}
				c.Labels = append(c.Labels, fmt.Sprint(v))
			case constant.String:
				c.Labels = append(c.Labels, constant.StringVal(tv.Value))
			}
		}
		out = append(out, c)
	}
	return out
}

// methodCallsOn lists the names of methods called (selector calls) within stmts whose receiver expression has
// the given named type ("pkg/entities.InfoElementWithValue"); order preserved, duplicates kept.
func methodCallsOn(pk *packages.Package, nodes []ast.Stmt, recvType string) []string {
	var out []string
	for _, st := range nodes {
		ast.Inspect(st, func(n ast.Node) bool {
			call, ok := n.(*ast.CallExpr)
			if !ok {
				return true
			}
			sel, ok := call.Fun.(*ast.SelectorExpr)
			if !ok {
				return true
			}
			t := pk.TypesInfo.TypeOf(sel.X)
			if t != nil && typeName(t) == recvType {
				out = append(out, sel.Sel.Name)
			}
			return true
		})
	}
	return out
}

// funcCalls lists package-level functions called within stmts as "pkgpath.Name" (or "Name" for same package),
// and selector method calls on package-level vars such as binary.BigEndian.PutUint16 as "binary.BigEndian.PutUint16".
func funcCalls(pk *packages.Package, nodes []ast.Stmt) []string {
	var out []string
	for _, st := range nodes {
		ast.Inspect(st, func(n ast.Node) bool {
			call, ok := n.(*ast.CallExpr)
			if !ok {
				return true
			}
			switch f := call.Fun.(type) {
			case *ast.Ident:
				if o, ok := pk.TypesInfo.Uses[f].(*types.Func); ok {
					out = append(out, o.Name())
				} else if _, ok := pk.TypesInfo.Uses[f].(*types.Builtin); ok {
					out = append(out, f.Name)
				}
			case *ast.SelectorExpr:
				out = append(out, types.ExprString(f))
			}
			return true
		})
	}
	return out
}

func (p *Prog) liftIETables() *ieTables {
	tb := &ieTables{TypeNames: map[int64]string{}, TypeVals: map[string]int64{}, Length: map[string]int64{}, Constructor: map[string]string{},
		Concrete: map[string]string{}, Declared: map[string]map[string]bool{}}
	pk := p.entities()
	if pk == nil {
		tb.Problems = append(tb.Problems, "package pkg/entities not found")
		return tb
	}
	scope := pk.Types.Scope()
	for _, n := range scope.Names() {
		c, ok := scope.Lookup(n).(*types.Const)
		if !ok || typeName(c.Type()) != "pkg/entities.IEDataType" {
			continue
		}
		v, _ := constant.Int64Val(c.Val())
		tb.TypeNames[v] = n
		tb.TypeVals[n] = v
	}
	// InfoElementLength literal
	for _, f := range pk.Syntax {
		for _, d := range f.Decls {
			gd, ok := d.(*ast.GenDecl)
			if !ok {
				continue
			}
			for _, sp := range gd.Specs {
				vs, ok := sp.(*ast.ValueSpec)
				if !ok {
					continue
				}
				for i, name := range vs.Names {
					if name.Name != "InfoElementLength" || i >= len(vs.Values) {
						continue
					}
					cl, ok := vs.Values[i].(*ast.CompositeLit)
					if !ok {
						continue
					}
					for _, el := range cl.Elts {
						kv, ok := el.(*ast.KeyValueExpr)
						if !ok {
							continue
						}
						k := pk.TypesInfo.Types[kv.Key].Value
						v := pk.TypesInfo.Types[kv.Value].Value
						if k == nil || v == nil {
							continue
						}
						ki, _ := constant.Int64Val(k)
						vi, _ := constant.Int64Val(v)
						tb.Length[tb.TypeNames[ki]] = vi
					}
				}
			}
		}
	}
	if len(tb.Length) == 0 {
		tb.Problems = append(tb.Problems, "InfoElementLength map literal not found")
	}
	// decoder switch
	fd, _ := p.funcDecl("pkg/entities", "", "DecodeAndCreateInfoElementWithValue")
	if fd == nil {
		tb.Problems = append(tb.Problems, "DecodeAndCreateInfoElementWithValue not found")
	} else {
		sws := ieSwitches(pk, fd)
		if len(sws) != 1 {
			tb.Problems = append(tb.Problems, fmt.Sprintf("decoder has %d IEDataType switches, expected 1", len(sws)))
		} else {
			for _, c := range clausesOf(pk, sws[0], tb) {
				ctor := ""
				for _, fc := range funcCalls(pk, c.Body) {
					if strings.HasPrefix(fc, "New") && strings.HasSuffix(fc, "InfoElement") {
						if ctor != "" && ctor != fc {
							tb.Problems = append(tb.Problems, fmt.Sprintf("decoder case %v uses two constructors %s and %s", c.Labels, ctor, fc))
						}
						ctor = fc
					}
				}
				for _, l := range c.Labels {
					if ctor != "" {
						tb.Constructor[l] = ctor
						tb.Supported = append(tb.Supported, l)
					} else {
						tb.Unsupported = append(tb.Unsupported, l)
					}
				}
			}
		}
	}
	sort.Strings(tb.Supported)
	sort.Strings(tb.Unsupported)
	// constructor -> concrete type; declared methods
	for l, ctor := range tb.Constructor {
		o, ok := scope.Lookup(ctor).(*types.Func)
		if !ok {
			tb.Problems = append(tb.Problems, "constructor "+ctor+" not found")
			continue
		}
		res := o.Type().(*types.Signature).Results()
		if res.Len() != 1 {
			continue
		}
		tn := typeName(res.At(0).Type())
		tn = strings.TrimPrefix(tn, "pkg/entities.")
		tb.Concrete[l] = tn
		if _, done := tb.Declared[tn]; done {
			continue
		}
		m := map[string]bool{}
		if named, ok := scope.Lookup(tn).(*types.TypeName); ok {
			if nt, ok := named.Type().(*types.Named); ok {
				for i := 0; i < nt.NumMethods(); i++ {
					m[nt.Method(i).Name()] = true
				}
			}
		}
		tb.Declared[tn] = m
	}
	return tb
}

// getterOK: is method m (GetXValue/SetXValue) declared by the concrete element type of data type l?
func (tb *ieTables) getterOK(l, m string) bool {
	ct, ok := tb.Concrete[l]
	if !ok {
		return false
	}
	return tb.Declared[ct][m]
}

func isValueAccessor(m string) bool {
	return (strings.HasPrefix(m, "Get") || strings.HasPrefix(m, "Set")) && strings.HasSuffix(m, "Value") && m != "IsValueEmpty" && m != "ResetValue" && m != "GetInfoElementWithValue"
}

// checkIESwitch applies R-SWITCH (every supported type has an explicit case) and R-GETTER (the typed accessor used in
// a case is declared by the concrete type of that case's data types) to one switch.
func checkIESwitch(p *Prog, r *Report, pk *packages.Package, tb *ieTables, fnName string, sw *ast.SwitchStmt, requireAll bool, skip map[string]string) {
	covered := map[string]bool{}
	for _, c := range clausesOf(pk, sw, tb) {
		if c.Default {
			continue
		}
		acc := []string{}
		for _, m := range methodCallsOn(pk, c.Body, "pkg/entities.InfoElementWithValue") {
			if isValueAccessor(m) {
				acc = append(acc, m)
			}
		}
		for _, l := range c.Labels {
			covered[l] = true
			if _, sup := tb.Concrete[l]; !sup {
				continue
			}
			for _, m := range acc {
				r.Check(tb.getterOK(l, m), "R-GETTER", fmt.Sprintf("%s: case %s uses %s", fnName, l, m), p.pos(c.Pos),
					"declared by "+tb.Concrete[l], fmt.Sprintf("%s is not declared by %s (the element type built for %s): the promoted baseInfoElement method panics at run time", m, tb.Concrete[l], l), true)
			}
			if len(acc) == 0 {
				r.OK("R-GETTER", fmt.Sprintf("%s: case %s uses no typed accessor", fnName, l), p.pos(c.Pos), "", false)
			}
		}
	}
	if requireAll {
		for _, l := range tb.Supported {
			if why, ok := skip[l]; ok {
				r.OK("R-SWITCH", fmt.Sprintf("%s: case for %s", fnName, l), p.pos(sw.Pos()), "named exception: "+why, false)
				continue
			}
			r.Check(covered[l], "R-SWITCH", fmt.Sprintf("%s: case for %s", fnName, l), p.pos(sw.Pos()), "explicit case present",
				"supported data type "+l+" has no case: it falls into the default branch (error / not rendered)", true)
		}
	}
}

// ---------- registry literals ----------

type regEntry struct {
	Name string
	ID   int64
	Type int64
	Ent  int64
	Len  int64
	Pos  token.Pos
	// RegEnt is the enterprise id passed to registerInfoElement (must equal Ent)
	RegEnt int64
}

// liftRegistry returns every registerInfoElement(*entities.NewInfoElement(name,id,type,ent,len), ent) call with constant
// arguments in pkg/registry (non-test files), plus problems (non-constant arguments etc.).
func (p *Prog) liftRegistry() ([]regEntry, []string) {
	pk := p.pkg("pkg/registry")
	if pk == nil {
		return nil, []string{"package pkg/registry not found"}
	}
	var out []regEntry
	var problems []string
	cval := func(e ast.Expr) (constant.Value, bool) {
		tv, ok := pk.TypesInfo.Types[e]
		return tv.Value, ok && tv.Value != nil
	}
	for _, f := range pk.Syntax {
		ast.Inspect(f, func(n ast.Node) bool {
			call, ok := n.(*ast.CallExpr)
			if !ok {
				return true
			}
			id, ok := call.Fun.(*ast.Ident)
			if !ok || id.Name != "registerInfoElement" || len(call.Args) != 2 {
				return true
			}
			star, ok := call.Args[0].(*ast.StarExpr)
			if !ok {
				problems = append(problems, p.pos(call.Pos())+": registerInfoElement argument is not *entities.NewInfoElement(...)")
				return true
			}
			inner, ok := star.X.(*ast.CallExpr)
			if !ok || len(inner.Args) != 5 {
				problems = append(problems, p.pos(call.Pos())+": registerInfoElement argument is not *entities.NewInfoElement(...)")
				return true
			}
			var vals [5]constant.Value
			for i, a := range inner.Args {
				v, ok := cval(a)
				if !ok {
					problems = append(problems, p.pos(a.Pos())+": non-constant argument in a registry entry")
					return true
				}
				vals[i] = v
			}
			re, ok := cval(call.Args[1])
			if !ok {
				problems = append(problems, p.pos(call.Pos())+": non-constant enterprise id")
				return true
			}
			e := regEntry{Name: constant.StringVal(vals[0]), Pos: call.Pos()}
			e.ID, _ = constant.Int64Val(vals[1])
			e.Type, _ = constant.Int64Val(vals[2])
			e.Ent, _ = constant.Int64Val(vals[3])
			e.Len, _ = constant.Int64Val(vals[4])
			e.RegEnt, _ = constant.Int64Val(re)
			out = append(out, e)
			return true
		})
	}
	return out, problems
}

// nameTypes maps every element name the registries know (IANA, Antrea, and the derived reverse registry) to its
// data type name(s).
func (p *Prog) nameTypes(tb *ieTables) (map[string]map[string]bool, []string) {
	reg, problems := p.liftRegistry()
	out := map[string]map[string]bool{}
	add := func(n, t string) {
		if out[n] == nil {
			out[n] = map[string]bool{}
		}
		out[n][t] = true
	}
	nonRev := map[string]bool{}
	if pk := p.pkg("pkg/registry"); pk != nil {
		for _, f := range pk.Syntax {
			ast.Inspect(f, func(n ast.Node) bool {
				vs, ok := n.(*ast.ValueSpec)
				if !ok || len(vs.Names) != 1 || vs.Names[0].Name != "nonReversibleIEs" || len(vs.Values) != 1 {
					return true
				}
				if cl, ok := vs.Values[0].(*ast.CompositeLit); ok {
					for _, el := range cl.Elts {
						if kv, ok := el.(*ast.KeyValueExpr); ok {
							if tv, ok := pk.TypesInfo.Types[kv.Key]; ok && tv.Value != nil {
								nonRev[constant.StringVal(tv.Value)] = true
							}
						}
					}
				}
				return false
			})
		}
	}
	if len(nonRev) == 0 {
		problems = append(problems, "nonReversibleIEs literal not found (reverse registry cannot be derived)")
	}
	for _, e := range reg {
		t := tb.TypeNames[e.Type]
		add(e.Name, t)
		if e.Ent == 0 && e.Name != "" && !nonRev[e.Name] {
			add("reverse"+strings.ToUpper(e.Name[:1])+e.Name[1:], t)
		}
	}
	return out, problems
}

// checkNameSwitch applies R-GETTER to a switch over an element NAME: the accessor used in case "n" must be declared by
// the concrete element type of every registered element called n.
func checkNameSwitch(p *Prog, r *Report, pk *packages.Package, tb *ieTables, names map[string]map[string]bool, fnName string, sw *ast.SwitchStmt, recvType string) int {
	n := 0
	for _, c := range clausesOf(pk, sw, nil) {
		if c.Default {
			continue
		}
		var acc []string
		for _, m := range methodCallsOn(pk, c.Body, recvType) {
			if isValueAccessor(m) {
				acc = append(acc, m)
			}
		}
		for _, l := range c.Labels {
			ts, known := names[l]
			if !known {
				if len(acc) > 0 {
					r.Undecided("R-GETTER.name", fmt.Sprintf("%s: case %q", fnName, l), p.pos(c.Pos), "element name is not in any registry table: its data type is unknown")
				}
				continue
			}
			for _, m := range acc {
				n++
				ok := true
				var tl []string
				for t := range ts {
					tl = append(tl, t)
					if !tb.getterOK(t, m) {
						ok = false
					}
				}
				sort.Strings(tl)
				r.Check(ok, "R-GETTER.name", fmt.Sprintf("%s: case %q uses %s", fnName, l, m), p.pos(c.Pos), "declared by the element type of "+strings.Join(tl, "/"),
					fmt.Sprintf("%q is registered with data type %s whose element type does not declare %s: the promoted accessor panics", l, strings.Join(tl, "/"), m), true)
			}
		}
	}
	return n
}

type ast_FuncDecl = ast.FuncDecl

// nameSwitchesInPkg applies checkNameSwitch to every switch over ie.GetName() in the package.
func nameSwitchesInPkg(p *Prog, r *Report, pkgPath string, tb *ieTables, names map[string]map[string]bool) int {
	pk := p.Pkgs[pkgPath]
	total := 0
	if pk == nil {
		return 0
	}
	for _, f := range pk.Syntax {
		for _, d := range f.Decls {
			fd, ok := d.(*ast.FuncDecl)
			if !ok || fd.Body == nil {
				continue
			}
			for _, sw := range stringSwitches(pk, fd) {
				if call, ok := sw.Tag.(*ast.CallExpr); ok {
					if sel, ok := call.Fun.(*ast.SelectorExpr); ok && sel.Sel.Name == "GetName" {
						total += checkNameSwitch(p, r, pk, tb, names, strings.TrimPrefix(pkgPath, modPath+"/")+"."+fd.Name.Name, sw, "pkg/entities.InfoElementWithValue")
					}
				}
			}
		}
	}
	return total
}
