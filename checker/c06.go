package main

import (
	"fmt"
	"go/token"
	"go/types"
	"strings"

	"golang.org/x/tools/go/ssa"
)

const aggQueue = "pkg/intermediate.AggregationProcess.expirePriorityQueue"
const aggMap = "pkg/intermediate.AggregationProcess.flowKeyRecordMap"

func init() {
	register(&propDef{
		ID:          "C06",
		Explanation: "Typestate and ownership rules for the expiry queue, decided on SSA: (1) R-TYPESTATE: at every container/heap.Pop of AggregationProcess.expirePriorityQueue, the popped item (by def-use from the type assertion) is, on EVERY path to a function exit or back to the loop head, either pushed back with container/heap.Push(queue, sameItem) or its flow is deleted from the map (deleteFlowKeyFromMapWithoutLock(*sameItem.flowKey) / delete(map, *sameItem.flowKey)) - so no held flow is left without a queue entry and no queue entry without a flow; (2) a new AggregationFlowRecord reaches the map only after container/heap.Push of an item with item.flowRecord = record and record.PriorityQueueItem = item; (3) map deletions happen only where the item is out of the heap (dominated by the Pop) - the locked wrapper has no non-test caller; (4) on the existing-flow branch every non-error path calls queue.Update(item, ..., item.activeExpireTime (unchanged), now + inactiveTimeout), and Update stores both deadlines and ends in heap.Fix(pq, item.index); (5) heap interface obligations: Swap/Push/Pop maintain index (i, j / len / -1), Less compares minExpireTime(i) and minExpireTime(j) with Before, minExpireTime returns the earlier deadline, the advertised expiry reads minExpireTime(0); (6) deadline tests: the Pop is unreachable when both deadlines are After(now); after a successful callback the delete is guarded by the inactive deadline of the popped item, the not-ready delete by retries > MaxRetries, and the active deadline is re-armed to now + activeTimeout before the re-push. (7) R-VALUE.deadline: every store to a deadline anywhere in the package is Now().Add(the timeout of the same kind) or a parameter; Pop returns (*pq)[n-1] and keeps (*pq)[0:n-1]; the clamp of the advertised expiry and 're-arm only after the callback succeeded' are path rules. Not decided: wall-clock 'exactly when', container/heap's own correctness. Later additions: no exit between the Push of a new item and the map insertion; at every re-push of a popped item both deadlines are re-armed or known to be After(now) (callback-failure push exempt); a flow that needs no correlation is ready at once on every path; nil is returned only after the map insertion. Round-five additions: C07's retry-budget rule (the item is deleted only when the retries exceed MaxRetries, re-armed otherwise). Round-six additions: one FlowKey object per record (the queue item keeps the pointer it is given).",
		Assume:      []string{"container/heap implements a binary heap over the heap.Interface it is given", "time.Time.After/Before semantics"},
		Run:         runC06,
	})
}

// isHeapCall: container/heap.<name>(&a.expirePriorityQueue, ...)
func isHeapCall(in ssa.Instruction, name string) (*ssa.Call, bool) {
	c, ok := in.(*ssa.Call)
	if !ok || calleeName(&c.Call) != "container/heap."+name || len(c.Call.Args) == 0 {
		return nil, false
	}
	a := stripChange(c.Call.Args[0])
	tn, fn, _, ok := fieldOf(a)
	if ok && tn+"."+fn == aggQueue {
		return c, true
	}
	return nil, false
}

// itemOf: value v is (a load from / the pointer) of item
func sameItem(v ssa.Value, item ssa.Value) bool {
	v = stripChange(v)
	if v == item {
		return true
	}
	// the item merged with "nothing to pop" results (nil) of a helper that was spliced back: every non-nil way in is the item
	if _, isPhi := v.(*ssa.Phi); isPhi {
		some := false
		for _, lf := range phiLeaves(v, 3) {
			lf = stripChange(lf)
			if k, ok := lf.(*ssa.Const); ok && k.IsNil() {
				continue
			}
			if lf != item {
				return false
			}
			some = true
		}
		return some
	}
	return false
}

// flowKeyOf: v == *item.flowKey
func isFlowKeyOfItem(v ssa.Value, item ssa.Value) bool {
	u, ok := stripChange(v).(*ssa.UnOp)
	if !ok || u.Op != token.MUL {
		return false
	}
	tn, fn, base, ok := loadedField(u.X)
	return ok && tn == "pkg/intermediate.ItemToExpire" && fn == "flowKey" && sameItem(base, item)
}

func runC06(p *Prog, r *Report, tier string) {
	// the queue item keeps the *FlowKey it is given: one key object per record
	checkFreshPerIteration(p, r, "R-OWNER.key-fresh", "(*pkg/intermediate.AggregationProcess).AggregateMsgByFlowKey", func(n string) bool { return strings.HasSuffix(n, ").addOrUpdateRecordInMap") }, 1, "flow key")
	g := p.CallGraph()
	delFn := p.Fn("(*pkg/intermediate.AggregationProcess).deleteFlowKeyFromMapWithoutLock")
	// ---- (1) typestate at every Pop
	nPop := 0
	for _, f := range p.RepoFns {
		if !keyInPkg(fnKey(f), "pkg/intermediate") {
			continue
		}
		idx := 0
		eachInstr(f, func(in ssa.Instruction) {
			pop, ok := isHeapCall(in, "Pop")
			if !ok {
				return
			}
			nPop++
			idx++
			var item ssa.Value
			for _, ref := range refs(pop) {
				if ta, ok := ref.(*ssa.TypeAssert); ok {
					item = ta
				}
			}
			construct := fmt.Sprintf("%s: heap.Pop #%d of the expiry queue", fnKey(f), idx)
			if item == nil {
				r.Undecided("R-TYPESTATE", construct, p.instrPos(in), "the popped value is not type-asserted to *ItemToExpire: cannot follow the item")
				return
			}
			var loopHead *ssa.BasicBlock
			for _, b := range f.Blocks {
				if b.Dominates(in.Block()) && b != in.Block() {
					for _, pr := range b.Preds {
						if b.Dominates(pr) && (in.Block().Dominates(pr) || reachableBlock(in.Block(), pr)) {
							if loopHead == nil || loopHead.Dominates(b) {
								loopHead = b
							}
						}
					}
				}
			}
			q := &pathQuery{loopHead: loopHead, discharge: func(x ssa.Instruction) bool {
				if ps, ok := isHeapCall(x, "Push"); ok && len(ps.Call.Args) == 2 && sameItem(ps.Call.Args[1], item) {
					return true
				}
				if c, ok := x.(*ssa.Call); ok {
					if delFn != nil && c.Call.StaticCallee() == delFn && len(c.Call.Args) == 2 && isFlowKeyOfItem(c.Call.Args[1], item) {
						return true
					}
					if b, ok := c.Call.Value.(*ssa.Builtin); ok && b.Name() == "delete" && len(c.Call.Args) == 2 {
						if tn, fn, _, ok := loadedField(c.Call.Args[0]); ok && tn+"."+fn == aggMap && isFlowKeyOfItem(c.Call.Args[1], item) {
							return true
						}
					}
				}
				return false
			}}
			if trail, bad := q.find(item.(ssa.Instruction)); bad {
				r.Violation("R-TYPESTATE", construct, p.instrPos(in),
					"the popped item is neither pushed back with container/heap.Push nor is its flow deleted on this path: the flow is stranded (held without a queue entry) or the queue order is broken; path "+p.describePath(f, trail))
			} else {
				r.OK("R-TYPESTATE", construct, p.instrPos(in), "every path to an exit or to the loop head passes heap.Push(queue, item) or the deletion of *item.flowKey", true)
			}
		})
	}
	if nPop == 0 {
		r.Undecided("R-TYPESTATE", "anchor: container/heap.Pop(&a.expirePriorityQueue)", "pkg/intermediate/aggregate.go", "no Pop of the expiry queue found")
	}
	// any direct (non-heap) Push/Pop method call on the queue field from AggregationProcess code breaks heap order
	for _, f := range p.RepoFns {
		if !keyInPkg(fnKey(f), "pkg/intermediate") {
			continue
		}
		eachInstr(f, func(in ssa.Instruction) {
			c, ok := in.(*ssa.Call)
			if !ok {
				return
			}
			n := calleeName(&c.Call)
			if n == "(*pkg/intermediate.TimeToExpirePriorityQueue).Push" || n == "(*pkg/intermediate.TimeToExpirePriorityQueue).Pop" {
				if tn, fn, _, ok := fieldOf(c.Call.Args[0]); ok && tn+"."+fn == aggQueue {
					r.Violation("R-OWNER.heap-only", fnKey(f)+": direct call of "+n+" on the expiry queue", p.instrPos(in),
						"the queue's Push/Pop methods only append/truncate; bypassing container/heap leaves the item unsifted, so a later deadline can sit at the root and expired flows are not reported")
				}
			}
		})
	}

	// ---- (2) new record: Push before map insertion, mutual links
	nNew := 0
	for _, f := range p.RepoFns {
		if !keyInPkg(fnKey(f), "pkg/intermediate") {
			continue
		}
		eachInstr(f, func(in ssa.Instruction) {
			al, ok := in.(*ssa.Alloc)
			if !ok || typeName(al.Type()) != "pkg/intermediate.AggregationFlowRecord" || !al.Heap || al.Comment != "complit" {
				return
			}
			nNew++
			construct := fnKey(f) + ": new AggregationFlowRecord"
			var push *ssa.Call
			linkedFwd, linkedBack := false, false
			eachInstr(f, func(x ssa.Instruction) {
				ps, ok := isHeapCall(x, "Push")
				if !ok || len(ps.Call.Args) != 2 {
					return
				}
				it, ok := stripChange(ps.Call.Args[1]).(*ssa.Alloc)
				if !ok {
					return
				}
				f1, f2 := false, false
				for _, ref := range refs(it) {
					if fa, ok := ref.(*ssa.FieldAddr); ok {
						_, fn, _, _ := fieldOf(fa)
						for _, rr := range refs(fa) {
							if st, ok := rr.(*ssa.Store); ok && fn == "flowRecord" && st.Val == ssa.Value(al) && dominates(st, x) {
								f1 = true
							}
						}
					}
				}
				for _, ref := range refs(al) {
					if fa, ok := ref.(*ssa.FieldAddr); ok {
						_, fn, _, _ := fieldOf(fa)
						for _, rr := range refs(fa) {
							if st, ok := rr.(*ssa.Store); ok && fn == "PriorityQueueItem" && st.Val == ssa.Value(it) {
								f2 = true
							}
						}
					}
				}
				if f1 && f2 {
					push, linkedFwd, linkedBack = ps, f1, f2
				}
			})
			if push == nil {
				r.Violation("R-OWNER.insert", construct, p.instrPos(in), "no container/heap.Push of an item linked both ways with the new record (item.flowRecord = record, record.PriorityQueueItem = item): the new flow is held without being scheduled")
				return
			}
			_ = linkedFwd
			_ = linkedBack
			q := &pathQuery{noExit: true, discharge: func(x ssa.Instruction) bool { return x == ssa.Instruction(push) }, terminal: func(x ssa.Instruction) bool {
				mu, ok := x.(*ssa.MapUpdate)
				if !ok {
					return false
				}
				tn, fn, _, ok := loadedField(mu.Map)
				return ok && tn+"."+fn == aggMap
			}}
			if trail, bad := q.find(in); bad {
				r.Violation("R-OWNER.insert", construct, p.instrPos(in), "the new record can reach the map insertion without the heap.Push of its item; path "+p.describePath(f, trail))
			} else {
				r.OK("R-OWNER.insert", construct, p.instrPos(in), "linked both ways with its queue item; every path to the map insertion passes heap.Push", true)
			}
			// and the converse: once the item is scheduled the flow IS stored - no exit between the Push and the map insertion
			isIns := func(x ssa.Instruction) bool {
				mu, ok := x.(*ssa.MapUpdate)
				if !ok {
					return false
				}
				tn, fn, _, ok := loadedField(mu.Map)
				return ok && tn+"."+fn == aggMap
			}
			q2 := &pathQuery{discharge: isIns}
			if trail, bad := q2.find(push); bad {
				r.Violation("R-OWNER.insert-after-push", construct, p.instrPos(push), "after heap.Push of the new item a function exit is reachable without the map insertion: a scheduled entry refers to a flow that is not held; path "+p.describePath(f, trail))
			} else {
				r.OK("R-OWNER.insert-after-push", construct, p.instrPos(push), "every path from the heap.Push to a function exit passes the map insertion", true)
			}
		})
	}
	if nNew == 0 {
		r.Undecided("R-OWNER.insert", "anchor: allocation of AggregationFlowRecord", "pkg/intermediate/aggregate.go", "not found")
	}

	// ---- (3) deletions only after a Pop
	if delFn == nil {
		r.Undecided("R-OWNER.delete", "anchor: deleteFlowKeyFromMapWithoutLock", "pkg/intermediate/aggregate.go", "function not found")
	} else {
		for _, cs := range g.callers[delFn] {
			cf := cs.Parent()
			okPop := false
			eachInstr(cf, func(x ssa.Instruction) {
				if _, ok := isHeapCall(x, "Pop"); ok && dominates(x, cs) {
					okPop = true
				}
			})
			if !okPop && len(g.callers[cf]) == 0 && cf.Object() != nil && !cf.Object().Exported() {
				r.OK("R-OWNER.delete", fnKey(cf)+": call of deleteFlowKeyFromMapWithoutLock", p.instrPos(cs), "wrapper without any non-test caller (dead in production code)", true)
				continue
			}
			r.Check(okPop, "R-OWNER.delete", fnKey(cf)+": call of deleteFlowKeyFromMapWithoutLock", p.instrPos(cs), "dominated by the heap.Pop that removed the flow's item",
				"a flow is deleted from the map while its item may still be queued (no dominating heap.Pop): the queue keeps an entry for a flow that is gone", true)
		}
		// raw delete(map) elsewhere
		for _, f := range p.RepoFns {
			if f == delFn || !keyInPkg(fnKey(f), "pkg/intermediate") {
				continue
			}
			eachInstr(f, func(x ssa.Instruction) {
				if c, ok := x.(*ssa.Call); ok {
					if b, ok := c.Call.Value.(*ssa.Builtin); ok && b.Name() == "delete" {
						if tn, fn, _, ok := loadedField(c.Call.Args[0]); ok && tn+"."+fn == aggMap {
							okPop := false
							eachInstr(f, func(y ssa.Instruction) {
								if _, ok := isHeapCall(y, "Pop"); ok && dominates(y, x) {
									okPop = true
								}
							})
							r.Check(okPop, "R-OWNER.delete", fnKey(f)+": delete on flowKeyRecordMap", p.instrPos(x), "dominated by heap.Pop", "map deletion without removing the queue item first", true)
						}
					}
				}
			})
		}
	}

	// ---- (4) existing-flow branch: Update on every non-error path
	add := p.Fn("(*pkg/intermediate.AggregationProcess).addOrUpdateRecordInMap")
	upd := p.Fn("(*pkg/intermediate.TimeToExpirePriorityQueue).Update")
	if add == nil || upd == nil {
		r.Undecided("R-VALUE.update", "anchor: addOrUpdateRecordInMap / Update", "pkg/intermediate", "function not found")
	} else {
		var existIf *ssa.If
		eachInstr(add, func(in ssa.Instruction) {
			i, ok := in.(*ssa.If)
			if !ok {
				return
			}
			if ex, ok := i.Cond.(*ssa.Extract); ok && ex.Index == 1 {
				if lk, ok := ex.Tuple.(*ssa.Lookup); ok {
					if tn, fn, _, ok := loadedField(lk.X); ok && tn+"."+fn == aggMap {
						existIf = i
					}
				}
			}
		})
		if existIf == nil {
			r.Undecided("R-VALUE.update", "anchor: 'exists' test on the map lookup in addOrUpdateRecordInMap", p.pos(add.Pos()), "not found")
		} else {
			tb := existIf.Block().Succs[0]
			var updCall *ssa.Call
			eachInstr(add, func(in ssa.Instruction) {
				if c, ok := in.(*ssa.Call); ok && c.Call.StaticCallee() == upd {
					updCall = c
				}
			})
			q := &pathQuery{discharge: func(x ssa.Instruction) bool {
				return x == ssa.Instruction(updCall) || isErrorReturn(x)
			}}
			construct := fnKey(add) + ": existing flow re-scheduled"
			if updCall == nil {
				r.Violation("R-VALUE.update", construct, p.instrPos(existIf), "no call of the queue's Update on the existing-flow branch: the inactive deadline is not pushed back by a new record")
			} else if trail, bad := q.findFromBlock(tb); bad {
				r.Violation("R-VALUE.update", construct, p.instrPos(existIf), "a successful update of an existing flow can skip queue.Update: the item's deadline/heap position is not refreshed; path "+p.describePath(add, trail))
			} else {
				// arguments
				a := updCall.Call.Args // recv, item, flowKey, record, active, inactive
				okArgs := len(a) == 6
				why := ""
				if okArgs {
					// active = item.activeExpireTime of the same item
					tn, fn, base, ok := loadedField(a[4])
					if !(ok && tn == "pkg/intermediate.ItemToExpire" && fn == "activeExpireTime" && sameOrigin(base, a[1])) {
						okArgs, why = false, "the active deadline passed to Update is not the item's own unchanged activeExpireTime"
					}
					// inactive = now.Add(a.inactiveExpiryTimeout)
					if c, ok := a[5].(*ssa.Call); ok && calleeName(&c.Call) == "(time.Time).Add" {
						nowOK := false
						if nc, ok := c.Call.Args[0].(*ssa.Call); ok && calleeName(&nc.Call) == "time.Now" {
							nowOK = true
						}
						tn, fn, _, ok := loadedField(c.Call.Args[1])
						if !(nowOK && ok && tn+"."+fn == "pkg/intermediate.AggregationProcess.inactiveExpiryTimeout") {
							okArgs, why = false, "the inactive deadline passed to Update is not time.Now() + inactiveExpiryTimeout"
						}
					} else {
						okArgs, why = false, "the inactive deadline passed to Update is not time.Now() + inactiveExpiryTimeout"
					}
				}
				r.Check(okArgs, "R-VALUE.update", construct, p.instrPos(updCall), "every non-error path calls Update(item, ..., item.activeExpireTime, now+inactiveTimeout)", why, true)
			}
		}
		// Update body
		var fix *ssa.Call
		eachInstr(upd, func(in ssa.Instruction) {
			if c, ok := in.(*ssa.Call); ok && calleeName(&c.Call) == "container/heap.Fix" {
				fix = c
			}
		})
		okFix := false
		if fix != nil && len(upd.Params) == 6 {
			tn, fn, base, ok := loadedField(fix.Call.Args[1])
			okFix = ok && tn == "pkg/intermediate.ItemToExpire" && fn == "index" && base == ssa.Value(upd.Params[1])
			// both deadlines stored from params before Fix
			for i, fld := range map[int]string{4: "activeExpireTime", 5: "inactiveExpireTime"} {
				st := false
				eachInstr(upd, func(x ssa.Instruction) {
					if s, ok := x.(*ssa.Store); ok {
						if tn, fn, base, ok := fieldOf(s.Addr); ok && tn == "pkg/intermediate.ItemToExpire" && fn == fld && base == ssa.Value(upd.Params[1]) && s.Val == ssa.Value(upd.Params[i]) && dominates(x, fix) {
							st = true
						}
					}
				})
				if !st {
					okFix = false
				}
			}
			q := &pathQuery{discharge: func(x ssa.Instruction) bool { return x == ssa.Instruction(fix) }}
			if _, bad := q.findFromBlock(upd.Blocks[0]); bad {
				okFix = false
			}
		}
		r.Check(okFix, "R-VALUE.update-fix", fnKey(upd)+": stores both deadlines then heap.Fix(pq, item.index)", p.pos(upd.Pos()), "shape confirmed on all paths",
			"Update does not store both deadlines from its parameters and then call heap.Fix(pq, item.index) on every path: the heap order is stale after a deadline change", true)
	}

	// ---- (5) heap interface obligations
	checkHeapInterface(p, r)

	// ---- (6) deadline tests around the Pop
	checkDeadlineTests(p, r, delFn)
	checkRepushFuture(p, r)
	// a flow is handed to the callback at its deadline only if it can become ready, and only if every record was applied
	// (C07's rules on the per-record transition, imported)
	checkReadyAtOnce(p, r, "R-GATE.ready-at-once")
	checkSingleSuccessExit(p, r, "R-OWNER.every-record-applied")
	checkRetries(p, r, "R-GATE.retries")
}

func reachableBlock(from, to *ssa.BasicBlock) bool { return reachableBlockEdge(nil, from, to) }

// reachableBlockEdge: can `to` be reached from `from` when `from` was entered from pred? (branch threading applies)
func reachableBlockEdge(pred, from, to *ssa.BasicBlock) bool {
	type vkey struct{ pred, b *ssa.BasicBlock }
	seen := map[vkey]bool{}
	var w func(pred, b *ssa.BasicBlock) bool
	w = func(pred, b *ssa.BasicBlock) bool {
		if b == to {
			return true
		}
		k := vkey{nil, b}
		if isThreadBlock(b) {
			k.pred = pred
		}
		if seen[k] {
			return false
		}
		seen[k] = true
		for _, si := range feasibleSuccs(pred, b) {
			if w(b, b.Succs[si]) {
				return true
			}
		}
		return false
	}
	return w(pred, from)
}

// sameOrigin: both values are loads of the same field of the same base, or identical.
func sameOrigin(a, b ssa.Value) bool {
	a, b = stripChange(a), stripChange(b)
	if a == b {
		return true
	}
	t1, f1, b1, ok1 := loadedField(a)
	t2, f2, b2, ok2 := loadedField(b)
	return ok1 && ok2 && t1 == t2 && f1 == f2 && (b1 == b2 || sameOrigin(b1, b2))
}

func checkHeapInterface(p *Prog, r *Report) {
	const T = "pkg/intermediate.TimeToExpirePriorityQueue"
	get := func(k string) *ssa.Function { return p.Fn(k) }
	swap, push, pop, less, minE := get("("+T+").Swap"), get("(*"+T+").Push"), get("(*"+T+").Pop"), get("("+T+").Less"), get("("+T+").minExpireTime")
	if swap == nil || push == nil || pop == nil || less == nil || minE == nil {
		r.Undecided("R-HEAP", "anchor: Swap/Push/Pop/Less/minExpireTime of TimeToExpirePriorityQueue", "pkg/intermediate/priorityqueue.go", "method not found")
		return
	}
	indexStores := func(f *ssa.Function) []*ssa.Store {
		var out []*ssa.Store
		eachInstr(f, func(in ssa.Instruction) {
			if s, ok := in.(*ssa.Store); ok {
				if tn, fn, _, ok := fieldOf(s.Addr); ok && tn == "pkg/intermediate.ItemToExpire" && fn == "index" {
					out = append(out, s)
				}
			}
		})
		return out
	}
	// Swap: pq[i].index = i ; pq[j].index = j (after the exchange)
	okSwap := false
	st := indexStores(swap)
	if len(st) == 2 && len(swap.Params) == 3 {
		seen := map[ssa.Value]bool{}
		okSwap = true
		for _, s := range st {
			_, _, base, _ := fieldOf(s.Addr)
			u, ok := base.(*ssa.UnOp)
			if !ok {
				okSwap = false
				continue
			}
			ia, ok := u.X.(*ssa.IndexAddr)
			if !ok || ia.Index != s.Val {
				okSwap = false
				continue
			}
			seen[s.Val] = true
		}
		if !(seen[swap.Params[1]] && seen[swap.Params[2]]) {
			okSwap = false
		}
		// the exchange itself: two element stores
		nEl := 0
		eachInstr(swap, func(in ssa.Instruction) {
			if s, ok := in.(*ssa.Store); ok {
				if _, ok := s.Addr.(*ssa.IndexAddr); ok {
					nEl++
				}
			}
		})
		if nEl != 2 {
			okSwap = false
		}
	}
	r.Check(okSwap, "R-HEAP.swap", "("+T+").Swap: exchanges pq[i], pq[j] and sets pq[i].index = i, pq[j].index = j", p.pos(swap.Pos()), "shape confirmed",
		"Swap does not keep ItemToExpire.index equal to the item's position: Update -> heap.Fix(item.index) then fixes the wrong position", true)
	// Push: item.index = len(*pq)
	okPush := false
	st = indexStores(push)
	if len(st) == 1 {
		if c, ok := st[0].Val.(*ssa.Call); ok {
			if b, ok := c.Call.Value.(*ssa.Builtin); ok && b.Name() == "len" {
				okPush = true
			}
		}
	}
	r.Check(okPush, "R-HEAP.push", "(*"+T+").Push: item.index = len(*pq) then append", p.pos(push.Pos()), "shape confirmed", "Push does not record the item's position", true)
	// Pop: index = -1
	okPop := false
	st = indexStores(pop)
	if len(st) == 1 {
		if v, ok := constInt(st[0].Val); ok && v == -1 {
			okPop = true
		}
	}
	r.Check(okPop, "R-HEAP.pop", "(*"+T+").Pop: item.index = -1 and drops the last element", p.pos(pop.Pos()), "shape confirmed", "Pop does not mark the removed item (index = -1)", true)
	// container/heap moves the minimum to position n-1 before calling Pop: Pop must return that element and cut it off
	lenMinus1 := func(v ssa.Value) bool {
		b, ok := v.(*ssa.BinOp)
		if !ok || b.Op != token.SUB {
			return false
		}
		if c, ok := constInt(b.Y); !ok || c != 1 {
			return false
		}
		c, ok := b.X.(*ssa.Call)
		if !ok {
			return false
		}
		bi, ok := c.Call.Value.(*ssa.Builtin)
		return ok && bi.Name() == "len"
	}
	okLast, okCut := false, false
	eachInstr(pop, func(in ssa.Instruction) {
		switch x := in.(type) {
		case *ssa.Return:
			if len(x.Results) == 1 {
				v := x.Results[0]
				if mi, ok := v.(*ssa.MakeInterface); ok {
					v = mi.X
				}
				if u, ok := v.(*ssa.UnOp); ok && u.Op == token.MUL {
					if ia, ok := u.X.(*ssa.IndexAddr); ok && lenMinus1(ia.Index) {
						okLast = true
					}
				}
			}
		case *ssa.Store:
			if x.Addr == ssa.Value(pop.Params[0]) {
				if sl, ok := x.Val.(*ssa.Slice); ok && lenMinus1(sl.High) {
					z, isZ := int64(0), sl.Low == nil
					if sl.Low != nil {
						z, isZ = constInt(sl.Low)
					}
					okCut = isZ && z == 0
				}
			}
		}
	})
	r.Check(okLast && okCut, "R-HEAP.pop", "(*"+T+").Pop: returns (*pq)[n-1] and keeps (*pq)[0:n-1]", p.pos(pop.Pos()), "shape confirmed",
		"container/heap has moved the root to the last position when it calls Pop: returning or cutting any other element hands out a flow that is not the earliest and loses another", true)
	// Less: minExpireTime(i).Before(minExpireTime(j))
	okLess := false
	eachInstr(less, func(in ssa.Instruction) {
		c, ok := in.(*ssa.Call)
		if !ok {
			return
		}
		ev, lv, okT := timeLess(c)
		if !okT {
			return
		}
		a, ok1 := ev.(*ssa.Call)
		b, ok2 := lv.(*ssa.Call)
		if ok1 && ok2 && a.Call.StaticCallee() == minE && b.Call.StaticCallee() == minE &&
			a.Call.Args[1] == ssa.Value(less.Params[1]) && b.Call.Args[1] == ssa.Value(less.Params[2]) {
			// and the result is returned
			for _, ref := range refs(c) {
				if _, ok := ref.(*ssa.Return); ok {
					okLess = true
				}
			}
		}
	})
	r.Check(okLess, "R-HEAP.less", "("+T+").Less: minExpireTime(i).Before(minExpireTime(j))", p.pos(less.Pos()), "shape confirmed",
		"Less does not order items by their earlier deadline (min of active/inactive), i before j: the earliest deadline is not at the root", true)
	// minExpireTime: if active.Before(inactive) return active else inactive
	okMin := false
	eachInstr(minE, func(in ssa.Instruction) {
		c, ok := in.(*ssa.Call)
		if !ok {
			return
		}
		ev, lv, okT := timeLess(c)
		if !okT {
			return
		}
		_, f1, _, ok1 := loadedField(ev)
		_, f2, _, ok2 := loadedField(lv)
		if !ok1 || !ok2 {
			return
		}
		var iff *ssa.If
		for _, ref := range refs(c) {
			if i, ok := ref.(*ssa.If); ok {
				iff = i
			}
		}
		if iff == nil {
			return
		}
		retField := func(b *ssa.BasicBlock) string {
			for _, x := range b.Instrs {
				if rt, ok := x.(*ssa.Return); ok && len(rt.Results) == 1 {
					_, fn, _, _ := loadedField(rt.Results[0])
					return fn
				}
			}
			return ""
		}
		t, e := retField(iff.Block().Succs[0]), retField(iff.Block().Succs[1])
		if t == f1 && e == f2 && f1 != f2 && (f1 == "activeExpireTime" || f1 == "inactiveExpireTime") && (f2 == "activeExpireTime" || f2 == "inactiveExpireTime") {
			okMin = true
		}
	})
	r.Check(okMin, "R-HEAP.min", "("+T+").minExpireTime: returns the earlier of the two deadlines", p.pos(minE.Pos()), "shape confirmed", "minExpireTime does not return the earlier of activeExpireTime / inactiveExpireTime", true)
	// advertised expiry reads minExpireTime(0)
	ge := p.Fn("(*pkg/intermediate.AggregationProcess).GetExpiryFromExpirePriorityQueue")
	if ge == nil {
		r.Undecided("R-HEAP.expiry", "anchor: GetExpiryFromExpirePriorityQueue", "pkg/intermediate/aggregate.go", "function not found")
		return
	}
	okGE := false
	eachInstr(ge, func(in ssa.Instruction) {
		if c, ok := in.(*ssa.Call); ok && c.Call.StaticCallee() == minE {
			if v, ok := constInt(c.Call.Args[1]); ok && v == 0 {
				if tn, fn, _, ok := loadedField(c.Call.Args[0]); ok && tn+"."+fn == aggQueue {
					// used in Sub(now)
					for _, ref := range refs(c) {
						if cc, ok := ref.(*ssa.Call); ok && calleeName(&cc.Call) == "(time.Time).Sub" {
							okGE = true
						}
					}
				}
			}
		}
	})
	r.Check(okGE, "R-HEAP.expiry", fnKey(ge)+": advertised expiry = minExpireTime(0) - now (+ slack)", p.pos(ge.Pos()), "reads the root's earlier deadline",
		"the advertised time to the next expiry is not computed from the queue root's earlier deadline", true)
	// with a non-empty queue every return is the computed duration or the MinExpiryTime clamp (never the idle default)
	// (whichever way the function is laid out - branch first, early return for the empty queue, one result variable and a
	// single return - every value that can be returned on a way in on which the queue is known to be non-empty is the
	// computed duration or the MinExpiryTime clamp)
	isNonEmptyFact := func(f relFact) bool {
		c, ok := f.X.(*ssa.Call)
		if !ok || calleeName(&c.Call) != "(pkg/intermediate.TimeToExpirePriorityQueue).Len" {
			return false
		}
		z, ok := constInt(f.Y)
		if !ok {
			return false
		}
		return (z == 0 && (f.Op == token.GTR || f.Op == token.NEQ)) || (z == 1 && f.Op == token.GEQ)
	}
	nNonEmpty := 0
	bad := ""
	wge := &absWalker{MaxPaths: 4096}
	wge.OnEnd = func(st *absState, last ssa.Instruction) {
		rt, ok := last.(*ssa.Return)
		if !ok || len(rt.Results) != 1 {
			return
		}
		nonEmpty := false
		for _, cd := range st.Conds {
			for _, cf := range cmpForms(cd.If.Cond) {
				if cf.Succ == cd.Succ && isNonEmptyFact(relFact{cf.X, cf.Op, cf.Y}) {
					nonEmpty = true
				}
			}
		}
		if !nonEmpty {
			return
		}
		nNonEmpty++
		v := st.resolve(rt.Results[0])
		okV := false
		if u, ok := v.(*ssa.UnOp); ok {
			if g, ok := u.X.(*ssa.Global); ok && g.Name() == "MinExpiryTime" {
				okV = true
			}
		}
		if b2, ok := v.(*ssa.BinOp); ok && b2.Op == token.ADD {
			okV = true
		}
		if !okV {
			bad = p.instrPos(last)
		}
	}
	if len(ge.Blocks) > 0 {
		wge.walk(newAbsState(), ge.Blocks[0], 0)
	}
	if wge.Overflow || wge.Looped {
		bad = "the function is not a loop-free decision any more"
	}
	if nNonEmpty == 0 {
		r.Undecided("R-HEAP.expiry-clamp", fnKey(ge)+": non-empty queue branch", p.pos(ge.Pos()), "no 'queue.Len() > 0' test found")
	} else {
		// the clamp: negative => MinExpiryTime
		clamp := false
		eachInstr(ge, func(in ssa.Instruction) {
			if i, ok := in.(*ssa.If); ok {
				for _, cf := range cmpForms(i.Cond) {
					if z, ok := constInt(cf.Y); ok && z == 0 && (cf.Op == token.LSS || cf.Op == token.LEQ || cf.Op == token.GTR || cf.Op == token.GEQ) {
						if _, isAdd := cf.X.(*ssa.BinOp); isAdd {
							clamp = true
						}
					}
				}
			}
		})
		r.Check(bad == "" && clamp, "R-HEAP.expiry-clamp", fnKey(ge)+": non-empty queue => computed duration, clamped at MinExpiryTime", p.pos(ge.Pos()), "every return on the non-empty branch is the duration or MinExpiryTime",
			"with entries queued the function can return the idle default (min of the timeouts) instead of the time to the earliest deadline (return at "+bad+"): an overdue flow is not looked at for a whole timeout", true)
	}
}

func checkDeadlineTests(p *Prog, r *Report, delFn *ssa.Function) {
	for _, f := range p.RepoFns {
		if !keyInPkg(fnKey(f), "pkg/intermediate") {
			continue
		}
		var pop *ssa.Call
		eachInstr(f, func(in ssa.Instruction) {
			if c, ok := isHeapCall(in, "Pop"); ok {
				pop = c
			}
		})
		if pop == nil {
			continue
		}
		var item ssa.Value
		for _, ref := range refs(pop) {
			if ta, ok := ref.(*ssa.TypeAssert); ok {
				item = ta
			}
		}
		// stop test: the two After(now) calls on the peeked item
		var afters []*ssa.Call
		eachInstr(f, func(in ssa.Instruction) {
			c, ok := in.(*ssa.Call)
			if !ok {
				return
			}
			nowV, fieldV, okT := timeLess(c) // "now is before the deadline"
			if !okT {
				return
			}
			tn, fn, base, ok := loadedField(fieldV)
			if !ok || tn != "pkg/intermediate.ItemToExpire" {
				return
			}
			if bc, ok := base.(*ssa.Call); ok && calleeName(&bc.Call) == "(pkg/intermediate.TimeToExpirePriorityQueue).Peek" {
				if nc, ok := nowV.(*ssa.Call); ok && calleeName(&nc.Call) == "time.Now" {
					_ = fn
					afters = append(afters, c)
				}
			}
		})
		fields := map[string]bool{}
		for _, a := range afters {
			_, fv, _ := timeLess(a)
			_, fn, _, _ := loadedField(fv)
			fields[fn] = true
		}
		construct := fnKey(f) + ": scan stop test"
		if !(fields["activeExpireTime"] && fields["inactiveExpireTime"]) {
			r.Violation("R-GATE.stop-test", construct, p.instrPos(pop), "the scan does not test both deadlines of the queue root against time.Now() before popping")
		} else {
			// the Pop is not reached on a path on which both "now is before the deadline" tests of the root held - decided
			// on the enumerated paths of one iteration (the test may be computed as a boolean first, negated, or sit in a
			// closure / helper that was spliced back)
			start := afters[0]
			for _, a := range afters {
				if dominates(a, start) {
					start = a
				}
			}
			bad := false
			lh := loopHeadOf(pop.Block())
			wk := &absWalker{MaxPaths: 8192, LoopHead: lh}
			wk.OnInstr = func(st *absState, in ssa.Instruction) {
				if in != ssa.Instruction(pop) {
					return
				}
				held := map[string]bool{}
				for _, a := range afters {
					if v, known := st.bools[st.key(a)]; known && v {
						_, fv, _ := timeLess(a)
						_, fn, _, _ := loadedField(fv)
						held[fn] = true
					}
				}
				if held["activeExpireTime"] && held["inactiveExpireTime"] {
					bad = true
				}
			}
			if lh != nil {
				wk.walk(newAbsState(), lh, 0)
			} else if len(f.Blocks) > 0 {
				wk.walk(newAbsState(), f.Blocks[0], 0)
			}
			if wk.Overflow {
				bad = true
			}
			r.Check(!bad, "R-GATE.stop-test", construct, p.instrPos(start), "the Pop is unreachable while both deadlines of the root are After(now): nothing is handed to the callback early",
				"an item whose active and inactive deadlines are both still in the future can be popped: the callback fires before the deadline", true)
		}
		if item == nil {
			continue
		}
		// deletions after the pop: guards
		eachInstr(f, func(in ssa.Instruction) {
			c, ok := in.(*ssa.Call)
			if !ok || delFn == nil || c.Call.StaticCallee() != delFn {
				return
			}
			var how string
			for _, fct := range blockFacts(in.Block()) {
				// retries > MaxRetries
				if tn, fn, _, ok := loadedField(fct.X); ok && tn == "pkg/intermediate.AggregationFlowRecord" && fn == "waitForReadyToSendRetries" && (fct.Op == token.GTR || fct.Op == token.GEQ) {
					how = "retries exhausted (waitForReadyToSendRetries > MaxRetries)"
				}
				// ... or the value that was just stored into the counter (kept in a local)
				if (fct.Op == token.GTR || fct.Op == token.GEQ) && storedIntoField(fct.X, "pkg/intermediate.AggregationFlowRecord", "waitForReadyToSendRetries") {
					how = "retries exhausted (waitForReadyToSendRetries > MaxRetries)"
				}
			}
			for _, gd := range guardsOf(in.Block()) {
				if ac, ok := gd.If.Cond.(*ssa.Call); ok && len(ac.Call.Args) > 0 {
					ev, lv, okT := timeLess(ac)
					if !okT {
						continue
					}
					// "now is before the inactive deadline" is false, or "the inactive deadline is before now" is true
					if tn, fn, base, ok := loadedField(lv); ok && tn == "pkg/intermediate.ItemToExpire" && fn == "inactiveExpireTime" && sameItem(base, item) && gd.Succ == 1 {
						how = "inactive deadline of the popped item has passed"
					}
					if tn, fn, base, ok := loadedField(ev); ok && tn == "pkg/intermediate.ItemToExpire" && fn == "inactiveExpireTime" && sameItem(base, item) && gd.Succ == 0 {
						how = "inactive deadline of the popped item has passed"
					}
				}
			}
			r.Check(how != "", "R-GATE.delete-test", fmt.Sprintf("%s: deletion of the popped flow (%s)", fnKey(f), guardSummary(in)), p.instrPos(in), how,
				"a flow is removed although neither its inactive deadline has passed nor its correlation retries are exhausted (active expiry must keep the flow)", true)
		})
		// every deadline written anywhere in the package is now + the timeout of the same kind (or a parameter handed through)
		n := 0
		for _, g := range p.RepoFns {
			if !keyInPkg(fnKey(g), "pkg/intermediate") {
				continue
			}
			eachInstr(g, func(in ssa.Instruction) {
				s, ok := in.(*ssa.Store)
				if !ok {
					return
				}
				tn, fn, _, ok := fieldOf(s.Addr)
				if !ok || tn != "pkg/intermediate.ItemToExpire" || (fn != "activeExpireTime" && fn != "inactiveExpireTime") {
					return
				}
				n++
				want := map[string]string{"activeExpireTime": "activeExpiryTimeout", "inactiveExpireTime": "inactiveExpiryTimeout"}[fn]
				good := false
				if _, isParam := s.Val.(*ssa.Parameter); isParam {
					good = true
				}
				if c, ok := s.Val.(*ssa.Call); ok && calleeName(&c.Call) == "(time.Time).Add" {
					if t2, f2, _, ok := loadedField(c.Call.Args[1]); ok && t2 == "pkg/intermediate.AggregationProcess" && f2 == want {
						switch b := c.Call.Args[0].(type) {
						case *ssa.Call: // time.Now() or an injected clock's Now()
							good = strings.HasSuffix(calleeName(&b.Call), "Now") || (b.Call.IsInvoke() && b.Call.Method.Name() == "Now")
						case *ssa.Parameter:
							good = typeName(b.Type()) == "time.Time"
						}
					}
				}
				r.Check(good, "R-VALUE.deadline", fmt.Sprintf("%s: store #%d of %s", fnKey(g), n, fn), p.instrPos(in), "time.Now().Add("+want+") or a parameter",
					"a deadline is written with something other than now + the configured timeout of its own kind: flows expire on the wrong schedule", true)
			})
		}
		r.Check(n >= 5, "R-VALUE.deadline", "deadline stores found in pkg/intermediate", "pkg/intermediate", "at least the five confirmed by reading", fmt.Sprintf("only %d stores found: the rule went blind", n), true)
		// re-arm before re-push on the ready path: store activeExpireTime = now.Add(activeExpiryTimeout) dominates a Push
		rearm := false
		eachInstr(f, func(in ssa.Instruction) {
			s, ok := in.(*ssa.Store)
			if !ok {
				return
			}
			tn, fn, base, ok := fieldOf(s.Addr)
			if !ok || tn != "pkg/intermediate.ItemToExpire" || fn != "activeExpireTime" || !sameItem(base, item) {
				return
			}
			if c, ok := s.Val.(*ssa.Call); ok && calleeName(&c.Call) == "(time.Time).Add" {
				if t2, f2, _, ok := loadedField(c.Call.Args[1]); ok && t2+"."+f2 == "pkg/intermediate.AggregationProcess.activeExpiryTimeout" {
					rearm = true
				}
			}
		})
		r.Check(rearm, "R-VALUE.rearm", fnKey(f)+": active deadline re-armed to now + activeExpiryTimeout", p.instrPos(pop), "found", "the active deadline is never re-armed after an active expiry: the flow would be exported at every scan", true)
		// on the ready path the deadlines of the popped item change only after the callback succeeded
		var cb *ssa.Call
		eachInstr(f, func(in ssa.Instruction) {
			if c, ok := in.(*ssa.Call); ok && !c.Call.IsInvoke() && c.Call.StaticCallee() == nil && typeName(c.Call.Value.Type()) == "pkg/intermediate.FlowKeyRecordMapCallBack" {
				cb = c
			}
		})
		if cb != nil {
			eachInstr(f, func(in ssa.Instruction) {
				s, ok := in.(*ssa.Store)
				if !ok {
					return
				}
				tn, fn, base, ok := fieldOf(s.Addr)
				if !ok || tn != "pkg/intermediate.ItemToExpire" || !sameItem(base, item) || (fn != "activeExpireTime" && fn != "inactiveExpireTime") {
					return
				}
				// ready path?
				ready := false
				for _, gd := range guardsOf(in.Block()) {
					if u, ok := gd.If.Cond.(*ssa.UnOp); ok && u.Op == token.MUL && isRTS(u.X) && gd.Succ == 0 {
						ready = true
					}
				}
				if !ready {
					return
				}
				okAfter := false
				for _, fct := range blockFacts(in.Block()) {
					if fct.X == ssa.Value(cb) && fct.Op == token.EQL {
						if c, ok := fct.Y.(*ssa.Const); ok && c.IsNil() {
							okAfter = true
						}
					}
				}
				r.Check(okAfter, "R-VALUE.rearm-after-success", fmt.Sprintf("%s: %s of the popped item re-armed", fnKey(f), fn), p.instrPos(in), "only on the err == nil edge of the export callback",
					"a deadline of the popped item is moved into the future although the export callback may fail: the failed flow is put back with a fresh deadline and is not retried at the next scan", true)
			})
		}
	}
}

func guardSummary(in ssa.Instruction) string {
	for _, fct := range blockFacts(in.Block()) {
		if _, fn, _, ok := loadedField(fct.X); ok && fn == "waitForReadyToSendRetries" {
			return "not-ready branch"
		}
	}
	return "after callback"
}

var _ = types.Typ

// checkRepushFuture: "every flow still held is scheduled for a FUTURE expiry". When the scan puts a popped item back,
// each of its two deadlines is either re-armed after the Pop (now + timeout) or known to lie after `now` on that path
// (an After(now) test on the way). The push on the callback-failure path is exempt: there the flow is deliberately left
// due, to be retried by the next scan. A deadline left in the past makes the same scan pop the flow again and again.
func checkRepushFuture(p *Prog, r *Report) {
	for _, f := range p.RepoFns {
		if !keyInPkg(fnKey(f), "pkg/intermediate") {
			continue
		}
		var pop *ssa.Call
		eachInstr(f, func(in ssa.Instruction) {
			if c, ok := isHeapCall(in, "Pop"); ok {
				pop = c
			}
		})
		if pop == nil {
			continue
		}
		var item ssa.Value
		for _, ref := range refs(pop) {
			if ta, ok := ref.(*ssa.TypeAssert); ok {
				item = ta
			}
		}
		if item == nil {
			continue
		}
		n := 0
		eachInstr(f, func(in ssa.Instruction) {
			ps, ok := isHeapCall(in, "Push")
			if !ok || len(ps.Call.Args) != 2 || !sameItem(ps.Call.Args[1], item) {
				return
			}
			// failure path: everything after the push returns an error
			q := &pathQuery{discharge: func(x ssa.Instruction) bool { return isErrorReturn(x) }}
			if _, reachesOther := q.find(in); !reachesOther {
				return
			}
			n++
			for _, fld := range []string{"activeExpireTime", "inactiveExpireTime"} {
				ok := false
				// re-armed between the Pop and this Push
				eachInstr(f, func(x ssa.Instruction) {
					st, isSt := x.(*ssa.Store)
					if !isSt {
						return
					}
					tn, fn, base, isF := fieldOf(st.Addr)
					if isF && tn == "pkg/intermediate.ItemToExpire" && fn == fld && sameItem(base, item) && dominates(pop, x) && dominates(x, in) {
						ok = true
					}
				})
				// or known to be in the future on this path
				for _, gd := range guardsOf(in.Block()) {
					c, isC := gd.If.Cond.(*ssa.Call)
					if !isC || len(c.Call.Args) == 0 {
						continue
					}
					_, lv, okT := timeLess(c)
					if !okT {
						continue
					}
					tn, fn, base, isF := loadedField(lv)
					if gd.Succ == 0 && isF && tn == "pkg/intermediate.ItemToExpire" && fn == fld && sameItem(base, item) {
						ok = true
					}
				}
				r.Check(ok, "R-TYPESTATE.future", fmt.Sprintf("%s: re-push #%d of the popped item: %s lies in the future", fnKey(f), n, fld), p.instrPos(in),
					"re-armed after the Pop, or tested After(now) on this path",
					"the popped item is pushed back while its "+fld+" may already have passed: the same scan pops it again at once (the retry budget of a flow waiting for correlation is used up in one scan and the flow is dropped, or the flow is exported repeatedly)", true)
			}
		})
	}
}
