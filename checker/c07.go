package main

import (
	"fmt"
	"go/ast"
	"go/constant"
	"go/token"
	"go/types"
	"strings"

	"golang.org/x/tools/go/ssa"
)

func init() {
	register(&propDef{
		ID:          "C07",
		Explanation: "Gate, ownership and finite-table rules for inter-node correlation, decided on SSA/AST: (1) R-GATE: in the expiry scan the export callback is reachable only through the true edge of the popped record's ReadyToSend; (2) R-OWNER: ReadyToSend is set to true only (i) on the existing-flow branch under correlationRequired && !ReadyToSend && !areRecordsFromSameNode, after correlateRecords whose error edge returns, together with areCorrelatedFieldsFilled = true, or (ii) at creation under !correlationRequired; no other store exists; (3) retry bound: waitForReadyToSendRetries is written only at creation (0) and by the single '+1' in the not-ready branch of the scan, is compared with MaxRetries, the '>' edge deletes the flow and the other edge re-arms both deadlines and re-pushes (C06's typestate rule covers the push); (4) R-TABLE: isCorrelationRequired is evaluated by abstract execution of its CFG for EVERY combination of flow type (0..4), egress rule action (absent, 0..4) and ingress rule action (absent, 0..4) - 180 cases, complete - and must equal InterNode && !(egress in {Drop, Reject}) && !(ingress == Reject); (5) sibling agreement in correlateRecords: each data-type case reads with the getter and writes with the setter of the same value type, both declared by that type's concrete element, guarded by a non-empty test, on the element of the same field name. Not decided: arrival-order histories beyond the per-record transition; the user-supplied correlateFields list. Later additions: the non-empty guard of each correlated copy is an inequality with the zero value; every path of the !correlationRequired branch sets ReadyToSend before the insertion; nil is returned only after the map insertion. Round-five additions: the existing record's correlated field is looked up by the name of the field being copied (not by position or by another name).",
		Assume:      []string{"rule action / flow type constants are those of pkg/registry (lifted from the source)"},
		Run:         runC07,
	})
}

func isRTS(v ssa.Value) bool {
	tn, fn, _, ok := fieldOf(v)
	return ok && tn == "pkg/intermediate.AggregationFlowRecord" && fn == "ReadyToSend"
}

func runC07(p *Prog, r *Report, tier string) {
	// (1) callback gate
	nCB := 0
	for _, f := range p.RepoFns {
		if !keyInPkg(fnKey(f), "pkg/intermediate") {
			continue
		}
		var pop *ssa.Call
		eachInstr(f, func(in ssa.Instruction) {
			if c, ok := isHeapCall(in, "Pop"); ok {
				pop = c
			}
		})
		if pop == nil {
			continue
		}
		eachInstr(f, func(in ssa.Instruction) {
			c, ok := in.(*ssa.Call)
			if !ok || c.Call.IsInvoke() || c.Call.StaticCallee() != nil || typeName(c.Call.Value.Type()) != "pkg/intermediate.FlowKeyRecordMapCallBack" {
				return
			}
			nCB++
			okG := false
			for _, gd := range guardsOf(in.Block()) {
				cond := gd.If.Cond
				succ := gd.Succ
				if u, ok := cond.(*ssa.UnOp); ok && u.Op == token.NOT {
					cond, succ = u.X, 1-succ
				}
				if u, ok := cond.(*ssa.UnOp); ok && u.Op == token.MUL && isRTS(u.X) && succ == 0 {
					okG = true
				}
			}
			r.Check(okG, "R-GATE.ready", fnKey(f)+": export callback only for ready records", p.instrPos(in), "dominated by the true edge of flowRecord.ReadyToSend",
				"the expiry callback can be invoked for a record whose ReadyToSend is false: an inter-node flow is exported before both sides were seen (half-filled)", true)
		})
	}
	if nCB == 0 {
		r.Undecided("R-GATE.ready", "anchor: callback invocation in the expiry scan", "pkg/intermediate/aggregate.go", "not found")
	}
	// (2) writers of ReadyToSend
	add := p.Fn("(*pkg/intermediate.AggregationProcess).addOrUpdateRecordInMap")
	icr := p.Fn("pkg/intermediate.isCorrelationRequired")
	nT := 0
	for _, f := range p.RepoFns {
		if !keyInPkg(fnKey(f), "pkg/intermediate") {
			continue
		}
		idx := 0
		eachInstr(f, func(in ssa.Instruction) {
			st, ok := in.(*ssa.Store)
			if !ok || !isRTS(st.Addr) {
				return
			}
			idx++
			cv, isC := st.Val.(*ssa.Const)
			construct := fmt.Sprintf("%s: store #%d to ReadyToSend", fnKey(f), idx)
			if !isC || cv.Value == nil {
				// the one computed value that says the same as the branch: a NEW record gets !correlationRequired
				if u, isU := st.Val.(*ssa.UnOp); isU && u.Op == token.NOT && f == add && icr != nil {
					if c, isCall := u.X.(*ssa.Call); isCall && c.Call.StaticCallee() == icr {
						if _, _, base, _ := fieldOf(st.Addr); base != nil {
							if _, fresh := base.(*ssa.Alloc); fresh {
								nT++
								r.OK("R-OWNER.ready", construct, p.instrPos(in), "creation: ReadyToSend = !isCorrelationRequired(...)", true)
								return
							}
						}
					}
				}
				r.Violation("R-OWNER.ready", construct, p.instrPos(in), "ReadyToSend is assigned a computed value; only the two audited constant-true stores are allowed")
				return
			}
			if !constant.BoolVal(cv.Value) {
				r.OK("R-OWNER.ready", construct, p.instrPos(in), "false", false)
				return
			}
			nT++
			if f != add || icr == nil {
				r.Violation("R-OWNER.ready", construct, p.instrPos(in), "a function other than addOrUpdateRecordInMap marks a record ready to send")
				return
			}
			// facts
			var corrReq, notReady, notSame = 0, false, false // corrReq: +1 true, -1 false
			for _, gd := range guardsOf(in.Block()) {
				cond, succ := gd.If.Cond, gd.Succ
				if u, ok := cond.(*ssa.UnOp); ok && u.Op == token.NOT {
					cond, succ = u.X, 1-succ
				}
				if c, ok := cond.(*ssa.Call); ok {
					if c.Call.StaticCallee() == icr {
						if succ == 0 {
							corrReq = 1
						} else {
							corrReq = -1
						}
					}
					if sc := c.Call.StaticCallee(); sc != nil && sc.Name() == "areRecordsFromSameNode" && succ == 1 {
						notSame = true
					}
				}
				if u, ok := cond.(*ssa.UnOp); ok && u.Op == token.MUL && isRTS(u.X) && succ == 1 {
					notReady = true
				}
			}
			_, _, base, _ := fieldOf(st.Addr)
			_, fresh := base.(*ssa.Alloc)
			switch {
			case fresh:
				r.Check(corrReq == -1, "R-OWNER.ready", construct, p.instrPos(in), "creation, under !correlationRequired", "a new record is marked ready although correlation is required: it is exported before the other node's record arrives", true)
			default:
				// after correlateRecords whose error returns; areCorrelatedFieldsFilled = true alongside
				okCorr := false
				eachInstr(f, func(x ssa.Instruction) {
					if c, ok := x.(*ssa.Call); ok && c.Call.StaticCallee() != nil && c.Call.StaticCallee().Name() == "correlateRecords" {
						if dominates(x, in) && errEdgeReturns(c) {
							okCorr = true
						}
					}
				})
				filled := false
				for _, x := range in.Block().Instrs {
					if s2, ok := x.(*ssa.Store); ok {
						if _, fn, _, ok := fieldOf(s2.Addr); ok && fn == "areCorrelatedFieldsFilled" {
							if c2, ok := s2.Val.(*ssa.Const); ok && c2.Value != nil && constant.BoolVal(c2.Value) {
								filled = true
							}
						}
					}
				}
				ok := corrReq == 1 && notReady && notSame && okCorr && filled
				r.Check(ok, "R-OWNER.ready", construct, p.instrPos(in), "existing flow: correlationRequired && !ReadyToSend && !sameNode, after correlateRecords (error returns), with areCorrelatedFieldsFilled = true",
					fmt.Sprintf("an existing record is marked ready without the full guard (correlationRequired=%v notReady=%v otherNode=%v correlated=%v markedFilled=%v): it can be exported without the fields of the other node", corrReq == 1, notReady, notSame, okCorr, filled), true)
			}
		})
	}
	if nT < 2 {
		r.Undecided("R-OWNER.ready", "anchor: ReadyToSend = true stores", "pkg/intermediate/aggregate.go", fmt.Sprintf("found %d, expected creation and correlation", nT))
	}
	checkReadyAtOnce(p, r, "R-OWNER.ready-at-once")
	checkSingleSuccessExit(p, r, "R-OWNER.every-record-applied")
	checkRetries(p, r, "R-OWNER.retries")
	// (4) decision table
	if icr == nil {
		r.Undecided("R-TABLE.correlation", "anchor: isCorrelationRequired", "pkg/intermediate/aggregate.go", "not found")
	} else {
		checkCorrelationTable(p, r, icr)
	}
	// (5) correlateRecords siblings
	fd, pk := p.funcDecl("pkg/intermediate", "AggregationProcess", "correlateRecords")
	if fd == nil {
		r.Undecided("R-SIBLING.correlate", "anchor: correlateRecords", "pkg/intermediate/aggregate.go", "not found")
		return
	}
	tb := p.liftIETables()
	sws := ieSwitches(pk, fd)
	if len(sws) != 1 {
		r.Undecided("R-SIBLING.correlate", "anchor: data-type switch in correlateRecords", p.pos(fd.Pos()), fmt.Sprintf("found %d", len(sws)))
		return
	}
	checkIESwitch(p, r, pk, tb, "pkg/intermediate.correlateRecords", sws[0], false, nil)
	checkCorrelateGuards(p, r)
	for _, c := range clausesOf(pk, sws[0], tb) {
		if c.Default {
			continue
		}
		var get, set string
		ast.Inspect(&ast.BlockStmt{List: c.Body}, func(n ast.Node) bool {
			call, ok := n.(*ast.CallExpr)
			if !ok {
				return true
			}
			if sel, ok := call.Fun.(*ast.SelectorExpr); ok && isValueAccessor(sel.Sel.Name) {
				if strings.HasPrefix(sel.Sel.Name, "Get") {
					get = strings.TrimSuffix(strings.TrimPrefix(sel.Sel.Name, "Get"), "Value")
				} else {
					set = strings.TrimSuffix(strings.TrimPrefix(sel.Sel.Name, "Set"), "Value")
				}
			}
			return true
		})
		hasIf := false
		for _, st := range c.Body {
			if _, ok := st.(*ast.IfStmt); ok {
				hasIf = true
			}
		}
		r.Check(get != "" && get == set && hasIf, "R-SIBLING.correlate", fmt.Sprintf("pkg/intermediate.correlateRecords: case %s copies with Get%sValue/Set%sValue", strings.Join(c.Labels, ","), get, set), p.pos(c.Pos),
			"same value type read and written, under a non-empty test", "the case reads and writes with accessors of different value types or copies unconditionally", true)
	}
}

// checkCorrelateGuards: a correlated field is copied whenever the incoming value is non-empty, i.e. differs from the
// zero value of its type. An ordering test (val > 0) is the same thing for unsigned values only.
func checkCorrelateGuards(p *Prog, r *Report) {
	f := p.Fn("(*pkg/intermediate.AggregationProcess).correlateRecords")
	if f == nil {
		return
	}
	n := 0
	var visit func(fn *ssa.Function, outerFacts []relFact, bind map[ssa.Value]ssa.Value)
	visit = func(fn *ssa.Function, outerFacts []relFact, bind map[ssa.Value]ssa.Value) {
		eachInstr(fn, func(in ssa.Instruction) {
			// a setter bound in a function literal of the case ("decide emptiness, bind the copy, run it below"): the facts
			// of the place where the literal is made hold when it runs, its free variables are the values bound there
			if mc, isMC := in.(*ssa.MakeClosure); isMC {
				if af, ok := mc.Fn.(*ssa.Function); ok && af.Parent() == fn {
					b2 := map[ssa.Value]ssa.Value{}
					for i, fv := range af.FreeVars {
						if i < len(mc.Bindings) {
							b2[fv] = mc.Bindings[i]
						}
					}
					// its parameters are what the call of the bound literal passes: "apply(existingElement)"
					eachInstr(fn, func(y ssa.Instruction) {
						c2, ok := y.(*ssa.Call)
						if !ok || c2.Call.IsInvoke() {
							return
						}
						for _, lf := range phiLeaves(c2.Call.Value, 3) {
							if lf == ssa.Value(mc) {
								for i, prm := range af.Params {
									if i < len(c2.Call.Args) {
										b2[prm] = c2.Call.Args[i]
									}
								}
							}
						}
					})
					visit(af, append(append([]relFact{}, outerFacts...), blockFacts(in.Block())...), b2)
				}
				return
			}
			c, ok := in.(*ssa.Call)
			if !ok || !c.Call.IsInvoke() || !strings.HasPrefix(c.Call.Method.Name(), "Set") || !isValueAccessor(c.Call.Method.Name()) {
				return
			}
			n++
			val := c.Call.Args[0]
			if bv, ok := bind[val]; ok {
				val = bv
			}
			// a variable captured by the literal is a cell: its (single) stored value is what is written
			if u, ok := val.(*ssa.UnOp); ok && u.Op == token.MUL {
				if cell, ok := bind[u.X]; ok {
					if al, ok := cell.(*ssa.Alloc); ok {
						if sv := singleStoreValue(al); sv != nil {
							val = sv
						}
					}
				}
			}
			neq, bad := false, ""
			for _, fct := range append(append([]relFact{}, outerFacts...), blockFacts(in.Block())...) {
				x, op, y := fct.X, fct.Op, fct.Y
				if y == val {
					x, y, op = y, x, flipOp(op)
				}
				switch op {
				case token.NEQ:
					neq = true
				case token.GTR, token.GEQ, token.LSS, token.LEQ:
					if x != val {
						continue
					}
					b, isB := val.Type().Underlying().(*types.Basic)
					z, isZ := constInt(y)
					if isB && b.Info()&types.IsUnsigned != 0 && op == token.GTR && isZ && z == 0 {
						neq = true // val > 0 on an unsigned value is val != 0
						continue
					}
					bad = fmt.Sprintf("%s %s %s", val.Name(), op, y.Name())
				}
			}
			// the element that is written is the one of the SAME NAME in the existing record: found by a lookup with the name
			// the incoming value was looked up under (records of the two nodes need not order their elements alike)
			lookupOf := func(v ssa.Value) *ssa.Call {
				if bv, ok := bind[v]; ok {
					v = bv
				}
				ex, ok := v.(*ssa.Extract)
				if !ok || ex.Index != 0 {
					return nil
				}
				lc, ok := ex.Tuple.(*ssa.Call)
				if !ok || !lc.Call.IsInvoke() || lc.Call.Method.Name() != "GetInfoElementWithValue" {
					return nil
				}
				return lc
			}
			dst := lookupOf(c.Call.Value)
			var src *ssa.Call
			if gv, ok := val.(*ssa.Call); ok && gv.Call.IsInvoke() {
				src = lookupOf(gv.Call.Value)
			}
			sameName := dst != nil && src != nil && len(dst.Call.Args) == 1 && len(src.Call.Args) == 1 && (dst.Call.Args[0] == src.Call.Args[0] || sameValue(dst.Call.Args[0], src.Call.Args[0]) || (bind[dst.Call.Args[0]] != nil && bind[dst.Call.Args[0]] == bind[src.Call.Args[0]]))
			r.Check(sameName, "R-SIBLING.correlate-by-name", fmt.Sprintf("pkg/intermediate.correlateRecords: %s writes the element of the same name", c.Call.Method.Name()), p.instrPos(in),
				"existing.GetInfoElementWithValue(name) with the name the incoming value was read under",
				"the element written in the existing record is not found by the field's name (by position, cached, another name): when the two nodes order their elements differently the value lands in another field and the named field stays empty", true)
			r.Check(neq && bad == "", "R-SIBLING.correlate", fmt.Sprintf("pkg/intermediate.correlateRecords: %s guarded by a non-empty test", c.Call.Method.Name()), p.instrPos(in),
				"copied iff the incoming value differs from the zero value", "the copy is guarded by an ordering test ("+bad+") or by no inequality at all: some non-empty values (e.g. negative ones) are treated as empty and the merged record is exported without them", true)
		})
	}
	visit(f, nil, nil)
	if n < 4 {
		r.Undecided("R-SIBLING.correlate", "anchor: setter calls in correlateRecords", p.pos(f.Pos()), fmt.Sprintf("only %d found", n))
	}
}

// checkCorrelationTable executes isCorrelationRequired abstractly for all combinations of its three inputs.
func checkCorrelationTable(p *Prog, r *Report, f *ssa.Function) {
	reg := modPath + "/pkg/registry"
	inter, _ := pkgConst(p, reg, "FlowTypeInterNode")
	drop, _ := pkgConst(p, reg, "NetworkPolicyRuleActionDrop")
	reject, _ := pkgConst(p, reg, "NetworkPolicyRuleActionReject")
	type env struct{ ft, eg, in int64 } // -1 = element absent
	// classify a value: "ft" | "eg" | "in" | "egExists" | "inExists"
	classify := func(v ssa.Value) string {
		if v == ssa.Value(f.Params[0]) {
			return "ft"
		}
		elemOf := func(x ssa.Value) string {
			ex, ok := x.(*ssa.Extract)
			if !ok {
				return ""
			}
			c, ok := ex.Tuple.(*ssa.Call)
			if !ok || !c.Call.IsInvoke() || c.Call.Method.Name() != "GetInfoElementWithValue" {
				return ""
			}
			name, _ := constString(c.Call.Args[0])
			switch name {
			case "egressNetworkPolicyRuleAction":
				return fmt.Sprintf("eg#%d", ex.Index)
			case "ingressNetworkPolicyRuleAction":
				return fmt.Sprintf("in#%d", ex.Index)
			}
			return ""
		}
		if s := elemOf(v); s != "" {
			if strings.HasSuffix(s, "#2") {
				return s[:2] + "Exists"
			}
			return ""
		}
		if c, ok := v.(*ssa.Call); ok && c.Call.IsInvoke() && c.Call.Method.Name() == "GetUnsigned8Value" {
			if s := elemOf(c.Call.Value); strings.HasSuffix(s, "#0") {
				return s[:2]
			}
		}
		return ""
	}
	// abstract evaluation of the function's CFG for one point of the finite input domain: conditions may be written with
	// either operand order, negated, combined with && / || (phis), as a switch, and the result may be a computed boolean
	var runFn func(fn *ssa.Function, e env, depth int) (bool, string)
	runFn = func(fn *ssa.Function, e env, depth int) (bool, string) {
		if depth > 3 || len(fn.Blocks) == 0 {
			return false, "helper predicates nested too deeply"
		}
		var prev *ssa.BasicBlock
		b := fn.Blocks[0]
		var num func(v ssa.Value) (int64, string)
		num = func(v ssa.Value) (int64, string) {
			if c, ok := constInt(v); ok {
				return c, ""
			}
			if cv, ok := v.(*ssa.Convert); ok {
				return num(cv.X)
			}
			if ph, ok := v.(*ssa.Phi); ok && prev != nil && ph.Block() == b {
				return num(phiEdgeFrom(ph, prev))
			}
			switch classify(v) {
			case "ft":
				return e.ft, ""
			case "eg":
				if e.eg < 0 {
					return 0, "the egress action is read although the element is absent"
				}
				return e.eg, ""
			case "in":
				if e.in < 0 {
					return 0, "the ingress action is read although the element is absent"
				}
				return e.in, ""
			}
			return 0, "unrecognised operand " + v.String()
		}
		var truth func(v ssa.Value, d int) (bool, string)
		truth = func(v ssa.Value, d int) (bool, string) {
			if d > 8 {
				return false, "condition too deep"
			}
			switch c := v.(type) {
			case *ssa.Const:
				if c.Value != nil && c.Value.Kind() == constant.Bool {
					return constant.BoolVal(c.Value), ""
				}
			case *ssa.UnOp:
				if c.Op == token.NOT {
					t, why := truth(c.X, d+1)
					return !t, why
				}
			case *ssa.Phi:
				if prev != nil && c.Block() == b {
					return truth(phiEdgeFrom(c, prev), d+1)
				}
			case *ssa.BinOp:
				x, why := num(c.X)
				if why != "" {
					return false, why
				}
				y, why := num(c.Y)
				if why != "" {
					return false, why
				}
				switch c.Op {
				case token.EQL:
					return x == y, ""
				case token.NEQ:
					return x != y, ""
				case token.LSS:
					return x < y, ""
				case token.LEQ:
					return x <= y, ""
				case token.GTR:
					return x > y, ""
				case token.GEQ:
					return x >= y, ""
				}
				return false, "unrecognised operator"
			}
			switch classify(v) {
			case "egExists":
				return e.eg >= 0, ""
			case "inExists":
				return e.in >= 0, ""
			}
			// a predicate of the table factored out into a function literal / local helper of this function (spliced back
			// in place by the normaliser): evaluated for the same point of the domain
			if c, ok := v.(*ssa.Call); ok {
				if callee := c.Call.StaticCallee(); callee != nil && callee.Parent() == f && callee.Signature.Results().Len() == 1 {
					return runFn(callee, e, depth+1)
				}
			}
			return false, "unrecognised condition " + v.String()
		}
		for steps := 0; steps < 200; steps++ {
			last := b.Instrs[len(b.Instrs)-1]
			switch x := last.(type) {
			case *ssa.Return:
				return truth(x.Results[0], 0)
			case *ssa.Jump:
				prev, b = b, b.Succs[0]
			case *ssa.If:
				val, why := truth(x.Cond, 0)
				if why != "" {
					return false, why
				}
				if val {
					prev, b = b, b.Succs[0]
				} else {
					prev, b = b, b.Succs[1]
				}
			default:
				return false, "unexpected block end"
			}
		}
		return false, "did not terminate"
	}
	eval := func(e env) (bool, string) { return runFn(f, e, 0) }
	n, bad := 0, 0
	for ft := int64(0); ft <= 4; ft++ {
		for eg := int64(-1); eg <= 4; eg++ {
			for in := int64(-1); in <= 4; in++ {
				n++
				got, why := eval(env{ft, eg, in})
				want := ft == inter && !(eg == drop || eg == reject) && !(in == reject)
				if why != "" {
					r.Undecided("R-TABLE.correlation", fnKey(f)+": decision table", p.pos(f.Pos()), why)
					return
				}
				if got != want && bad < 3 {
					bad++
					ds := func(v int64) string {
						if v < 0 {
							return "absent"
						}
						return fmt.Sprint(v)
					}
					r.Violation("R-TABLE.correlation", fmt.Sprintf("%s: decision table, case flowType=%d egressAction=%s ingressAction=%s", fnKey(f), ft, ds(eg), ds(in)), p.pos(f.Pos()),
						fmt.Sprintf("returns %v, the property requires %v (correlation is required exactly for inter-node flows that are neither denied at egress (drop/reject) nor rejected at ingress)", got, want))
				}
			}
		}
	}
	if bad == 0 {
		r.OK("R-TABLE.correlation", fnKey(f)+": decision table", p.pos(f.Pos()), fmt.Sprintf("all %d combinations of (flow type, egress action, ingress action) agree with InterNode && !egressDenied && !ingressRejected", n), true)
	}
	r.Facts["correlation_table_cases"] = n
}

// checkReadyAtOnce: a new flow that needs no correlation is ready at once - on EVERY path of the !correlationRequired
// branch the fresh record gets ReadyToSend = true before it is put into the map (not only for some flow types).
func checkReadyAtOnce(p *Prog, r *Report, rule string) {
	add := p.Fn("(*pkg/intermediate.AggregationProcess).addOrUpdateRecordInMap")
	icr := p.Fn("pkg/intermediate.isCorrelationRequired")
	if add == nil || icr == nil {
		r.Undecided(rule, "anchor: addOrUpdateRecordInMap / isCorrelationRequired", "pkg/intermediate/aggregate.go", "not found")
		return
	}
	var fresh *ssa.Alloc
	eachInstr(add, func(in ssa.Instruction) {
		if al, ok := in.(*ssa.Alloc); ok && al.Heap && typeName(al.Type()) == "pkg/intermediate.AggregationFlowRecord" {
			fresh = al
		}
	})
	if fresh == nil {
		r.Undecided(rule, "anchor: new AggregationFlowRecord", p.pos(add.Pos()), "not found")
		return
	}
	isIns := func(x ssa.Instruction) bool {
		mu, ok := x.(*ssa.MapUpdate)
		if !ok {
			return false
		}
		tn, fn, _, ok := loadedField(mu.Map)
		return ok && tn+"."+fn == "pkg/intermediate.AggregationProcess.flowKeyRecordMap"
	}
	n := 0
	// the record may be created with ReadyToSend: !correlationRequired in one go
	eachInstr(add, func(x ssa.Instruction) {
		st, ok := x.(*ssa.Store)
		if !ok || !isRTS(st.Addr) {
			return
		}
		_, _, base, _ := fieldOf(st.Addr)
		u, isU := st.Val.(*ssa.UnOp)
		if base != ssa.Value(fresh) || !isU || u.Op != token.NOT {
			return
		}
		if c, isCall := u.X.(*ssa.Call); isCall && c.Call.StaticCallee() == icr {
			// no way from the creation of the record to a map insertion that misses this store
			q := &pathQuery{noExit: true, terminal: isIns, discharge: func(y ssa.Instruction) bool { return y == x }}
			_, bad := q.find(fresh)
			if !bad {
				n++
				r.OK(rule, fnKey(add)+": new flow without correlation is ready at once", p.instrPos(x), "the new record is created with ReadyToSend = !correlationRequired before the insertion", true)
			}
		}
	})
	if n > 0 {
		return // decided for every path at once: no branch needed
	}
	for _, b := range add.Blocks {
		i := ifOf(b)
		if i == nil || !fresh.Block().Dominates(b) {
			continue
		}
		cond, noCorr := i.Cond, 1
		if u, ok := cond.(*ssa.UnOp); ok && u.Op == token.NOT {
			cond, noCorr = u.X, 0
		}
		c, ok := cond.(*ssa.Call)
		if !ok || c.Call.StaticCallee() != icr {
			continue
		}
		n++
		q := &pathQuery{noExit: true, terminal: isIns, discharge: func(x ssa.Instruction) bool {
			st, ok := x.(*ssa.Store)
			if !ok || !isRTS(st.Addr) {
				return false
			}
			_, _, base, _ := fieldOf(st.Addr)
			cv, isC := st.Val.(*ssa.Const)
			return base == ssa.Value(fresh) && isC && cv.Value != nil && constant.BoolVal(cv.Value)
		}}
		trail, bad := q.findFromBlock(b.Succs[noCorr])
		if bad {
			r.Violation(rule, fnKey(add)+": new flow without correlation is ready at once", p.instrPos(i), "a path of the !correlationRequired branch reaches the map insertion without ReadyToSend = true: such a flow (e.g. an inter-node flow denied at egress) is never handed to the export callback and is dropped after the retries; path "+p.describePath(add, trail))
		} else {
			r.OK(rule, fnKey(add)+": new flow without correlation is ready at once", p.instrPos(i), "every path of the !correlationRequired branch sets ReadyToSend = true before the insertion", true)
		}
	}
	if n == 0 {
		r.Undecided(rule, fnKey(add)+": branch on correlationRequired after the record is created", p.pos(add.Pos()), "not found")
	}
}

// checkSingleSuccessExit: every record that is accepted is applied: addOrUpdateRecordInMap returns nil only after the
// map insertion at its end. An earlier `return nil` (a "stale record" / "nothing new" fast path) silently discards a
// record - its deltas, its correlation fields, its refresh of the inactive deadline.
func checkSingleSuccessExit(p *Prog, r *Report, rule string) {
	add := p.Fn("(*pkg/intermediate.AggregationProcess).addOrUpdateRecordInMap")
	if add == nil {
		r.Undecided(rule, "anchor: addOrUpdateRecordInMap", "pkg/intermediate/aggregate.go", "not found")
		return
	}
	var ins ssa.Instruction
	eachInstr(add, func(x ssa.Instruction) {
		if mu, ok := x.(*ssa.MapUpdate); ok {
			if tn, fn, _, ok := loadedField(mu.Map); ok && tn+"."+fn == "pkg/intermediate.AggregationProcess.flowKeyRecordMap" {
				ins = x
			}
		}
	})
	if ins == nil {
		r.Undecided(rule, fnKey(add)+": map insertion", p.pos(add.Pos()), "not found")
		return
	}
	n := 0
	eachInstr(add, func(x ssa.Instruction) {
		rt, ok := x.(*ssa.Return)
		if !ok {
			return
		}
		isNil, has := retErrNil(rt)
		if !has || !isNil {
			return
		}
		n++
		// every way to this return passes the insertion - or, for a flow already held, the aggregation into the record the
		// map points to
		okRet := dominates(ins, x)
		if !okRet {
			q := &pathQuery{noExit: true,
				// applied = inserted into the map (new flow), or aggregated into the record the map already points to
				// (existing flow: the object is updated in place, re-storing the pointer is a no-op)
				discharge: func(in ssa.Instruction) bool {
					if in == ins {
						return true
					}
					c, ok := in.(*ssa.Call)
					return ok && c.Call.StaticCallee() != nil && c.Call.StaticCallee().Name() == "aggregateRecords"
				},
				terminal: func(in ssa.Instruction) bool { return in == x }}
			_, bad := q.findFromBlock(add.Blocks[0])
			okRet = !bad
		}
		r.Check(okRet, rule, fmt.Sprintf("%s: success return #%d", fnKey(add), n), p.instrPos(x), "after the map insertion",
			"the function reports success without having stored the (updated) flow record: the incoming record is silently discarded on this path", true)
	})
	if n == 0 {
		r.Undecided(rule, fnKey(add)+": success returns", p.pos(add.Pos()), "none found")
	}
}

// checkRetries: the retry budget of a flow that waits for correlation (C07's rule, imported by C06: a wrong bound drops a
// held flow early or never).
func checkRetries(p *Prog, r *Report, rule string) {
	// (3) retries
	nW := 0
	for _, f := range p.RepoFns {
		if !keyInPkg(fnKey(f), "pkg/intermediate") {
			continue
		}
		idx := 0
		eachInstr(f, func(in ssa.Instruction) {
			st, ok := in.(*ssa.Store)
			if !ok {
				return
			}
			tn, fn, base, ok := fieldOf(st.Addr)
			if !ok || tn != "pkg/intermediate.AggregationFlowRecord" || fn != "waitForReadyToSendRetries" {
				return
			}
			idx++
			nW++
			construct := fmt.Sprintf("%s: store #%d to waitForReadyToSendRetries", fnKey(f), idx)
			if v, ok := constInt(st.Val); ok {
				_, fresh := base.(*ssa.Alloc)
				r.Check(v == 0 && fresh, rule, construct, p.instrPos(in), "0 at creation", "the retry counter of an existing record is reset: an uncorrelated flow is retried forever instead of being dropped after MaxRetries", true)
				return
			}
			isCounter := func(v ssa.Value) bool {
				_, f2, _, ok2 := loadedField(v)
				return ok2 && f2 == "waitForReadyToSendRetries"
			}
			b, ok := st.Val.(*ssa.BinOp)
			inc := ok && b.Op == token.ADD
			if inc {
				oneY, okY := constInt(b.Y)
				oneX, okX := constInt(b.X)
				inc = (okY && oneY == 1 && isCounter(b.X)) || (okX && oneX == 1 && isCounter(b.Y))
			}
			// in the not-ready branch of the scan, once (not in an inner loop)
			notReady := false
			for _, gd := range guardsOf(in.Block()) {
				c, falseSucc := gd.If.Cond, 1
				for {
					u, ok := c.(*ssa.UnOp)
					if !ok || u.Op != token.NOT {
						break
					}
					c, falseSucc = u.X, 1-falseSucc
				}
				if bo, ok := c.(*ssa.BinOp); ok && (bo.Op == token.EQL || bo.Op == token.NEQ) {
					// ReadyToSend == false / != true / ...
					for _, pr := range [][2]ssa.Value{{bo.X, bo.Y}, {bo.Y, bo.X}} {
						if k, ok := pr[1].(*ssa.Const); ok && k.Value != nil && k.Value.Kind() == constant.Bool {
							c = pr[0]
							if constant.BoolVal(k.Value) != (bo.Op == token.EQL) {
								falseSucc = 1 - falseSucc
							}
						}
					}
				}
				if u, ok := c.(*ssa.UnOp); ok && u.Op == token.MUL && isRTS(u.X) && gd.Succ == falseSucc {
					notReady = true
				}
			}
			// followed by the MaxRetries comparison (either operand order, either polarity)
			cmp := false
			if i := ifOf(in.Block()); i != nil {
				for _, cf := range cmpForms(i.Cond) {
					// the counter re-read from the field, or the very value that was just stored into it (a named local)
					if cf.Op != token.GTR || !(isCounter(cf.X) || cf.X == st.Val) {
						continue
					}
					g, ok := cf.Y.(*ssa.UnOp)
					if !ok {
						continue
					}
					if gl, ok := g.X.(*ssa.Global); !ok || gl.Name() != "MaxRetries" {
						continue
					}
					// '>' edge deletes, other edge re-arms both deadlines
					del, rearmA, rearmI := false, false, false
					for _, x := range i.Block().Succs[cf.Succ].Instrs {
						if cc, ok := x.(*ssa.Call); ok && cc.Call.StaticCallee() != nil && cc.Call.StaticCallee().Name() == "deleteFlowKeyFromMapWithoutLock" {
							del = true
						}
					}
					for _, x := range i.Block().Succs[1-cf.Succ].Instrs {
						if s2, ok := x.(*ssa.Store); ok {
							if _, f3, _, ok := fieldOf(s2.Addr); ok {
								if f3 == "activeExpireTime" {
									rearmA = true
								}
								if f3 == "inactiveExpireTime" {
									rearmI = true
								}
							}
						}
					}
					cmp = del && rearmA && rearmI
				}
			}
			r.Check(inc && notReady && cmp, rule, construct, p.instrPos(in), "+1 in the not-ready branch, then '> MaxRetries' => delete, else re-arm both deadlines and re-push",
				"the retry counter is not 'incremented once per not-ready expiry, compared with MaxRetries, > deletes, otherwise both deadlines re-armed': uncorrelated flows are not dropped after a bounded number of retries", true)
		})
	}
	if nW < 2 {
		r.Undecided(rule, "anchor: writers of waitForReadyToSendRetries", "pkg/intermediate/aggregate.go", fmt.Sprintf("found %d", nW))
	}
}
