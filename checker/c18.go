package main

import (
	"fmt"
	"go/constant"
	"go/token"
	"go/types"
	"sort"
	"strings"

	"golang.org/x/tools/go/ssa"
)

func init() {
	register(&propDef{
		ID:          "C18",
		Explanation: "Configuration-literal audit and plaintext-dominance rules (R-TLS), decided on SSA for pkg/exporter and pkg/collector: every crypto/tls.Config and pion/dtls.Config object built there is reconstructed from its allocation and all stores to its fields (composite literal or later assignment). Client configs: RootCAs is a fresh x509 pool filled by AppendCertsFromPEM(<caller's CA data>) whose false result returns an error before the config is built; ServerName comes from the caller's config; no InsecureSkipVerify other than constant false; no VerifyPeerCertificate/VerifyConnection override; tls MinVersion is a constant >= TLS1.2; dtls requires the extended master secret; a client key pair comes from X509KeyPair with its error returned. TLS server configs: MinVersion >= TLS1.2; a config without ClientAuth is built only under caCert == nil; otherwise ClientAuth == RequireAndVerifyClientCert and ClientCAs is a pool filled from caCert with the result checked. No plaintext fallback: net.Dial is dominated by TLSClientConfig == nil, net.Listen / net.ListenUDP by !isEncrypted, and the tls/dtls Dial/Listen calls by the opposite edges; isEncrypted / caCert / serverCert / serverKey are written only while the process object is under construction. The oracle is the documented meaning of these fields in crypto/tls and pion/dtls; chain validation, expiry, SAN matching and version negotiation are performed by those libraries at run time and are not decided here. Later additions: every certificate appended to a verification pool comes from the configured CA data (AddCert refused). Round-seven addition: the library never writes through the caller's ExporterTLSClientConfig pointer (a server name defaulted in place would be used for the next collector the settings are reused for).",
		Assume:      []string{"crypto/tls, crypto/x509 and pion/dtls implement their documented semantics for RootCAs, ServerName, MinVersion, ClientAuth, ClientCAs, InsecureSkipVerify, ExtendedMasterSecret"},
		Run:         runC18,
	})
}

type cfgObj struct {
	fn     *ssa.Function
	alloc  *ssa.Alloc
	kind   string // "tls" | "dtls"
	fields map[string]ssa.Value
	stores map[string]ssa.Instruction
	all    map[string][]*ssa.Store
}

func collectConfigs(p *Prog, pkgs ...string) []*cfgObj {
	var out []*cfgObj
	for _, f := range p.RepoFns {
		in := false
		for _, pk := range pkgs {
			if keyInPkg(fnKey(f), pk) {
				in = true
			}
		}
		if !in {
			continue
		}
		eachInstr(f, func(x ssa.Instruction) {
			al, ok := x.(*ssa.Alloc)
			if !ok {
				return
			}
			tn := typeName(al.Type())
			kind := ""
			switch tn {
			case "crypto/tls.Config":
				kind = "tls"
			case "github.com/pion/dtls/v2.Config":
				kind = "dtls"
			default:
				return
			}
			c := &cfgObj{fn: f, alloc: al, kind: kind, fields: map[string]ssa.Value{}, stores: map[string]ssa.Instruction{}, all: map[string][]*ssa.Store{}}
			for _, r := range refs(al) {
				fa, ok := r.(*ssa.FieldAddr)
				if !ok {
					continue
				}
				_, name, _, _ := fieldOf(fa)
				for _, rr := range refs(fa) {
					if st, ok := rr.(*ssa.Store); ok && st.Addr == fa {
						c.fields[name] = st.Val
						c.stores[name] = st
						c.all[name] = append(c.all[name], st)
					}
				}
			}
			out = append(out, c)
		})
	}
	return out
}

func pkgConst(p *Prog, pkgPath, name string) (int64, bool) {
	for _, sp := range p.SSA.AllPackages() {
		if sp.Pkg.Path() == pkgPath {
			if c, ok := sp.Pkg.Scope().Lookup(name).(*types.Const); ok {
				v, ok := constant.Int64Val(c.Val())
				return v, ok
			}
		}
	}
	return 0, false
}

// poolProvenance checks that v is a fresh x509.CertPool filled by AppendCertsFromPEM(data) with data loaded from one of
// wantFields, and that `at` is only reached on the ok edge. Returns "" when fine, else the reason.
func poolProvenance(p *Prog, v ssa.Value, at ssa.Instruction, wantFields []string) string {
	v = stripChange(v)
	// a pool handed back by a helper that was spliced in place arrives merged with the nil of its error exit
	if _, isPhi := v.(*ssa.Phi); isPhi {
		var only ssa.Value
		n := 0
		for _, lf := range phiLeaves(v, 3) {
			lf = stripChange(lf)
			if k, ok := lf.(*ssa.Const); ok && k.IsNil() {
				continue
			}
			only = lf
			n++
		}
		if n == 1 {
			v = only
		}
	}
	call, ok := v.(*ssa.Call)
	if !ok || calleeName(&call.Call) != "crypto/x509.NewCertPool" {
		return "the pool is not a fresh x509.NewCertPool() of this function (system roots or a foreign pool would be trusted)"
	}
	var app *ssa.Call
	for _, r := range refs(call) {
		c, ok := r.(*ssa.Call)
		if !ok || len(c.Call.Args) == 0 || c.Call.Args[0] != ssa.Value(call) {
			continue
		}
		switch calleeName(&c.Call) {
		case "(*crypto/x509.CertPool).AppendCertsFromPEM":
			// EVERY certificate that enters the pool is a trust anchor: each append must come from the configured CA data
			tn, fn, _, ok := loadedField(c.Call.Args[1])
			src := tn + "." + fn
			okSrc := false
			for _, w := range wantFields {
				if ok && src == w {
					okSrc = true
				}
			}
			if !okSrc {
				return "the pool is (also) filled from " + src + " instead of only the configured CA data " + strings.Join(wantFields, "/") + ": every certificate in it becomes a trust anchor"
			}
			app = c
		case "(*crypto/x509.CertPool).AddCert", "(*crypto/x509.CertPool).AddCertWithConstraint":
			return "a certificate is added to the pool directly (AddCert): it becomes a trust anchor besides the configured CA"
		}
	}
	if app == nil {
		return "nothing is appended to the pool (an empty RootCAs/ClientCAs pool falls back to nothing / system roots)"
	}
	// result checked: `at` is dominated by the true edge of an If on the result
	for _, g := range guardsOf(at.Block()) {
		if g.If.Cond == ssa.Value(app) && g.Succ == 0 {
			return ""
		}
		if u, ok := g.If.Cond.(*ssa.UnOp); ok && u.Op == token.NOT && u.X == ssa.Value(app) && g.Succ == 1 {
			return ""
		}
	}
	return "the result of AppendCertsFromPEM is not checked before the config is built: unparsable CA data silently yields an empty pool"
}

func runC18(p *Prog, r *Report, tier string) {
	tls12, _ := pkgConst(p, "crypto/tls", "VersionTLS12")
	reqVerify, _ := pkgConst(p, "crypto/tls", "RequireAndVerifyClientCert")
	reqEMS, okEMS := pkgConst(p, "github.com/pion/dtls/v2", "RequireExtendedMasterSecret")
	dtlsReqVerify, _ := pkgConst(p, "github.com/pion/dtls/v2", "RequireAndVerifyClientCert")
	_ = dtlsReqVerify
	if tls12 == 0 || !okEMS {
		r.Undecided("R-TLS", "anchor: crypto/tls and pion/dtls constants", "go.mod", "constants not found in the loaded program")
		return
	}
	checkCallerConfigReadOnly(p, r)
	cfgs := collectConfigs(p, "pkg/exporter", "pkg/collector")
	counts := map[string]int{}
	for _, c := range cfgs {
		side := "client"
		if keyInPkg(fnKey(c.fn), "pkg/collector") {
			side = "server"
		}
		counts[side+"/"+c.kind]++
		id := fmt.Sprintf("%s: %s %s config #%d", fnKey(c.fn), c.kind, side, counts[side+"/"+c.kind])
		pos := p.instrPos(c.alloc)
		names := make([]string, 0, len(c.fields))
		for k := range c.fields {
			names = append(names, k)
		}
		sort.Strings(names)
		// only audited fields may be set: anything else (session caches, custom dialers, verification hooks, cipher lists,
		// key log writers, ...) changes what a completed session guarantees and is not vouched for
		allow := map[string]map[string]bool{
			"client/tls":  {"RootCAs": true, "ServerName": true, "MinVersion": true, "Certificates": true},
			"server/tls":  {"Certificates": true, "ClientAuth": true, "ClientCAs": true, "MinVersion": true},
			"client/dtls": {"RootCAs": true, "ServerName": true, "ExtendedMasterSecret": true},
			"server/dtls": {"Certificates": true, "ClientAuth": true, "ClientCAs": true, "ExtendedMasterSecret": true},
		}[side+"/"+c.kind]
		for _, fn := range names {
			if !allow[fn] && fn != "InsecureSkipVerify" && fn != "InsecureSkipVerifyHello" && fn != "VerifyPeerCertificate" && fn != "VerifyConnection" {
				r.Undecided("R-TLS.audited-fields", id+": field "+fn, p.instrPos(c.stores[fn]),
					"the configuration sets "+fn+", which this audit does not cover (for instance a shared ClientSessionCache resumes sessions without validating the peer's chain against this config's RootCAs)")
			}
		}
		// fields that weaken verification, for every config
		for _, bad := range []string{"InsecureSkipVerify", "InsecureSkipVerifyHello"} {
			if v, ok := c.fields[bad]; ok {
				cv, isC := v.(*ssa.Const)
				r.Check(isC && cv.Value != nil && !constant.BoolVal(cv.Value), "R-TLS.no-skip-verify", id+": "+bad, p.instrPos(c.stores[bad]), "constant false",
					bad+" is set (to a non-false value): the peer's certificate is not verified", true)
			} else {
				r.OK("R-TLS.no-skip-verify", id+": "+bad, pos, "not set (defaults to false)", false)
			}
		}
		for _, bad := range []string{"VerifyPeerCertificate", "VerifyConnection"} {
			if _, ok := c.fields[bad]; ok && side == "client" {
				r.Violation("R-TLS.no-override", id+": "+bad, p.instrPos(c.stores[bad]), "a custom verification callback replaces/augments the library's chain verification; not audited")
			}
		}
		if c.kind == "tls" {
			mv, ok := c.fields["MinVersion"]
			v, isC := int64(0), false
			if ok {
				v, isC = constInt(mv)
			}
			r.Check(ok && isC && v >= tls12, "R-TLS.min-version", id+": MinVersion", pos, "constant >= TLS 1.2", "MinVersion is missing, not constant or below TLS 1.2: older protocol versions are negotiable", true)
		}
		if c.kind == "dtls" && side == "client" {
			ev, ok := c.fields["ExtendedMasterSecret"]
			v, isC := int64(-1), false
			if ok {
				v, isC = constInt(ev)
			}
			r.Check(ok && isC && v == reqEMS, "R-TLS.dtls-ems", id+": ExtendedMasterSecret", pos, "RequireExtendedMasterSecret", "the DTLS client does not require the extended master secret", true)
		}
		if side == "client" {
			rv, ok := c.fields["RootCAs"]
			why := "RootCAs is not set: the system roots are trusted instead of the configured CA"
			if ok {
				why = poolProvenance(p, rv, c.stores["RootCAs"], []string{"pkg/exporter.ExporterTLSClientConfig.CAData"})
			}
			r.Check(why == "", "R-TLS.root-cas", id+": RootCAs", pos, "fresh pool filled from the caller's CAData, result checked before the config is built", why, true)
			sn, ok := c.fields["ServerName"]
			okSN := false
			if ok {
				tn, fn, _, isF := loadedField(sn)
				okSN = isF && tn+"."+fn == "pkg/exporter.ExporterTLSClientConfig.ServerName"
			}
			r.Check(okSN, "R-TLS.server-name", id+": ServerName", pos, "taken from the caller's ServerName", "ServerName is not set from the caller's configuration: the expected name is not what gets verified", true)
			if cv, ok := c.fields["Certificates"]; ok {
				why := certProvenance(p, cv, c.stores["Certificates"])
				r.Check(why == "", "R-TLS.keypair", id+": Certificates", pos, "from tls.X509KeyPair with its error returned", why, true)
			}
		} else {
			// TLS / DTLS server
			want := reqVerify
			if c.kind == "dtls" {
				want = dtlsReqVerify
			}
			if c.kind == "tls" {
				if cv, ok := c.fields["Certificates"]; ok {
					why := certProvenance(p, cv, c.stores["Certificates"])
					r.Check(why == "", "R-TLS.keypair", id+": Certificates", pos, "from tls.X509KeyPair with its error returned", why, true)
				} else {
					r.Violation("R-TLS.keypair", id+": Certificates", pos, "the server config has no certificate")
				}
			}
			caNilFact := func(f relFact) bool {
				tn, fn, _, isF := loadedField(f.X)
				if !isF || tn+"."+fn != "pkg/collector.CollectingProcess.caCert" {
					return false
				}
				cst, ok := f.Y.(*ssa.Const)
				return ok && cst.IsNil() && f.Op == token.EQL
			}
			underNil := false
			for _, f := range blockFacts(c.alloc.Block()) {
				if caNilFact(f) {
					underNil = true
				}
			}
			// every ClientAuth store must be the strict mode
			for _, st := range c.all["ClientAuth"] {
				v, isC := constInt(st.Val)
				r.Check(isC && v == want, "R-TLS.client-auth", id+": ClientAuth value", p.instrPos(st), "RequireAndVerifyClientCert",
					"ClientAuth is weaker than RequireAndVerifyClientCert: exporters without a valid certificate are accepted", true)
			}
			isStrictStore := func(in ssa.Instruction) bool {
				for _, st := range c.all["ClientAuth"] {
					if ssa.Instruction(st) == in {
						v, isC := constInt(st.Val)
						return isC && v == want
					}
				}
				return false
			}
			// uses of the config: passed to a call / returned
			isUse := func(in ssa.Instruction) bool {
				switch x := in.(type) {
				case *ssa.Return:
					for _, rv := range x.Results {
						if rv == ssa.Value(c.alloc) {
							return true
						}
					}
				case *ssa.Call:
					for _, a := range x.Call.Args {
						if a == ssa.Value(c.alloc) {
							return true
						}
					}
				}
				return false
			}
			if underNil {
				r.OK("R-TLS.client-auth", id+": client certificates required when a CA is configured", pos, "this config is built only when caCert == nil (no client CA configured)", true)
			} else {
				q := &pathQuery{discharge: isStrictStore, terminal: isUse, noExit: true, prune: func(from *ssa.BasicBlock, si int) bool {
					for _, f := range edgeFacts(from, from.Succs[si]) {
						if caNilFact(f) {
							return true
						}
					}
					return false
				}}
				if trail, bad := q.find(c.alloc); bad {
					r.Violation("R-TLS.client-auth", id+": client certificates required when a CA is configured", pos,
						"the config reaches its use on a path where a client CA (caCert) may be configured but ClientAuth was not set to RequireAndVerifyClientCert: exporters without a certificate issued by that CA are accepted; path "+p.describePath(c.fn, trail))
				} else {
					r.OK("R-TLS.client-auth", id+": client certificates required when a CA is configured", pos, "every path to the use with caCert != nil passes ClientAuth = RequireAndVerifyClientCert", true)
				}
				// the pool used for verification comes from caCert
				for _, a := range c.all["ClientAuth"] {
					why := "ClientCAs is not set together with ClientAuth"
					for _, cs := range c.all["ClientCAs"] {
						if cs.Block() == a.Block() {
							why = poolProvenance(p, cs.Val, cs, []string{"pkg/collector.CollectingProcess.caCert"})
							for _, other := range c.all["ClientCAs"] {
								if other != cs && reachable(cs, other, nil) {
									why = "ClientCAs is overwritten after being set from caCert"
								}
							}
						}
					}
					r.Check(why == "", "R-TLS.client-cas", id+": ClientCAs", p.instrPos(a), "fresh pool filled from caCert, result checked", why, true)
				}
			}
		}
		r.Infof("%s fields: %v", id, names)
	}
	for _, want := range []string{"client/tls", "client/dtls", "server/tls", "server/dtls"} {
		if counts[want] == 0 {
			r.Undecided("R-TLS", "anchor: "+want+" config", "pkg/exporter, pkg/collector", "no such config object found: the audit would pass vacuously")
		}
	}

	// ---- no plaintext fallback
	type site struct {
		callee string
		field  string // guard field
		wantOn bool   // encryption on?
	}
	sites := []site{
		{"net.Dial", "pkg/exporter.ExporterInput.TLSClientConfig", false},
		{"crypto/tls.Dial", "pkg/exporter.ExporterInput.TLSClientConfig", true},
		{"github.com/pion/dtls/v2.Dial", "pkg/exporter.ExporterInput.TLSClientConfig", true},
		{"net.Listen", "pkg/collector.CollectingProcess.isEncrypted", false},
		{"net.ListenUDP", "pkg/collector.CollectingProcess.isEncrypted", false},
		{"crypto/tls.Listen", "pkg/collector.CollectingProcess.isEncrypted", true},
		{"github.com/pion/dtls/v2.Listen", "pkg/collector.CollectingProcess.isEncrypted", true},
	}
	found := map[string]int{}
	for _, f := range p.RepoFns {
		k := fnKey(f)
		if !keyInPkg(k, "pkg/exporter") && !keyInPkg(k, "pkg/collector") {
			continue
		}
		eachInstr(f, func(in ssa.Instruction) {
			c := callOf(in)
			if c == nil {
				return
			}
			n := calleeName(c)
			for _, s := range sites {
				if n != s.callee {
					continue
				}
				found[n]++
				on, decided := encryptionEdge(in.Block(), s.field)
				construct := fmt.Sprintf("%s: call of %s", k, n)
				switch {
				case !decided:
					r.Violation("R-TLS.no-plaintext", construct, p.instrPos(in), "the call is not dominated by a test of "+s.field+": with security settings present an unencrypted (or, for the secure variant, with none present an unintended) session can be opened")
				case on != s.wantOn:
					r.Violation("R-TLS.no-plaintext", construct, p.instrPos(in), fmt.Sprintf("the call is reached on the edge where encryption is %v", on))
				default:
					r.OK("R-TLS.no-plaintext", construct, p.instrPos(in), fmt.Sprintf("dominated by the edge on which %s says encryption=%v", s.field, on), true)
				}
			}
			// any other dialer/listener of package net in these packages
			if strings.HasPrefix(n, "net.Dial") || strings.HasPrefix(n, "net.Listen") {
				known := false
				for _, s := range sites {
					if s.callee == n {
						known = true
					}
				}
				if !known {
					r.Violation("R-TLS.no-plaintext", fmt.Sprintf("%s: call of %s", k, n), p.instrPos(in), "an additional plaintext dial/listen call that the audit does not know")
				}
			}
		})
	}
	for _, s := range sites {
		if found[s.callee] == 0 {
			r.Undecided("R-TLS.no-plaintext", "anchor: call of "+s.callee, "pkg/exporter, pkg/collector", "call site not found")
		}
	}
	// security fields written only during construction
	for _, fld := range []string{"isEncrypted", "caCert", "serverCert", "serverKey"} {
		bad := ""
		for _, f := range p.RepoFns {
			for _, a := range p.fieldAccesses(f, "pkg/collector.CollectingProcess") {
				if a.Field == fld && a.Write && !a.Constr {
					bad = fnKey(f) + " at " + p.instrPos(a.In)
				}
			}
		}
		r.Check(bad == "", "R-OWNER.tls-fields", "pkg/collector.CollectingProcess."+fld+": written after construction", "pkg/collector/process.go", "only the constructor writes it", "security setting is modified after construction in "+bad, true)
	}
}

// encryptionEdge: is block b dominated by an edge that decides the guard field? returns (encryptionOn, decided).
func encryptionEdge(b *ssa.BasicBlock, field string) (bool, bool) {
	for _, g := range guardsOfInter(b) {
		cond := g.If.Cond
		pol := g.Succ == 0
		if u, ok := cond.(*ssa.UnOp); ok && u.Op == token.NOT {
			cond = u.X
			pol = !pol
		}
		// bool field
		if tn, fn, _, ok := loadedField(cond); ok && tn+"."+fn == field {
			return pol, true
		}
		if bo, ok := cond.(*ssa.BinOp); ok {
			tn, fn, _, isF := loadedField(bo.X)
			if isF && tn+"."+fn == field {
				if cst, ok := bo.Y.(*ssa.Const); ok && cst.IsNil() {
					// field != nil  => encryption on
					if bo.Op == token.NEQ {
						return pol, true
					}
					if bo.Op == token.EQL {
						return !pol, true
					}
				}
			}
		}
	}
	return false, false
}

// certProvenance: the Certificates slice holds the result of tls.X509KeyPair whose error edge returns.
func certProvenance(p *Prog, v ssa.Value, at ssa.Instruction) string {
	// v = slice of a [1]tls.Certificate alloc; element stored = extract #0 of X509KeyPair call
	sl, ok := stripChange(v).(*ssa.Slice)
	if !ok {
		return "Certificates is not a literal slice"
	}
	al, ok := sl.X.(*ssa.Alloc)
	if !ok {
		return "Certificates is not a literal slice"
	}
	for _, r := range refs(al) {
		ia, ok := r.(*ssa.IndexAddr)
		if !ok {
			continue
		}
		for _, rr := range refs(ia) {
			st, ok := rr.(*ssa.Store)
			if !ok {
				continue
			}
			ex, ok := st.Val.(*ssa.Extract)
			if !ok {
				return "certificate does not come from tls.X509KeyPair"
			}
			call, ok := ex.Tuple.(*ssa.Call)
			if !ok || calleeName(&call.Call) != "crypto/tls.X509KeyPair" {
				return "certificate does not come from tls.X509KeyPair"
			}
			for _, e := range extractOf(call, 1) {
				for _, g := range guardsOf(at.Block()) {
					if ne, ok := isNilCompare(g.If.Cond, e); ok {
						if (ne && g.Succ == 1) || (!ne && g.Succ == 0) {
							return ""
						}
					}
				}
			}
			return "the error of tls.X509KeyPair is not checked before the config is built"
		}
	}
	return "certificate does not come from tls.X509KeyPair"
}

// checkCallerConfigReadOnly: the TLS settings an application hands over (ExporterTLSClientConfig, reached through a
// pointer in ExporterInput) are only read by the library. A default written through that pointer (e.g. ServerName taken
// from the first collector's address) persists in the caller's object: a second exporter created from the same settings
// for another host verifies that host's certificate against the first name.
func checkCallerConfigReadOnly(p *Prog, r *Report) {
	const cfgType = "pkg/exporter.ExporterTLSClientConfig"
	reads, writes := 0, 0
	for _, f := range p.RepoFns {
		if !keyInPkg(fnKey(f), "pkg/exporter") {
			continue
		}
		eachInstr(f, func(in ssa.Instruction) {
			fa, ok := in.(*ssa.FieldAddr)
			if !ok {
				return
			}
			tn, fname, base, ok := fieldOf(fa)
			if !ok || tn != cfgType {
				return
			}
			// a composite literal being filled in here is the library's own object
			if al, ok := stripChange(base).(*ssa.Alloc); ok && al.Parent() == f {
				return
			}
			stored := false
			for _, ref := range refs(fa) {
				switch y := ref.(type) {
				case *ssa.Store:
					if y.Addr == ssa.Value(fa) {
						stored = true
					}
				case *ssa.Call:
					// the field's address handed to a callee (could be written there)
					stored = true
				}
			}
			if stored {
				writes++
				r.Violation("R-TLS.caller-config", fmt.Sprintf("%s: writes ExporterTLSClientConfig.%s", fnKey(f), fname), p.instrPos(in),
					"the caller's TLS settings are modified in place: a value derived from this collector (server name, CA, certificate) stays in the application's object and is used for the next collector it is reused for")
			} else {
				reads++
			}
		})
	}
	r.Facts["R-TLS.caller-config.reads"] = reads
	if reads == 0 {
		r.Undecided("R-TLS.caller-config", "anchor: reads of ExporterTLSClientConfig fields in pkg/exporter", "pkg/exporter/process.go", "no field of the caller's TLS settings is read any more")
	} else if writes == 0 {
		r.Check(true, "R-TLS.caller-config", "pkg/exporter: ExporterTLSClientConfig is read-only for the library", "pkg/exporter/process.go",
			fmt.Sprintf("%d field reads, no store through the caller's pointer", reads), "", false)
	}
}
