package main

import (
	"fmt"
	"go/ast"
	"go/token"
	"go/types"
	"os"
	"path/filepath"
	"sort"
	"strings"

	"golang.org/x/tools/go/packages"
	"golang.org/x/tools/go/ssa"
	"golang.org/x/tools/go/ssa/ssautil"
)

const modPath = "github.com/vmware/go-ipfix"

// Prog is the resolved program: type-checked syntax of every package of the repository plus the SSA form
// of the whole program (repository + dependencies).
type Prog struct {
	Repo     string
	Fset     *token.FileSet
	Pkgs     map[string]*packages.Package // by import path (repo packages only)
	SSA      *ssa.Program
	SSAPkgs  map[string]*ssa.Package
	RepoFns  []*ssa.Function // every function / method / closure whose source is in the repo (non-test)
	fnByKey  map[string]*ssa.Function
	NumFiles int
	cg       *callGraph
}

// Load type-checks ./... of repo (default build configuration, no tests unless withTests) with the given
// in-memory overlay and builds SSA. Any type error is fatal: the analysis cannot vouch for a program it
// cannot resolve.
func Load(repo string, overlay map[string][]byte, withTests bool, tags string) (*Prog, error) {
	resetThreadCache()
	env := append(os.Environ(), "GOFLAGS=-mod=mod", "GOPROXY=off", "GOSUMDB=off", "GOTOOLCHAIN=local", "GOWORK=off")
	cfg := &packages.Config{
		Mode:    packages.LoadAllSyntax,
		Dir:     repo,
		Env:     env,
		Tests:   withTests,
		Overlay: overlay,
	}
	if tags != "" {
		cfg.BuildFlags = []string{"-tags=" + tags}
	}
	pkgs, err := packages.Load(cfg, "./...")
	if err != nil {
		return nil, fmt.Errorf("packages.Load: %v", err)
	}
	if len(pkgs) == 0 {
		return nil, fmt.Errorf("no packages loaded from %s", repo)
	}
	var errs []string
	packages.Visit(pkgs, nil, func(p *packages.Package) {
		for _, e := range p.Errors {
			errs = append(errs, e.Error())
		}
	})
	if len(errs) > 0 {
		sort.Strings(errs)
		if len(errs) > 8 {
			errs = errs[:8]
		}
		return nil, fmt.Errorf("type-check/load errors: %s", strings.Join(errs, "; "))
	}
	p := &Prog{Repo: repo, Pkgs: map[string]*packages.Package{}, SSAPkgs: map[string]*ssa.Package{}, fnByKey: map[string]*ssa.Function{}}
	p.Fset = pkgs[0].Fset
	prog, spkgs := ssautil.AllPackages(pkgs, ssa.InstantiateGenerics)
	prog.Build()
	p.SSA = prog
	for i, pk := range pkgs {
		if !strings.HasPrefix(pk.PkgPath, modPath) {
			continue
		}
		if withTests && (strings.HasSuffix(pk.ID, ".test") || strings.Contains(pk.ID, "[")) {
			// test variants are loaded only to prove that the build is complete; rules run on the plain package
			if _, ok := p.Pkgs[pk.PkgPath]; ok {
				continue
			}
		}
		p.Pkgs[pk.PkgPath] = pk
		p.SSAPkgs[pk.PkgPath] = spkgs[i]
		p.NumFiles += len(pk.Syntax)
	}
	if len(p.Pkgs) == 0 {
		return nil, fmt.Errorf("no repository packages among %d loaded", len(pkgs))
	}
	// collect repo functions
	seen := map[*ssa.Function]bool{}
	var add func(f *ssa.Function)
	add = func(f *ssa.Function) {
		if f == nil || seen[f] {
			return
		}
		seen[f] = true
		if f.Blocks == nil {
			return
		}
		if !p.inRepoPos(f.Pos()) && f.Synthetic == "" {
			return
		}
		if f.Synthetic != "" {
			return
		}
		if strings.HasSuffix(p.Fset.Position(f.Pos()).Filename, "_test.go") {
			return
		}
		if f.Parent() == nil && len(SplicedHelpers) > 0 {
			if fd, ok := f.Syntax().(*ast.FuncDecl); ok {
				rel, _ := filepath.Rel(p.Repo, filepath.Dir(p.Fset.Position(f.Pos()).Filename))
				if SplicedHelpers[funcDeclKey(rel, fd)] {
					return // its body was spliced into every call site (normalize.go); the copy there is what is analysed
				}
			}
		}
		p.RepoFns = append(p.RepoFns, f)
		p.fnByKey[fnKey(f)] = f
		for _, a := range f.AnonFuncs {
			add(a)
		}
	}
	paths := make([]string, 0, len(p.SSAPkgs))
	for k := range p.SSAPkgs {
		paths = append(paths, k)
	}
	sort.Strings(paths)
	for _, path := range paths {
		sp := p.SSAPkgs[path]
		if sp == nil {
			continue
		}
		names := make([]string, 0, len(sp.Members))
		for n := range sp.Members {
			names = append(names, n)
		}
		sort.Strings(names)
		for _, n := range names {
			switch m := sp.Members[n].(type) {
			case *ssa.Function:
				add(m)
			case *ssa.Type:
				t := m.Type()
				for _, tt := range []types.Type{t, types.NewPointer(t)} {
					ms := prog.MethodSets.MethodSet(tt)
					for i := 0; i < ms.Len(); i++ {
						add(prog.MethodValue(ms.At(i)))
					}
				}
			}
		}
	}
	sort.Slice(p.RepoFns, func(i, j int) bool { return p.RepoFns[i].Pos() < p.RepoFns[j].Pos() })
	return p, nil
}

func (p *Prog) inRepoPos(pos token.Pos) bool {
	if !pos.IsValid() {
		return false
	}
	f := p.Fset.Position(pos).Filename
	rel, err := filepath.Rel(p.Repo, f)
	return err == nil && !strings.HasPrefix(rel, "..")
}

// fnKey is a stable, position-free name for a function: "pkg/collector.(*CollectingProcess).decodePacket",
// closures get "$1" suffixes as in go/ssa.
func fnKey(f *ssa.Function) string {
	s := f.String()
	s = strings.ReplaceAll(s, modPath+"/", "")
	return s
}

// Fn finds a function by key (see fnKey). Returns nil when absent.
func (p *Prog) Fn(key string) *ssa.Function { return p.fnByKey[key] }

func (p *Prog) pos(pos token.Pos) string {
	if !pos.IsValid() {
		return "?"
	}
	ps := p.Fset.Position(pos)
	rel, err := filepath.Rel(p.Repo, ps.Filename)
	if err != nil {
		rel = ps.Filename
	}
	return fmt.Sprintf("%s:%d", rel, ps.Line)
}

// instrPos returns the best available position of an instruction (falling back to operands / block
// neighbours: go/ssa leaves many instructions without a position).
func (p *Prog) instrPos(in ssa.Instruction) string {
	if in == nil {
		return "?"
	}
	if in.Pos().IsValid() {
		return p.pos(in.Pos())
	}
	if v, ok := in.(ssa.Value); ok {
		_ = v
	}
	b := in.Block()
	idx := -1
	for i, x := range b.Instrs {
		if x == in {
			idx = i
		}
	}
	for i := idx; i >= 0; i-- {
		if b.Instrs[i].Pos().IsValid() {
			return p.pos(b.Instrs[i].Pos())
		}
	}
	for i := idx + 1; i < len(b.Instrs) && i >= 0; i++ {
		if b.Instrs[i].Pos().IsValid() {
			return p.pos(b.Instrs[i].Pos())
		}
	}
	return p.pos(in.Parent().Pos())
}

// pkg returns the repo package with the given path relative to the module ("pkg/collector").
func (p *Prog) pkg(rel string) *packages.Package { return p.Pkgs[modPath+"/"+rel] }

// funcDecl returns the AST declaration of a package-level function or method ("recv" may be "").
func (p *Prog) funcDecl(pkgRel, recv, name string) (*ast.FuncDecl, *packages.Package) {
	pk := p.pkg(pkgRel)
	if pk == nil {
		return nil, nil
	}
	for _, f := range pk.Syntax {
		for _, d := range f.Decls {
			fd, ok := d.(*ast.FuncDecl)
			if !ok || fd.Name.Name != name {
				continue
			}
			r := ""
			if fd.Recv != nil && len(fd.Recv.List) > 0 {
				t := fd.Recv.List[0].Type
				if st, ok := t.(*ast.StarExpr); ok {
					t = st.X
				}
				if id, ok := t.(*ast.Ident); ok {
					r = id.Name
				}
			}
			if r == recv {
				return fd, pk
			}
		}
	}
	return nil, pk
}
