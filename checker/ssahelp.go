package main

import (
	"fmt"
	"go/constant"
	"go/token"
	"go/types"
	"strings"

	"golang.org/x/tools/go/ssa"
)

// ---------- naming ----------

// typeName returns "pkgpath.Name" for a (pointer to a) named type, with the module prefix stripped.
func typeName(t types.Type) string {
	if t == nil {
		return ""
	}
	if p, ok := t.Underlying().(*types.Pointer); ok {
		if _, isNamed := t.(*types.Named); !isNamed {
			t = p.Elem()
		}
	}
	if p, ok := t.(*types.Pointer); ok {
		t = p.Elem()
	}
	if a, ok := t.(*types.Alias); ok {
		t = types.Unalias(a)
	}
	n, ok := t.(*types.Named)
	if !ok {
		return t.String()
	}
	o := n.Obj()
	if o.Pkg() == nil {
		return o.Name()
	}
	return strings.TrimPrefix(o.Pkg().Path(), modPath+"/") + "." + o.Name()
}

// calleeName returns a canonical name of the called function:
//
//	static function        "encoding/binary.Write", "pkg/util.Decode"
//	static method          "(*bytes.Buffer).Next"  /  "(pkg/intermediate.TimeToExpirePriorityQueue).Len"
//	interface method       "iface:pkg/entities.Set.GetSetType"
//	builtin                "builtin:len"
//	dynamic function value "dynamic"
func calleeName(c *ssa.CallCommon) string {
	if c.IsInvoke() {
		return "iface:" + typeName(c.Value.Type()) + "." + c.Method.Name()
	}
	switch v := c.Value.(type) {
	case *ssa.Builtin:
		return "builtin:" + v.Name()
	case *ssa.Function:
		return funcName(v)
	case *ssa.MakeClosure:
		if f, ok := v.Fn.(*ssa.Function); ok {
			return funcName(f)
		}
	}
	return "dynamic"
}

func funcName(f *ssa.Function) string {
	if f == nil {
		return ""
	}
	if f.Signature.Recv() != nil && f.Object() != nil {
		rt := f.Signature.Recv().Type()
		star := ""
		if _, ok := rt.(*types.Pointer); ok {
			star = "*"
		}
		return "(" + star + typeName(rt) + ")." + f.Name()
	}
	if strings.HasSuffix(f.Name(), "$bound") && len(f.FreeVars) == 1 {
		rt := f.FreeVars[0].Type()
		star := ""
		if _, ok := rt.(*types.Pointer); ok {
			star = "*"
		}
		return "(" + star + typeName(rt) + ")." + strings.TrimSuffix(f.Name(), "$bound")
	}
	if f.Pkg != nil && f.Parent() == nil {
		return strings.TrimPrefix(f.Pkg.Pkg.Path(), modPath+"/") + "." + f.Name()
	}
	return fnKey(f)
}

// ---------- iteration ----------

func eachInstr(f *ssa.Function, fn func(ssa.Instruction)) {
	for _, b := range f.Blocks {
		for _, in := range b.Instrs {
			fn(in)
		}
	}
}

// callOf returns the CallCommon of a call/go/defer instruction.
func callOf(in ssa.Instruction) *ssa.CallCommon {
	switch c := in.(type) {
	case *ssa.Call:
		return &c.Call
	case *ssa.Go:
		return &c.Call
	case *ssa.Defer:
		return &c.Call
	}
	return nil
}

// callsTo lists the call instructions (Call, Defer, Go) in f whose callee name matches one of names.
func callsTo(f *ssa.Function, names ...string) []ssa.Instruction {
	var out []ssa.Instruction
	eachInstr(f, func(in ssa.Instruction) {
		if c := callOf(in); c != nil {
			n := calleeName(c)
			for _, w := range names {
				if n == w {
					out = append(out, in)
				}
			}
		}
	})
	return out
}

// withClosures returns f and all closures nested in it.
func withClosures(f *ssa.Function) []*ssa.Function {
	out := []*ssa.Function{f}
	for _, a := range f.AnonFuncs {
		out = append(out, withClosures(a)...)
	}
	return out
}

// ---------- values ----------

// stripConv removes value-preserving wrappers (ChangeType, Convert between same-size ints is kept!).
func stripChange(v ssa.Value) ssa.Value {
	for {
		switch x := v.(type) {
		case *ssa.ChangeType:
			v = x.X
		case *ssa.MakeInterface:
			v = x.X
		case *ssa.ChangeInterface:
			v = x.X
		default:
			return v
		}
	}
}

func constInt(v ssa.Value) (int64, bool) {
	v = stripChange(v)
	if cv, ok := v.(*ssa.Convert); ok {
		return constInt(cv.X)
	}
	if b, ok := v.(*ssa.BinOp); ok {
		// arithmetic on constants that go/ssa leaves unfolded ("start := HeaderLen; end := start + 4": start is a variable,
		// so start + 4 is not a constant expression of the language, but its value is known)
		x, okx := constInt(b.X)
		y, oky := constInt(b.Y)
		if okx && oky {
			switch b.Op {
			case token.ADD:
				return x + y, true
			case token.SUB:
				return x - y, true
			case token.MUL:
				return x * y, true
			}
		}
		return 0, false
	}
	c, ok := v.(*ssa.Const)
	if !ok || c.Value == nil {
		return 0, false
	}
	if c.Value.Kind() != constant.Int {
		return 0, false
	}
	i, ok := constant.Int64Val(c.Value)
	return i, ok
}

func constString(v ssa.Value) (string, bool) {
	v = stripChange(v)
	c, ok := v.(*ssa.Const)
	if !ok || c.Value == nil || c.Value.Kind() != constant.String {
		return "", false
	}
	return constant.StringVal(c.Value), true
}

// fieldOf: if v is FieldAddr/Field on struct type T (possibly via pointer), returns ("pkg.T", "field").
func fieldOf(v ssa.Value) (string, string, ssa.Value, bool) {
	switch x := v.(type) {
	case *ssa.FieldAddr:
		pt, ok := x.X.Type().Underlying().(*types.Pointer)
		if !ok {
			return "", "", nil, false
		}
		st, ok := pt.Elem().Underlying().(*types.Struct)
		if !ok {
			return "", "", nil, false
		}
		return typeName(pt.Elem()), st.Field(x.Field).Name(), x.X, true
	case *ssa.Field:
		st, ok := x.X.Type().Underlying().(*types.Struct)
		if !ok {
			return "", "", nil, false
		}
		return typeName(x.X.Type()), st.Field(x.Field).Name(), x.X, true
	}
	return "", "", nil, false
}

// loadedField: if v is a load (*FieldAddr) returns the field identity.
func loadedField(v ssa.Value) (string, string, ssa.Value, bool) {
	v = stripChange(v)
	if u, ok := v.(*ssa.UnOp); ok && u.Op == token.MUL {
		return fieldOf(u.X)
	}
	if f, ok := v.(*ssa.Field); ok {
		return fieldOf(f)
	}
	return "", "", nil, false
}

// refs returns the referrers of a value (nil-safe).
func refs(v ssa.Value) []ssa.Instruction {
	r := v.Referrers()
	if r == nil {
		return nil
	}
	return *r
}

// ---------- dominance / reachability at instruction granularity ----------

func instrIndex(in ssa.Instruction) int {
	for i, x := range in.Block().Instrs {
		if x == in {
			return i
		}
	}
	return -1
}

// dominates reports whether a is executed before b on every path reaching b (same function). In a function with
// thread blocks (a join that tests a value merged there, as left by a spliced helper that returns a status which the
// caller tests at once) the dominator tree is too coarse: "every path" means every FEASIBLE path, where a thread
// block is left through the successor its predecessor determines.
func dominates(a, b ssa.Instruction) bool {
	if a.Parent() != b.Parent() {
		return false
	}
	if a.Block() == b.Block() {
		return instrIndex(a) < instrIndex(b)
	}
	if a.Block().Dominates(b.Block()) {
		return true
	}
	if !funcHasThreads(a.Parent()) {
		return false
	}
	return !threadedReach(a.Parent(), b.Block(), a.Block(), nil, -1)
}

// edgeDominates: does taking the edge from the If terminating block `ifb` to its successor number succ
// (0 = true edge, 1 = false edge) lie on every (feasible) path to target?
func edgeDominates(ifb *ssa.BasicBlock, succ int, target *ssa.BasicBlock) bool {
	s := ifb.Succs[succ]
	if s == ifb.Succs[1-succ] {
		return false
	}
	// s must be entered only through this edge (or through blocks it dominates: loops back to s)
	plain := true
	for _, p := range s.Preds {
		if p != ifb && !s.Dominates(p) {
			plain = false
		}
	}
	if plain && (s == target || s.Dominates(target)) {
		return true
	}
	f := ifb.Parent()
	if plainGuards || !funcHasThreads(f) {
		return false
	}
	// feasible-path version: target is reachable, but not without taking this edge
	if !threadedReach(f, target, nil, nil, -1) {
		return false
	}
	return !threadedReach(f, target, nil, ifb, succ)
}

// threadCache: per function, whether it has thread blocks (reset for every program that is loaded: nothing of a
// previous variant may be retained).
var threadCache = map[*ssa.Function]bool{}

func resetThreadCache() { threadCache = map[*ssa.Function]bool{} }

func funcHasThreads(f *ssa.Function) bool {
	if v, ok := threadCache[f]; ok {
		return v
	}
	has := false
	for _, b := range f.Blocks {
		if !isThreadBlock(b) {
			continue
		}
		for _, p := range b.Preds {
			if len(feasibleSuccsNoFacts(p, b)) == 1 {
				has = true
			}
		}
	}
	threadCache[f] = has
	return has
}

// feasibleSuccsNoFacts: feasibleSuccs restricted to what the phi edge itself tells (constants, fresh values): used
// inside the dominance computation, which must not ask for dominance-based facts in turn.
var noFactsMode = false

func feasibleSuccsNoFacts(pred, b *ssa.BasicBlock) []int {
	old := noFactsMode
	noFactsMode = true
	defer func() { noFactsMode = old }()
	return feasibleSuccs(pred, b)
}

// threadedReach: can target be reached from the function's entry along feasible paths that avoid block `avoid`
// (nil: none) and do not take the edge cutBlk -> successor number cutSucc (cutBlk nil: none)?
func threadedReach(f *ssa.Function, target, avoid, cutBlk *ssa.BasicBlock, cutSucc int) bool {
	if len(f.Blocks) == 0 {
		return false
	}
	type vkey struct{ pred, b *ssa.BasicBlock }
	seen := map[vkey]bool{}
	var walk func(pred, b *ssa.BasicBlock) bool
	walk = func(pred, b *ssa.BasicBlock) bool {
		if b == avoid {
			return false
		}
		if b == target {
			return true
		}
		k := vkey{nil, b}
		if isThreadBlock(b) {
			k.pred = pred
		}
		if seen[k] {
			return false
		}
		seen[k] = true
		for _, si := range feasibleSuccsNoFacts(pred, b) {
			if b == cutBlk && si == cutSucc {
				continue
			}
			if walk(b, b.Succs[si]) {
				return true
			}
		}
		return false
	}
	return walk(nil, f.Blocks[0])
}

// pathQuery walks the instruction-level CFG from `from` (exclusive) and reports the first path that reaches a
// terminal without passing a discharge. stop(in) ends a path harmlessly (e.g. panic). Terminal kinds:
// function exit (Return / end of block with no successors) and, when loopHead != nil, re-entering loopHead.
type pathQuery struct {
	discharge func(ssa.Instruction) bool
	terminal  func(ssa.Instruction) bool                   // extra terminals besides function exits
	prune     func(from *ssa.BasicBlock, succIdx int) bool // true = do not follow this edge
	loopHead  *ssa.BasicBlock
	noExit    bool // function exits are not terminals
}

type pathStep struct {
	block int
	note  string
}

// find returns (path, true) if an undischarged path to a terminal exists.
func (q *pathQuery) find(from ssa.Instruction) ([]string, bool) {
	return q.findAt(from.Block(), instrIndex(from)+1)
}

// findFromBlock starts the walk at the first instruction of block b.
func (q *pathQuery) findFromBlock(b *ssa.BasicBlock) ([]string, bool) { return q.findAt(b, 0) }

func (q *pathQuery) findAt(b *ssa.BasicBlock, start int) ([]string, bool) {
	type vkey struct{ pred, b *ssa.BasicBlock }
	visited := map[vkey]bool{}
	var trail []string
	var walk func(pred, b *ssa.BasicBlock, idx int) bool
	walk = func(pred, b *ssa.BasicBlock, idx int) bool {
		trail = append(trail, fmt.Sprintf("b%d", b.Index))
		for i := idx; i < len(b.Instrs); i++ {
			in := b.Instrs[i]
			if q.discharge != nil && q.discharge(in) {
				trail = trail[:len(trail)-1]
				return false
			}
			if q.terminal != nil && q.terminal(in) {
				return true
			}
			switch in.(type) {
			case *ssa.Return:
				if !q.noExit {
					return true
				}
				trail = trail[:len(trail)-1]
				return false
			case *ssa.Panic:
				trail = trail[:len(trail)-1]
				return false
			}
		}
		for _, si := range feasibleSuccs(pred, b) {
			s := b.Succs[si]
			if q.prune != nil && q.prune(b, si) {
				continue
			}
			if q.loopHead != nil && s == q.loopHead {
				trail = append(trail, fmt.Sprintf("b%d(loop head)", s.Index))
				return true
			}
			k := vkey{nil, s}
			if isThreadBlock(s) {
				k.pred = b
			}
			if visited[k] {
				continue
			}
			visited[k] = true
			if walk(b, s, 0) {
				return true
			}
		}
		trail = trail[:len(trail)-1]
		return false
	}
	if walk(nil, b, start) {
		return trail, true
	}
	return nil, false
}

// ---------- branch threading ----------
//
// A block that tests a phi of its own (if r0 != nil, if !ok) takes a known successor for each predecessor whose phi edge
// is a constant or a value of known nil-ness. This is the shape that "a helper returns a status which the caller tests at
// once" has after the helper was spliced into its call site (normalize.go); following only the feasible successor keeps
// the path rules as precise on the spliced form as they were on the original, un-extracted code.

func isThreadBlock(b *ssa.BasicBlock) bool {
	i := ifOf(b)
	if i == nil {
		return false
	}
	return condUsesPhiOf(i.Cond, b, 0)
}

func condUsesPhiOf(c ssa.Value, b *ssa.BasicBlock, d int) bool {
	if d > 4 {
		return false
	}
	switch x := stripChange(c).(type) {
	case *ssa.Phi:
		return x.Block() == b
	case *ssa.UnOp:
		if x.Op == token.NOT {
			return condUsesPhiOf(x.X, b, d+1)
		}
	case *ssa.BinOp:
		return condUsesPhiOf(x.X, b, d+1) || condUsesPhiOf(x.Y, b, d+1)
	}
	return false
}

// feasibleSuccs lists the successor indexes of b that can be taken when b is entered from pred (nil: unknown).
func feasibleSuccs(pred, b *ssa.BasicBlock) []int {
	all := make([]int, len(b.Succs))
	for i := range all {
		all[i] = i
	}
	i := ifOf(b)
	if i == nil || pred == nil || len(b.Succs) != 2 {
		return all
	}
	if v, known := evalCondFrom(i.Cond, pred, b, 0); known {
		if v {
			return []int{0}
		}
		return []int{1}
	}
	return all
}

func phiEdgeFrom(ph *ssa.Phi, pred *ssa.BasicBlock) ssa.Value {
	for i, p := range ph.Block().Preds {
		if p == pred && i < len(ph.Edges) {
			return ph.Edges[i]
		}
	}
	return nil
}

func evalCondFrom(c ssa.Value, pred, b *ssa.BasicBlock, d int) (val, known bool) {
	if d > 5 {
		return false, false
	}
	switch x := c.(type) {
	case *ssa.Const:
		if x.Value != nil && x.Value.Kind() == constant.Bool {
			return constant.BoolVal(x.Value), true
		}
	case *ssa.UnOp:
		if x.Op == token.NOT {
			v, k := evalCondFrom(x.X, pred, b, d+1)
			return !v, k
		}
	case *ssa.Phi:
		if x.Block() == b {
			if e := phiEdgeFrom(x, pred); e != nil {
				if cst, ok := e.(*ssa.Const); ok && cst.Value != nil && cst.Value.Kind() == constant.Bool {
					return constant.BoolVal(cst.Value), true
				}
			}
		}
	case *ssa.BinOp:
		if x.Op != token.EQL && x.Op != token.NEQ {
			return false, false
		}
		for _, pair := range [][2]ssa.Value{{x.X, x.Y}, {x.Y, x.X}} {
			cst, ok := pair[1].(*ssa.Const)
			if !ok {
				continue
			}
			if cst.IsNil() {
				if isNil, k := nilnessFrom(pair[0], pred, b); k {
					return isNil == (x.Op == token.EQL), true
				}
				continue
			}
			// comparison of a phi of constants with a constant
			if ph, ok := stripChange(pair[0]).(*ssa.Phi); ok && ph.Block() == b {
				if e := phiEdgeFrom(ph, pred); e != nil {
					if ec, ok := e.(*ssa.Const); ok && ec.Value != nil && cst.Value != nil {
						eq := constant.Compare(ec.Value, token.EQL, cst.Value)
						return eq == (x.Op == token.EQL), true
					}
				}
			}
		}
	}
	return false, false
}

// nilnessFrom: is v nil when b is entered from pred? Only phis of b are resolved (through the edge of pred).
func nilnessFrom(v ssa.Value, pred, b *ssa.BasicBlock) (isNil, known bool) {
	v = stripChange(v)
	if ph, ok := v.(*ssa.Phi); ok && ph.Block() == b {
		e := phiEdgeFrom(ph, pred)
		if e == nil {
			return false, false
		}
		return nilnessAt(e, pred, b)
	}
	if c, ok := v.(*ssa.Const); ok {
		return c.IsNil(), true
	}
	return false, false
}

// nilnessAt: nil-ness of value e at the end of block blk on the edge to `to`.
func nilnessAt(e ssa.Value, blk, to *ssa.BasicBlock) (isNil, known bool) {
	for d := 0; d < 4; d++ {
		switch x := e.(type) {
		case *ssa.Const:
			return x.IsNil(), true
		case *ssa.MakeInterface, *ssa.Alloc, *ssa.MakeSlice, *ssa.MakeMap, *ssa.MakeChan, *ssa.MakeClosure:
			return false, true
		case *ssa.Call:
			n := calleeName(&x.Call)
			if n == "fmt.Errorf" || n == "errors.New" {
				return false, true
			}
		case *ssa.UnOp:
			if isSentinelError(x) {
				return false, true
			}
		case *ssa.TypeAssert:
			// an item taken from a container/heap queue: the queues of this repository only ever hold non-nil items
			// (every heap.Push is given a fresh allocation or an item that was popped: C06's rule R-HEAP.non-nil)
			if c, ok := x.X.(*ssa.Call); ok && !x.CommaOk && calleeName(&c.Call) == "container/heap.Pop" {
				return false, true
			}
		case *ssa.ChangeInterface:
			e = x.X
			continue
		}
		break
	}
	facts := edgeFacts
	if noFactsMode {
		facts = edgeFactsPlain // dominator-tree guards only: the threaded dominance is being computed right now
	}
	for _, f := range facts(blk, to) {
		if f.X == e {
			if c, ok := f.Y.(*ssa.Const); ok && c.IsNil() {
				if f.Op == token.NEQ {
					return false, true
				}
				if f.Op == token.EQL {
					return true, true
				}
			}
		}
	}
	return false, false
}

// describePath renders a block trail with source lines.
func (p *Prog) describePath(f *ssa.Function, trail []string) string {
	var parts []string
	for _, t := range trail {
		var idx int
		fmt.Sscanf(t, "b%d", &idx)
		line := ""
		if idx < len(f.Blocks) {
			for _, in := range f.Blocks[idx].Instrs {
				if in.Pos().IsValid() {
					line = p.pos(in.Pos())
					break
				}
			}
		}
		if line != "" {
			parts = append(parts, t+"@"+line)
		} else {
			parts = append(parts, t)
		}
	}
	return strings.Join(parts, " -> ")
}

// reachable reports whether instruction `to` can be reached from `from` (exclusive) without passing `avoid`.
func reachable(from, to ssa.Instruction, avoid func(ssa.Instruction) bool) bool {
	q := &pathQuery{discharge: avoid, terminal: func(in ssa.Instruction) bool { return in == to }, noExit: true}
	_, ok := q.find(from)
	return ok
}

// ---------- conditions ----------

// ifCond returns the If instruction ending block b (or nil).
func ifOf(b *ssa.BasicBlock) *ssa.If {
	if len(b.Instrs) == 0 {
		return nil
	}
	i, _ := b.Instrs[len(b.Instrs)-1].(*ssa.If)
	return i
}

// guardsOf returns the list of (If, succIndex) edges that dominate block b (innermost last).
type guard struct {
	If   *ssa.If
	Succ int // 0: condition true, 1: condition false
}

func guardsOf(b *ssa.BasicBlock) []guard {
	var out []guard
	f := b.Parent()
	for _, c := range f.Blocks {
		i := ifOf(c)
		if i == nil {
			continue
		}
		for s := 0; s < 2; s++ {
			if edgeDominates(c, s, b) {
				out = append(out, guard{i, s})
			}
		}
	}
	return out
}

// isErrNilTest recognises `err != nil` / `err == nil` on value v; returns (isNotEqual, ok).
func isNilCompare(cond ssa.Value, v ssa.Value) (bool, bool) {
	b, ok := cond.(*ssa.BinOp)
	if !ok || (b.Op != token.NEQ && b.Op != token.EQL) {
		return false, false
	}
	isNil := func(x ssa.Value) bool {
		c, ok := x.(*ssa.Const)
		return ok && c.IsNil()
	}
	if (b.X == v && isNil(b.Y)) || (b.Y == v && isNil(b.X)) {
		return b.Op == token.NEQ, true
	}
	return false, false
}

// extractOf returns the i-th result of a tuple-valued call (the Extract instructions referring to it).
func extractOf(call ssa.Value, idx int) []*ssa.Extract {
	var out []*ssa.Extract
	for _, r := range refs(call) {
		if e, ok := r.(*ssa.Extract); ok && e.Index == idx {
			out = append(out, e)
		}
	}
	return out
}

// errResultIndex returns the index of the last result if it is of type error, else -1.
func errResultIndex(sig *types.Signature) int {
	n := sig.Results().Len()
	if n == 0 {
		return -1
	}
	if types.Identical(sig.Results().At(n-1).Type(), types.Universe.Lookup("error").Type()) {
		return n - 1
	}
	return -1
}

// returnsNonNilError: does the Return instruction return a (syntactically) non-nil error in its last slot?
func returnsNonNilError(r *ssa.Return) bool {
	if len(r.Results) == 0 {
		return false
	}
	last := r.Results[len(r.Results)-1]
	if c, ok := last.(*ssa.Const); ok && c.IsNil() {
		return false
	}
	return types.Identical(last.Type(), types.Universe.Lookup("error").Type())
}

// ---------- relational facts on CFG edges ----------

type relFact struct {
	X  ssa.Value
	Op token.Token // one of LSS LEQ GTR GEQ EQL NEQ, already adjusted for the edge polarity
	Y  ssa.Value
}

func negateOp(op token.Token) token.Token {
	switch op {
	case token.LSS:
		return token.GEQ
	case token.LEQ:
		return token.GTR
	case token.GTR:
		return token.LEQ
	case token.GEQ:
		return token.LSS
	case token.EQL:
		return token.NEQ
	case token.NEQ:
		return token.EQL
	}
	return token.ILLEGAL
}

func flipOp(op token.Token) token.Token {
	switch op {
	case token.LSS:
		return token.GTR
	case token.LEQ:
		return token.GEQ
	case token.GTR:
		return token.LSS
	case token.GEQ:
		return token.LEQ
	}
	return op
}

func factOf(cond ssa.Value, polarity bool) (relFact, bool) {
	b, ok := cond.(*ssa.BinOp)
	if !ok {
		if u, ok := cond.(*ssa.UnOp); ok && u.Op == token.NOT {
			return factOf(u.X, !polarity)
		}
		return relFact{}, false
	}
	op := b.Op
	switch op {
	case token.LSS, token.LEQ, token.GTR, token.GEQ, token.EQL, token.NEQ:
	default:
		return relFact{}, false
	}
	if !polarity {
		op = negateOp(op)
	}
	return relFact{b.X, op, b.Y}, true
}

// edgeFacts returns the relational facts that hold when control flows along pred -> succ: the guards that dominate
// pred plus the branch taken at the end of pred.
func edgeFacts(pred, succ *ssa.BasicBlock) []relFact {
	return bothOrientations(edgeFacts1(pred, succ))
}

// bothOrientations adds "Y flip(op) X" for every "X op Y": a rule that looks for a fact about a value finds it whichever
// side of the comparison the source put it on.
func bothOrientations(fs []relFact) []relFact {
	out := make([]relFact, 0, 2*len(fs))
	for _, f := range fs {
		out = append(out, f)
		{
			out = append(out, relFact{f.Y, flipOp(f.Op), f.X})
		}
	}
	return out
}

// edgeFactsPlain: edgeFacts from the dominator tree alone (no feasible-path reasoning).
func edgeFactsPlain(pred, succ *ssa.BasicBlock) []relFact {
	old := plainGuards
	plainGuards = true
	defer func() { plainGuards = old }()
	return bothOrientations(edgeFacts1(pred, succ))
}

var plainGuards = false

func edgeFacts1(pred, succ *ssa.BasicBlock) []relFact {
	var out []relFact
	for _, g := range guardsOf(pred) {
		if f, ok := factOf(g.If.Cond, g.Succ == 0); ok {
			out = append(out, f)
		}
	}
	if i := ifOf(pred); i != nil && pred.Succs[0] != pred.Succs[1] {
		if pred.Succs[0] == succ {
			if f, ok := factOf(i.Cond, true); ok {
				out = append(out, f)
			}
		} else if pred.Succs[1] == succ {
			if f, ok := factOf(i.Cond, false); ok {
				out = append(out, f)
			}
		}
	}
	return out
}

// blockFacts: facts that hold on entry to block b (dominating guards).
func blockFacts(b *ssa.BasicBlock) []relFact {
	var out []relFact
	for _, g := range guardsOf(b) {
		if f, ok := factOf(g.If.Cond, g.Succ == 0); ok {
			out = append(out, f)
		}
	}
	return bothOrientations(out)
}

// retErrNil: does this Return return a nil error in its last result? (handles the defer-spilled named/unnamed
// result: "*t0 = v; rundefers; t = *t0; return t"). Second result is false when the function has no error result.
func retErrNil(r *ssa.Return) (isNil bool, hasErr bool) {
	if len(r.Results) == 0 {
		return false, false
	}
	last := r.Results[len(r.Results)-1]
	if !types.Identical(last.Type(), types.Universe.Lookup("error").Type()) {
		return false, false
	}
	if c, ok := last.(*ssa.Const); ok {
		return c.IsNil(), true
	}
	if u, ok := last.(*ssa.UnOp); ok && u.Op == token.MUL {
		if al, ok := u.X.(*ssa.Alloc); ok {
			b := r.Block()
			for i := len(b.Instrs) - 1; i >= 0; i-- {
				if st, ok := b.Instrs[i].(*ssa.Store); ok && st.Addr == al {
					if c, ok := st.Val.(*ssa.Const); ok {
						return c.IsNil(), true
					}
					return false, true
				}
			}
		}
	}
	return false, true
}

// isErrorReturn: Return that yields a non-nil error.
func isErrorReturn(in ssa.Instruction) bool {
	r, ok := in.(*ssa.Return)
	if !ok {
		return false
	}
	n, has := retErrNil(r)
	return has && !n
}

// rangeElem: if v is the element variable of `for _, v := range S` (a load of &S[k] with k the canonical range index of a
// loop bounded by len(S)), returns S.
func rangeElem(v ssa.Value) (ssa.Value, bool) {
	v = stripChange(v)
	var ia *ssa.IndexAddr
	switch x := v.(type) {
	case *ssa.UnOp:
		if x.Op != token.MUL {
			return nil, false
		}
		ia, _ = x.X.(*ssa.IndexAddr)
	case *ssa.Index:
		return nil, false
	}
	if ia == nil {
		return nil, false
	}
	if s, ok := indexLoopElem(ia); ok {
		return s, true
	}
	k, ok := ia.Index.(*ssa.BinOp)
	if !ok || k.Op != token.ADD {
		return nil, false
	}
	ph, ok := k.X.(*ssa.Phi)
	if !ok || ph.Comment != "rangeindex" {
		return nil, false
	}
	if c, ok := constInt(k.Y); !ok || c != 1 {
		return nil, false
	}
	// initial value -1 and loop condition k < len(S)
	init := false
	for _, e := range ph.Edges {
		if c, ok := constInt(e); ok && c == -1 {
			init = true
		}
	}
	if !init {
		return nil, false
	}
	i := ifOf(k.Block())
	if i == nil {
		return nil, false
	}
	cond, ok := i.Cond.(*ssa.BinOp)
	if !ok || cond.Op != token.LSS || cond.X != ssa.Value(k) {
		return nil, false
	}
	lc, ok := cond.Y.(*ssa.Call)
	if !ok {
		return nil, false
	}
	if b, ok := lc.Call.Value.(*ssa.Builtin); !ok || b.Name() != "len" || !sameValue(lc.Call.Args[0], ia.X) {
		return nil, false
	}
	return ia.X, true
}

// onlyErrorReturnsFrom: every path starting at block b reaches a Return with a non-nil error (no other exit, no way
// back into a loop: paths that reach any block in `stop` count as escaping).
func onlyErrorReturnsFrom(b *ssa.BasicBlock) bool {
	return onlyErrorReturnsFromEdge(nil, b)
}

// onlyErrorReturnsFromEdge is onlyErrorReturnsFrom for the edge pred -> b (branch threading applies).
func onlyErrorReturnsFromEdge(pred, b *ssa.BasicBlock) bool {
	type vkey struct{ pred, b *ssa.BasicBlock }
	seen := map[vkey]bool{}
	ok := true
	var walk func(pred, x *ssa.BasicBlock)
	walk = func(pred, x *ssa.BasicBlock) {
		k := vkey{nil, x}
		if isThreadBlock(x) {
			k.pred = pred
		}
		if seen[k] || !ok {
			return
		}
		seen[k] = true
		for _, in := range x.Instrs {
			if r, isR := in.(*ssa.Return); isR {
				if !isDefiniteErrorReturnFrom(r, pred) {
					ok = false
				}
				return
			}
			if _, isP := in.(*ssa.Panic); isP {
				return
			}
		}
		if len(x.Succs) == 0 {
			ok = false
		}
		for _, si := range feasibleSuccs(pred, x) {
			s := x.Succs[si]
			if s.Dominates(x) { // back edge: leaves the error path
				ok = false
				return
			}
			walk(x, s)
		}
	}
	walk(pred, b)
	return ok
}

// errEdgeReturns: the error value ev is tested against nil and its non-nil edge leads only to error returns.
func errEdgeReturns(ev ssa.Value) bool {
	for _, ref := range refs(ev) {
		b, ok := ref.(*ssa.BinOp)
		if !ok {
			continue
		}
		ne, ok := isNilCompare(b, ev)
		if !ok {
			continue
		}
		for _, r2 := range refs(b) {
			i, ok := r2.(*ssa.If)
			if !ok {
				continue
			}
			succ := 0
			if !ne {
				succ = 1
			}
			if onlyErrorReturnsFromEdge(i.Block(), i.Block().Succs[succ]) {
				return true
			}
		}
	}
	return false
}

// inLoop: can block b reach itself?
func inLoop(b *ssa.BasicBlock) bool {
	for _, s := range b.Succs {
		seen := map[*ssa.BasicBlock]bool{}
		var w func(x *ssa.BasicBlock) bool
		w = func(x *ssa.BasicBlock) bool {
			if x == b {
				return true
			}
			if seen[x] {
				return false
			}
			seen[x] = true
			for _, y := range x.Succs {
				if w(y) {
					return true
				}
			}
			return false
		}
		if w(s) {
			return true
		}
	}
	return false
}

// retResult returns the i-th returned value, looking through the defer spill ("*t0 = v; rundefers; t = *t0; return t").
func retResult(r *ssa.Return, i int) ssa.Value {
	if i >= len(r.Results) {
		return nil
	}
	v := r.Results[i]
	if u, ok := v.(*ssa.UnOp); ok && u.Op == token.MUL {
		if al, ok := u.X.(*ssa.Alloc); ok {
			b := r.Block()
			for k := len(b.Instrs) - 1; k >= 0; k-- {
				if st, ok := b.Instrs[k].(*ssa.Store); ok && st.Addr == ssa.Value(al) {
					return st.Val
				}
			}
		}
	}
	return v
}

// isDefiniteErrorReturn: the returned error is known to be non-nil: a fresh fmt.Errorf/errors.New value, or a value that
// the dominating branch conditions prove non-nil. ("return f()" or "return x, err" without such a proof may return nil.)
func isDefiniteErrorReturn(r *ssa.Return) bool { return isDefiniteErrorReturnFrom(r, nil) }

// isDefiniteErrorReturnFrom: like isDefiniteErrorReturn, for the path that entered the return's block from pred (a phi
// of that block is resolved through the edge of pred).
func isDefiniteErrorReturnFrom(r *ssa.Return, pred *ssa.BasicBlock) bool {
	if len(r.Results) == 0 {
		return false
	}
	if pred != nil {
		i := len(r.Results) - 1
		if ph, ok := stripChange(retResult(r, i)).(*ssa.Phi); ok && ph.Block() == r.Block() {
			if isNil, known := nilnessFrom(ph, pred, r.Block()); known {
				return !isNil
			}
		}
	}
	i := len(r.Results) - 1
	if !types.Identical(r.Results[i].Type(), types.Universe.Lookup("error").Type()) {
		return false
	}
	v := retResult(r, i)
	for d := 0; d < 4; d++ {
		switch x := v.(type) {
		case *ssa.Const:
			return false
		case *ssa.Call:
			n := calleeName(&x.Call)
			if n == "fmt.Errorf" || n == "errors.New" {
				return true
			}
		case *ssa.MakeInterface:
			return true // a concrete error value boxed into the interface
		case *ssa.UnOp:
			if isSentinelError(x) {
				return true
			}
		case *ssa.ChangeInterface:
			v = x.X
			continue
		}
		break
	}
	for _, f := range blockFacts(r.Block()) {
		if f.X == v && f.Op == token.NEQ {
			if c, ok := f.Y.(*ssa.Const); ok && c.IsNil() {
				return true
			}
		}
	}
	// the store that feeds a defer-spilled result may sit under the fact
	return false
}

// indexLoopElem: ia is &S[i] where i is the counter of `for i := 0; i < len(S); i++` (0 on entry, i+1 on every back edge,
// tested against len(S) - taken directly or through a local - in the loop head): the same visit of every element in order
// as `for _, e := range S`.
func indexLoopElem(ia *ssa.IndexAddr) (ssa.Value, bool) {
	ph, ok := ia.Index.(*ssa.Phi)
	if !ok {
		return nil, false
	}
	hb := ph.Block()
	for i, e := range ph.Edges {
		pred := hb.Preds[i]
		if hb.Dominates(pred) { // back edge
			b, ok := e.(*ssa.BinOp)
			if !ok || b.Op != token.ADD || b.X != ssa.Value(ph) {
				return nil, false
			}
			if c, ok := constInt(b.Y); !ok || c != 1 {
				return nil, false
			}
		} else if c, ok := constInt(e); !ok || c != 0 {
			return nil, false
		}
	}
	i := ifOf(hb)
	if i == nil {
		return nil, false
	}
	cond, ok := i.Cond.(*ssa.BinOp)
	if !ok {
		return nil, false
	}
	var bound ssa.Value
	switch {
	case cond.Op == token.LSS && cond.X == ssa.Value(ph):
		bound = cond.Y
	case cond.Op == token.GTR && cond.Y == ssa.Value(ph):
		bound = cond.X
	default:
		return nil, false
	}
	if cv, ok := bound.(*ssa.Convert); ok {
		bound = cv.X
	}
	lc, ok := bound.(*ssa.Call)
	if !ok {
		return nil, false
	}
	if b, ok := lc.Call.Value.(*ssa.Builtin); !ok || b.Name() != "len" || !sameValue(lc.Call.Args[0], ia.X) {
		return nil, false
	}
	// the element is used in the body (the true edge of the test)
	if !edgeDominates(hb, 0, ia.Block()) && ia.Block() != hb.Succs[0] {
		return nil, false
	}
	return ia.X, true
}

// rangeLoopCounter: ph is the counter of a range loop (init -1, +1 before the test) or of an index loop (init 0, +1 on the
// back edge): every edge is a small constant or ph + 1.
func rangeLoopCounter(ph *ssa.Phi) (ssa.Value, bool) {
	if ph.Comment == "rangeindex" {
		return ph, true
	}
	inc := false
	for _, e := range ph.Edges {
		if c, ok := constInt(e); ok && (c == 0 || c == -1) {
			continue
		}
		b, ok := e.(*ssa.BinOp)
		if !ok || b.Op != token.ADD || b.X != ssa.Value(ph) {
			return nil, false
		}
		if c, ok := constInt(b.Y); !ok || c != 1 {
			return nil, false
		}
		inc = true
	}
	return ph, inc
}

// sameValue: a and b denote the same value: identical, or (go/ssa performs no CSE) two loads of the same location
// (field of the same base, element of the same slice at the same index, same global), or equal constants, or the same
// pure builtin (len, cap) of the same value. Intervening stores are not considered: the helper is used for repeated
// sub-expressions inside one loop iteration / one straight-line region.
func sameValue(a, b ssa.Value) bool {
	return sameValueD(a, b, 0)
}

func sameValueD(a, b ssa.Value, d int) bool {
	a, b = stripChange(a), stripChange(b)
	if a == b {
		return true
	}
	if a == nil || b == nil || d > 6 {
		return false
	}
	switch x := a.(type) {
	case *ssa.Const:
		y, ok := b.(*ssa.Const)
		if !ok {
			return false
		}
		if x.Value == nil || y.Value == nil {
			return x.Value == nil && y.Value == nil && types.Identical(x.Type(), y.Type())
		}
		return constant.Compare(x.Value, token.EQL, y.Value)
	case *ssa.UnOp:
		y, ok := b.(*ssa.UnOp)
		if !ok || x.Op != y.Op {
			return false
		}
		if x.Op == token.MUL {
			return sameAddr(x.X, y.X, d+1)
		}
		return sameValueD(x.X, y.X, d+1)
	case *ssa.Convert:
		y, ok := b.(*ssa.Convert)
		return ok && types.Identical(x.Type(), y.Type()) && sameValueD(x.X, y.X, d+1)
	case *ssa.FieldAddr, *ssa.IndexAddr:
		return sameAddr(a, b, d+1)
	case *ssa.Call:
		y, ok := b.(*ssa.Call)
		if !ok {
			return false
		}
		bx, ok1 := x.Call.Value.(*ssa.Builtin)
		by, ok2 := y.Call.Value.(*ssa.Builtin)
		if ok1 && ok2 && bx.Name() == by.Name() && (bx.Name() == "len" || bx.Name() == "cap") && len(x.Call.Args) == 1 && len(y.Call.Args) == 1 {
			return sameValueD(x.Call.Args[0], y.Call.Args[0], d+1)
		}
	}
	return false
}

func sameAddr(a, b ssa.Value, d int) bool {
	if a == b {
		return true
	}
	switch x := a.(type) {
	case *ssa.FieldAddr:
		y, ok := b.(*ssa.FieldAddr)
		return ok && x.Field == y.Field && types.Identical(x.X.Type(), y.X.Type()) && sameValueD(x.X, y.X, d+1)
	case *ssa.IndexAddr:
		y, ok := b.(*ssa.IndexAddr)
		return ok && sameValueD(x.X, y.X, d+1) && sameValueD(x.Index, y.Index, d+1)
	case *ssa.Global:
		return a == b
	}
	return false
}

// cmpForm is one way of reading a branch condition: "X Op Y holds on successor Succ".
type cmpForm struct {
	X, Y ssa.Value
	Op   token.Token
	Succ int
}

// cmpForms lists every equivalent reading of a relational branch condition: both operand orders and both polarities
// (a != b on the true edge is a == b on the false edge), through leading negations. A rule states the relation it needs
// in one canonical orientation and finds it whichever way the source spells it.
func cmpForms(cond ssa.Value) []cmpForm {
	succT, succF := 0, 1
	for {
		u, ok := cond.(*ssa.UnOp)
		if !ok || u.Op != token.NOT {
			break
		}
		cond = u.X
		succT, succF = succF, succT
	}
	b, ok := cond.(*ssa.BinOp)
	if !ok {
		return nil
	}
	switch b.Op {
	case token.LSS, token.LEQ, token.GTR, token.GEQ, token.EQL, token.NEQ:
	default:
		return nil
	}
	return []cmpForm{
		{b.X, b.Y, b.Op, succT},
		{b.Y, b.X, flipOp(b.Op), succT},
		{b.X, b.Y, negateOp(b.Op), succF},
		{b.Y, b.X, flipOp(negateOp(b.Op)), succF},
	}
}

// backwardSlice: the values v is computed from inside its function: operands, call arguments and receivers, and - for
// objects allocated here - what is stored into them and what the calls that receive them are given besides. Phis are
// followed; the walk stops at parameters, globals and constants (which are part of the result).
func backwardSlice(v ssa.Value, limit int) []ssa.Value {
	seen := map[ssa.Value]bool{}
	var out []ssa.Value
	var work []ssa.Value
	push := func(x ssa.Value) {
		if x == nil || seen[x] || len(seen) >= limit {
			return
		}
		seen[x] = true
		out = append(out, x)
		work = append(work, x)
	}
	push(v)
	for len(work) > 0 {
		x := work[len(work)-1]
		work = work[:len(work)-1]
		in, ok := x.(ssa.Instruction)
		if !ok {
			continue
		}
		for _, op := range in.Operands(nil) {
			if op != nil && *op != nil {
				push(*op)
			}
		}
		if al, ok := x.(*ssa.Alloc); ok {
			// the object's contents: stores into it (directly or through field / element addresses), calls that get it
			var addrs []ssa.Value = []ssa.Value{al}
			for i := 0; i < len(addrs) && i < 64; i++ {
				for _, ref := range refs(addrs[i]) {
					switch y := ref.(type) {
					case *ssa.FieldAddr:
						addrs = append(addrs, y)
					case *ssa.IndexAddr:
						addrs = append(addrs, y)
					case *ssa.Store:
						if y.Addr == addrs[i] {
							push(y.Val)
						}
					case *ssa.Call:
						for _, a := range y.Call.Args {
							push(a)
						}
					}
				}
			}
		}
	}
	return out
}

// sliceRoot strips re-slicing and phis with a single distinct source: the object a slice value is a window of.
func sliceRoot(v ssa.Value) ssa.Value {
	for i := 0; i < 8; i++ {
		v = stripChange(v)
		switch x := v.(type) {
		case *ssa.Slice:
			v = x.X
			continue
		case *ssa.Phi:
			var only ssa.Value
			same := true
			for _, e := range x.Edges {
				r := sliceRoot(e)
				if only == nil {
					only = r
				} else if only != r {
					same = false
				}
			}
			if same && only != nil {
				return only
			}
		}
		break
	}
	return v
}

// reachableBlockEdgeFree: block to can be reached from block from (or is the same block).
func reachableBlockEdgeFree(from, to *ssa.BasicBlock) bool {
	return from == to || reachableBlock(from, to)
}

// phiLeaves expands phis (to the given depth): the values that can flow into v.
func phiLeaves(v ssa.Value, depth int) []ssa.Value {
	seen := map[ssa.Value]bool{}
	var out []ssa.Value
	var walk func(x ssa.Value, d int)
	walk = func(x ssa.Value, d int) {
		if seen[x] {
			return
		}
		seen[x] = true
		if ph, ok := x.(*ssa.Phi); ok && d > 0 {
			for _, e := range ph.Edges {
				walk(e, d-1)
			}
			return
		}
		out = append(out, x)
	}
	walk(v, depth)
	return out
}

// valueLeaf: one value that can flow into a use, with the relational facts that hold on that way in.
type valueLeaf struct {
	V     ssa.Value
	Facts []relFact
}

// valueLeaves expands phis: each edge value with the facts of its edge (guards dominating the predecessor plus the
// branch taken at its end), together with the facts of the use's own block.
func valueLeaves(v ssa.Value, at *ssa.BasicBlock, depth int) []valueLeaf {
	var out []valueLeaf
	var walk func(x ssa.Value, facts []relFact, d int)
	walk = func(x ssa.Value, facts []relFact, d int) {
		if ph, ok := x.(*ssa.Phi); ok && d > 0 {
			for i, e := range ph.Edges {
				pred := ph.Block().Preds[i]
				f2 := append(append([]relFact{}, facts...), edgeFacts(pred, ph.Block())...)
				walk(e, f2, d-1)
			}
			return
		}
		out = append(out, valueLeaf{x, facts})
	}
	walk(v, blockFacts(at), depth)
	return out
}

// guardsOfInter: guardsOf(b), plus - when b's function is a literal applied in place (the form a helper with deferred
// calls has after it was spliced back) - the guards of its call site in the enclosing function, and so on outwards.
func guardsOfInter(b *ssa.BasicBlock) []guard {
	out := guardsOf(b)
	fn := b.Parent()
	for d := 0; d < 4 && fn != nil && fn.Parent() != nil && appliedInPlace(fn); d++ {
		par := fn.Parent()
		var site *ssa.BasicBlock
		eachInstr(par, func(in ssa.Instruction) {
			c, ok := in.(*ssa.Call)
			if !ok {
				return
			}
			if c.Call.Value == ssa.Value(fn) {
				site = in.Block()
			}
			if mc, ok := c.Call.Value.(*ssa.MakeClosure); ok && mc.Fn == ssa.Value(fn) {
				site = in.Block()
			}
		})
		if site == nil {
			break
		}
		out = append(out, guardsOf(site)...)
		fn = par
	}
	return out
}

// timeLess reads a call of (time.Time).Before / After as "early is before late": x.Before(y) and y.After(x) are one
// comparison. ok is false for any other call.
func timeLess(c *ssa.Call) (early, late ssa.Value, ok bool) {
	if c == nil || len(c.Call.Args) != 2 {
		return nil, nil, false
	}
	switch calleeName(&c.Call) {
	case "(time.Time).Before":
		return c.Call.Args[0], c.Call.Args[1], true
	case "(time.Time).After":
		return c.Call.Args[1], c.Call.Args[0], true
	}
	return nil, nil, false
}

// storedIntoField: v is (also) the value of a store into field T.f.
func storedIntoField(v ssa.Value, tname, fname string) bool {
	for _, ref := range refs(v) {
		if st, ok := ref.(*ssa.Store); ok && st.Val == v {
			if tn, fn, _, ok := fieldOf(st.Addr); ok && tn == tname && fn == fname {
				return true
			}
		}
	}
	return false
}

// isSentinelError: a load of a package-level variable of the repository that is assigned exactly once, in the package
// initialiser, with errors.New / fmt.Errorf (var errX = errors.New("...")): never nil.
func isSentinelError(u *ssa.UnOp) bool {
	if u.Op != token.MUL {
		return false
	}
	g, ok := u.X.(*ssa.Global)
	if !ok || g.Pkg == nil {
		return false
	}
	n, good := 0, false
	for _, m := range g.Pkg.Members {
		fn, ok := m.(*ssa.Function)
		if !ok {
			continue
		}
		for _, f := range withClosures(fn) {
			eachInstr(f, func(in ssa.Instruction) {
				st, ok := in.(*ssa.Store)
				if !ok || st.Addr != ssa.Value(g) {
					return
				}
				n++
				v := st.Val
				if mi, ok := v.(*ssa.MakeInterface); ok {
					v = mi.X
				}
				if c, ok := st.Val.(*ssa.Call); ok && f.Name() == "init" {
					cn := calleeName(&c.Call)
					good = cn == "errors.New" || cn == "fmt.Errorf"
				}
				_ = v
			})
		}
	}
	return n == 1 && good
}

// singleStoreValue: the value of the only store into a local cell (a variable captured by a closure), nil if the cell is
// stored more than once or written by a closure.
func singleStoreValue(al *ssa.Alloc) ssa.Value {
	var val ssa.Value
	n := 0
	for _, ref := range refs(al) {
		switch x := ref.(type) {
		case *ssa.Store:
			if x.Addr == ssa.Value(al) {
				n++
				val = x.Val
			}
		case *ssa.MakeClosure:
			fn, _ := x.Fn.(*ssa.Function)
			for i, b := range x.Bindings {
				if b == ssa.Value(al) && fn != nil && i < len(fn.FreeVars) {
					for _, r2 := range refs(fn.FreeVars[i]) {
						if st, ok := r2.(*ssa.Store); ok && st.Addr == ssa.Value(fn.FreeVars[i]) {
							n += 2
						}
					}
				}
			}
		}
	}
	if n == 1 {
		return val
	}
	return nil
}
