package main

import (
	"fmt"
	"go/token"
	"sort"
	"strings"

	"golang.org/x/tools/go/ssa"
)

func init() {
	register(&propDef{
		ID:          "C16",
		Explanation: "Ownership, pairing and reset rules for the set / record builders (encoding side: isDecoding == false), decided on SSA: (1) set.length is written only by the constructor (= SetHeaderLen), by ResetSet (= SetHeaderLen) and, in the two add functions, as length + record.GetRecordLength() paired one-to-one with append(s.records, sameRecord): on every path either both happen or neither (an error exit between them leaves a record that is not counted); GetSetLength returns that field; (2) R-RESET: every field of the set that any builder method writes (headerBuffer incl. its bytes, setType, records, length) is re-initialised by ResetSet, and the re-initialised values of headerBuffer / length / records equal the constructor's; (3) add-path equivalence: AddRecord is AddRecordWithExtraElements(elements, 0, templateID); the copying path adds every element of the slice in order through Record.AddInfoElement (which appends at fieldCount, increments it and adds GetLength()), the adopting path sets fieldCount = len(elements), adopts the slice and sums GetLength(); both template paths call the single addInfoElement primitive once per element in order and PrepareRecord exactly once; templateRecord.GetRecordLength() == len(buffer), dataRecord.GetRecordLength() == the accumulated len; (4) the record buffer and length accounting rules of C15 and the message assembly of C02 are imported. The copying add path executes AddInfoElement on every iteration (the call dominates every back edge); adopting constructors are reachable from the V2 API only. Not decided: byte identity for concrete element lists (implied by shared primitives, not computed); stale cached buffers after callers mutate element values (caller contract). Later additions: records of the copying path are constructed for len(elements) fields; nil is returned by an add function only after the append; the whole element list is serialized into make(d.len); template elements are empty. Round-five additions: PrepareRecord does not cut the record buffer back; the cached record buffer is reused only when its length equals the accounted length. Round-seven addition: the buffer PrepareRecord stores back is always rooted in the buffer so far (a fresh slice discards the constructor's specifiers).",
		Assume:      []string{"rules are evaluated for encoding builders; decoding sets deliberately start at length 0 and ResetSet leaves their length alone"},
		Run:         runC16,
	})
}

func isSetField(v ssa.Value, field string) bool {
	tn, fn, _, ok := fieldOf(v)
	return ok && tn == "pkg/entities.set" && fn == field
}

// checkSetLengthBookkeeping is also imported by C02.
func checkSetLengthBookkeeping(p *Prog, r *Report, rule string) {
	hdrLen, _ := pkgConst(p, modPath+"/pkg/entities", "SetHeaderLen")
	writers := map[string][]*ssa.Store{}
	for _, f := range p.RepoFns {
		if !keyInPkg(fnKey(f), "pkg/entities") {
			continue
		}
		eachInstr(f, func(in ssa.Instruction) {
			if st, ok := in.(*ssa.Store); ok && isSetField(st.Addr, "length") {
				writers[fnKey(f)] = append(writers[fnKey(f)], st)
			}
		})
	}
	keys := make([]string, 0, len(writers))
	for k := range writers {
		keys = append(keys, k)
	}
	sort.Strings(keys)
	nAdd := 0
	for _, k := range keys {
		f := p.Fn(k)
		for _, st := range writers[k] {
			if v, ok := constInt(st.Val); ok {
				r.Check(v == hdrLen && (f.Name() == "NewSet" || f.Name() == "ResetSet"), rule, k+": length := constant", p.instrPos(st), "SetHeaderLen in the constructor / reset",
					fmt.Sprintf("set.length is set to the constant %d in %s (only NewSet/ResetSet may set it, to SetHeaderLen=%d)", v, k, hdrLen), true)
				continue
			}
			// length = length + record.GetRecordLength()
			b, ok := st.Val.(*ssa.BinOp)
			var rec ssa.Value
			okSum := false
			if ok && b.Op == token.ADD {
				for _, pair := range [][2]ssa.Value{{b.X, b.Y}, {b.Y, b.X}} {
					if isFieldLoad(pair[0], "pkg/entities.set.length") {
						if c, ok := pair[1].(*ssa.Call); ok && calleeName(&c.Call) == "iface:pkg/entities.Record.GetRecordLength" {
							rec, okSum = c.Call.Value, true
						}
					}
				}
			}
			if !okSum {
				r.Violation(rule, k+": length update", p.instrPos(st), "set.length is updated by something other than '+= record.GetRecordLength()': the set length no longer equals 4 + the sum of its records' lengths")
				continue
			}
			nAdd++
			// the same record is appended to s.records, and append and length update are paired on all paths
			var app *ssa.Store
			eachInstr(f, func(in ssa.Instruction) {
				s2, ok := in.(*ssa.Store)
				if !ok || !isSetField(s2.Addr, "records") {
					return
				}
				if c, ok := s2.Val.(*ssa.Call); ok {
					if bi, ok := c.Call.Value.(*ssa.Builtin); ok && bi.Name() == "append" && appendsValue(c, rec) {
						app = s2
					}
				}
			})
			if app == nil {
				r.Violation(rule, k+": length update paired with append of the same record", p.instrPos(st), "the record whose length is added is not the one appended to s.records")
				continue
			}
			first, second := ssa.Instruction(app), ssa.Instruction(st)
			if dominates(st, app) {
				first, second = st, app
			}
			q := &pathQuery{discharge: func(in ssa.Instruction) bool { return in == second }}
			trail, bad := q.find(first)
			okDom := dominates(first, second)
			// success means added: every nil return of the add function is dominated by the append. An early `return nil` (for an
			// empty element list, say) reports success for a record that is not in the set - the other add paths do add it
			nSucc, okSucc := 0, true
			eachInstr(f, func(in ssa.Instruction) {
				rt, ok := in.(*ssa.Return)
				if !ok {
					return
				}
				if isNil, has := retErrNil(rt); has && isNil {
					nSucc++
					if !dominates(app, in) {
						okSucc = false
					}
				}
			})
			r.Check(nSucc > 0 && okSucc, rule, k+": success is returned only after the record was appended", p.instrPos(app), "every nil return is dominated by append(s.records, record)",
				"the add function can return nil without having appended a record: for that input the add paths disagree on bytes, set length and number of records", true)
			r.Check(!bad && okDom, rule, k+": length update paired with append of the same record", p.instrPos(st), "append(s.records, record) and length += record.GetRecordLength() happen together on every path",
				"a path exists on which the record is appended but its length is not added (or vice versa), e.g. an error exit in between: GetSetLength() != 4 + sum of record lengths; path "+p.describePath(f, trail), true)
		}
	}
	if nAdd < 2 {
		r.Undecided(rule, "anchor: 'length += record.GetRecordLength()' in the add functions", "pkg/entities/set.go", fmt.Sprintf("found %d, expected both add paths", nAdd))
	}
	if f := p.Fn("(*pkg/entities.set).GetSetLength"); f != nil {
		ok := false
		eachInstr(f, func(in ssa.Instruction) {
			if rt, isR := in.(*ssa.Return); isR && len(rt.Results) == 1 && isFieldLoad(rt.Results[0], "pkg/entities.set.length") {
				ok = true
			}
		})
		r.Check(ok, rule, fnKey(f)+": returns the length field", p.pos(f.Pos()), "return s.length", "GetSetLength does not return the maintained length", false)
	}
}

// appendsValue: append(x, <slice literal containing v>...)
func appendsValue(c *ssa.Call, v ssa.Value) bool {
	if len(c.Call.Args) != 2 {
		return false
	}
	sl, ok := c.Call.Args[1].(*ssa.Slice)
	if !ok {
		return false
	}
	al, ok := sl.X.(*ssa.Alloc)
	if !ok {
		return false
	}
	for _, ref := range refs(al) {
		if ia, ok := ref.(*ssa.IndexAddr); ok {
			for _, r2 := range refs(ia) {
				if st, ok := r2.(*ssa.Store); ok && st.Val == v {
					return true
				}
			}
		}
	}
	return false
}

func runC16(p *Prog, r *Report, tier string) {
	checkSetLengthBookkeeping(p, r, "R-PAIR.set-length")
	checkPrepareKeepsBody(p, r, "R-PAIR.prepare-keeps-body")

	// (2) reset completeness
	written := map[string]string{} // field -> a method that writes it
	for _, f := range p.RepoFns {
		k := fnKey(f)
		if !strings.HasPrefix(k, "(*pkg/entities.set).") || f.Name() == "ResetSet" {
			continue
		}
		eachInstr(f, func(in ssa.Instruction) {
			switch x := in.(type) {
			case *ssa.Store:
				if tn, fn, _, ok := fieldOf(x.Addr); ok && tn == "pkg/entities.set" {
					written[fn] = k
				}
			case *ssa.Call:
				// bytes written into a field-held buffer
				for _, ps := range putSites(f) {
					if ps.In == x && strings.HasPrefix(ps.Base, "pkg/entities.set.") {
						written[strings.TrimPrefix(ps.Base, "pkg/entities.set.")] = k
					}
				}
			}
		})
	}
	rs := p.Fn("(*pkg/entities.set).ResetSet")
	ns := p.Fn("pkg/entities.NewSet")
	if rs == nil || ns == nil {
		r.Undecided("R-RESET", "anchor: ResetSet / NewSet", "pkg/entities/set.go", "not found")
	} else {
		resetVals := map[string][]ssa.Value{}
		eachInstr(rs, func(in ssa.Instruction) {
			if st, ok := in.(*ssa.Store); ok {
				if tn, fn, _, ok := fieldOf(st.Addr); ok && tn == "pkg/entities.set" {
					resetVals[fn] = append(resetVals[fn], st.Val)
				}
			}
		})
		fields := make([]string, 0, len(written))
		for f := range written {
			fields = append(fields, f)
		}
		sort.Strings(fields)
		for _, fld := range fields {
			_, ok := resetVals[fld]
			r.Check(ok, "R-RESET", "(*pkg/entities.set).ResetSet: re-initialises "+fld, p.pos(rs.Pos()), "written by "+written[fld]+", reset by ResetSet",
				"field "+fld+" is modified by "+written[fld]+" but not re-initialised by ResetSet: a reused set carries state of its previous use", true)
		}
		// values equal the encoding constructor's
		ctorVals := map[string]ssa.Value{}
		eachInstr(ns, func(in ssa.Instruction) {
			if st, ok := in.(*ssa.Store); ok {
				if tn, fn, _, ok := fieldOf(st.Addr); ok && tn == "pkg/entities.set" {
					// the encoding literal is the one that has headerBuffer
					if _, isAlloc := st.Addr.(*ssa.FieldAddr).X.(*ssa.Alloc); isAlloc {
						if allocHasField(st.Addr.(*ssa.FieldAddr).X.(*ssa.Alloc), "headerBuffer") {
							ctorVals[fn] = st.Val
						}
					}
				}
			}
		})
		for _, fld := range []string{"headerBuffer", "length", "records"} {
			cv, ok1 := ctorVals[fld]
			rv := resetVals[fld]
			same := false
			if ok1 {
				for _, v := range rv {
					if normVal(v) == normVal(cv) && normVal(cv) != "?" {
						same = true
					}
				}
			}
			r.Check(same, "R-RESET.value", "(*pkg/entities.set).ResetSet: "+fld+" reset to the constructor's value", p.pos(rs.Pos()), normVal(cv),
				fmt.Sprintf("ResetSet stores %v into %s, NewSet(false) stores %s: a reset set does not behave like a new one", normVals(rv), fld, normVal(cv)), true)
		}
	}

	checkResetOnAllPaths(p, r, "R-RESET.all-paths", []string{"headerBuffer", "length", "records", "setType"})
	// (3) add-path equivalence
	ar := p.Fn("(*pkg/entities.set).AddRecord")
	are := p.Fn("(*pkg/entities.set).AddRecordWithExtraElements")
	av2 := p.Fn("(*pkg/entities.set).AddRecordV2")
	if ar == nil || are == nil || av2 == nil {
		r.Undecided("R-EQUIV", "anchor: AddRecord / AddRecordWithExtraElements / AddRecordV2", "pkg/entities/set.go", "not found")
		return
	}
	okDel := false
	eachInstr(ar, func(in ssa.Instruction) {
		if c, ok := in.(*ssa.Call); ok && c.Call.StaticCallee() == are && len(c.Call.Args) == 4 {
			z, isZ := constInt(c.Call.Args[2])
			if c.Call.Args[0] == ssa.Value(ar.Params[0]) && c.Call.Args[1] == ssa.Value(ar.Params[1]) && isZ && z == 0 && c.Call.Args[3] == ssa.Value(ar.Params[2]) {
				for _, ref := range refs(c) {
					if _, ok := ref.(*ssa.Return); ok {
						okDel = true
					}
				}
			}
		}
	})
	nInstr := 0
	eachInstr(ar, func(in ssa.Instruction) {
		if c := callOf(in); c != nil {
			nInstr++
		}
	})
	r.Check(okDel && nInstr == 1, "R-EQUIV.delegate", fnKey(ar)+": delegates to AddRecordWithExtraElements(elements, 0, templateID)", p.pos(ar.Pos()), "pure delegation", "AddRecord is not a pure delegation with 0 extra elements", true)
	// copying path: every element added in order
	okLoop := false
	eachInstr(are, func(in ssa.Instruction) {
		c := callOf(in)
		if c == nil || !c.IsInvoke() || c.Method.Name() != "AddInfoElement" {
			return
		}
		if sl, ok := rangeElemIndex(c.Args[0]); ok && sl == ssa.Value(are.Params[1]) {
			if cc, ok := in.(*ssa.Call); ok && errEdgeReturns(cc) && everyIteration(in) {
				okLoop = true
			}
		}
	})
	r.Check(okLoop, "R-EQUIV.copy-path", fnKey(are)+": adds every element of the slice in order", p.pos(are.Pos()), "for i := range elements { record.AddInfoElement(elements[i]) } with the error returned",
		"the copying add path does not add each element of the given slice in order (or ignores AddInfoElement's error)", true)
	// the records of the copying path are constructed for exactly len(elements) fields (the template header announces that
	// count; spare capacity is a separate argument of the data constructor only)
	nCtor := 0
	eachInstr(are, func(in ssa.Instruction) {
		c, ok := in.(*ssa.Call)
		if !ok || c.Call.StaticCallee() == nil {
			return
		}
		name := c.Call.StaticCallee().Name()
		if name != "NewTemplateRecord" && name != "NewDataRecord" {
			return
		}
		nCtor++
		okN := false
		if len(c.Call.Args) >= 2 {
			if v, isLen := lenOfValue(c.Call.Args[1]); isLen && v == ssa.Value(are.Params[1]) {
				okN = true
			}
		}
		r.Check(okN, "R-EQUIV.copy-path", fnKey(are)+": "+name+" constructed for len(elements) fields", p.instrPos(in), "numElements = len(elements)",
			"the record is constructed for a number of fields other than the number of elements that are added: its header announces fields that do not follow (or the element list has empty slots), unlike the other add paths", true)
	})
	if nCtor < 2 {
		r.Undecided("R-EQUIV.copy-path", fnKey(are)+": record constructors", p.pos(are.Pos()), fmt.Sprintf("expected NewDataRecord and NewTemplateRecord, found %d", nCtor))
	}
	// PrepareRecord exactly once under Template in both
	for _, f := range []*ssa.Function{are, av2} {
		// on the enumerated paths of the add function: PrepareRecord is called only where the set type is known to be
		// Template, and every successful exit of a template set has called it exactly once (the type test may be spread
		// over a "supported type" guard and a "not a data set" branch, or sit in a helper that was spliced back)
		n := 0
		okG := true
		symK := ""
		w := &absWalker{MaxPaths: 20000}
		w.OnInstr = func(st *absState, in ssa.Instruction) {
			if u, ok := in.(*ssa.UnOp); ok && u.Op == token.MUL && isFieldLoad(u, "pkg/entities.set.setType") {
				symK = st.key(u)
			}
			c := callOf(in)
			if c == nil {
				return
			}
			isPrep := c.IsInvoke() && c.Method.Name() == "PrepareRecord"
			if sc := c.StaticCallee(); sc != nil && sc.Name() == "PrepareRecord" && sc.Signature.Recv() != nil {
				isPrep = true // called on the concrete record type (the record was just constructed)
			}
			if !isPrep {
				return
			}
			lo, hi := st.bounds(symK)
			if symK == "" || lo != 0 || hi != 0 {
				okG = false
			}
			st.Events = append(st.Events, absEvent{Kind: "prepare", In: in})
		}
		w.OnEnd = func(st *absState, last ssa.Instruction) {
			rt, ok := last.(*ssa.Return)
			if !ok || len(rt.Results) == 0 {
				return
			}
			isNil, known := st.nilness(rt.Results[len(rt.Results)-1])
			if !known || !isNil {
				return
			}
			cnt := 0
			for _, e := range st.Events {
				if e.Kind == "prepare" {
					cnt++
				}
			}
			lo, hi := st.bounds(symK)
			if symK != "" && lo == 0 && hi == 0 {
				n++
				if cnt != 1 {
					okG = false
				}
			} else if cnt != 0 {
				okG = false
			}
		}
		if len(f.Blocks) > 0 {
			w.walk(newAbsState(), f.Blocks[0], 0)
		}
		if w.Overflow {
			okG = false
		}
		if n > 1 {
			n = 1
		}
		r.Check(n == 1 && okG, "R-EQUIV.prepare", fnKey(f)+": PrepareRecord once for template records", p.pos(f.Pos()), "one call, guarded by setType == Template, outside loops", "the template record header is not written exactly once", true)
	}
	checkNoAdopt(p, r, "R-EQUIV.no-adopt")
	// record constructors / accessors
	checkRecordSummaries(p, r)
	checkSetAccessors(p, r, "R-VALUE.set-accessors")
	lengthAccounting(p, r, "R-CODEC.length")
	checkMsgAssembly(p, r)
	checkTemplateElementsEmpty(p, r, "R-EQUIV.template-empty")
}

func allocHasField(al *ssa.Alloc, field string) bool {
	for _, ref := range refs(al) {
		if fa, ok := ref.(*ssa.FieldAddr); ok {
			if _, fn, _, ok := fieldOf(fa); ok && fn == field {
				for _, r2 := range refs(fa) {
					if _, ok := r2.(*ssa.Store); ok {
						return true
					}
				}
			}
		}
	}
	return false
}

func normVal(v ssa.Value) string {
	if v == nil {
		return "?"
	}
	switch x := v.(type) {
	case *ssa.Const:
		if x.Value == nil {
			return "nil"
		}
		return "const " + x.Value.ExactString()
	case *ssa.MakeSlice:
		l, ok1 := constInt(x.Len)
		c, ok2 := constInt(x.Cap)
		if ok1 && ok2 {
			return fmt.Sprintf("make(len=%d,cap=%d)", l, c)
		}
	case *ssa.Slice:
		if al, ok := x.X.(*ssa.Alloc); ok {
			return "slice of " + al.Type().String()
		}
	}
	return "?"
}

func normVals(vs []ssa.Value) []string {
	var out []string
	for _, v := range vs {
		out = append(out, normVal(v))
	}
	return out
}

// rangeElemIndex: v is elements[i] (value or load of &elements[i]) with i the canonical index of `for i := range S`.
func rangeElemIndex(v ssa.Value) (ssa.Value, bool) {
	if s, ok := rangeElem(v); ok {
		return s, true
	}
	return nil, false
}

func checkRecordSummaries(p *Prog, r *Report) {
	// adopting data constructor
	if f := p.Fn("pkg/entities.NewDataRecordFromElements"); f == nil {
		r.Undecided("R-EQUIV.adopt-path", "NewDataRecordFromElements", "pkg/entities/record.go", "not found")
	} else {
		got := map[string]bool{}
		eachInstr(f, func(in ssa.Instruction) {
			st, ok := in.(*ssa.Store)
			if !ok {
				return
			}
			tn, fn, _, ok := fieldOf(st.Addr)
			if !ok || tn != "pkg/entities.baseRecord" {
				return
			}
			switch fn {
			case "fieldCount":
				if cv, ok := st.Val.(*ssa.Convert); ok {
					if s, ok := lenOfValue(cv.X); ok && s == ssa.Value(f.Params[1]) {
						got[fn] = true
					}
				}
			case "orderedElementList":
				got[fn] = st.Val == ssa.Value(f.Params[1])
			case "templateID":
				got[fn] = st.Val == ssa.Value(f.Params[0])
			case "isDecoding":
				got[fn] = st.Val == ssa.Value(f.Params[2])
			}
		})
		ok := got["fieldCount"] && got["orderedElementList"] && got["templateID"] && got["isDecoding"]
		r.Check(ok, "R-EQUIV.adopt-path", fnKey(f)+": fieldCount = len(elements), list adopted, id/isDecoding from parameters", p.pos(f.Pos()), "record summary equals what the copying path builds",
			fmt.Sprintf("the adopting constructor does not establish the same record summary as the copying path (%v)", got), true)
	}
	// copying primitive
	if f := p.Fn("(*pkg/entities.dataRecord).AddInfoElement"); f != nil {
		inc := false
		eachInstr(f, func(in ssa.Instruction) {
			if st, ok := in.(*ssa.Store); ok {
				if _, fn, _, ok := fieldOf(st.Addr); ok && fn == "fieldCount" {
					if b, ok := st.Val.(*ssa.BinOp); ok && b.Op == token.ADD {
						if c, ok := constInt(b.Y); ok && c == 1 {
							inc = true
						}
					}
				}
			}
		})
		r.Check(inc, "R-EQUIV.copy-path", fnKey(f)+": fieldCount incremented by one per element", p.pos(f.Pos()), "fieldCount++", "the copying path does not count one field per added element", true)
	}
	// template paths share addInfoElement
	prim := p.Fn("(*pkg/entities.templateRecord).addInfoElement")
	for _, k := range []string{"(*pkg/entities.templateRecord).AddInfoElement", "pkg/entities.NewTemplateRecordFromElements"} {
		f := p.Fn(k)
		if f == nil || prim == nil {
			r.Undecided("R-EQUIV.template", k, "pkg/entities/record.go", "not found")
			continue
		}
		n := 0
		eachInstr(f, func(in ssa.Instruction) {
			if c, ok := in.(*ssa.Call); ok && c.Call.StaticCallee() == prim {
				n++
			}
		})
		r.Check(n == 1, "R-EQUIV.template", k+": field specifiers written by the single addInfoElement primitive", p.pos(f.Pos()), "one call site (per element)", fmt.Sprintf("%d call sites of addInfoElement: the two template paths can diverge", n), true)
	}
	if f := p.Fn("(*pkg/entities.templateRecord).GetRecordLength"); f != nil {
		ok := false
		eachInstr(f, func(in ssa.Instruction) {
			if rt, isR := in.(*ssa.Return); isR && len(rt.Results) == 1 {
				if s, isL := lenOfValue(rt.Results[0]); isL && isFieldLoad(s, "pkg/entities.baseRecord.buffer") {
					ok = true
				}
			}
		})
		r.Check(ok, "R-EQUIV.record-length", fnKey(f)+": len(buffer)", p.pos(f.Pos()), "reported length = bytes serialized", "a template record's reported length is not the size of its buffer", true)
	}
	if f := p.Fn("(*pkg/entities.dataRecord).GetRecordLength"); f != nil {
		ok := false
		eachInstr(f, func(in ssa.Instruction) {
			if rt, isR := in.(*ssa.Return); isR && len(rt.Results) == 1 && isFieldLoad(rt.Results[0], "pkg/entities.baseRecord.len") {
				ok = true
			}
		})
		r.Check(ok, "R-EQUIV.record-length", fnKey(f)+": the accumulated len", p.pos(f.Pos()), "return d.len", "a data record's reported length is not the accumulated element lengths", true)
	}
}

// checkSetAccessors: the read accessors other rules rely on return the maintained fields (imported by C08).
func checkSetAccessors(p *Prog, r *Report, rule string) {
	want := map[string]func(v ssa.Value) bool{
		"GetRecords":      func(v ssa.Value) bool { return isFieldLoad(v, "pkg/entities.set.records") },
		"GetHeaderBuffer": func(v ssa.Value) bool { return isFieldLoad(v, "pkg/entities.set.headerBuffer") },
		"GetSetType":      func(v ssa.Value) bool { return isFieldLoad(v, "pkg/entities.set.setType") },
		"GetNumberOfRecords": func(v ssa.Value) bool {
			cv, ok := v.(*ssa.Convert)
			if !ok {
				return false
			}
			s, isL := lenOfValue(cv.X)
			return isL && isFieldLoad(s, "pkg/entities.set.records")
		},
	}
	for name, chk := range want {
		f := p.Fn("(*pkg/entities.set)." + name)
		if f == nil {
			r.Undecided(rule, "(*pkg/entities.set)."+name, "pkg/entities/set.go", "not found")
			continue
		}
		ok := false
		n := 0
		eachInstr(f, func(in ssa.Instruction) {
			if rt, isR := in.(*ssa.Return); isR && len(rt.Results) == 1 {
				n++
				ok = chk(rt.Results[0])
			}
		})
		r.Check(ok && n == 1, rule, fnKey(f)+": returns the maintained field", p.pos(f.Pos()), "accessor of the builder's own state", name+" does not return the state the builder maintains (record count / records / header / type)", false)
	}
}

// checkResetOnAllPaths: on every path through ResetSet on which the set is an encoding set (isDecoding == false) each
// of the given fields is stored; setType must be stored as Undefined.
func checkResetOnAllPaths(p *Prog, r *Report, rule string, fields []string) {
	rs := p.Fn("(*pkg/entities.set).ResetSet")
	if rs == nil {
		r.Undecided(rule, "anchor: ResetSet", "pkg/entities/set.go", "not found")
		return
	}
	for _, fld := range fields {
		q := &pathQuery{discharge: func(in ssa.Instruction) bool {
			st, ok := in.(*ssa.Store)
			if !ok || !isSetField(st.Addr, fld) {
				return false
			}
			if fld == "setType" {
				v, ok := constInt(st.Val)
				return ok && v == 255
			}
			return true
		}, prune: func(from *ssa.BasicBlock, si int) bool {
			// edges on which isDecoding is true are outside the encoding-side statement
			i := ifOf(from)
			if i == nil {
				return false
			}
			cond, pol := i.Cond, si == 0
			if u, ok := cond.(*ssa.UnOp); ok && u.Op == token.NOT {
				cond, pol = u.X, !pol
			}
			return isFieldLoad(cond, "pkg/entities.set.isDecoding") && pol
		}}
		trail, bad := q.findFromBlock(rs.Blocks[0])
		what := "re-initialised"
		if fld == "setType" {
			what = "set to Undefined"
		}
		r.Check(!bad, rule, fnKey(rs)+": "+fld+" "+what+" on every encoding path", p.pos(rs.Pos()), "every path with isDecoding == false stores it",
			"a path through ResetSet of an encoding set leaves "+fld+" as it was: after a reset the set does not behave like a new one (e.g. it keeps its type and can be sent without PrepareSet); path "+p.describePath(rs, trail), true)
	}
}

// checkNoAdopt: the copying add paths never adopt the caller's element slice (imported by C01: records of one set that
// alias a reused slice all go out with the last record's values).
func checkNoAdopt(p *Prog, r *Report, rule string) {
	are := p.Fn("(*pkg/entities.set).AddRecordWithExtraElements")
	av2 := p.Fn("(*pkg/entities.set).AddRecordV2")
	ar := p.Fn("(*pkg/entities.set).AddRecord")
	if are == nil || av2 == nil {
		r.Undecided(rule, "anchor: set add functions", "pkg/entities/set.go", "not found")
		return
	}
	// the copying paths never adopt the caller's slice: the adopting constructors are called from AddRecordV2 only
	g := p.CallGraph()
	for _, name := range []string{"pkg/entities.NewDataRecordFromElements", "pkg/entities.NewTemplateRecordFromElements"} {
		f := p.Fn(name)
		if f == nil {
			continue
		}
		for _, cs := range g.callers[f] {
			r.Check(cs.Parent() == av2, rule, fnKey(cs.Parent())+": calls "+f.Name(), p.instrPos(cs), "the slice-adopting constructor is used by AddRecordV2 only",
				"a copying add path adopts the caller's element slice: the record changes when the caller reuses its slice, so the add paths are no longer byte-identical", true)
		}
	}
	for _, cs := range g.callers[av2] {
		if keyInPkg(fnKey(cs.Parent()), "pkg/entities") && (cs.Parent() == are || cs.Parent() == ar) {
			r.Violation(rule, fnKey(cs.Parent())+": delegates to AddRecordV2", p.instrPos(cs), "a copying add path delegates to the slice-adopting path: records alias the caller's slice")
		}
	}
}

// checkPrepareKeepsBody: PrepareRecord runs after the field specifiers / values were appended; it may fill in the 4-byte
// record header in place but must not cut the record buffer back (a re-slice of the buffer to fewer than 4 bytes that is
// stored back, or appended to, discards everything added so far: the buffer is no longer the record's reported content).
func checkPrepareKeepsBody(p *Prog, r *Report, rule string) {
	n := 0
	for _, f := range p.RepoFns {
		k := fnKey(f)
		if f.Name() != "PrepareRecord" || !keyInPkg(k, "pkg/entities") {
			continue
		}
		n++
		bad := ""
		pos := p.pos(f.Pos())
		eachInstr(f, func(in ssa.Instruction) {
			st, ok := in.(*ssa.Store)
			if !ok {
				return
			}
			if _, fn, _, ok := fieldOf(st.Addr); !ok || fn != "buffer" {
				return
			}
			// the stored value is still (a window of / an extension of) the buffer that was there: a fresh slice - even one
			// with the right header - drops the specifiers a constructor appended before PrepareRecord ran
			var rootsIn func(v ssa.Value, d int) bool
			rootsIn = func(v ssa.Value, d int) bool {
				v = stripChange(v)
				if d > 8 {
					return false
				}
				if isFieldLoad(v, "pkg/entities.baseRecord.buffer") {
					return true
				}
				switch x := v.(type) {
				case *ssa.Slice:
					return rootsIn(x.X, d+1)
				case *ssa.Call:
					if calleeName(&x.Call) == "builtin:append" && len(x.Call.Args) > 0 {
						return rootsIn(x.Call.Args[0], d+1)
					}
				case *ssa.Phi:
					for _, e := range x.Edges {
						if !rootsIn(e, d+1) {
							return false
						}
					}
					return len(x.Edges) > 0
				}
				return false
			}
			if !rootsIn(st.Val, 0) {
				bad = "the buffer is replaced by a slice that is not the record's buffer so far"
				pos = p.instrPos(in)
			}
			for _, v := range backwardSlice(st.Val, 64) {
				sl, ok := v.(*ssa.Slice)
				if !ok || sl.High == nil || !isFieldLoad(sl.X, "pkg/entities.baseRecord.buffer") {
					continue
				}
				if h, ok := constInt(sl.High); ok && h < 4 {
					bad = fmt.Sprintf("buffer re-sliced to [:%d] and stored back", h)
					pos = p.instrPos(in)
				}
			}
		})
		r.Check(bad == "", rule, k+": the record buffer is not cut back", pos, "header written in place; bytes appended before PrepareRecord stay",
			bad+": the field specifiers / values appended before PrepareRecord are discarded, the record's bytes no longer match what the set accounted for", true)
	}
	if n == 0 {
		r.Undecided(rule, "anchor: PrepareRecord", "pkg/entities/record.go", "not found")
	}
}
