#!/usr/bin/env python3
# validate MANIFEST.json and evidence/*.json against the harness schemas (uses the tooling venv)
import json,sys,glob,jsonschema
ms=json.load(open('/root/.vp/MANIFEST.schema.json')); es=json.load(open('/root/.vp/EVIDENCE.schema.json'))
m=json.load(open('/verif/MANIFEST.json')); jsonschema.validate(m,ms)
ids=[c['property_id'] for c in m['checks']]; na=[x['property_id'] for x in m.get('not_applicable',[])]
print('manifest ok; claimed',len(ids),'n/a',len(na))
allp=[json.loads(l)['id'] for l in open('/verif/properties.jsonl')]
assert sorted(ids+na)==sorted(allp), (sorted(set(allp)-set(ids+na)), 'unlisted')
for f in sorted(glob.glob('/verif/evidence/*.json')):
    e=json.load(open(f)); jsonschema.validate(e,es); print(f.split('/')[-1],'ok',e['coverage'].get('obligations'),e['coverage'].get('distinct_nontrivial'),e['wall_s'])
