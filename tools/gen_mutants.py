#!/usr/bin/env python3
# Seeded-fault / neutral-edit corpus for the self-test (applied as in-memory overlays by ipfixlint).
# Each fault: (name, file, find, replace, expected rule|construct substring, canary?)
import json, sys
R='/repo/'
M={}
def add(prop, name, file, find, repl, expect, canary=False, note='', more=None):
    s=open(R+file).read()
    n=s.count(find)
    if n!=1:
        print(f'!! {prop}/{name}: find text occurs {n} times in {file}', file=sys.stderr)
    d=dict(name=name,file=file,find=find,replace=repl,expect=expect,neutral=False,canary=canary,note=note)
    if more: d['more']=[dict(file=f,find=a,replace=b) for f,a,b in more]
    M.setdefault(prop,[]).append(d)
P='pkg/collector/process.go'; T='pkg/collector/tcp.go'; U='pkg/collector/udp.go'
E='pkg/exporter/process.go'; MSG='pkg/exporter/msg.go'
IE='pkg/entities/ie.go'; IV='pkg/entities/ie_value.go'; REC='pkg/entities/record.go'; SET='pkg/entities/set.go'; MES='pkg/entities/message.go'
A='pkg/intermediate/aggregate.go'; PQ='pkg/intermediate/priorityqueue.go'
K='pkg/kafka/producer/kafka.go'; KC='pkg/kafka/consumer/consumer.go'; F1='pkg/kafka/producer/convertor/test/flowtype1.go'
CC='cmd/collector/collector.go'

# ---- C03
add('C03','no-length-guard',P,"			if dataBuffer.Len() < length {\n","			if false && dataBuffer.Len() < length {\n",'R-BOUNDS.next',True)
add('C03','no-progress-test',P,"		if dataBuffer.Len() == lenBefore {\n","		if false && dataBuffer.Len() == lenBefore {\n",'R-BOUNDS.progress')
add('C03','drop-readbyte-error',P,"	oneByte, err := dataBuffer.ReadByte()\n	if err != nil {\n		return 0, fmt.Errorf(\"error in decoding variable-length field: %v\", err)\n	}\n","	oneByte, _ := dataBuffer.ReadByte()\n",'R-ERR')
add('C03','signed64-nil-deref',IE,"		} else {\n			val = int64(binary.BigEndian.Uint64(value))\n		}\n","		}\n		val = int64(binary.BigEndian.Uint64(value))\n",'R-NIL')
add('C03','setlen-unused',P,"		packetBuffer.Truncate(bodyLen)\n","		_ = bodyLen\n",'R-BOUNDS.setlen')
add('C03','fieldcount-32bit-alloc',P,"		elementsWithValue := make([]entities.InfoElementWithValue, int(fieldCount))\n","		elementsWithValue := make([]entities.InfoElementWithValue, int(fieldCount)*int(obsDomainID))\n",'R-ALLOC')
# ---- C04
add('C04','lookup-domain-0',P,"	if template, ok := cp.templatesMap[obsDomainID][templateID]; ok {\n		return template.ies, nil","	if template, ok := cp.templatesMap[0][templateID]; ok {\n		return template.ies, nil",'R-KEY.map',True)
add('C04','keep-old-ies',P,"	tpl.ies = elements\n","	if !ok {\n		tpl.ies = elements\n	}\n",'R-GATE.replace')
add('C04','no-invalidate',P,"		cp.deleteTemplate(obsDomainID, templateID)\n		return nil, err\n","		return nil, err\n",'R-GATE.invalidate')
add('C04','data-with-other-id',P,"		set, err = cp.decodeDataSet(packetBuffer, obsDomainID, setID)\n","		set, err = cp.decodeDataSet(packetBuffer, obsDomainID, setLen)\n",'R-KEY.flow')
# ---- C05
add('C05','delta-set-not-sum',A,"						srcExistingIeWithValue.SetUnsigned64Value(incomingVal + existingVal)\n","						srcExistingIeWithValue.SetUnsigned64Value(incomingVal)\n",'R-VALUE.step',True)
add('C05','total-sum',A,"						dstExistingIeWithValue.SetUnsigned64Value(incomingVal)\n","						dstExistingIeWithValue.SetUnsigned64Value(incomingVal + existingVal)\n",'R-VALUE.step')
add('C05','throughput-order',A,"	throughput := totalCountDiff * 8 / uint64(flowEndSecondsDiff)\n","	throughput := totalCountDiff / uint64(flowEndSecondsDiff) * 8\n",'R-VALUE.throughput')
add('C05','dstport-unassigned',A,"				flowKey.DestinationPort = element.GetUnsigned16Value()\n","				_ = element.GetUnsigned16Value()\n",'R-KEY.flow-key')
add('C05','reset-totals',A,"		if !isDelta {\n			continue\n		}\n		for _, array := range","		if !isDelta && false {\n			continue\n		}\n		for _, array := range",'R-VALUE.reset')
# ---- C06
add('C06','no-repush-after-rearm',A,"		pqItem.activeExpireTime = currTime.Add(a.activeExpiryTimeout)\n		heap.Push(&a.expirePriorityQueue, pqItem)\n	}\n	return nil\n","		pqItem.activeExpireTime = currTime.Add(a.activeExpiryTimeout)\n	}\n	return nil\n",'R-TYPESTATE',True)
add('C06','no-repush-on-callback-error',A,"			heap.Push(&a.expirePriorityQueue, pqItem)\n			return fmt.Errorf(\"callback execution failed","			return fmt.Errorf(\"callback execution failed",'R-TYPESTATE')
add('C06','swap-index',PQ,"	pq[i].index = i\n	pq[j].index = j\n","	pq[i].index = j\n	pq[j].index = i\n",'R-HEAP.swap')
add('C06','update-old-inactive',A,"aggregationRecord.PriorityQueueItem.activeExpireTime, currTime.Add(a.inactiveExpiryTimeout))","aggregationRecord.PriorityQueueItem.activeExpireTime, aggregationRecord.PriorityQueueItem.inactiveExpireTime)",'R-VALUE.update')
add('C06','less-reversed',PQ,"	return pq.minExpireTime(i).Before(pq.minExpireTime(j))\n","	return pq.minExpireTime(j).Before(pq.minExpireTime(i))\n",'R-HEAP.less')
# ---- C07
add('C07','callback-before-ready-test',A,"		if !pqItem.flowRecord.ReadyToSend {\n","		if !pqItem.flowRecord.ReadyToSend && pqItem.flowRecord.waitForReadyToSendRetries < MaxRetries {\n",'R-GATE.ready',True)
add('C07','ready-on-same-node',A,"			if !aggregationRecord.ReadyToSend && !areRecordsFromSameNode(record, aggregationRecord.Record) {\n","			if !aggregationRecord.ReadyToSend {\n",'R-OWNER.ready')
add('C07','ignore-ingress-reject',A,"			if ingressRuleAction == registry.NetworkPolicyRuleActionReject {\n				return false\n			}\n","			_ = ingressRuleAction\n",'R-TABLE.correlation')
add('C07','mismatched-setter',A,"					existingIeWithValue.SetUnsigned16Value(val)\n","					existingIeWithValue.SetUnsigned8Value(uint8(val))\n",'R-GETTER')
# ---- C08
add('C08','plus-one',E,"		seqNumber = atomic.AddUint32(&ep.seqNumber, set.GetNumberOfRecords())\n","		seqNumber = atomic.AddUint32(&ep.seqNumber, 1)\n",'R-VALUE.seq',True)
add('C08','templates-advance',E,"	if set.GetSetType() == entities.Data {\n		seqNumber = atomic.AddUint32","	if set.GetSetType() != entities.Undefined {\n		seqNumber = atomic.AddUint32",'R-VALUE.seq')
add('C08','cached-export-time',MSG,"	msg.SetExportTime(uint32(exportTime.Unix()))\n","	msg.SetExportTime(uint32(exportTime.Unix() / 60 * 60))\n",'R-VALUE.stamp')
add('C08','return-len-not-count',E,"	return bytesSent, nil\n}\n\n// createAndSendJSONMsg","	return len(bytesSlice), nil\n}\n\n// createAndSendJSONMsg",'R-VALUE.byte-count')
# ---- C09
add('C09','size-off-by-one',MSG,"	if msgLen > entities.MaxSocketMsgSize {\n","	if msgLen > entities.MaxSocketMsgSize+1 {\n",'R-GATE.size',True)
add('C09','sanity-skip-multi',E,"		if setType == entities.Data {\n			err := ep.dataRecSanityCheck(record)","		if setType == entities.Data && len(set.GetRecords()) == 1 {\n			err := ep.dataRecSanityCheck(record)",'R-GATE.sanity')
add('C09','write-before-errcheck',E,"	bytesSlice, err := CreateIPFIXMsg(set, ep.obsDomainID, seqNumber, time.Now())\n	if err != nil {\n		return 0, err\n	}\n","	bytesSlice, err := CreateIPFIXMsg(set, ep.obsDomainID, seqNumber, time.Now())\n	if err != nil && len(bytesSlice) == 0 {\n		return 0, err\n	}\n",'R-GATE.write')
add('C09','register-before-send',E,"	if setType == entities.Template {\n		for _, record := range set.GetRecords() {\n			ep.updateTemplate(","	if setType == entities.Template || bytesSent == 0 {\n		for _, record := range set.GetRecords() {\n			ep.updateTemplate(",'',False,'weakened guard still after the send: must stay silent? no - kept as detection of nothing; see neutral list')
M['C09'].pop()
# ---- C10
add('C10','unconditional-delete',P,"			cp.deleteTemplateWithConds(obsDomainID, templateID, func(tpl *template) bool {\n				// lock will be held when this executes\n				return !tpl.expiryTime.After(now)\n			})\n","			cp.deleteTemplate(obsDomainID, templateID)\n			_ = now\n",'R-TIMER.callback',True)
add('C10','no-reset',P,"		tpl.expiryTimer.Reset(cp.templateTTL)\n","		_ = tpl.expiryTimer\n",'R-TIMER.arm')
add('C10','delete-without-stop',P,"		template.expiryTimer.Stop()\n","		_ = template.expiryTimer\n",'R-TIMER')
add('C10','now-captured-at-arming',P,"		tpl.expiryTimer = cp.clock.AfterFunc(cp.templateTTL, func() {\n			klog.Infof(\"Template with id %d, and obsDomainID %d is expired.\", templateID, obsDomainID)\n			now := cp.clock.Now()\n","		now := cp.clock.Now()\n		tpl.expiryTimer = cp.clock.AfterFunc(cp.templateTTL, func() {\n			klog.Infof(\"Template with id %d, and obsDomainID %d is expired.\", templateID, obsDomainID)\n",'R-TIMER.callback')
# ---- C11
add('C11','short-read',T,"			_, err = io.ReadFull(reader, buff)\n","			_, err = reader.Read(buff)\n",'R-FRAME.full-read',True)
add('C11','reader-per-message',T,"			length, err := getMessageLength(reader)\n","			reader = bufio.NewReader(conn)\n			length, err := getMessageLength(reader)\n",'R-FRAME.reader-once')
add('C11','continue-on-decode-error',T,"				klog.ErrorS(err, \"Error when decoding packet, closing connection\")\n				return\n","				klog.ErrorS(err, \"Error when decoding packet, closing connection\")\n				continue\n",'R-FRAME.error-exit')
add('C11','length-wrong-offset',P,"	err = util.Decode(bytes.NewBuffer(partialHeader[2:]), binary.BigEndian, &msgLen)\n","	err = util.Decode(bytes.NewBuffer(partialHeader[0:]), binary.BigEndian, &msgLen)\n",'R-FRAME.length')
# ---- C12
add('C12','add-inside-goroutine',T,"	cp.wg.Add(1)\n	// We read from the connection in a separate goroutine","	// We read from the connection in a separate goroutine",'R-WG.tracked',True)
add('C12','no-deregistration',T,"		delete(cp.clients, address)\n","		_ = address\n",'R-PAIR.clients')
add('C12','count-without-lock',P,"func (cp *CollectingProcess) GetNumConnToCollector() int64 {\n	cp.mutex.RLock()\n	defer cp.mutex.RUnlock()\n","func (cp *CollectingProcess) GetNumConnToCollector() int64 {\n",'R-LOCK.guarded')
add('C12','udp-client-ignores-stop',U,"			case <-cp.stopChan:\n				klog.Infof(\"Collecting process from %s has stopped.\", addr)\n				return\n","",'R-STOP.select')
# ---- C13
add('C13','numflows-unlocked',A,"func (a *AggregationProcess) GetNumFlows() int64 {\n	a.mutex.Lock()\n	defer a.mutex.Unlock()\n","func (a *AggregationProcess) GetNumFlows() int64 {\n",'R-LOCK.guarded',True)
add('C13','expiry-under-rlock',A,"func (a *AggregationProcess) ForAllExpiredFlowRecordsDo(callback FlowKeyRecordMapCallBack) error {\n	a.mutex.Lock()\n	defer a.mutex.Unlock()\n","func (a *AggregationProcess) ForAllExpiredFlowRecordsDo(callback FlowKeyRecordMapCallBack) error {\n	a.mutex.RLock()\n	defer a.mutex.RUnlock()\n",'R-LOCK.guarded')
add('C13','start-unlocked-append',A,"	a.mutex.Lock()\n	for i := 0; i < a.workerNum; i++ {","	for i := 0; i < a.workerNum; i++ {",'R-LOCK')
add('C13','escape-queue',A,"func (a *AggregationProcess) SetCorrelatedFieldsFilled(","func (a *AggregationProcess) Queue() *TimeToExpirePriorityQueue {\n	return &a.expirePriorityQueue\n}\n\nfunc (a *AggregationProcess) SetCorrelatedFieldsFilled(",'R-LOCK')
# ---- C14
add('C14','no-swap-guard',E,"	if ep.isClosed.Swap(true) {\n		return\n	}\n","	ep.isClosed.Store(true)\n",'R-CLOSE.guard',True)
add('C14','refresher-waits',E,"						expProc.closeConnToCollector()\n						return\n					}\n					klog.V(2).Info(\"Sent refreshed templates to the collector\")","						expProc.CloseConnToCollector()\n						return\n					}\n					klog.V(2).Info(\"Sent refreshed templates to the collector\")",'R-CLOSE')
add('C14','seq-plain',E,"	seqNumber := atomic.LoadUint32(&ep.seqNumber)\n	if set.GetSetType() == entities.Data {\n		seqNumber = atomic.AddUint32(&ep.seqNumber, set.GetNumberOfRecords())\n	}\n","	if set.GetSetType() == entities.Data {\n		ep.seqNumber = ep.seqNumber + set.GetNumberOfRecords()\n	}\n	seqNumber := ep.seqNumber\n",'R-SHARE')
add('C14','lock-leak',E,"			ep.templateMutex.Unlock()\n			return err\n","			return err\n",'R-LOCK.balanced')
add('C14','untracked-goroutine',E,"		expProc.wg.Add(1)\n		go func() {\n			defer expProc.wg.Done()\n			ticker := time.NewTicker(interval)","		go func() {\n			expProc.wg.Add(1)\n			defer expProc.wg.Done()\n			ticker := time.NewTicker(interval)",'R-WG.tracked')
# ---- C15 / C01 / C02 codec
for prop in ('C15','C01'):
    add(prop,'decoder-millis-u32',IE,"	case DateTimeMilliseconds:\n		var val uint64\n		if value == nil {\n			val = 0\n		} else {\n			val = binary.BigEndian.Uint64(value)\n","	case DateTimeMilliseconds:\n		var val uint64\n		if value == nil {\n			val = 0\n		} else {\n			val = uint64(binary.BigEndian.Uint32(value))\n",'R-CODEC.decoder',prop=='C15')
    add(prop,'string-len-255',IV,"func (s *StringInfoElement) GetLength() int {\n	if len(s.value) < 255 {","func (s *StringInfoElement) GetLength() int {\n	if len(s.value) <= 255 {",'R-CODEC.prefix',prop=='C01')
    add(prop,'reader-255-short',P,"	if oneByte < 255 { // string length is less than 255\n","	if oneByte <= 255 { // string length is less than 255\n",'R-CODEC.prefix')
    add(prop,'registry-len',"pkg/registry/registry_IANA.go",'registerInfoElement(*entities.NewInfoElement("octetDeltaCount", 1, 4, 0, 8), 0)','registerInfoElement(*entities.NewInfoElement("octetDeltaCount", 1, 4, 0, 4), 0)','R-CODEC.registry')
add('C15','encoder-signed16-little',IE,"		binary.BigEndian.PutUint16(buffer[index:], uint16(element.GetSigned16Value()))\n","		binary.LittleEndian.PutUint16(buffer[index:], uint16(element.GetSigned16Value()))\n",'R-CODEC.encoder')
add('C15','bool-swapped',IE,"		indicator := byte(int8(1))\n		if !element.GetBooleanValue() {\n			indicator = byte(int8(2))","		indicator := byte(int8(2))\n		if !element.GetBooleanValue() {\n			indicator = byte(int8(1))",'R-CODEC.encoder')
add('C01','swapped-header-reads',P,"&version, &length, &exportTime, &sequencNum, &obsDomainID, &setID, &setLen)","&version, &length, &sequencNum, &exportTime, &obsDomainID, &setID, &setLen)",'R-LAYOUT.header')
add('C01','enterprise-bit-not-cleared',P,"			elementid[0] = elementid[0] ^ 0x80\n","			elementid[0] = elementid[0] ^ 0x00\n",'R-LAYOUT.field-specifier')
# ---- C02
add('C02','symmetric-header-swap',MES,"		binary.BigEndian.PutUint32(m.msgHeader[8:12], seqNum)\n","		binary.BigEndian.PutUint32(m.msgHeader[4:8], seqNum)\n",'R-RFC.msg-header',True)
add('C02','enterprise-bit-0x40',REC,"		t.buffer[initialLength] = t.buffer[initialLength] | 0x80\n","		t.buffer[initialLength] = t.buffer[initialLength] | 0x40\n",'R-RFC.field-specifier')
add('C02','no-update-len',E,"	set.UpdateLenInHeader()\n","",'R-GATE.update-len')
add('C02','msglen-minus-1',MSG,"	msg.SetMessageLen(uint16(msgLen))\n","	msg.SetMessageLen(uint16(msgLen - 1))\n",'R-VALUE.assembly')
add('C02','set-id-template-3',SET,"		binary.BigEndian.PutUint16(s.headerBuffer[0:2], TemplateSetID)\n","		binary.BigEndian.PutUint16(s.headerBuffer[0:2], TemplateSetID+1)\n",'R-RFC.set-header')
# ---- C16
add('C16','reset-forgets-length',SET,"		s.headerBuffer = make([]byte, SetHeaderLen)\n		s.length = SetHeaderLen\n	}\n	s.setType = Undefined","		s.headerBuffer = make([]byte, SetHeaderLen)\n	}\n	s.setType = Undefined",'R-RESET',True)
add('C16','v2-no-length',SET,"	s.records = append(s.records, record)\n	s.length += record.GetRecordLength()\n	return nil\n}\n\nfunc (s *set) GetRecords()","	s.records = append(s.records, record)\n	return nil\n}\n\nfunc (s *set) GetRecords()",'R-PAIR.set-length')
add('C16','fromelements-no-fieldcount',REC,"			fieldCount:         uint16(len(elements)),\n			templateID:         id,\n			isDecoding:         isDecoding,\n			len:                length,","			fieldCount:         0,\n			templateID:         id,\n			isDecoding:         isDecoding,\n			len:                length,",'R-EQUIV.adopt-path')
add('C16','addrecord-extra-1',SET,"	return s.AddRecordWithExtraElements(elements, 0, templateID)\n","	return s.AddRecordWithExtraElements(elements, 1, templateID)\n",'R-EQUIV.delegate')
# ---- C17
add('C17','drop-before-consume',P,"			if dataBuffer.Len() < length {\n				return nil, fmt.Errorf(\"data record is truncated","			if cp.decodingMode == DecodingModeLenientDropUnknown && ie.Name == \"\" {\n				dataBuffer.Next(int(ie.Len))\n				continue\n			}\n			if dataBuffer.Len() < length {\n				return nil, fmt.Errorf(\"data record is truncated",'R-GATE',True)
add('C17','unknown-variable-length',P,"				element = entities.NewInfoElement(\"\", elementID, entities.OctetArray, enterpriseID, elementLength)\n			}\n		} else {","				element = entities.NewInfoElement(\"\", elementID, entities.OctetArray, enterpriseID, entities.VariableLength)\n			}\n		} else {",'R-SIBLING.unknown')
add('C17','strict-inverted-one-branch',P,"			element, err = registry.GetInfoElementFromID(elementID, enterpriseID)\n			if err != nil {\n				if cp.decodingMode == DecodingModeStrict {\n					return nil, err\n				}\n				klog.InfoS(\"Template includes an information element that is not present in registry\", \"obsDomainID\", obsDomainID, \"templateID\", templateID, \"enterpriseID\", enterpriseID, \"elementID\", elementID)\n				element = entities.NewInfoElement(\"\", elementID, entities.OctetArray, enterpriseID, elementLength)\n			}\n		}\n\n		return","			element, err = registry.GetInfoElementFromID(elementID, enterpriseID)\n			if err != nil {\n				if cp.decodingMode != DecodingModeStrict {\n					return nil, err\n				}\n				klog.InfoS(\"Template includes an information element that is not present in registry\", \"obsDomainID\", obsDomainID, \"templateID\", templateID, \"enterpriseID\", enterpriseID, \"elementID\", elementID)\n				element = entities.NewInfoElement(\"\", elementID, entities.OctetArray, enterpriseID, elementLength)\n			}\n		}\n\n		return",'R-SIBLING')
# ---- C18
add('C18','dtls-skip-verify',E,"				ExtendedMasterSecret: dtls.RequireExtendedMasterSecret,\n				ServerName:           tlsConfig.ServerName,","				ExtendedMasterSecret: dtls.RequireExtendedMasterSecret,\n				InsecureSkipVerify:   true,\n				ServerName:           tlsConfig.ServerName,",'R-TLS.no-skip-verify',True)
add('C18','server-no-minversion',T,"		ClientCAs:    roots,\n		MinVersion:   tls.VersionTLS12,","		ClientCAs:    roots,",'R-TLS.min-version')
add('C18','verify-if-given',T,"		ClientAuth:   tls.RequireAndVerifyClientCert,","		ClientAuth:   tls.VerifyClientCertIfGiven,",'R-TLS.client-auth')
add('C18','append-result-ignored',E,"	roots := x509.NewCertPool()\n	ok := roots.AppendCertsFromPEM(config.CAData)\n	if !ok {\n		return nil, fmt.Errorf(\"failed to parse root certificate\")\n	}\n	if config.CertData == nil {","	roots := x509.NewCertPool()\n	roots.AppendCertsFromPEM(config.CAData)\n	if config.CertData == nil {",'R-TLS.root-cas')
add('C18','plaintext-fallback',E,"				klog.Errorf(\"Cannot the create the tls connection to the Collector %s: %v\", input.CollectorAddress, err)\n				return nil, err","				klog.Errorf(\"Cannot the create the tls connection to the Collector %s: %v\", input.CollectorAddress, err)\n				conn, err = net.Dial(input.CollectorProtocol, input.CollectorAddress)\n				if err != nil {\n					return nil, err\n				}",'R-TLS.no-plaintext')
add('C18','dtls-no-client-auth',U,"			config.ClientAuth = dtls.RequireAndVerifyClientCert\n","",'R-TLS.client-auth')
# ---- C19
add('C19','no-delimiter',K,"			kp.SendFlowMessage(flowMsg, true)\n","			kp.SendFlowMessage(flowMsg, false)\n",'R-ORDER.publish',True)
add('C19','prefix-len-plus-4',K,"		binary.BigEndian.PutUint32(b, uint32(len(bytes)))\n","		binary.BigEndian.PutUint32(b, uint32(len(bytes)+4))\n",'R-VALUE.frame')
add('C19','little-endian',K,"		binary.BigEndian.PutUint32(b, uint32(len(bytes)))\n","		binary.LittleEndian.PutUint32(b, uint32(len(bytes)))\n",'R-VALUE.frame')
add('C19','templates-published',F1,"	if set.GetSetType() == entities.Template {\n		return nil\n	}\n","",'R-GATE.no-template')
add('C19','wrong-getter',F1,"			portVal = ie.GetUnsigned16Value()\n			flowMsg.SrcPort = uint32(portVal)","			portVal = uint16(ie.GetUnsigned32Value())\n			flowMsg.SrcPort = uint32(portVal)",'R-GETTER.name')
# ---- C20
add('C20','cap-gt',CC,"	if len(flowRecords) >= maxFlowRecords {\n","	if len(flowRecords) > maxFlowRecords {\n",'R-VALUE.cap',True)
add('C20','prefix-window',CC,"		records := flowRecords[len(flowRecords)-count:]\n","		records := flowRecords[:count]\n",'R-VALUE.query')
add('C20','evict-tail',CC,"		flowRecords = flowRecords[1:]\n","		flowRecords = flowRecords[:len(flowRecords)-1]\n",'R-VALUE.evict')
add('C20','reset-unlocked',CC,"	if r.Method == \"POST\" {\n		mutex.Lock()\n		defer mutex.Unlock()\n","	if r.Method == \"POST\" {\n",'R-LOCK.guarded')
add('C20','signed64-wrong-getter',CC,"				case entities.Signed64:\n					fmt.Fprintf(&buf, \"    %s: %v \\n\", elem.Name, ie.GetSigned64Value())","				case entities.Signed64:\n					fmt.Fprintf(&buf, \"    %s: %v \\n\", elem.Name, ie.GetSigned32Value())",'R-GETTER')


# ---- classes learnt from the second round of independent seeds
REUSE=[("pkg/collector/tcp.go","			buff := make([]byte, length)\n","			if cap(buff) < length {\n				buff = make([]byte, length)\n			}\n			buff = buff[:length]\n")]
NOCOPY_FIND="		var val []byte\n		if value != nil {\n			val = append(val, value...)\n		}\n		return NewOctetArrayInfoElement(element, val), nil\n"
NOCOPY_REPL="		return NewOctetArrayInfoElement(element, value), nil\n"
for prop in ('C11','C01'):
    add(prop,'octets-alias-reused-buffer',T,"		defer close(doneCh)\n		for {\n","		defer close(doneCh)\n		var buff []byte\n		for {\n",'R-FRAME.no-alias',False,'two cooperating sites',more=REUSE+[(IE,NOCOPY_FIND,NOCOPY_REPL)])
add('C03','truncate-skips-empty-body',P,"bodyLen >= 0 && bodyLen < packetBuffer.Len()","bodyLen > 0 && bodyLen < packetBuffer.Len()",'R-BOUNDS.setlen')
add('C04','write-registry-element',P,"		return entities.DecodeAndCreateInfoElementWithValue(element, nil)\n","		if element.Len == entities.VariableLength && elementLength != entities.VariableLength {\n			element.Len = elementLength\n		}\n		return entities.DecodeAndCreateInfoElementWithValue(element, nil)\n",'R-OWNER.info-element')
add('C04','delete-on-data-error',P,"		set, err = cp.decodeDataSet(packetBuffer, obsDomainID, setID)\n		if err != nil {\n","		set, err = cp.decodeDataSet(packetBuffer, obsDomainID, setID)\n		if err != nil {\n			cp.deleteTemplate(obsDomainID, setID)\n",'R-OWNER.template-delete')
add('C05','reset-skips-when-common-zero',A,"		if !isDelta {\n			continue\n		}\n		for _, array := range","		if !isDelta {\n			continue\n		}\n		if ie, _, exist := record.GetInfoElementWithValue(element); exist && ie.IsValueEmpty() {\n			continue\n		}\n		for _, array := range",'R-VALUE.reset')
add('C05','early-return-idle-interval',A,"	antreaThroughputElements := a.aggregateElements.ThroughputElements\n	antreaSourceThroughputElements := a.aggregateElements.SourceThroughputElements\n	antreaDestinationThroughputElements := a.aggregateElements.DestinationThroughputElements\n	throughput :=","	if totalCountDiff == 0 && reverseTotalCountDiff == 0 {\n		return nil\n	}\n	antreaThroughputElements := a.aggregateElements.ThroughputElements\n	antreaSourceThroughputElements := a.aggregateElements.SourceThroughputElements\n	antreaDestinationThroughputElements := a.aggregateElements.DestinationThroughputElements\n	throughput :=",'R-VALUE.step')
add('C06','expiry-clamp-inverted',A,"		if expiryDuration < 0 {\n			return MinExpiryTime\n		}\n		return expiryDuration\n","		if expiryDuration > 0 {\n			return expiryDuration\n		}\n",'R-HEAP.expiry-clamp')
add('C09','json-mode-skips-count',E,"	if rec.GetFieldCount() != uint16(len(ep.templatesMap[templateID].elements)) {","	if ep.sendJSONRecord {\n		return nil\n	}\n	if rec.GetFieldCount() != uint16(len(ep.templatesMap[templateID].elements)) {",'R-GATE.sanity-tests')
add('C10','split-lock-delete',P,"	cp.mutex.Lock()\n	defer cp.mutex.Unlock()\n	template, ok := cp.templatesMap[obsDomainID][templateID]\n	if !ok {\n		return false\n	}\n	for _, condFn := range condFns {\n		if !condFn(template) {\n			return false\n		}\n	}\n","	cp.mutex.RLock()\n	template, ok := cp.templatesMap[obsDomainID][templateID]\n	if !ok {\n		cp.mutex.RUnlock()\n		return false\n	}\n	for _, condFn := range condFns {\n		if !condFn(template) {\n			cp.mutex.RUnlock()\n			return false\n		}\n	}\n	cp.mutex.RUnlock()\n	cp.mutex.Lock()\n	defer cp.mutex.Unlock()\n",'R-LOCK.whole-op')
add('C02','getbuffer-continue-on-error',REC,"		if err != nil {\n			klog.Error(err)\n		}\n		index += element.GetLength()","		if err != nil {\n			klog.Error(err)\n			continue\n		}\n		index += element.GetLength()",'R-RFC.record-layout')
add('C16','reset-keeps-type-when-encoding',SET,"	s.setType = Undefined\n	s.records = nil\n","	if s.isDecoding {\n		s.setType = Undefined\n	}\n	s.records = nil\n",'R-RESET.all-paths')

# ---- neutral edits (must stay silent for EVERY property)
N=[]
def neutral(name,file,find,repl,note=''):
    s=open(R+file).read()
    if s.count(find)!=1: print(f'!! neutral/{name}: find occurs {s.count(find)} times in {file}', file=sys.stderr)
    N.append(dict(name=name,file=file,find=find,replace=repl,expect='',neutral=True,canary=False,note=note))
neutral('log-between-check-and-next',P,"			element, err := entities.DecodeAndCreateInfoElementWithValue(ie, dataBuffer.Next(length))\n","			klog.V(6).InfoS(\"decoding field\", \"length\", length)\n			element, err := entities.DecodeAndCreateInfoElementWithValue(ie, dataBuffer.Next(length))\n",'a log line between a check and the call it guards')
neutral('reorder-decoder-cases',IE,"	case Unsigned8:\n		var val uint8\n		if value == nil {\n			val = 0\n		} else {\n			val = value[0]\n		}\n		return NewUnsigned8InfoElement(element, val), nil\n	case Unsigned16:\n		var val uint16\n		if value == nil {\n			val = 0\n		} else {\n			val = binary.BigEndian.Uint16(value)\n		}\n		return NewUnsigned16InfoElement(element, val), nil\n","	case Unsigned16:\n		var val uint16\n		if value == nil {\n			val = 0\n		} else {\n			val = binary.BigEndian.Uint16(value)\n		}\n		return NewUnsigned16InfoElement(element, val), nil\n	case Unsigned8:\n		var val uint8\n		if value == nil {\n			val = 0\n		} else {\n			val = value[0]\n		}\n		return NewUnsigned8InfoElement(element, val), nil\n",'switch cases reordered')
neutral('explicit-unlock-numflows',A,"func (a *AggregationProcess) GetNumFlows() int64 {\n	a.mutex.Lock()\n	defer a.mutex.Unlock()\n	return int64(len(a.flowKeyRecordMap))\n","func (a *AggregationProcess) GetNumFlows() int64 {\n	a.mutex.Lock()\n	n := int64(len(a.flowKeyRecordMap))\n	a.mutex.Unlock()\n	return n\n",'defer turned into an explicit unlock on the single exit')
neutral('numflows-rlock',A,"func (a *AggregationProcess) GetNumFlows() int64 {\n	a.mutex.Lock()\n	defer a.mutex.Unlock()\n","func (a *AggregationProcess) GetNumFlows() int64 {\n	a.mutex.RLock()\n	defer a.mutex.RUnlock()\n",'a pure reader may take the read lock')
neutral('early-return-instead-of-else',P,"	if template, ok := cp.templatesMap[obsDomainID][templateID]; ok {\n		return template.ies, nil\n	} else {\n		return nil, fmt.Errorf(\"template %d with obsDomainID %d does not exist\", templateID, obsDomainID)\n	}\n","	if template, ok := cp.templatesMap[obsDomainID][templateID]; ok {\n		return template.ies, nil\n	}\n	return nil, fmt.Errorf(\"template %d with obsDomainID %d does not exist\", templateID, obsDomainID)\n",'if/else replaced by early return')
neutral('new-exported-getter',E,"func (ep *ExportingProcess) GetMsgSizeLimit() int {","func (ep *ExportingProcess) GetObservationDomainID() uint32 {\n	return ep.obsDomainID\n}\n\nfunc (ep *ExportingProcess) GetMsgSizeLimit() int {",'an unrelated exported getter of a read-only field')
neutral('size-gate-geq',MSG,"	if msgLen > entities.MaxSocketMsgSize {\n","	if msgLen >= entities.MaxSocketMsgSize+1 {\n",'the same accepted set written with >=')
neutral('len-threshold-leq-254',IV,"func (s *StringInfoElement) GetLength() int {\n	if len(s.value) < 255 {","func (s *StringInfoElement) GetLength() int {\n	if len(s.value) <= 254 {",'the same prefix threshold written with <=')
neutral('cap-test-flipped',CC,"	if len(flowRecords) >= maxFlowRecords {\n","	if maxFlowRecords <= len(flowRecords) {\n",'operands of the cap comparison swapped')
neutral('stop-test-rewritten',A,"		if topItem.activeExpireTime.After(currTime) && topItem.inactiveExpireTime.After(currTime) {\n			// We do not have to check other items anymore.\n			break\n		}\n","		if topItem.activeExpireTime.After(currTime) {\n			if topItem.inactiveExpireTime.After(currTime) {\n				// We do not have to check other items anymore.\n				break\n			}\n		}\n",'&& rewritten as nested ifs')
neutral('reuse-read-buffer-decoder-copies',T,"		defer close(doneCh)\n		for {\n","		defer close(doneCh)\n		var buff []byte\n		for {\n",'read buffer reused while every decoder case copies (first half of a two-site fault, harmless alone)')
N[-1]['more']=[dict(file=f,find=a,replace=b) for f,a,b in REUSE]
neutral('octets-not-copied-fresh-buffer',IE,NOCOPY_FIND,NOCOPY_REPL,'octet array keeps the input slice while the buffer is fresh per message (second half, harmless alone)')
# ---- batch 3: one fault per rule class that had none
add('C16','v2-template-skips-specifiers',REC,"		infoElement := elements[idx].GetInfoElement()\n		r.addInfoElement(infoElement)\n","		infoElement := elements[idx].GetInfoElement()\n		_ = infoElement\n",'R-EQUIV.template')
add('C16','v2-length-from-template-len',REC,"			length += elements[idx].GetLength()\n","			length += int(elements[idx].GetInfoElement().Len)\n",'R-EQUIV')
add('C16','v2-no-prepare',SET,"		record = NewTemplateRecordFromElements(templateID, elements, s.isDecoding)\n		err := record.PrepareRecord()\n		if err != nil {\n			return err\n		}\n","		record = NewTemplateRecordFromElements(templateID, elements, s.isDecoding)\n",'R-EQUIV.prepare')
add('C16','copy-path-adopts',SET,"		record = NewDataRecord(templateID, len(elements), numExtraElements, s.isDecoding)\n","		record = NewDataRecordFromElements(templateID, elements[:0:len(elements)+numExtraElements], s.isDecoding)\n",'R-EQUIV.no-adopt')
add('C16','copy-path-skips-first',SET,"	for i := range elements {\n		err := record.AddInfoElement(elements[i])\n","	for i := range elements {\n		if i == 0 && s.setType == Template && len(elements) > 64 {\n			continue\n		}\n		err := record.AddInfoElement(elements[i])\n",'R-EQUIV.copy-path')
add('C16','template-length-constant',REC,"func (t *templateRecord) GetRecordLength() int {\n	return len(t.buffer)\n","func (t *templateRecord) GetRecordLength() int {\n	return 4 + 4*int(t.fieldCount)\n",'R-EQUIV.record-length')
add('C16','set-length-getter-header',SET,"func (s *set) GetSetLength() int {\n	return s.length\n","func (s *set) GetSetLength() int {\n	return len(s.headerBuffer) + len(s.records)\n",'R-VALUE.set-accessors')
add('C02','header-seq-offset',MES,"		binary.BigEndian.PutUint32(m.msgHeader[8:12], seqNum)\n","		binary.BigEndian.PutUint32(m.msgHeader[4:8], seqNum)\n",'R-RFC')
add('C02','header-len-const',MES,"	MsgHeaderLength  int = 16\n","	MsgHeaderLength  int = 20\n",'R-RFC.const')
add('C02','version-9',MSG,"	msg.SetVersion(10)\n","	msg.SetVersion(9)\n",'R-RFC.stamp')
add('C02','enterprise-bit-wrong-byte',REC,"		t.buffer[initialLength] = t.buffer[initialLength] | 0x80\n","		t.buffer[initialLength+1] = t.buffer[initialLength+1] | 0x80\n",'R-RFC.template')
add('C02','template-set-id-3',SET,"		binary.BigEndian.PutUint16(s.headerBuffer[0:2], TemplateSetID)\n","		binary.BigEndian.PutUint16(s.headerBuffer[0:2], TemplateSetID+1)\n",'R-RFC')
add('C02','set-length-written-at-0',SET,"		binary.BigEndian.PutUint16(s.headerBuffer[2:4], uint16(s.length))\n","		binary.BigEndian.PutUint16(s.headerBuffer[0:2], uint16(s.length))\n",'R-')
add('C02','msg-len-without-header',MSG,"	msg.SetMessageLen(uint16(msgLen))\n","	msg.SetMessageLen(uint16(set.GetSetLength()))\n",'R-')
add('C08','obs-domain-from-seq',E,"	bytesSlice, err := CreateIPFIXMsg(set, ep.obsDomainID, seqNumber, time.Now())\n","	bytesSlice, err := CreateIPFIXMsg(set, seqNumber, seqNumber, time.Now())\n",'R-VALUE.obs-domain')
add('C08','second-write-of-header',E,"	bytesSent, err := ep.connToCollector.Write(bytesSlice)\n","	if _, err := ep.connToCollector.Write(bytesSlice[:entities.MsgHeaderLength]); err != nil {\n		return 0, err\n	}\n	bytesSent, err := ep.connToCollector.Write(bytesSlice[entities.MsgHeaderLength:])\n",'R-VALUE.one-write')
add('C08','export-time-ms',MSG,"	msg.SetExportTime(uint32(exportTime.Unix()))\n","	msg.SetExportTime(uint32(exportTime.UnixMilli()))\n",'R-VALUE.export-time')
add('C08','seq-reset-on-template',E,"	seqNumber := atomic.LoadUint32(&ep.seqNumber)\n","	seqNumber := atomic.SwapUint32(&ep.seqNumber, 0)\n",'R-')
add('C06','min-picks-later',PQ,"	if pq[i].activeExpireTime.Before(pq[i].inactiveExpireTime) {\n		return pq[i].activeExpireTime\n	} else {\n		return pq[i].inactiveExpireTime\n	}\n","	if pq[i].activeExpireTime.Before(pq[i].inactiveExpireTime) {\n		return pq[i].inactiveExpireTime\n	} else {\n		return pq[i].activeExpireTime\n	}\n",'R-HEAP.min')
add('C06','pop-first',PQ,"	item := (*pq)[n-1]\n	item.index = -1\n	*pq = (*pq)[0:(n - 1)]\n","	item := (*pq)[0]\n	item.index = -1\n	*pq = (*pq)[1:n]\n",'R-HEAP.pop')
add('C06','push-index-off',PQ,"	item.index = n\n","	item.index = n + 1\n",'R-HEAP.push')
add('C06','expiry-from-item-1',A,"a.expirePriorityQueue.minExpireTime(0).Sub(currTime)","a.expirePriorityQueue.minExpireTime(a.expirePriorityQueue.Len() - 1).Sub(currTime)",'R-HEAP.expiry')
add('C06','delete-when-active-expired',A,"		if !pqItem.inactiveExpireTime.After(currTime) {\n","		if !pqItem.activeExpireTime.After(currTime) {\n",'R-GATE.delete-test')
add('C06','stop-on-active-only',A,"		if topItem.activeExpireTime.After(currTime) && topItem.inactiveExpireTime.After(currTime) {\n","		if topItem.activeExpireTime.After(currTime) {\n",'R-GATE.stop-test')
add('C06','rearm-inactive-timeout',A,"		pqItem.activeExpireTime = currTime.Add(a.activeExpiryTimeout)\n		heap.Push(&a.expirePriorityQueue, pqItem)\n	}\n	return nil\n","		pqItem.activeExpireTime = currTime.Add(a.inactiveExpiryTimeout)\n		heap.Push(&a.expirePriorityQueue, pqItem)\n	}\n	return nil\n",'R-VALUE.rearm')
add('C06','rearm-before-callback',A,"		err := callback(*pqItem.flowKey, pqItem.flowRecord)\n		if err != nil {\n","		pqItem.activeExpireTime = currTime.Add(a.activeExpiryTimeout)\n		err := callback(*pqItem.flowKey, pqItem.flowRecord)\n		if err != nil {\n",'R-VALUE.rearm-after-success')
add('C06','map-insert-without-push',A,"		pqItem.inactiveExpireTime = currTime.Add(a.inactiveExpiryTimeout)\n		heap.Push(&a.expirePriorityQueue, pqItem)\n	}\n	a.flowKeyRecordMap[*flowKey] = aggregationRecord\n","		pqItem.inactiveExpireTime = currTime.Add(a.inactiveExpiryTimeout)\n		if a.expirePriorityQueue.Len() < 100000 {\n			heap.Push(&a.expirePriorityQueue, pqItem)\n		}\n	}\n	a.flowKeyRecordMap[*flowKey] = aggregationRecord\n",'R-OWNER.insert')
add('C06','delete-exported-unpaired',A,"func (a *AggregationProcess) SetCorrelatedFieldsFilled(","func (a *AggregationProcess) DropFlow(flowKey FlowKey) {\n	a.mutex.Lock()\n	defer a.mutex.Unlock()\n	delete(a.flowKeyRecordMap, flowKey)\n}\n\nfunc (a *AggregationProcess) SetCorrelatedFieldsFilled(",'R-OWNER.delete')
add('C07','retries-reset-on-update',A,"		// Reset the inactive expiry time in the queue item with updated aggregate\n","		aggregationRecord.waitForReadyToSendRetries = 0\n		// Reset the inactive expiry time in the queue item with updated aggregate\n",'R-OWNER.retries')
add('C05','map-insert-second-site',A,"	if !exists {\n		return fmt.Errorf(\"flow key %v is not present in the map\", flowKey)\n	}\n	delete(a.flowKeyRecordMap, flowKey)\n","	if !exists {\n		return fmt.Errorf(\"flow key %v is not present in the map\", flowKey)\n	}\n	delete(a.flowKeyRecordMap, flowKey)\n	if flowKey.Protocol == 0 {\n		a.flowKeyRecordMap[FlowKey{}] = &AggregationFlowRecord{}\n	}\n",'R-OWNER.map-insert')
add('C12','udp-buffer-hoisted',U,"			for {\n				buff := make([]byte, cp.maxBufferSize)\n				size, address, err := conn.ReadFromUDP(buff)\n","			buff := make([]byte, cp.maxBufferSize)\n			for {\n				size, address, err := conn.ReadFromUDP(buff)\n",'R-OWNER.datagram-buffer')
add('C12','dtls-no-copy',U,"				cp.handleUDPMessage(address, buffBytes)\n","				_ = buffBytes\n				cp.handleUDPMessage(address, buff[0:size])\n",'R-OWNER.datagram-buffer')
add('C12','handler-handshake',T,"	address := conn.RemoteAddr().String()\n	// The channels stored in clientHandler","	if tc, ok := conn.(*tls.Conn); ok {\n		_ = tc.Handshake()\n	}\n	address := conn.RemoteAddr().String()\n	// The channels stored in clientHandler",'R-STOP.handler-blocking')
add('C12','udp-dispatch-plain-send',U,"	select {\n	case client.packetChan <- bytes.NewBuffer(buf):\n		break\n	case <-client.closeClientChan:\n		break\n	}\n","	client.packetChan <- bytes.NewBuffer(buf)\n",'R-STOP.send')
add('C12','tcp-handler-waits-done-only',T,"	select {\n	case <-cp.stopChan:\n		break\n	case <-doneCh:\n		break\n	}\n","	<-doneCh\n",'R-STOP')
add('C12','stop-without-wait',P,"	close(cp.stopChan)\n	// wait for all connections to be safely deleted and returned\n	cp.wg.Wait()\n","	close(cp.stopChan)\n",'R-WG.stop')
add('C12','async-delivery',P,"	cp.messageChan <- message\n","	go func() { cp.messageChan <- message }()\n",'R-OWNER.delivery')
add('C12','unlock-missing-on-path',P,"func (cp *CollectingProcess) GetNumConnToCollector() int64 {\n	cp.mutex.RLock()\n	defer cp.mutex.RUnlock()\n	return int64(len(cp.clients))\n","func (cp *CollectingProcess) GetNumConnToCollector() int64 {\n	cp.mutex.RLock()\n	if len(cp.clients) == 0 {\n		return 0\n	}\n	n := int64(len(cp.clients))\n	cp.mutex.RUnlock()\n	return n\n",'R-LOCK.balanced')
add('C12','listener-never-closed',T,"	<-cp.stopChan\n	listener.Close()\n}","	<-cp.stopChan\n}",'R-STOP.netread')
add('C13','reentrant-numflows',A,"	currTime := time.Now()\n	for a.expirePriorityQueue.Len() > 0 {\n","	currTime := time.Now()\n	klog.V(4).InfoS(\"scan\", \"flows\", a.GetNumFlows())\n	for a.expirePriorityQueue.Len() > 0 {\n",'R-LOCK.reentrant')
add('C13','unlock-around-callback',A,"		err := callback(*pqItem.flowKey, pqItem.flowRecord)\n		if err != nil {\n","		a.mutex.Unlock()\n		err := callback(*pqItem.flowKey, pqItem.flowRecord)\n		a.mutex.Lock()\n		if err != nil {\n",'R-LOCK')
add('C14','set-deadline-both',E,"	ep.connToCollector.SetReadDeadline(time.Now().Add(time.Millisecond))\n","	ep.connToCollector.SetDeadline(time.Now().Add(time.Millisecond))\n",'R-OWNER.conn-methods')
add('C14','send-bypasses-sendset',E,"func (ep *ExportingProcess) GetMsgSizeLimit() int {","func (ep *ExportingProcess) SendRaw(set entities.Set) (int, error) {\n	return ep.createAndSendIPFIXMsg(set)\n}\n\nfunc (ep *ExportingProcess) GetMsgSizeLimit() int {",'R-OWNER.sender-callers')
add('C14','refresh-period-ms',E,"			ticker := time.NewTicker(time.Duration(input.TempRefTimeout) * time.Second)\n","			ticker := time.NewTicker(time.Duration(input.TempRefTimeout) * time.Millisecond)\n",'R-PERIOD')
add('C14','checker-ignores-stop',E,"				case <-expProc.stopCh:\n					return\n				case <-ticker.C:\n					isConnected","				case <-ticker.C:\n					isConnected",'R-STOP.select')
add('C14','update-template-unlocked',E,"	ep.templateMutex.Lock()\n	defer ep.templateMutex.Unlock()\n\n	if _, exist := ep.templatesMap[id]; exist {\n		return\n	}\n","	if _, exist := ep.templatesMap[id]; exist {\n		return\n	}\n",'R-LOCK.guarded')
add('C09','no-undefined-gate',E,"	if setType == entities.Undefined {\n		return 0, fmt.Errorf(\"set type is not properly defined\")\n	}\n","",'R-GATE.undefined-type')
add('C09','write-outside-sender',E,"	close(ep.stopCh)\n	if err := ep.connToCollector.Close(); err != nil {","	close(ep.stopCh)\n	_, _ = ep.connToCollector.Write([]byte{0, 10, 0, 16})\n	if err := ep.connToCollector.Close(); err != nil {",'R-OWNER.write')
add('C09','register-before-send',E,"	if err != nil {\n		return bytesSent, err\n	}\n	// Templates are recorded only once they have been sent, so that data sets are never\n	// accepted for a template the collector did not receive.\n	if setType == entities.Template {\n		for _, record := range set.GetRecords() {\n			ep.updateTemplate(record.GetTemplateID(), record.GetOrderedElementList(), record.GetMinDataRecordLen())\n		}\n	}\n	return bytesSent, nil\n","	if setType == entities.Template {\n		for _, record := range set.GetRecords() {\n			ep.updateTemplate(record.GetTemplateID(), record.GetOrderedElementList(), record.GetMinDataRecordLen())\n		}\n	}\n	if err != nil {\n		return bytesSent, err\n	}\n	return bytesSent, nil\n",'R-GATE.register-after-send')
add('C09','reset-keeps-type',SET,"	s.setType = Undefined\n	s.records = nil\n","	s.records = nil\n",'R-RESET')
add('C19','ack-in-goroutine',K,"	if kp.input.KafkaLogSuccesses {\n		kafkaMsg := <-kp.producer.Successes()\n		klog.V(4).Infof(\"Sent the message successfully: %v\", kafkaMsg)\n	}\n","	if kp.input.KafkaLogSuccesses {\n		go func() {\n			kafkaMsg := <-kp.producer.Successes()\n			klog.V(4).Infof(\"Sent the message successfully: %v\", kafkaMsg)\n		}()\n	}\n",'R-ORDER.ack')
add('C19','publish-reversed',K,"		for _, flowMsg := range flowMsgs {\n			kp.SendFlowMessage(flowMsg, true)\n		}\n","		for i := len(flowMsgs) - 1; i >= 0; i-- {\n			kp.SendFlowMessage(flowMsgs[i], true)\n		}\n",'R-ORDER')
add('C19','convert-skips-slot',F1,"	for i, record := range records {\n		flowMsgs[i] = convertRecordToFlowMsg(msg, record)\n	}\n","	for i, record := range records {\n		flowMsgs[len(records)-1-i] = convertRecordToFlowMsg(msg, record)\n	}\n",'R-ORDER.convert')
add('C19','convertor-global-state',F1,"type convertRecordToFlowType1 struct{}\n","type convertRecordToFlowType1 struct{}\n\nvar lastFlowType1 = &protobuf.FlowType1{}\n",'R-PURE.convertor',False,'',[(F1,"		flowType1 := &protobuf.FlowType1{}\n		flowType1.TimeReceived = msg.GetExportTime()\n","		flowType1 := lastFlowType1\n		flowType1.TimeReceived = msg.GetExportTime()\n")])
add('C19','header-seq-from-domain',F1,"		flowType1.SequenceNumber = msg.GetSequenceNum()\n","		flowType1.SequenceNumber = msg.GetObsDomainID()\n",'R-VALUE.kafka-header')
add('C19','consumer-strips-2',KC,"		value = value[msgDelimitLen:]\n","		value = value[msgDelimitLen-2:]\n",'R-TABLE.consumer')
add('C20','render-misses-type',CC,"				case entities.Boolean:\n					fmt.Fprintf(&buf, \"    %s: %v \\n\", elem.Name, ie.GetBooleanValue())\n","",'R-EXHAUST')
add('C20','bad-count-accepted',CC,"			if count, err = strconv.Atoi(countP); err != nil || count < 0 {\n","			if count, err = strconv.Atoi(countP); err != nil {\n",'R-GATE.refuse')
add('C20','handler-lock-leak',CC,"		mutex.Lock()\n		defer mutex.Unlock()\n		klog.InfoS(\"Reset flow records\")\n","		mutex.Lock()\n		klog.InfoS(\"Reset flow records\")\n",'R-LOCK')
add('C20','second-store-writer',CC,"		case msg := <-messageReceived:\n			addIPFIXMessage(msg)\n","		case msg := <-messageReceived:\n			addIPFIXMessage(msg)\n			if msg.GetSet().GetNumberOfRecords() == 0 {\n				mutex.Lock()\n				flowRecords = append(flowRecords, \"\")\n				mutex.Unlock()\n			}\n",'R-OWNER.store')
add('C20','clamp-missing-upper',CC,"		if count < 0 || count > len(flowRecords) {\n","		if count < 0 {\n",'R-VALUE.clamp')
add('C20','insert-at-front',CC,"	flowRecords = append(flowRecords, buf.String())\n","	flowRecords = append([]string{buf.String()}, flowRecords...)\n",'R-VALUE.insert')
add('C20','reset-keeps-last',CC,"		flowRecords = []string{}\n","		if len(flowRecords) > 0 {\n			flowRecords = flowRecords[len(flowRecords)-1:]\n		}\n",'R-VALUE.reset')
add('C20','text-trimmed',CC,"				w.Write([]byte(records[idx]))\n","				w.Write(bytes.TrimSpace([]byte(records[idx])))\n",'R-VALUE.verbatim')
add('C18','dtls-client-ems-optional',E,"				RootCAs:              roots,\n				ExtendedMasterSecret: dtls.RequireExtendedMasterSecret,\n","				RootCAs:              roots,\n				ExtendedMasterSecret: dtls.RequestExtendedMasterSecret,\n",'R-TLS.dtls-ems')
add('C18','server-name-dropped',E,"		Certificates: []tls.Certificate{cert},\n		RootCAs:      roots,\n		MinVersion:   tls.VersionTLS12,\n		ServerName:   config.ServerName,\n","		Certificates: []tls.Certificate{cert},\n		RootCAs:      roots,\n		MinVersion:   tls.VersionTLS12,\n",'R-TLS.server-name')
add('C18','keypair-error-ignored',E,"	cert, err := tls.X509KeyPair(config.CertData, config.KeyData)\n	if err != nil {\n		return nil, err\n	}\n","	cert, _ := tls.X509KeyPair(config.CertData, config.KeyData)\n",'R-TLS.keypair')
add('C18','client-cas-unchecked',T,"	ok := roots.AppendCertsFromPEM(cp.caCert)\n	if !ok {\n		return nil, fmt.Errorf(\"failed to parse root certificate\")\n	}\n","	if ok := roots.AppendCertsFromPEM(cp.caCert); !ok {\n		klog.Error(fmt.Errorf(\"failed to parse root certificate\"))\n	}\n",'R-TLS.client-cas')
add('C18','cacert-cleared-later',P,"func (cp *CollectingProcess) GetAddress() net.Addr {","func (cp *CollectingProcess) DisableClientAuth() {\n	cp.caCert = nil\n}\n\nfunc (cp *CollectingProcess) GetAddress() net.Addr {",'R-OWNER.tls-fields')
add('C04','lookup-skipped-when-known-empty',P,"	template, err := cp.getTemplateIEs(obsDomainID, templateID)\n	if err != nil {\n		return nil, fmt.Errorf(\"template %d with obsDomainID %d does not exist\", templateID, obsDomainID)\n	}\n","	template, err := cp.getTemplateIEs(obsDomainID, templateID)\n	if err != nil && dataBuffer.Len() > 0 {\n		return nil, fmt.Errorf(\"template %d with obsDomainID %d does not exist\", templateID, obsDomainID)\n	}\n",'R-GATE.lookup')
add('C04','prepare-before-lookup',P,"	template, err := cp.getTemplateIEs(obsDomainID, templateID)\n	if err != nil {\n		return nil, fmt.Errorf(\"template %d with obsDomainID %d does not exist\", templateID, obsDomainID)\n	}\n	dataSet := entities.NewSet(true)\n	if err = dataSet.PrepareSet(entities.Data, templateID); err != nil {\n		return nil, err\n	}\n","	dataSet := entities.NewSet(true)\n	if err := dataSet.PrepareSet(entities.Data, templateID); err != nil {\n		return nil, err\n	}\n	if dataBuffer.Len() > 2 {\n		cp.incrementNumRecordsReceived()\n	}\n	template, err := cp.getTemplateIEs(obsDomainID, templateID)\n	if err != nil {\n		return nil, fmt.Errorf(\"template %d with obsDomainID %d does not exist\", templateID, obsDomainID)\n	}\n",'R-GATE.lookup-first')
add('C04','store-skipped-for-empty',P,"	cp.addTemplate(obsDomainID, templateID, elementsWithValue)\n	return templateSet, nil\n","	if len(elementsWithValue) > 0 {\n		cp.addTemplate(obsDomainID, templateID, elementsWithValue)\n	}\n	return templateSet, nil\n",'R-GATE.store')
add('C04','get-template-unlocked',P,"func (cp *CollectingProcess) getTemplateIEs(obsDomainID uint32, templateID uint16) ([]*entities.InfoElement, error) {\n	cp.mutex.RLock()\n	defer cp.mutex.RUnlock()\n","func (cp *CollectingProcess) getTemplateIEs(obsDomainID uint32, templateID uint16) ([]*entities.InfoElement, error) {\n",'R-LOCK.guarded')
add('C04','templates-replaced-elsewhere',P,"func (cp *CollectingProcess) GetAddress() net.Addr {","func (cp *CollectingProcess) ForgetTemplates() {\n	cp.mutex.Lock()\n	defer cp.mutex.Unlock()\n	cp.templatesMap = make(map[uint32]map[uint16]*template)\n}\n\nfunc (cp *CollectingProcess) GetAddress() net.Addr {",'R-OWNER.templates')
add('C03','panic-on-bad-version',P,"		return nil, fmt.Errorf(\"collector only supports IPFIX (v10); invalid version %d received\", version)\n","		panic(fmt.Errorf(\"collector only supports IPFIX (v10); invalid version %d received\", version))\n",'R-PANIC')
add('C11','reader-exit-keeps-conn',T,"	defer conn.Close()\n	reader := bufio.NewReader(conn)\n","	reader := bufio.NewReader(conn)\n",'R-FRAME.close-on-exit')
add('C11','decode-prefix-only',T,"			message, err := cp.decodePacket(bytes.NewBuffer(buff), address)\n","			message, err := cp.decodePacket(bytes.NewBuffer(buff[:len(buff)-1]), address)\n",'R-FRAME.message-bytes')
add('C11','second-consumer',T,"	reader := bufio.NewReader(conn)\n	doneCh := make(chan struct{})\n","	reader := bufio.NewReader(conn)\n	if peek, err := reader.Peek(2); err == nil && peek[1] != 10 {\n		_, _ = reader.Discard(2)\n	}\n	doneCh := make(chan struct{})\n",'R-FRAME.single-consumer')
add('C15','length-table-mac-8',IE,"	MacAddress:           6,\n","	MacAddress:           8,\n",'R-CODEC.length-table')
add('C15','micros-decoded-as-u64',IE,"	case DateTimeMicroseconds, DateTimeNanoseconds:\n		return nil, fmt.Errorf(\"API does not support micro and nano seconds types yet\")\n	case MacAddress:\n		if value == nil {","	case DateTimeMicroseconds, DateTimeNanoseconds:\n		if value == nil {\n			return NewDateTimeMillisecondsInfoElement(element, 0), nil\n		}\n		return NewDateTimeMillisecondsInfoElement(element, binary.BigEndian.Uint64(value)), nil\n	case MacAddress:\n		if value == nil {",'R-CODEC')
add('C15','string-length-without-prefix',IV,"func (s *StringInfoElement) GetLength() int {\n	if len(s.value) < 255 {\n		return len(s.value) + 1\n","func (s *StringInfoElement) GetLength() int {\n	if len(s.value) < 255 {\n		return len(s.value)\n",'R-CODEC')
add('C17','keep-drops-trailing-zero',IE,"		if value != nil {\n			val = append(val, value...)\n		}\n		return NewOctetArrayInfoElement(element, val), nil\n","		if value != nil {\n			val = append(val, value[:len(value)-len(value)%2]...)\n		}\n		return NewOctetArrayInfoElement(element, val), nil\n",'R-VALUE.keep')
add('C01','registry-maps-diverge',"pkg/registry/registry.go","	globalRegistryByID[ie.EnterpriseId][ie.ElementId] = &ie\n	globalRegistryByName[ie.EnterpriseId][ie.Name] = &ie\n\n","	byID := ie\n	globalRegistryByID[ie.EnterpriseId][ie.ElementId] = &byID\n	globalRegistryByName[ie.EnterpriseId][ie.Name] = &ie\n\n",'R-TABLE.registry-maps')
add('C01','field-order-reversed',P,"		for _, ie := range template {\n			var length int\n","		for k := len(template) - 1; k >= 0; k-- {\n			ie := template[k]\n			var length int\n",'R-LAYOUT.field-order')
add('C01','field-bytes-other-element',P,"			element, err := entities.DecodeAndCreateInfoElementWithValue(ie, dataBuffer.Next(length))\n","			element, err := entities.DecodeAndCreateInfoElementWithValue(template[0], dataBuffer.Next(length))\n",'R-LAYOUT.field-bytes')
add('C01','template-header-swapped',P,"	if err := util.Decode(templateBuffer, binary.BigEndian, &templateID, &fieldCount); err != nil {\n","	if err := util.Decode(templateBuffer, binary.BigEndian, &fieldCount, &templateID); err != nil {\n",'R-LAYOUT.template')
add('C01','udp-bypasses-decoder',U,"				message, err := cp.decodePacket(packet, addr)\n				if err != nil {\n","				message, err := cp.decodePacket(bytes.NewBuffer(packet.Bytes()[:packet.Len()/2*2]), addr)\n				if err != nil {\n",'R-')
add('C05','prev-end-from-existing-start',A,"		incomingIe, _, _ := incomingRecord.GetInfoElementWithValue(\"flowStartSeconds\")\n		existingVal = incomingIe.GetUnsigned32Value()\n","		incomingIe, _, _ := existingRecord.GetInfoElementWithValue(\"flowStartSeconds\")\n		existingVal = incomingIe.GetUnsigned32Value()\n",'R-VALUE.prev-end')
add('C05','dst-seed-uses-src-flag',A,"			value = uint64(0)\n			if fillDstStats {\n				value = ieWithValue.GetUnsigned64Value()\n			}\n","			value = uint64(0)\n			if fillSrcStats {\n				value = ieWithValue.GetUnsigned64Value()\n			}\n",'R-VALUE.base')
add('C05','initial-throughput-unguarded',A,"	if timeEnd > timeStart {\n		incomingVal = byteCount * 8 / (uint64(timeEnd - timeStart))\n","	if timeEnd >= timeStart {\n		incomingVal = byteCount * 8 / (uint64(timeEnd - timeStart))\n",'R-VALUE.base')
add('C05','wrong-getter-for-name',A,"	timeEnd, err = getUnsigned32ValueByIeName(record, \"flowEndSeconds\")\n","	timeEnd64, err := getUnsigned64ValueByIeName(record, \"flowEndSeconds\")\n	timeEnd = uint32(timeEnd64)\n",'R-GETTER.name')
add('C07','correlate-u16-via-u8',A,"				val := ieWithValue.GetUnsigned16Value()\n				if val != uint16(0) {\n					existingIeWithValue, _, _ := existingRecord.GetInfoElementWithValue(field)\n					existingIeWithValue.SetUnsigned16Value(val)\n","				val := ieWithValue.GetUnsigned16Value()\n				if val != uint16(0) {\n					existingIeWithValue, _, _ := existingRecord.GetInfoElementWithValue(field)\n					existingIeWithValue.SetUnsigned8Value(uint8(val))\n",'R-SIBLING.correlate')
add('C08','obs-domain-setter',E,"func (ep *ExportingProcess) GetMsgSizeLimit() int {","func (ep *ExportingProcess) SetObservationDomainID(id uint32) {\n	ep.obsDomainID = id\n}\n\nfunc (ep *ExportingProcess) GetMsgSizeLimit() int {",'R-OWNER.obs-domain')
add('C08','seq-reset-api',E,"func (ep *ExportingProcess) GetMsgSizeLimit() int {","func (ep *ExportingProcess) ResetSequence() {\n	atomic.StoreUint32(&ep.seqNumber, 0)\n}\n\nfunc (ep *ExportingProcess) GetMsgSizeLimit() int {",'R-OWNER.seq')
add('C08','template-id-in-refresher',E,"					err := expProc.sendRefreshedTemplates()\n","					expProc.templateID++\n					err := expProc.sendRefreshedTemplates()\n",'R-SHARE')
# ---- batch 4: adversarial faults written against the strengthened rules
add('C01','length-guard-too-strong',P,"			if dataBuffer.Len() < length {\n","			if dataBuffer.Len() <= length {\n",'')
add('C06','update-args-swapped',A,"			flowKey, aggregationRecord, aggregationRecord.PriorityQueueItem.activeExpireTime, currTime.Add(a.inactiveExpiryTimeout))\n","			flowKey, aggregationRecord, currTime.Add(a.inactiveExpiryTimeout), aggregationRecord.PriorityQueueItem.activeExpireTime)\n",'')
add('C10','reset-half-ttl',P,"		tpl.expiryTimer.Reset(cp.templateTTL)\n","		tpl.expiryTimer.Reset(cp.templateTTL / 2)\n",'')
add('C12','client-exit-keeps-close-chan-open',U,"		defer close(client.closeClientChan)\n","",'')
add('C14','close-without-wait',E,"	ep.closeConnToCollector()\n	ep.wg.Wait()\n","	ep.closeConnToCollector()\n",'')
add('C17','placeholder-string-type',P,"				element = entities.NewInfoElement(\"\", elementID, entities.OctetArray, enterpriseID, elementLength)\n			}\n		} else {","				element = entities.NewInfoElement(\"\", elementID, entities.String, enterpriseID, elementLength)\n			}\n		} else {",'')
add('C18','client-min-version-11',E,"		Certificates: []tls.Certificate{cert},\n		RootCAs:      roots,\n		MinVersion:   tls.VersionTLS12,\n","		Certificates: []tls.Certificate{cert},\n		RootCAs:      roots,\n		MinVersion:   tls.VersionTLS11,\n",'')
add('C19','topic-literal',K,"		Topic: kp.input.KafkaTopic,\n","		Topic: \"ipfix\",\n",'')
add('C20','json-returns-whole-store',CC,"				FlowRecords: records,\n","				FlowRecords: flowRecords,\n",'')
add('C03','reader-threshold-254',P,"	if oneByte < 255 { // string length is less than 255\n","	if oneByte < 254 { // string length is less than 255\n",'')
add('C09','size-gate-after-stamp',MSG,"	if msgLen > entities.MaxSocketMsgSize {\n		// This is applicable for both TCP and UDP sockets.\n		return nil, fmt.Errorf(\"message size exceeds max socket buffer size\")\n	}\n","	if msgLen > entities.MaxSocketMsgSize && set.GetSetType() == entities.Data {\n		// This is applicable for both TCP and UDP sockets.\n		return nil, fmt.Errorf(\"message size exceeds max socket buffer size\")\n	}\n",'')
add('C08','bytes-sent-minus-header',E,"	return bytesSent, nil\n}\n\n// createAndSendJSONMsg","	return bytesSent - entities.MsgHeaderLength, nil\n}\n\n// createAndSendJSONMsg",'')
add('C16','reset-keeps-records-cap',SET,"	s.records = nil\n	s.records = make([]Record, 0)\n","	s.records = s.records[:0:0]\n",'')
add('C05','latest-skips-end-update',A,"				isLatest = true\n				existingIeWithValue.SetUnsigned32Value(incomingVal)\n","				isLatest = true\n				if fillSrcStats {\n					existingIeWithValue.SetUnsigned32Value(incomingVal)\n				}\n",'')
add('C05','tcpstate-unguarded',A,"				if isLatest {\n					incomingVal := ieWithValue.GetStringValue()\n					existingIeWithValue.SetStringValue(incomingVal)\n				}\n","				{\n					incomingVal := ieWithValue.GetStringValue()\n					existingIeWithValue.SetStringValue(incomingVal)\n				}\n",'')
# codec faults are also RFC-conformance faults (C02) and round-trip faults (C01)
for m in list(M.get('C15',[])):
    if m['name'] in ('encoder-signed16-little','bool-swapped','string-len-255','length-table-mac-8','string-length-without-prefix'):
        for q in ('C02','C01'):
            if not any(x['name']==m['name'] for x in M.get(q,[])):
                d=dict(m); d['expect']=''; d['canary']=False; M.setdefault(q,[]).append(d)
# ---- the independently seeded changes (seeded/<P>-<mN>/patch.diff) are part of the thorough self-test of their property
import glob, os
for d in sorted(glob.glob('/verif/seeded/C*-m*')):
    if not os.path.exists(d+'/patch.diff'): continue
    name=os.path.basename(d); prop=name.split('-')[0]
    M.setdefault(prop,[]).append(dict(name='seed-'+name,file='',find='',replace='',expect='',neutral=False,canary=False,
        note='independently seeded change, see seeded/%s/meta.json'%name, patch='seeded/%s/patch.diff'%name))
neutral('default-check-interval-5s',E,"const defaultCheckConnInterval = 10 * time.Second","const defaultCheckConnInterval = 5 * time.Second",'another default check interval: the property does not fix its value')
neutral('pop-container-heap-idiom',PQ,"	n := len(*pq)\n	item := (*pq)[n-1]\n	item.index = -1\n	*pq = (*pq)[0:(n - 1)]\n	return item\n","	old := *pq\n	n := len(old)\n	item := old[n-1]\n	old[n-1] = nil\n	item.index = -1\n	*pq = old[0 : n-1]\n	return item\n",'Pop written as in the container/heap documentation')
neutral('copy-path-value-range',SET,"	for i := range elements {\n		err := record.AddInfoElement(elements[i])\n		if err != nil {\n			return err\n		}\n	}\n","	for _, e := range elements {\n		if err := record.AddInfoElement(e); err != nil {\n			return err\n		}\n	}\n",'value range instead of index range in the copying add path')
neutral('udp-datagram-named-slice',U,"				cp.handleUDPMessage(address, buff[0:size])\n","				datagram := buff[:size]\n				cp.handleUDPMessage(address, datagram)\n",'the datagram slice gets a name')
neutral('expiry-now-renamed',A,"	currTime := time.Now()\n	for a.expirePriorityQueue.Len() > 0 {\n		topItem := a.expirePriorityQueue.Peek()\n		if topItem.activeExpireTime.After(currTime) && topItem.inactiveExpireTime.After(currTime) {","	currTime := time.Now()\n	klog.V(5).InfoS(\"expiry scan\", \"now\", currTime)\n	for a.expirePriorityQueue.Len() > 0 {\n		topItem := a.expirePriorityQueue.Peek()\n		if topItem.activeExpireTime.After(currTime) && topItem.inactiveExpireTime.After(currTime) {",'a log line at the start of the scan')
neutral('tcp-handler-select-no-break',T,"	select {\n	case <-cp.stopChan:\n		break\n	case <-doneCh:\n		break\n	}\n","	select {\n	case <-cp.stopChan:\n	case <-doneCh:\n	}\n",'redundant breaks removed from the select')
neutral('refuse-count-separate-tests',CC,"			if count, err = strconv.Atoi(countP); err != nil || count < 0 {\n				http.Error(w, \"Invalid count query parameter\", http.StatusBadRequest)\n				return\n			}\n","			count, err = strconv.Atoi(countP)\n			if err != nil {\n				http.Error(w, \"Invalid count query parameter\", http.StatusBadRequest)\n				return\n			}\n			if count < 0 {\n				http.Error(w, \"Invalid count query parameter\", http.StatusBadRequest)\n				return\n			}\n",'the two refusal tests written separately')
neutral('refresh-period-variable',E,"			ticker := time.NewTicker(time.Duration(input.TempRefTimeout) * time.Second)\n","			period := time.Duration(input.TempRefTimeout) * time.Second\n			ticker := time.NewTicker(period)\n",'the refresh period gets a name')
neutral('tcp-decode-in-helper',T,"			message, err := cp.decodePacket(bytes.NewBuffer(buff), address)\n			if err != nil {\n				// This can be an invalid template record, or invalid data record.\n				// We close the connection, which is the best way to let the client\n				// (exporter) know that something is wrong.\n				klog.ErrorS(err, \"Error when decoding packet, closing connection\")\n				return\n			}\n			klog.V(4).InfoS(\"Processed message from exporter\",\n				\"observationDomainID\", message.GetObsDomainID(), \"setType\", message.GetSet().GetSetType(), \"numRecords\", message.GetSet().GetNumberOfRecords())\n","			if err := cp.handleTCPMessage(buff, address); err != nil {\n				klog.ErrorS(err, \"Error when decoding packet, closing connection\")\n				return\n			}\n",'decoding of one TCP message moved into a helper that returns the error; the loop still ends on it')
N[-1]['more']=[dict(file=T,find="func (cp *CollectingProcess) createServerConfig() (*tls.Config, error) {",replace="func (cp *CollectingProcess) handleTCPMessage(buff []byte, address string) error {\n	message, err := cp.decodePacket(bytes.NewBuffer(buff), address)\n	if err != nil {\n		return err\n	}\n	klog.V(4).InfoS(\"Processed message from exporter\",\n		\"observationDomainID\", message.GetObsDomainID(), \"setType\", message.GetSet().GetSetType(), \"numRecords\", message.GetSet().GetNumberOfRecords())\n	return nil\n}\n\nfunc (cp *CollectingProcess) createServerConfig() (*tls.Config, error) {")]
neutral('exporter-build-in-helper',E,"func (ep *ExportingProcess) createAndSendIPFIXMsg(set entities.Set) (int, error) {\n	// seqNumber is also read by the template refresh goroutine (UDP).\n	seqNumber := atomic.LoadUint32(&ep.seqNumber)\n	if set.GetSetType() == entities.Data {\n		seqNumber = atomic.AddUint32(&ep.seqNumber, set.GetNumberOfRecords())\n	}\n	bytesSlice, err := CreateIPFIXMsg(set, ep.obsDomainID, seqNumber, time.Now())\n","func (ep *ExportingProcess) buildIPFIXMsg(set entities.Set) ([]byte, error) {\n	// seqNumber is also read by the template refresh goroutine (UDP).\n	seqNumber := atomic.LoadUint32(&ep.seqNumber)\n	if set.GetSetType() == entities.Data {\n		seqNumber = atomic.AddUint32(&ep.seqNumber, set.GetNumberOfRecords())\n	}\n	return CreateIPFIXMsg(set, ep.obsDomainID, seqNumber, time.Now())\n}\n\nfunc (ep *ExportingProcess) createAndSendIPFIXMsg(set entities.Set) (int, error) {\n	bytesSlice, err := ep.buildIPFIXMsg(set)\n",'stamping of the message moved into a helper that the send function calls once')
neutral('query-counter',CC,"var (\n","var queriesServed int\n\nvar (\n",'a pure counter of served queries in the query handler')
N[-1]['more']=[dict(file=CC,find="		mutex.Lock()\n		defer mutex.Unlock()\n		if count < 0 || count > len(flowRecords) {\n",replace="		mutex.Lock()\n		defer mutex.Unlock()\n		queriesServed = queriesServed + 1\n		if count < 0 || count > len(flowRecords) {\n")]
# ---- behaviour-preserving edits written by independent sub-agents (neutral/<P>-nK/): each must stay silent in the check of
# its own property and in every check it had alarmed when it was first analysed (DESIGN 8.5 / 8.6). Patches that still
# raise an alarm are listed in neutral/RESIDUAL.md and are not part of the corpus.
nind=0
for d in sorted(glob.glob('/verif/neutral/C*-n*')):
    if not (os.path.exists(d+'/patch.diff') and os.path.exists(d+'/meta.json')): continue
    meta=json.load(open(d+'/meta.json'))
    if meta.get('alarms_raised_now'): continue
    name=os.path.basename(d); prop=name.split('-')[0]
    props=sorted({prop} | set(meta.get('alarms_raised_when_first_analysed',{}).keys()))
    for q in props:
        M.setdefault(q,[]).append(dict(name='neutral-'+name,file='',find='',replace='',expect='',neutral=True,canary=False,
            note='independent behaviour-preserving edit, see neutral/%s/meta.json'%name, patch='neutral/%s/patch.diff'%name))
        nind+=1
print('independent neutral entries',nind)
for p,ms in M.items():
    json.dump(ms, open(f'/verif/checker/mutants/{p}.json','w'), indent=1)
json.dump(N, open('/verif/checker/mutants/neutral.json','w'), indent=1)
print({p:len(ms) for p,ms in sorted(M.items())}, 'neutral',len(N))
