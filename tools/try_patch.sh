#!/bin/bash
# try_patch.sh <patch.diff> <PROP>... : apply a seeded change to /repo, run the quick checks, undo it.
P=$1; shift
cd /repo || exit 2
if ! git diff --quiet; then echo "/repo dirty"; exit 2; fi
git apply "$P" || { echo "patch does not apply"; exit 3; }
for id in "$@"; do
  /verif/bin/ipfixlint -prop $id -tier quick -verif /tmp/try_verif 2>&1 | grep -E '^(VIOLATION|KNOWN|ipfixlint)' | cut -c1-420
done
git checkout -- . 
