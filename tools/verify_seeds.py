#!/usr/bin/env python3
"""Re-verify seeded changes produced by independent sub-agents and store the confirmed ones under /verif/seeded/<PROP>-<mN>/.
For each candidate /tmp/wt/out/<PROP>/<mN>/{patch.diff,demo_test.go,demo_path.txt,meta.txt}:
  1. fresh scratch worktree of /repo HEAD (outside /repo and /verif), removed afterwards
  2. demo passes on the unmodified tree
  3. patch applies; go build ./... ; the stable baseline passes with the patch
  4. demo fails with the patch
  5. every ipfixlint check is run against the patched worktree (-repo) and the detections are recorded
"""
import json, os, subprocess, sys, shutil, concurrent.futures, re, time
ENV=dict(os.environ, GOFLAGS='-mod=mod', GOPROXY='off', GOSUMDB='off', GOTOOLCHAIN='local'); ENV.pop('GOWORK',None)
SRC=os.environ.get('SEED_SRC','/tmp/wt/out'); DST='/verif/seeded'
LINT=os.environ.get('LINT','/verif/bin/ipfixlint')
OLD=os.environ.get('OLD_LINT','')  # optional: analyser binary as committed before the seeds were seen
FORCE_RACE={('C12','m1'),('C14','m2'),('C13','m10')}
import glob
for f in glob.glob(SRC+'/*/m*/meta.txt'):
    t=open(f).read()
    if re.search(r'(needs|need|requires?|required|with|run with)\s+(the\s+)?`?-race', t, re.I) and not re.search(r'-race`?\s+(is\s+)?not\s+(needed|required)|no\s+`?-race|not need `?-race|-race`? not needed', t, re.I):
        parts=f.split('/'); FORCE_RACE.add((parts[-3],parts[-2]))
PROPS=['C%02d'%i for i in range(1,21)]
def sh(cmd, cwd=None, timeout=900):
    p=subprocess.run(cmd, shell=True, cwd=cwd, env=ENV, capture_output=True, text=True, timeout=timeout)
    return p.returncode, (p.stdout+p.stderr)
def one(prop, m):
    d=f'{SRC}/{prop}/{m}'
    if not os.path.exists(d+'/patch.diff'): return None
    wt=f'/tmp/wt/v_{prop}_{m}'
    sh(f'git -C /repo worktree remove --force {wt}'); shutil.rmtree(wt, ignore_errors=True)
    rc,out=sh(f'git -C /repo worktree add -q --detach {wt} HEAD')
    res=dict(property=prop, variant=m, base_commit=subprocess.check_output('git -C /repo rev-parse --short HEAD',shell=True,text=True).strip())
    try:
        demo_path=open(d+'/demo_path.txt').read().strip().splitlines()[0].strip()
        meta=open(d+'/meta.txt').read()
        race = bool(re.search(r"-race", meta)) and (prop, m) in FORCE_RACE
        pkgdir=os.path.dirname(demo_path)
        shutil.copy(d+'/demo_test.go', f'{wt}/{demo_path}')
        demo_cmd=f"go test -vet=off -count=1 {'-race ' if race else ''}-timeout 180s -run '^TestDemo' ./{pkgdir}/"
        res['demo_cmd']=demo_cmd; res['needs_race']=race
        rc,out=sh(demo_cmd, cwd=wt); res['demo_on_clean']= 'pass' if rc==0 else 'FAIL'
        if rc!=0: res['demo_on_clean_output']=out[-1500:]
        rc,out=sh(f'git apply {d}/patch.diff', cwd=wt); res['patch_applies']= rc==0
        if rc!=0: res['apply_output']=out[-800:]; return res
        rc,out=sh('go build ./...', cwd=wt); res['builds']= rc==0
        rc,out=sh(f'/verif/tools/baseline.sh {wt}', cwd=wt); res['baseline_with_patch']='pass' if rc==0 else 'FAIL'
        if rc!=0: res['baseline_output']=out[-1500:]
        rc,out=sh(demo_cmd, cwd=wt); res['demo_with_patch']='fail' if rc!=0 else 'PASS'
        res['demo_with_patch_tail']=out[-600:]
        # remove demo file before analysing (it is a _test file, ignored anyway)
        det={}
        os.makedirs(f'/tmp/wt/ev_{prop}_{m}', exist_ok=True)
        shutil.copy('/verif/known_findings.json', f'/tmp/wt/ev_{prop}_{m}/known_findings.json')
        if os.environ.get('SCANALL'):
            # one process, the tree loaded once, every property's quick rules (ipfixlint -scan-all)
            rc,out=sh(f'{LINT} -scan-all -repo {wt} -verif /tmp/wt/ev_{prop}_{m}')
            for l in out.splitlines():
                mm=re.match(r'^(C\d+) (VIOLATION .*)$', l)
                if mm: det.setdefault(mm.group(1),[]).append(mm.group(2)[:400])
            det={k:v[:4] for k,v in det.items()}
            if rc!=0: det[prop+'?']=[f'exit {rc}: '+out[-300:]]
        else:
          for q in PROPS:
            rc,out=sh(f'{LINT} -prop {q} -tier quick -repo {wt} -verif /tmp/wt/ev_{prop}_{m}')
            v=[l for l in out.splitlines() if l.startswith('VIOLATION')]
            if rc!=0 or v:
                det[q]=[re.sub(r' replay=\S+','',l)[:400] for l in v[:4]] or [f'exit {rc}: '+out[-300:]]
        res['detected_by']=det
        prev=f'{DST}/{prop}-{m}/meta.json'
        if os.environ.get('BEFORE_FROM_META') and os.path.exists(prev):
            pm=json.load(open(prev))
            res['detected_before']=pm.get('detected_by_checks_before_rules_were_strengthened', pm.get('detected_by_checks',{}))
        elif OLD:
            det0={}
            for q in PROPS:
                rc,out=sh(f'{OLD} -prop {q} -tier quick -repo {wt} -verif /tmp/wt/ev_{prop}_{m}')
                v=[l for l in out.splitlines() if l.startswith('VIOLATION')]
                if rc!=0 or v:
                    det0[q]=[re.sub(r' replay=\S+','',l)[:300] for l in v[:2]] or [f'exit {rc}']
            res['detected_before']=det0
        shutil.rmtree(f'/tmp/wt/ev_{prop}_{m}', ignore_errors=True)
        res['meta_from_author']=meta
    finally:
        sh(f'git -C /repo worktree remove --force {wt}'); shutil.rmtree(wt, ignore_errors=True)
    return res
def main():
    todo=[(p,m) for p in PROPS for m in sorted(os.listdir(f'{SRC}/{p}')) if m.startswith('m')] if False else [(p,m) for p in PROPS if os.path.isdir(f'{SRC}/{p}') for m in sorted(os.listdir(f'{SRC}/{p}'))]
    if len(sys.argv)>1: todo=[tuple(a.split('-')) for a in sys.argv[1:]]
    with concurrent.futures.ThreadPoolExecutor(max_workers=int(os.environ.get("SEED_WORKERS","6"))) as ex:
        futs={ex.submit(one,p,m):(p,m) for p,m in todo}
        for f in concurrent.futures.as_completed(futs):
            p,m=futs[f]
            try: r=f.result()
            except Exception as e: print(p,m,'ERROR',e); continue
            if r is None: continue
            ok = r.get('demo_on_clean')=='pass' and r.get('patch_applies') and r.get('builds') and r.get('baseline_with_patch')=='pass' and r.get('demo_with_patch')=='fail'
            r['confirmed']=bool(ok)
            own = p in r.get('detected_by',{})
            print(f"{p}-{m}: before={sorted(r.get('detected_before',{})) if 'detected_before' in r else '-'} confirmed={ok} clean={r.get('demo_on_clean')} applies={r.get('patch_applies')} baseline={r.get('baseline_with_patch')} demo_patched={r.get('demo_with_patch')} detected_by={sorted(r.get('detected_by',{}))} own={own}", flush=True)
            out=f'{DST}/{p}-{m}'
            if ok:
                os.makedirs(out, exist_ok=True)
                shutil.copy(f'{SRC}/{p}/{m}/patch.diff', out+'/patch.diff')
                shutil.copy(f'{SRC}/{p}/{m}/demo_test.go', out+'/demo_test.go')
                shutil.copy(f'{SRC}/{p}/{m}/demo_path.txt', out+'/demo_path.txt')
                meta=dict(breaks_property=p, variant=m, origin='independent sub-agent given only the property text and a scratch worktree',
                          what_it_needs_to_manifest=r['meta_from_author'], base_commit=r['base_commit'],
                          verification=dict(ran=[r['demo_cmd']+' (clean tree: pass)', 'git apply patch.diff', 'go build ./...', '/verif/tools/baseline.sh <worktree> (pass)', r['demo_cmd']+' (patched: fail)'],
                                            demo_on_clean=r['demo_on_clean'], baseline_with_patch=r['baseline_with_patch'], demo_with_patch=r['demo_with_patch'], needs_race=r['needs_race'], demo_failure_tail=r['demo_with_patch_tail']),
                          detected_by_checks=r['detected_by'], detected_by_own_property_check=own)
                if 'detected_before' in r:
                    meta['detected_by_checks_before_rules_were_strengthened']=r['detected_before']
                json.dump(meta, open(out+'/meta.json','w'), indent=1)
            else:
                json.dump(r, open(f'/tmp/wt/unconfirmed_{p}_{m}.json','w'), indent=1)
main()
