#!/usr/bin/env python3
"""Check behaviour-preserving edits written by independent sub-agents against the checks (false-alarm test).
For each candidate <SRC>/<PROP>/<nK>/{patch.diff,meta.txt}:
  1. fresh scratch worktree of /repo HEAD (outside /repo and /verif), removed afterwards
  2. patch applies; go build ./...; the stable baseline passes with the patch
  3. every demonstration test of the seeded changes of the SAME property (seeded/<PROP>-m*/demo_test.go, which pass on the
     clean tree and fail on their faulty variant) still passes with the patch: evidence that the edit keeps the property
  4. every ipfixlint check is run on the patched worktree: any VIOLATION / non-zero exit is an alarm on a harmless edit
Confirmed edits are stored under /verif/neutral/<PROP>-<nK>/ with the alarms that were raised (empty = silent).
"""
import json, os, subprocess, sys, shutil, concurrent.futures, re, glob
ENV=dict(os.environ, GOFLAGS='-mod=mod', GOPROXY='off', GOSUMDB='off', GOTOOLCHAIN='local'); ENV.pop('GOWORK',None)
SRC=os.environ.get('NEUTRAL_SRC','/tmp/wt/outn'); DST='/verif/neutral'
LINT=os.environ.get('LINT','/verif/bin/ipfixlint')
OLD=os.environ.get('OLD_LINT','')  # optional: the analyser as it stood before these edits were seen
PROPS=['C%02d'%i for i in range(1,21)]
RACE={('C12','m1'),('C14','m2')}
def sh(cmd, cwd=None, timeout=900):
    p=subprocess.run(cmd, shell=True, cwd=cwd, env=ENV, capture_output=True, text=True, timeout=timeout)
    return p.returncode, (p.stdout+p.stderr)
def one(prop, n):
    d=f'{SRC}/{prop}/{n}'
    if not os.path.exists(d+'/patch.diff'): return None
    wt=f'/tmp/wt/vn_{prop}_{n}'
    sh(f'git -C /repo worktree remove --force {wt}'); shutil.rmtree(wt, ignore_errors=True)
    sh(f'git -C /repo worktree add -q --detach {wt} HEAD')
    res=dict(property=prop, variant=n)
    try:
        rc,out=sh(f'git apply {d}/patch.diff', cwd=wt); res['patch_applies']= rc==0
        if rc!=0: res['apply_output']=out[-500:]; return res
        rc,out=sh('go build ./...', cwd=wt); res['builds']= rc==0
        if rc!=0: res['build_output']=out[-800:]; return res
        rc,out=sh(f'/verif/tools/baseline.sh {wt}', cwd=wt); res['baseline']='pass' if rc==0 else 'FAIL'
        if rc!=0: res['baseline_output']=out[-1200:]
        demos={}
        for sd in sorted(glob.glob(f'/verif/seeded/{prop}-m*')):
            m=os.path.basename(sd).split('-')[1]
            path=open(sd+'/demo_path.txt').read().strip().splitlines()[0].strip()
            shutil.copy(sd+'/demo_test.go', f'{wt}/{path}')
            race='-race ' if (prop,m) in RACE else ''
            fn=re.findall(r'func (TestDemo\w+)\(', open(sd+'/demo_test.go').read())
            pat='|'.join(fn) if fn else 'TestDemo'
            rc,out=sh(f"go test -vet=off -count=1 {race}-timeout 240s -run '^({pat})$' ./{os.path.dirname(path)}/", cwd=wt)
            demos[m]='pass' if rc==0 else 'FAIL'
            if rc!=0: res.setdefault('demo_failures',{})[m]=out[-700:]
            os.remove(f'{wt}/{path}')
        res['property_demos']=demos
        alarms={}
        if os.environ.get('NOLINT'):
            res['alarms']={}; res['alarms_before']={}; res['meta_from_author']=open(d+'/meta.txt').read() if os.path.exists(d+'/meta.txt') else ''
            return res
        os.makedirs(f'/tmp/wt/evn_{prop}_{n}', exist_ok=True)
        shutil.copy('/verif/known_findings.json', f'/tmp/wt/evn_{prop}_{n}/known_findings.json')
        for q in PROPS:
            rc,out=sh(f'{LINT} -prop {q} -tier quick -repo {wt} -verif /tmp/wt/evn_{prop}_{n}')
            v=[l for l in out.splitlines() if l.startswith('VIOLATION')]
            if rc!=0 or v:
                alarms[q]=[re.sub(r' replay=\S+','',l)[:500] for l in v[:6]] or [f'exit {rc}: '+out[-300:]]
        res['alarms']=alarms
        if OLD:
            alarms0={}
            for q in PROPS:
                rc,out=sh(f'{OLD} -prop {q} -tier quick -repo {wt} -verif /tmp/wt/evn_{prop}_{n}')
                v=[l for l in out.splitlines() if l.startswith('VIOLATION')]
                if rc!=0 or v:
                    alarms0[q]=[re.sub(r' replay=\S+','',l)[:500] for l in v[:6]] or [f'exit {rc}: '+out[-300:]]
            res['alarms_before']=alarms0
        shutil.rmtree(f'/tmp/wt/evn_{prop}_{n}', ignore_errors=True)
        res['meta_from_author']=open(d+'/meta.txt').read() if os.path.exists(d+'/meta.txt') else ''
    finally:
        sh(f'git -C /repo worktree remove --force {wt}'); shutil.rmtree(wt, ignore_errors=True)
    return res
def main():
    todo=[(p,n) for p in PROPS if os.path.isdir(f'{SRC}/{p}') for n in sorted(os.listdir(f'{SRC}/{p}'))]
    if len(sys.argv)>1: todo=[tuple(a.split('-')) for a in sys.argv[1:]]
    with concurrent.futures.ThreadPoolExecutor(max_workers=int(os.environ.get('SEED_WORKERS','3'))) as ex:
        futs={ex.submit(one,p,n):(p,n) for p,n in todo}
        for f in concurrent.futures.as_completed(futs):
            p,n=futs[f]
            try: r=f.result()
            except Exception as e: print(p,n,'ERROR',e); continue
            if r is None: continue
            demos=r.get('property_demos',{})
            keeps = r.get('patch_applies') and r.get('builds') and r.get('baseline')=='pass' and all(v=='pass' for v in demos.values())
            print(f"{p}-{n}: applies={r.get('patch_applies')} builds={r.get('builds')} baseline={r.get('baseline')} demos_failed={[k for k,v in demos.items() if v!='pass']} ALARMS={sorted(r.get('alarms',{}))}", flush=True)
            for q,ls in r.get('alarms',{}).items():
                for l in ls[:3]: print('     ',q,l[:330])
            if keeps:
                out=f'{DST}/{p}-{n}'; os.makedirs(out, exist_ok=True)
                shutil.copy(f'{SRC}/{p}/{n}/patch.diff', out+'/patch.diff')
                json.dump(dict(area_property=p, variant=n, origin='independent sub-agent asked for a behaviour-preserving edit (property text, anchors and a scratch worktree only)',
                               author_rationale=r['meta_from_author'], verification=dict(baseline_with_patch='pass', demos_of_this_property_with_patch=demos),
                               alarms_raised_when_first_analysed=r.get('alarms_before', r['alarms']), alarms_raised_now=r['alarms']), open(out+'/meta.json','w'), indent=1)
            else:
                json.dump(r, open(f'/tmp/wt/unconfirmed_neutral_{p}_{n}.json','w'), indent=1)
main()
