#!/bin/bash
# run every top-level test individually with a 60s timeout; print name + result
export GOFLAGS=-mod=mod GOPROXY=off GOSUMDB=off GOTOOLCHAIN=local; unset GOWORK
cd $1
for pkg in $(go list ./... ); do
  rel=${pkg#github.com/vmware/go-ipfix}
  bin=/tmp/wt/bin_$$.test
  (cd .$rel && go test -vet=off -c -o $bin . 2>/dev/null) || continue
  [ -f $bin ] || continue
  for t in $(cd .$rel && $bin -test.list '.*' 2>/dev/null | grep '^Test'); do
    (cd .$rel && timeout 60 $bin -test.run "^$t\$" -test.count=1 >/dev/null 2>&1); echo "$rel $t $?"
  done
  rm -f $bin
done
