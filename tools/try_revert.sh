#!/bin/bash
# try_revert.sh <commit> <PROP>... : reverse-apply a fix commit in /repo, run checks, undo.
C=$1; shift
cd /repo || exit 2
git diff --quiet || { echo "/repo dirty"; exit 2; }
git diff $C~1 $C | git apply -R || { echo "cannot reverse"; exit 3; }
for id in "$@"; do
  /verif/bin/ipfixlint -prop $id -tier quick -verif /tmp/try_verif 2>&1 | grep -E '^(VIOLATION|KNOWN|ipfixlint)' | cut -c1-420
done
git checkout -- .
