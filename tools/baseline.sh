#!/bin/bash
# Runs the stable baseline tests of vmware/go-ipfix (names from /root/.vp/BASELINE.json when present,
# else the frozen copy below) with no build tag (guard OFF). Exit 0 iff all pass.
# Usage: baseline.sh [repo-dir] [extra go test flags...]
export GOFLAGS=-mod=mod GOPROXY=off GOSUMDB=off GOTOOLCHAIN=local
unset GOWORK
REPO=${1:-/repo}; shift || true
cd "$REPO" || exit 2
rc=0
while IFS='|' read -r pkg re; do
  [ -z "$pkg" ] && continue
  go test -vet=off -count=1 -timeout 10m "$@" -run "^($re)\$" "$pkg" || rc=1
done <<'T'
./cmd/collector|TestAddIPFIXMessage|TestFlowRecordHandler
./pkg/collector|TestCollectingProcess_DecodeDataRecord|TestCollectingProcess_DecodeTemplateRecord|TestFakeAfterFunc|TestTCPCollectingProcess_ConcurrentClient|TestTCPCollectingProcess_ReceiveDataRecord|TestTCPCollectingProcess_ReceiveDataRecordsMemoryUsage|TestTCPCollectingProcess_ReceiveInvalidTemplateRecord|TestTCPCollectingProcess_ReceiveTemplateRecord|TestUDPCollectingProcess_DecodePacketError|TestUDPCollectingProcess_ReceiveDataRecord|TestUDPCollectingProcess_ReceiveTemplateRecord|TestUDPCollectingProcess_TemplateAddAndDelete|TestUDPCollectingProcess_TemplateExpire|TestUDPCollectingProcess_TemplateUpdate
./pkg/entities|TestAddInfoElements|TestAddRecordIPAddresses|TestDecodeToIEDataType|TestEncodeInfoElementValueToBuffOctetArray|TestEncodeToIEDataType|TestGetElementMap|TestGetHeaderBuffer|TestGetInfoElementWithValue|TestGetNumberOfRecords|TestGetRecords|TestGetSetType|TestMakeDataSet|TestMakeTemplateSet|TestMessage_SetAndGetFunctions|TestNewInfoElementWithValue|TestPrepareRecord|TestSet_UpdateLenInHeader
./pkg/exporter|TestExportingProcess_CheckConnToCollector|TestExportingProcess_CloseConnToCollectorTwice|TestExportingProcess_GetMsgSizeLimit|TestExportingProcess_SendingDataRecordToLocalTCPServer|TestExportingProcess_SendingDataRecordToLocalUDPServer|TestExportingProcess_SendingTemplateRecordToLocalTCPServer|TestExportingProcess_SendingTemplateRecordToLocalUDPServer|TestInitExportingProcessWithTLS
./pkg/intermediate|TestAggregateMsgByFlowKey|TestAggregateRecordsForInterNodeFlow|TestAggregationProcess|TestCorrelateRecordsForInterNodeDenyFlow|TestCorrelateRecordsForInterNodeFlow|TestCorrelateRecordsForIntraNodeFlow|TestCorrelateRecordsForToExternalFlow|TestDeleteFlowKeyFromMapWithLock|TestFillHttpVals|TestForAllExpiredFlowRecordsDo|TestGetExpiryFromExpirePriorityQueue|TestGetRecords|TestGetTupleRecordMap|TestInitAggregationProcess|TestTimeToExpirePriorityQueue
./pkg/kafka/producer/convertor/test|TestKafkaProducer_Publish
./pkg/registry|TestGetIANAReverseIE|TestGetInfoElement|TestGetInfoElementFromID|TestLoadRegistry
T
exit $rc
