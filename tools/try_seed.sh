#!/bin/bash
# try_seed.sh <PROP> <mN> [props...]: copy the sub-agent's output to /tmp/wt/out4 and run the checks on the patched /repo
P=$1; M=$2; shift 2
mkdir -p /tmp/wt/out4/$P
rm -rf /tmp/wt/out4/$P/$M; cp -r /tmp/wt/$P/_out/$M /tmp/wt/out4/$P/$M
IDS=${@:-$P}
/verif/tools/try_patch.sh /tmp/wt/out4/$P/$M/patch.diff $IDS 2>&1 | grep -E "^VIOLATION|^ipfixlint|error|Error" | cut -c1-330
