#!/bin/bash
# try_seed.sh <PROP> <mN> [props...]: copy the sub-agent's output (if its worktree still exists) to the round's
# collection directory and run the checks on the patched /repo
P=$1; M=$2; shift 2
OUT=${SEED_OUT:-/tmp/wt/out4}
mkdir -p $OUT/$P
if [ -d /tmp/wt/$P/_out/$M ]; then rm -rf $OUT/$P/$M; cp -r /tmp/wt/$P/_out/$M $OUT/$P/$M; fi
IDS=${@:-$P}
/verif/tools/try_patch.sh $OUT/$P/$M/patch.diff $IDS 2>&1 | grep -E "^VIOLATION|^ipfixlint|error|Error" | cut -c1-330
