#!/usr/bin/env python3
# Generates /verif/MANIFEST.json from the table below (single source of truth for the claims).
import json
CLAIMS = {
 "C13": dict(
   technique="interprocedural must-hold lockset on go/ssa (guarded-by, balanced locks, single critical section per operation, no escape of guarded references)",
   text="Decides structural necessary conditions of thread-safety from the source: every access to the aggregation map / expiry queue / worker list and every user-callback invocation holds AggregationProcess.mutex in the required mode in every calling context; every exit is lock-balanced; no operation releases and re-acquires the mutex; no guarded reference escapes. With Go's memory model this gives data-race freedom on the guarded state and atomicity of each operation; it does not decide the sequential correctness of the operations (C05-C07) and runs nothing.",
   note="Trusted: sync.RWMutex semantics, go/ssa + go/types fidelity, type-based lock identity (one AggregationProcess per function), dynamic calls resolved by signature among address-taken repo functions.",
   ref="DESIGN.md §5 C13, §3.2 B"),
 "C12": dict(
   technique="interprocedural lockset + wait-group/go-statement dominance + registration/deregistration path pairing + stop-closed-channel fixpoint over blocking selects (go/ssa)",
   text="Decides necessary structural conditions for race-free multi-client collection and clean shutdown: guarded-by and lock balance for clients/templatesMap/numOfRecordsReceived/template fields; every go statement tracked by the wait group; Stop = close(stopChan) then Wait; every client registration paired with a deferred deregistration of the same key on all paths; every blocking select/receive of the package observes a stop-closed channel; delivery happens synchronously in the reader. Exactly-once/in-order delivery under all schedules, promptness and kernel socket release are not decided.",
   note="Trusted: Go memory model, net.Listener/Conn unblock on Close by their owner, time.Ticker. The DTLS listener path is outside C12's configurations.",
   ref="DESIGN.md §5 C12"),
 "C14": dict(
   technique="thread-sharing analysis over goroutine roots (call-graph reachability + lockset + atomic recognition), lock balance, dominance of the close protocol by the Swap guard, ticker/timer re-arm path rule (go/ssa)",
   text="Decides necessary structural conditions for the exporter's background goroutines and lifecycle: no ExportingProcess field is shared between a background goroutine and the API with a write unless atomic / commonly locked / synchronising type; templatesMap only under templateMutex incl. aliases; all exits lock-balanced; goroutines tracked by the wait group, observe stopCh, call the internal close on failure, never wait on their own wait group; close(stopCh)/conn.Close only behind isClosed.Swap(true)==false; periodic tick source. Timing (check interval, refresh period) and bytes-after-close are not decided.",
   note="Trusted: sync/atomic, time.Ticker, net.Conn.Write atomicity per call; application sends from one goroutine (property's proviso).",
   ref="DESIGN.md §5 C14"),
 "C20": dict(
   technique="lockset incl. slice aliases, relational edge facts for the count clamp, normalised comparison against the cap constant, path rule 'every locked path appends once', exhaustiveness/getter tables lifted from the AST",
   text="Decides the structural conditions of the bounded ordered window: store and its aliases only under the mutex; only add/query/reset touch it; eviction exactly at len >= cap by s=s[1:] and exactly one append per message on every path (so len <= cap and arrival order by a ±1 shape argument); query count proven within [0,len] on every edge into the suffix slice; refusals never reach the store; reset stores an empty slice; rendering loops cannot skip; the data-type switch covers every supported type with an accessor its concrete element declares. HTTP/JSON behaviour and text-vs-value equality are not decided.",
   note="Trusted: net/http, fmt; go/ssa fidelity. Shapes other than reslice-from-front eviction are reported as unrecognised.",
   ref="DESIGN.md §5 C20"),
 "C18": dict(
   technique="configuration-object audit on go/ssa (allocation + every field store of each tls.Config/dtls.Config), provenance of CA pools and key pairs with checked results, path rule 'client auth set before use unless caCert==nil', dominance of dial/listen calls by the security-setting test",
   text="Decides what the code asks of crypto/tls and pion/dtls: all four kinds of config objects (TLS/DTLS x client/server) are reconstructed from the source and compared with the settings the property needs (RootCAs from the caller's CA with the parse result checked, ServerName from the caller, MinVersion >= TLS1.2, no InsecureSkipVerify/verification override, extended master secret, RequireAndVerifyClientCert + ClientCAs from caCert on every path where a client CA may be configured), and every plaintext dial/listen is dominated by 'no security settings'. Chain validation, expiry, SAN matching and version negotiation themselves are run-time behaviour of the libraries and are not decided.",
   note="Trusted: documented semantics of crypto/tls, crypto/x509 and pion/dtls configuration fields.",
   ref="DESIGN.md §5 C18"),
 "C06": dict(
   technique="typestate path rule on the go/ssa CFG (pop -> push|delete on every path to exit/loop head, item identity by def-use), dominance/ownership rules for insertions and deletions, shape checks of the heap.Interface methods, guard extraction for the deadline tests",
   text="Decides that no path of the expiry scan or of record ingestion leaves a held flow without a queue entry or a queue entry without a flow: every popped item is re-pushed through container/heap or its flow deleted on all paths (this is the rule that found the two stranding defects); new records are pushed before they reach the map and linked both ways; deletions only after the pop; existing flows always re-scheduled through Update->heap.Fix with the unchanged active and a fresh inactive deadline; Swap/Push/Pop keep index, Less/minExpireTime order by the earlier deadline; nothing is popped while both deadlines are in the future; delete is guarded by the inactive deadline or exhausted retries. It decides the per-step transition, not whole histories or wall-clock timing.",
   note="Trusted: container/heap given a correct heap.Interface; time.Time comparisons.",
   ref="DESIGN.md §5 C06"),
 "C03": dict(
   technique="dominance of consuming reads by relational branch facts (Len() >= n), loop-progress path rule, error-result use analysis, nil-guard dominance, call-graph reachability of panics, bounded-size normal forms for allocations, def-use flow of the decoded set length (go/ssa)",
   text="Decides structural necessary conditions of total, exact decoding for EVERY byte string (what no finite sample of packets can): no Next(n) without a dominating proof that n bytes remain; the record loop cannot iterate without progress; no decode-path error is dropped; the element decoder never reads a nil value; no explicit panic reachable from decodePacket; allocation sizes bounded by <=16-bit wire values/configuration; the wire set length bounds the set body. These rules found five genuine defects (now fixed). Agreement of decoded values with a reference parser and wall-clock promptness are not decided.",
   note="Trusted: bytes.Buffer/bufio/encoding/binary; width agreement decoder<->template is C15's obligation.",
   ref="DESIGN.md §5 C03, §6 #1-#5"),
 "C09": dict(
   technique="gate/dominance rules on go/ssa (range-loop element identity, guard sets, normalised size comparison, err==nil branch facts), who-may-call for conn.Write, error-propagation path rule, sibling rule over the encoder's raw copies",
   text="Decides that no send can bypass the checks: every record of a data set passes the sanity check before any Write (the check is applied to the range element itself, only the set-type guard may skip it, its error edge only returns); the three sanity tests exist with failing edges returning errors; the size gate accepts exactly lengths <= 65535 and the buffer is allocated on the accepted edge; only the built message is written, only on err == nil; only two write sites exist; templates are registered only after a successful send (defect found and fixed). Fidelity clause: encoder errors must propagate and raw copies must be length-tested - two genuine violations are recorded as known findings (GetBuffer drops encoder errors; MAC copied without a length test).",
   note="Trusted: net.Conn.Write; entities accessors are the library's. Kernel-level 'nothing transmitted on failure' is not decided.",
   ref="DESIGN.md §5 C09, §6 #10 #13"),
 "C08": dict(
   technique="who-may-write + SSA value-identity (phi edges of the header sequence number vs. guarded atomic add), parameter-forwarding identity in the message builder (found by role), single-write/no-loop structure, branch facts of the success return, imported thread-sharing rule",
   text="Decides the inductive step of the sequence-number bookkeeping and the header stamping by identity of SSA values: the header carries F0 + GetNumberOfRecords() exactly on the Data edge and F0 otherwise, the field is updated to the same value, only the constructor and the send function write it, its type is uint32; the builder forwards seq / domain / uint32(time.Unix()) / version 10 unmodified; time.Now() is taken at the call; one Write of the whole slice outside any loop; the success return is Write's count under err==nil && count==len. The running equality over a session follows by induction and is not enumerated; failed sends are outside the statement.",
   note="Trusted: sync/atomic, net.Conn.Write, time.Now.",
   ref="DESIGN.md §5 C08"),
 "C11": dict(
   technique="def-use chain from decodePacket's argument back to make([]byte, L) / io.ReadFull / the length function on the same bufio.Reader (identity through closure captures), loop-exit path rule for every error edge, defer/select shape of the exit protocol (go/ssa)",
   text="Decides the structural reason framing is segmentation-independent: the message buffer has exactly the length decoded (non-consuming Peek(4), big-endian u16 at offset 2) from the same reader, is completely filled by a full-read idiom and is the very slice handed to the decoder; nothing else consumes the reader; the reader is created once per connection; every error edge of the read loop leaves the loop; the reader's exit closes the connection through doneCh. Behaviour under real segmentation is implied, not observed.",
   note="Trusted: io.ReadFull, bufio.Reader.Peek.", ref="DESIGN.md §5 C11"),
 "C04": dict(
   technique="who-may-touch + key-origin analysis (map keys traced through parameters/closures to decoded wire variables by position in util.Decode), must-pass-through path rules for invalidation/store/replace, lockset import (go/ssa)",
   text="Decides the per-message transition of the template store: only add/delete/lookup touch it; outer ops keyed by the uint32 domain parameter and inner ops by the uint16 template-id parameter; call-site arguments originate from the observation-domain / set-id / template-id wire variables of the same message; every error return after the id is known passes deleteTemplate(obs,id) (two infeasible builder errors named), every success passes addTemplate; the field list is replaced on all paths from the incoming elements; lookup failure returns before any decoding. Histories are not enumerated.",
   note="Trusted: Go maps; PrepareSet(Template)/AddRecordV2 cannot fail on a fresh decoding set.", ref="DESIGN.md §5 C04"),
 "C10": dict(
   technique="path rules 'refresh expiry then exactly one of AfterFunc-install/Reset', shape+origin check of the timer callback and its condition closure (parameter vs. captured object, Now() taken inside), stop-then-delete path rule, lockset for template fields (go/ssa)",
   text="Decides the structural preconditions the timer protocol relies on: every UDP (re)transmission refreshes expiryTime=now+TTL and arms exactly one timer for the same TTL; the callback deletes only through the conditional delete, for the keys it was armed for, re-checking the CURRENT template's expiryTime against a fresh Now() with !After; Stop() is followed by the deletion on every path and every deletion stops a non-nil timer; emptied domains are pruned; all under the collector mutex. Interleavings (fired-but-pending vs refresh) are schedules and are not enumerated.",
   note="Trusted: time.Timer/AfterFunc semantics.", ref="DESIGN.md §5 C10"),
 "C17": dict(
   technique="sibling cross-check of the two registry-miss branches with argument-origin identity, phi/edge-fact analysis of the consumed length, dominance of the drop decision by the consumption, registry literal table lifted from the AST",
   text="Decides that unknown elements are handled identically in both sibling branches (strict => error; else nameless OctetArray substitute with the looked-up id/enterprise and the WIRE length), that data-record bytes are consumed by one length selection (prefix vs fixed) before and independently of the drop decision, that the drop criterion is 'drop mode && nameless', that no decodable registry entry is nameless, and that keep mode copies exactly the bytes given. Value equality across modes is implied by identical consumption, not observed.",
   note="Trusted: registry lookup errors iff unregistered.", ref="DESIGN.md §5 C17"),
 "C15": dict(
   technique="table lifting from the AST (encoder/decoder switch cases -> primitive, width, byte order, conversion chain, accessor; InfoElementLength; 524 registry literals) compared with a reference table transcribed from RFC 7011 s6.1/s7; prefix-scheme extraction from five sites on SSA with normalised comparisons; length-accounting shape rules",
   text="Decides agreement of the codec's tables: each supported type's encoder case and decoder case independently match the RFC's width/byte order/sign/float/boolean/raw encoding; InfoElementLength and every registry literal agree with that width; getters/constructors match the concrete element types; unsupported labels error on both sides; all five sites of the variable-length prefix implement 255/+1/0xFF+2/65535; one GetLength() is used for sizing, guarding, advancing and accumulating record lengths. This is the structural reason a round trip can work for every value; per-value equality is not enumerated.",
   note="Trusted: encoding/binary, math.Float*bits; the transcription of the RFC tables in checker/layout.go.", ref="DESIGN.md §5 C15"),
 "C01": dict(
   technique="writer/reader table and layout agreement: codec cases vs RFC table (AST), reader-side header/template/field-specifier extraction from util.Decode target types and bit operations (SSA), registry literal table, prefix-scheme sites, framing rules imported from C11, who-may-produce/transport reachability",
   text="Decides the structural reason an exporter->collector round trip can be faithful: inverse codec signatures per type and matching widths across InfoElementLength/524 registry literals/reverse registry; one prefix scheme at all five sites and the same length-selection test on both sides; the reader consumes the message header, template header and field specifier with the widths, order, byte order and enterprise-bit handling the writer produces; both registry maps hold the same element; every transport decodes through the one decodePacket with exact TCP framing; the observation domain flows from configuration to header to delivered message. Value equality over live sockets, TLS/DTLS transparency and record counts 'that fit' are not decided.",
   note="Trusted: encoding/binary.Read, RFC transcription; writer side conformity is C02's.", ref="DESIGN.md §5 C01"),
 "C02": dict(
   technique="encoder-only layout extraction (fixed-offset big-endian writes per setter/record primitive on SSA, encoder switch cases on the AST) compared with a reference transcribed from RFC 7011; SSA value identity for message length vs buffer size and the record copy loop; must-pass-through for UpdateLenInHeader; imported set-length pairing and thread-sharing rules",
   text="Decides well-formedness of what the exporter writes against an oracle that shares no code with the library (the RFC tables in the checker): header offsets/widths/byte order, version 10, set id 2 vs template id, set length field, template record header, field specifier with enterprise bit 0x80 and 4-byte enterprise number iff enterprise-specific, every value encoding and the section-7 length prefix; header length field == size of the buffer returned == 16 + set length; header, set header and each record copied contiguously at their reported lengths; exactly one set; set length updated before every send. Symmetric encode/decode mistakes that round-trip tests cannot see are visible here. Bytes observed at the peer are not decided.",
   note="Trusted: the RFC transcription; encoding/binary.", ref="DESIGN.md §5 C02"),
 "C16": dict(
   technique="who-may-write + path pairing of 'append record' with 'length += record length' (SSA path rule), reset-completeness by field-write sets and constructor/reset value normal forms, delegation/loop shape rules for the add paths, imported length-accounting and assembly rules",
   text="Decides the bookkeeping invariants structurally: set.length only changes together with appending the same record (on every path, incl. error exits), starts/resets at SetHeaderLen; every field a builder method mutates is re-initialised by ResetSet to the constructor's value; AddRecord delegates with 0 extra elements; both data paths establish the same record summary (id, fieldCount=len, sum of GetLength, order) and both template paths use the single addInfoElement primitive with PrepareRecord once; reported record lengths equal what is serialized. Byte identity for concrete element lists is implied by the shared primitives, not computed.",
   note="Evaluated for encoding builders (isDecoding=false).", ref="DESIGN.md §5 C16"),
 "C19": dict(
   technique="range-loop element identity and synchronous-call shape in the publisher, index identity out[i]<-records[i] in both convertors, template gate, frame construction by SSA value identity (fresh 4-byte big-endian prefix + marshal result), producer/consumer delimiter table agreement, every-path-reaches-send rule, name->type->accessor tables for every case \"name\"",
   text="Decides the structural conditions of one framed Kafka message per data record in order: the publisher sends the loop's own element synchronously with the delimiter flag true; both convertors return nil for template sets and fill out[i] from records[i] with the message's four header fields; the payload is a fresh 4-byte big-endian length prefix followed by exactly the marshal result, on the configured topic, sent once; the consumer strips the same 4 bytes and decodes with reset semantics; every named case uses an accessor its registered type declares. One genuine violation is a recorded known finding (marshal error drops the record). Protobuf content and broker delivery are not decided.",
   note="Trusted: proto.Marshal/Unmarshal, sarama.", ref="DESIGN.md §5 C19"),
}
NOT_YET = "rules designed (DESIGN.md §5) but not built yet in this round; no claim is made until the check exists"
props=[json.loads(l) for l in open('/verif/properties.jsonl')]
checks=[];na=[]
for p in props:
    i=p['id']
    if i in CLAIMS:
        c=CLAIMS[i]
        checks.append(dict(property_id=i, quick_cmd=f"./run.sh {i} quick", thorough_cmd=f"./run.sh {i} thorough",
            evidence_file=f"/verif/evidence/{i}.json", replay_cmd_template="cat {path}", engine="ipfixlint",
            level_claimed=dict(category="other", text=c['text'], design_ref=c['ref']), level_note=c['note'], technique=c['technique']))
    else:
        na.append(dict(property_id=i, reason=NA.get(i, NOT_YET) if 'NA' in globals() else NOT_YET))
m=dict(version=1,
  setup_cmd="cd /verif/checker && GOFLAGS=-mod=mod GOPROXY=off GOSUMDB=off GOTOOLCHAIN=local GOWORK=off go build -o /verif/bin/ipfixlint .",
  hooks=dict(guard="verif", enable="none needed: static analysis reads /repo's source as it is; no hook or instrumentation commit exists",
             baseline_off_cmd="/verif/tools/baseline.sh /repo", source_commits=[], add_only=True),
  engines=[dict(name="ipfixlint", path="/verif/checker", serves_properties=[c['property_id'] for c in checks],
                kind_free_text="repository-specific static analyser: go/packages + go/types + go/ssa (x/tools v0.29.0); path rules on the SSA CFG, interprocedural lockset, table lifting from the AST; seeded-fault self-test by in-memory overlays")],
  checks=checks, not_applicable=na,
  notes="All claims are level 'other': structural necessary conditions decided by static analysis of /repo's current source; nothing in /verif executes go-ipfix code. Genuine defects found are repaired by 'fix:' commits in /repo and listed in /verif/known_findings.json.")
json.dump(m,open('/verif/MANIFEST.json','w'),indent=1)
print(len(checks),'claimed',len(na),'n/a')
